(* C10/Run.v — correspondence cases for C10 (deletes remove exactly the targeted data,
   permanently).  A case is one history on one shard: engine steps (macros for complete
   operations), the growth of the client-side history, and observations (full-range reads of
   every key ever written + the listed series) taken after every operation.
   result code: 0 agree & property holds; 1 model differs, property holds;
                2 model differs and property fails; 3 agree and property fails (model mirrors a defect). *)
From Verif Require Export Shard.Engine C01.Spec C01.Run.
Open Scope Z_scope.

Inductive xstep :=
| XS (x : step)                             (* exactly this step *)
| XTry (x : step)
| XSnapRest                                 (* rest of WriteSnapshot *)
| XReplaceAll
| XDelete (req : list key) (lo hi : Z)      (* one engine delete: the requested series that the index lists *)
| XOpen
| XHist (o : hop)                           (* the client-side history grows by one operation *)
| XObs (reads : list (key * list tv)) (lst : list key).   (* what the store returned; listed series *)

Record acc := { a_s : state; a_ok : bool; a_hist : list hop; a_agree : bool; a_spec : bool }.

(* what a case checks at its observations: the reads (exactness and permanence of deletes) or
   the listings (a series is listed iff points of it remain) *)
Inductive mode := MReads | MList.

Definition kset_eqb (a b : list key) : bool :=
  forallb (fun k => kmem k b) a && forallb (fun k => kmem k a) b.

(* does the history leave any point in series sr (over the keys ever written) *)
Definition spec_has_points (h : list hop) (U : list key) (sr : key) : bool :=
  existsb (fun k => key_eqb (series_of k) sr &&
                    negb (is_nil (spec_read (map hop_op h) k min_time max_time true))) U.

Definition series_universe (U : list key) : list key :=
  fold_left (fun acc k => add_key (series_of k) acc) U [].

Definition xexec (md : mode) (c : cfg) (a : acc) (x : xstep) : acc :=
  let s := a_s a in
  let upd_s s' ok' := {| a_s := s'; a_ok := a_ok a && ok'; a_hist := a_hist a; a_agree := a_agree a; a_spec := a_spec a |} in
  match x with
  | XS y => upd_s (step_fn c s y) (step_ok s y && mu_ok s y)      (* the code's mutex admits the step *)
  | XTry y => upd_s (step_fn c s y) true
  | XSnapRest => let (s', ok) := exec c (s, true) HSnapRest in upd_s s' ok
  | XReplaceAll => let (s', ok) := exec c (s, true) HReplaceAll in upd_s s' ok
  | XDelete req lo hi =>
      let ss := filter (fun sr => kmem sr (listed (sv s))) req in
      if is_nil ss then a
      else
        (* deleteSeriesRange under Engine.snapshotMu: a snapshot retained by a failed flush is
           written out first; a snapshot in flight would hold the delete back (not ok) *)
        let s := if snap_retained s
                 then fst (exec c (step_fn c s SnapBegin, true) HSnapRest) else s in
        let s1 := step_fn c s (DeleteBegin ss lo hi) in
        let ok1 := step_ok s (DeleteBegin ss lo hi) && mu_ok s (DeleteBegin ss lo hi) in
        let s2 := tomb_all c s1 in
        let s3 := step_fn c s2 DeleteCache in
        let s4 := step_fn c s3 WalSync in
        upd_s (step_fn c s4 DeleteIndex) ok1
  | XOpen => upd_s (run c open_steps s) (run_ok c open_steps s)
  | XHist o => {| a_s := s; a_ok := a_ok a; a_hist := a_hist a ++ [o]; a_agree := a_agree a; a_spec := a_spec a |}
  | XObs reads lst =>
      let U := map fst reads in
      let ag := match md with
                | MReads => forallb (fun kv => tvlist_eqb (eng_read_all s (fst kv)) (snd kv)) reads
                | MList => kset_eqb (listed (sv s)) lst
                end in
      let sp := match md with
                | MReads => forallb (fun kv => read_ok (a_hist a) (fst kv) (snd kv)) reads
                | MList => forallb (fun sr => Bool.eqb (kmem sr lst) (spec_has_points (a_hist a) U sr)) (series_universe U ++ lst)
                end in
      {| a_s := s; a_ok := a_ok a; a_hist := a_hist a; a_agree := a_agree a && ag; a_spec := a_spec a && sp |}
  end.

Inductive case := CHist (md : mode) (xs : list xstep).

Definition check_case (c : case) : N :=
  match c with
  | CHist md xs =>
      let a := fold_left (xexec md repaired) xs {| a_s := init; a_ok := true; a_hist := []; a_agree := true; a_spec := true |} in
      code (a_ok a && a_agree a) (a_spec a)
  end.
