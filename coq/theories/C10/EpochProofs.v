(* C10/EpochProofs.v — consequences of the invariant: mutual exclusion, exact wait counts,
   no deadlock; and their boolean forms (the executable checks of Epoch.v hold in every
   reachable state). *)
From Coq Require Import List ZArith NArith Bool Lia Arith.
From Coq Require Import ZifyBool ZifyNat ZifyN.
From Verif Require Import C10.Epoch C10.EpochInv C10.EpochInvD.
Import ListNotations.
Open Scope Z_scope.

Notation cnt g ws := (count (w_active_lt g) ws).

Lemma forallb_i_spec {A} (f : nat -> A -> bool) n l :
  forallb_i f n l = true <-> forall k x, nth_error l k = Some x -> f (n + k)%nat x = true.
Proof.
  revert n; induction l as [|y l IH]; intros n; cbn [forallb_i].
  - split; [intros _ k x H; destruct k; discriminate|reflexivity].
  - rewrite andb_true_iff, IH. split.
    + intros [H0 H] k x Hk. destruct k as [|k]; cbn in Hk.
      * inversion Hk; subst. rewrite Nat.add_0_r. exact H0.
      * replace (n + S k)%nat with (S n + k)%nat by lia. apply H. exact Hk.
    + intros H. split.
      * specialize (H 0%nat y eq_refl). rewrite Nat.add_0_r in H. exact H.
      * intros k x Hk. replace (S n + k)%nat with (n + S k)%nat by lia. apply H. exact Hk.
Qed.

Lemma forallb_nth {A} (f : A -> bool) l :
  forallb f l = true <-> forall k x, nth_error l k = Some x -> f x = true.
Proof.
  rewrite forallb_forall. split.
  - intros H k x Hk. apply H. eapply nth_error_In. exact Hk.
  - intros H x Hin. apply In_nth_error in Hin. destruct Hin as [k Hk]. exact (H k x Hk).
Qed.

Section Thm.
Variable mt : nat -> nat -> bool.

(* ---------- mutual exclusion ---------- *)

Lemma mutex_lemma s i j g gj :
  EInv mt s -> nth_error (gs_ws s) i = Some (WChk g []) -> nth_error (gs_ds s) j = Some (DlCrit gj) ->
  mt j i = false.
Proof.
  intros I Hi Hj. destruct (mt j i) eqn:Hm; [exfalso|reflexivity].
  pose proof (Hcrit mt s I j gj Hj) as Hc.
  destruct (N.lt_trichotomy g gj) as [Hlt|[Heq|Hgt]].
  - pose proof (count_ge_one (w_active_lt gj) (gs_ws s) i (WChk g []) Hi) as H1.
    cbn [w_active_lt] in H1. assert ((g <? gj)%N = true) as Hb by lia. specialize (H1 Hb). lia.
  - subst gj. exact (Hwd mt s I i j g [] (DlCrit g) Hi Hj eq_refl).
  - exact (Hcov mt s I i g [] j (DlCrit gj) gj Hi Hj eq_refl Hgt Hm).
Qed.

Lemma mutex_ok_lemma s : EInv mt s -> mutex_ok mt s = true.
Proof.
  intros I. unfold mutex_ok. apply forallb_i_spec. intros j d Hj. cbn [Nat.add].
  destruct d as [|g|gj|]; cbn [d_crit negb orb]; try reflexivity.
  apply forallb_i_spec. intros i w Hi. cbn [Nat.add].
  destruct w as [|g [|x gs]|]; cbn [w_crit andb negb]; try reflexivity.
  rewrite (mutex_lemma s i j g gj I Hi Hj). reflexivity.
Qed.

(* ---------- the bookkeeping is exact ---------- *)

Lemma counts_ok_lemma s : EInv mt s -> counts_ok s = true.
Proof.
  intros I. unfold counts_ok. repeat (apply andb_true_iff; split).
  - apply forallb_forall. intros d Hd. destruct (Hent mt s I d Hd) as [Hp [x [Hx Hg]]].
    rewrite Hx, Hg, Hp. rewrite Z.eqb_refl, N.eqb_refl. reflexivity.
  - apply forallb_i_spec. intros j x Hj. cbn [Nat.add]. destruct (d_gen_of x) as [g|] eqn:Hg; [|reflexivity].
    destruct (wait_returns_count mt s j x g I Hj Hg) as [d [Hf [_ [Hgd _]]]].
    rewrite Hf, Hgd. apply Nat.eqb_refl.
  - rewrite (Hwr mt s I). apply Z.eqb_refl.
  - apply forallb_nth. intros j x Hj. destruct x as [|g|g|]; try reflexivity.
    rewrite (Hcrit mt s I j g Hj). reflexivity.
Qed.

Lemma wait_exact_ok_lemma s : EInv mt s -> wait_exact_ok s = true.
Proof.
  intros I. unfold wait_exact_ok. apply forallb_nth. intros j x Hj. destruct x as [|g|g|]; try reflexivity.
  destruct (wait_returns_count mt s j (DlWait g) g I Hj eq_refl) as [d [_ [_ [_ [_ Hw]]]]].
  rewrite Hw. apply eqb_reflx.
Qed.

(* ---------- no deadlock ---------- *)

Lemma can_step_w s i s' : ep_step mt s (AW i []) = Some s' -> can_step mt s = true.
Proof.
  intros H. unfold can_step. apply orb_true_iff. left. apply existsb_exists. exists i. split.
  - apply in_seq. cbn [ep_step] in H. destruct (nth_error (gs_ws s) i) eqn:E; [|discriminate].
    assert (nth_error (gs_ws s) i <> None) as Hn by congruence. apply nth_error_Some in Hn. lia.
  - rewrite H. reflexivity.
Qed.

Lemma can_step_d s j s' : ep_step mt s (AD j) = Some s' -> can_step mt s = true.
Proof.
  intros H. unfold can_step. apply orb_true_iff. right. apply existsb_exists. exists j. split.
  - apply in_seq. cbn [ep_step] in H. destruct (nth_error (gs_ds s) j) eqn:E; [|discriminate].
    assert (nth_error (gs_ds s) j <> None) as Hn by congruence. apply nth_error_Some in Hn. lia.
  - rewrite H. reflexivity.
Qed.

(* all threads that are left wait: the one with the smallest generation does not *)
Lemma descent s :
  EInv mt s ->
  (forall i w, nth_error (gs_ws s) i = Some w -> w_crit w = false) ->
  (forall j d, nth_error (gs_ds s) j = Some d -> d_crit d = false) ->
  forall n,
    (forall i g j gs, (N.to_nat g < n)%nat -> nth_error (gs_ws s) i = Some (WChk g (j :: gs)) -> can_step mt s = true) /\
    (forall j g, (N.to_nat g < n)%nat -> nth_error (gs_ds s) j = Some (DlWait g) -> can_step mt s = true).
Proof.
  intros I Hw Hd. induction n as [|n [IHw IHd]]; [split; intros; lia|]. split.
  - intros i g j gs Hn Hi.
    destruct (mt j i && negb (nat_mem j (gs_done s))) eqn:Hb.
    + apply andb_true_iff in Hb. destruct Hb as [_ Hnd]. apply negb_true_iff in Hnd.
      destruct (Hlist mt s I i g (j :: gs) j Hi (or_introl eq_refl)) as [Hin|[x [gj [Hx [Hg Hlt]]]]].
      * apply nat_mem_In in Hin. congruence.
      * destruct x as [|g'|g'|]; cbn in Hg; try discriminate; inversion Hg; subst g'.
        -- apply (IHd j gj); [lia|exact Hx].
        -- specialize (Hd j _ Hx). discriminate.
    + apply (can_step_w s i {| gs_tr := gs_tr s; gs_done := gs_done s; gs_ws := lupd (gs_ws s) i (WChk g gs); gs_ds := gs_ds s |}).
      cbn [ep_step]. rewrite Hi, Hb. reflexivity.
  - intros j g Hn Hj.
    destruct (wait_returns_count mt s j (DlWait g) g I Hj eq_refl) as [d [_ [_ [_ [_ Hwr]]]]].
    destruct (cnt g (gs_ws s) =? 0) eqn:Hc.
    + apply (can_step_d s j {| gs_tr := gs_tr s; gs_done := gs_done s; gs_ws := gs_ws s; gs_ds := lupd (gs_ds s) j (DlCrit g) |}).
      cbn [ep_step]. rewrite Hj, Hwr. reflexivity.
    + pose proof (count_nonneg (w_active_lt g) (gs_ws s)) as Hnn.
      destruct (count_pos_ex (w_active_lt g) (gs_ws s)) as [k [x [Hk Hx]]]; [lia|].
      destruct x as [|g' gs'|]; cbn in Hx; try discriminate.
      destruct gs' as [|j' gs''].
      * specialize (Hw k _ Hk). discriminate.
      * apply (IHw k g' j' gs''); [lia|exact Hk].
Qed.

Lemma no_deadlock_lemma s : EInv mt s -> unfinished s = true -> can_step mt s = true.
Proof.
  intros I Hu.
  (* a writer that has not started *)
  destruct (existsb (fun w => match w with WIdle => true | _ => false end) (gs_ws s)) eqn:E1.
  { apply existsb_exists in E1. destruct E1 as [w [Hin Hw]]. destruct w; try discriminate.
    apply In_nth_error in Hin. destruct Hin as [i Hi].
    destruct (start_write (gs_tr s)) as [[guards gen] t'] eqn:Hs.
    eapply (can_step_w s i). cbn [ep_step]. rewrite Hi, Hs. reflexivity. }
  (* a writer in its critical section *)
  destruct (existsb w_crit (gs_ws s)) eqn:E2.
  { apply existsb_exists in E2. destruct E2 as [w [Hin Hw]]. destruct w as [|g [|x gs]|]; try discriminate.
    apply In_nth_error in Hin. destruct Hin as [i Hi].
    eapply (can_step_w s i). cbn [ep_step]. rewrite Hi. reflexivity. }
  destruct (existsb (fun d => match d with DlIdle => true | _ => false end) (gs_ds s)) eqn:E3.
  { apply existsb_exists in E3. destruct E3 as [d [Hin Hd]]. destruct d; try discriminate.
    apply In_nth_error in Hin. destruct Hin as [j Hj].
    destruct (wait_delete j (gs_tr s)) as [gen t'] eqn:Hs.
    eapply (can_step_d s j). cbn [ep_step]. rewrite Hj, Hs. reflexivity. }
  destruct (existsb d_crit (gs_ds s)) eqn:E4.
  { apply existsb_exists in E4. destruct E4 as [d [Hin Hd]]. destruct d; try discriminate.
    apply In_nth_error in Hin. destruct Hin as [j Hj].
    eapply (can_step_d s j). cbn [ep_step]. rewrite Hj. reflexivity. }
  assert (Hw : forall i w, nth_error (gs_ws s) i = Some w -> w_crit w = false)
    by (intros i w Hi; exact (existsb_false_nth _ _ _ _ E2 Hi)).
  assert (Hd : forall j d, nth_error (gs_ds s) j = Some d -> d_crit d = false)
    by (intros j d Hj; exact (existsb_false_nth _ _ _ _ E4 Hj)).
  unfold unfinished in Hu. apply orb_true_iff in Hu. destruct Hu as [Hu|Hu].
  - apply existsb_exists in Hu. destruct Hu as [w [Hin Hnw]]. apply In_nth_error in Hin. destruct Hin as [i Hi].
    destruct w as [|g gs|]; try discriminate.
    + pose proof (existsb_false_nth _ _ _ _ E1 Hi) as Hf. discriminate.
    + destruct gs as [|j gs]; [specialize (Hw i _ Hi); discriminate|].
      destruct (descent s I Hw Hd (S (N.to_nat g))) as [Dw _]. apply (Dw i g j gs); [lia|exact Hi].
  - apply existsb_exists in Hu. destruct Hu as [d [Hin Hnd]]. apply In_nth_error in Hin. destruct Hin as [j Hj].
    destruct d as [|g|g|]; try discriminate.
    + pose proof (existsb_false_nth _ _ _ _ E3 Hj) as Hf. discriminate.
    + destruct (descent s I Hw Hd (S (N.to_nat g))) as [_ Dd]. apply (Dd j g); [lia|exact Hj].
    + specialize (Hd j _ Hj). discriminate.
Qed.

Lemma can_step_ex s : can_step mt s = true -> exists a s', ep_step mt s a = Some s'.
Proof.
  unfold can_step. intros H. apply orb_true_iff in H. destruct H as [H|H];
    apply existsb_exists in H; destruct H as [k [_ Hk]].
  - destruct (ep_step mt s (AW k [])) as [s'|] eqn:E; [|discriminate]. exists (AW k []), s'. exact E.
  - destruct (ep_step mt s (AD k)) as [s'|] eqn:E; [|discriminate]. exists (AD k), s'. exact E.
Qed.

Lemma state_ok_lemma s : EInv mt s -> state_ok mt s = true.
Proof.
  intros I. unfold state_ok. rewrite (mutex_ok_lemma s I), (counts_ok_lemma s I), (wait_exact_ok_lemma s I).
  cbn [andb]. unfold progress_ok. destruct (unfinished s) eqn:E; [|reflexivity].
  cbn [negb orb]. apply no_deadlock_lemma; assumption.
Qed.

(* ---------- every reachable state ---------- *)

Lemma epoch_mutual_exclusion_lemma nw nd sched :
  let s := ep_run mt sched (ep_init nw nd) in
  forall i j g gj, nth_error (gs_ws s) i = Some (WChk g []) -> nth_error (gs_ds s) j = Some (DlCrit gj) ->
  mt j i = false.
Proof. intros s i j g gj. apply mutex_lemma. apply einv_run. Qed.

Lemma epoch_wait_counts_lemma nw nd sched :
  let s := ep_run mt sched (ep_init nw nd) in
  t_writes (gs_tr s) = count w_active (gs_ws s) /\
  forall j x g, nth_error (gs_ds s) j = Some x -> d_gen_of x = Some g ->
  exists d, find_delete g (gs_tr s) = Some d /\ d_guard d = j /\
            d_pending d = count (w_active_lt g) (gs_ws s) /\ 0 <= d_pending d /\
            wait_returns g (gs_tr s) = (count (w_active_lt g) (gs_ws s) =? 0).
Proof.
  intros s. pose proof (einv_run mt nw nd sched) as I. fold s in I. split; [exact (Hwr mt s I)|].
  intros j x g Hj Hg. destruct (wait_returns_count mt s j x g I Hj Hg) as [d [Hf [_ [Hgd [Hp Hw]]]]].
  exists d. repeat split; try assumption. rewrite Hp. apply count_nonneg.
Qed.

Lemma epoch_no_deadlock_lemma nw nd sched :
  let s := ep_run mt sched (ep_init nw nd) in
  unfinished s = true -> exists a s', ep_step mt s a = Some s'.
Proof.
  intros s Hu. apply can_step_ex. apply no_deadlock_lemma; [apply einv_run|exact Hu].
Qed.

Lemma epoch_state_ok_lemma nw nd sched : state_ok mt (ep_run mt sched (ep_init nw nd)) = true.
Proof. apply state_ok_lemma. apply einv_run. Qed.

End Thm.

(* ---------- non-vacuity: two writers, two deleters, all four run to completion ---------- *)

Definition nv_mt (j i : nat) : bool := Nat.eqb j 0 || Nat.eqb i 1.
Definition nv_sched : list act :=
  [AW 0 []; AD 0; AW 1 []; AD 1; AD 0; AW 1 []; AW 0 []; AD 0; AD 1; AW 1 [1%nat; 0%nat]; AD 0; AW 1 []; AD 1;
   AD 1; AW 1 []; AW 1 []; AW 1 []; AD 1; AD 1].

Lemma nv_runs :
  let s := ep_run nv_mt nv_sched (ep_init 2 2) in
  unfinished s = false /\ gs_ws s = [WDone; WDone] /\ gs_ds s = [DlDone; DlDone] /\
  t_writes (gs_tr s) = 0 /\ t_deletes (gs_tr s) = [] /\ t_epoch (gs_tr s) = 4%N.
Proof. vm_compute. repeat split; reflexivity. Qed.
