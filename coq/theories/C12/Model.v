(* C12/Model.v — the executable model of the line-protocol parser, printer, escape pairs,
   binary point form and hinted-handoff framing; split over Base/Escape/Scan/Point. *)
From Verif Require Export C12.Base C12.Escape C12.Scan C12.Point.
