(* C12/KeyCrash.v — scanKey never crashes, for every byte string; where it ends. *)
From Verif Require Import C12.Base C12.Escape C12.Scan C12.ScanFacts C12.KeyFacts.
From VerifGen Require Import Consts.
From Coq Require Import ZifyBool ZifyNat ZifyN Permutation.
Open Scope N_scope.

Lemma rdi_nth idx j v : nth_error idx j = Some v -> rdi idx j = Ok v.
Proof. unfold rdi. intros ->. reflexivity. Qed.

Lemma nth_error_lt {A} (l : list A) j : (j < length l)%nat -> exists v, nth_error l j = Some v.
Proof. intros H. destruct (nth_error l j) eqn:E; [eauto|]. apply nth_error_None in E. lia. Qed.

Lemma slice_m1_seg buf a b : (1 <= b)%nat -> seg buf a (b - 1) ->
  exists s, slice_m1 buf a b = Ok s.
Proof.
  intros Hb [H1 [H2 _]]. destruct b as [|b']; [lia|]. cbn [slice_m1].
  replace (S b' - 1)%nat with b' in * by lia. rewrite slice_ok by lia. eauto.
Qed.

(* ---- first pass ---- *)
Lemma sorted_pass_nc buf idx : forall n j,
  chain buf idx -> (j + n + 1 < length idx \/ n = 0)%nat -> nc (sorted_pass n buf idx j).
Proof.
  intros n. induction n as [|n IH]; intros j Hc Hl; cbn [sorted_pass]; [apply nc_ok|].
  destruct Hl as [Hl|Hl]; [|lia].
  destruct (nth_error_lt idx j ltac:(lia)) as [a Ha].
  destruct (nth_error_lt idx (j + 1) ltac:(lia)) as [b Hb].
  destruct (nth_error_lt idx (j + 2) ltac:(lia)) as [c Hc'].
  rewrite (rdi_nth _ _ _ Ha), (rdi_nth _ _ _ Hb), (rdi_nth _ _ _ Hc'). cbn [bind].
  replace (j + 1)%nat with (S j) in Hb by lia. replace (j + 2)%nat with (S (S j)) in Hc' by lia.
  destruct (chain_nth buf idx j a b Hc Ha Hb) as [Hb1 Hsab].
  destruct (chain_nth buf idx (S j) b c Hc Hb Hc') as [Hc1 Hsbc].
  destruct (slice_m1_seg buf a b Hb1 Hsab) as [s1 Hs1].
  destruct (slice_m1_seg buf b c Hc1 Hsbc) as [s2 Hs2].
  rewrite Hs1, Hs2. cbn [bind].
  apply nc_bind; [apply scan_to_nc; lia|]. intros l _.
  apply nc_bind; [apply scan_to_nc; lia|]. intros r _.
  destruct (bytes_cmp _ _); [apply nc_err|apply IH; [exact Hc|left; lia]|apply nc_ok].
Qed.

(* ---- insertion sort ---- *)
Definition all_le (buf : bytes) (l : list nat) : Prop := Forall (fun a => (a <= length buf)%nat) l.

Lemma tag_less_nc buf a b : (a <= length buf)%nat -> (b <= length buf)%nat -> nc (tag_less buf a b).
Proof.
  intros Ha Hb. unfold tag_less. apply nc_bind; [apply scan_to_nc; exact Ha|]. intros ka _.
  apply nc_bind; [apply scan_to_nc; exact Hb|]. intros kb _. apply nc_ok.
Qed.

Lemma insert_left_nc buf x rp : all_le buf (x :: rp) -> nc (insert_left buf x rp).
Proof.
  induction rp as [|y r IH]; intros H; cbn [insert_left]; [apply nc_ok|].
  inversion H as [|? ? Hx Hr]; subst. inversion Hr as [|? ? Hy Hr']; subst.
  apply nc_bind; [apply tag_less_nc; assumption|]. intros lt _.
  destruct lt; [|apply nc_ok].
  apply nc_bind; [apply IH; constructor; assumption|]. intros; apply nc_ok.
Qed.

Lemma insert_left_perm buf x rp l : insert_left buf x rp = Ok l -> Permutation (x :: rp) l.
Proof.
  revert l. induction rp as [|y r IH]; intros l H; cbn [insert_left] in H.
  - inversion H. apply Permutation_refl.
  - apply bind_ok_inv in H. destruct H as [lt [_ H]]. destruct lt.
    + apply bind_ok_inv in H. destruct H as [r' [Hr H]]. inversion H; subst.
      eapply perm_trans; [apply perm_swap|]. apply perm_skip. apply IH. exact Hr.
    + inversion H. apply Permutation_refl.
Qed.

Lemma all_le_perm buf l l' : Permutation l l' -> all_le buf l -> all_le buf l'.
Proof. intros Hp H. unfold all_le in *. eapply Permutation_Forall; eassumption. Qed.

Lemma insertion_sort_from_nc buf : forall rest rp,
  all_le buf (rp ++ rest) -> nc (insertion_sort_from buf rp rest).
Proof.
  intros rest. induction rest as [|x r IH]; intros rp H; cbn [insertion_sort_from]; [apply nc_ok|].
  assert (Hx : all_le buf (x :: rp)).
  { unfold all_le in *. apply Forall_app in H. destruct H as [H1 H2]. inversion H2; subst. constructor; assumption. }
  apply nc_bind; [apply insert_left_nc; exact Hx|]. intros rp' Hrp'.
  apply IH. apply insert_left_perm in Hrp'.
  unfold all_le in *. apply Forall_app in H. destruct H as [H1 H2]. inversion H2; subst.
  apply Forall_app. split; [|assumption]. eapply Permutation_Forall; [exact Hrp'|]. constructor; assumption.
Qed.

Lemma insertion_sort_from_perm buf : forall rest rp l,
  insertion_sort_from buf rp rest = Ok l -> Permutation (rp ++ rest) l.
Proof.
  intros rest. induction rest as [|x r IH]; intros rp l H; cbn [insertion_sort_from] in H.
  - inversion H. rewrite app_nil_r. apply Permutation_rev.
  - apply bind_ok_inv in H. destruct H as [rp' [Hi H]]. apply IH in H.
    apply insert_left_perm in Hi.
    eapply perm_trans; [|exact H]. eapply perm_trans; [apply Permutation_sym, Permutation_middle|].
    apply Permutation_app_tail with (tl := r) in Hi. exact Hi.
Qed.

Lemma insertion_sort_nc buf idx : all_le buf idx -> nc (insertion_sort buf idx).
Proof.
  intros H. unfold insertion_sort. destruct idx as [|x r]; [apply nc_ok|].
  apply insertion_sort_from_nc. exact H.
Qed.

Lemma insertion_sort_perm buf idx l : insertion_sort buf idx = Ok l -> Permutation idx l.
Proof.
  unfold insertion_sort. destruct idx as [|x r]; intros H.
  - inversion H. constructor.
  - apply insertion_sort_from_perm in H. exact H.
Qed.

(* ---- rebuilding the key from sorted indices ---- *)
Definition tagtext (buf : bytes) (a : nat) : bytes :=
  match scan_to_space_or buf a c_comma with Ok (_, v) => v | _ => [] end.

Lemma rebuild_key_ok buf L : forall ids acc,
  Forall (fun a => exists e, seg buf a e) ids ->
  (length acc + sum_seglen buf ids = L)%nat ->
  rebuild_key buf L ids acc = Ok (acc ++ flat_map (fun a => c_comma :: tagtext buf a) ids).
Proof.
  intros ids. induction ids as [|a r IH]; intros acc Hall Hsum; cbn [rebuild_key flat_map].
  - cbn [sum_seglen] in Hsum. replace (L - length acc)%nat with O by lia. cbn [repeat]. reflexivity.
  - inversion Hall as [|a' r' [e Hseg] Hr]; subst a' r'. cbn [sum_seglen] in Hsum.
    destruct (Nat.ltb_spec (length acc) L); [|lia].
    pose proof (seglen_seg buf a e Hseg) as Hlen.
    unfold tagtext. rewrite (scan_to_space_or_seg buf a e Hseg). cbn [bind snd].
    set (v := firstn (e - a) (skipn a buf)).
    assert (Hv : length v = (e - a)%nat).
    { unfold v. destruct Hseg as [H1 [H2 _]]. rewrite firstn_length, skipn_length. lia. }
    rewrite firstn_all2 by (rewrite app_length; cbn [length]; lia).
    rewrite IH; [|exact Hr|rewrite !app_length; cbn [length]; lia].
    rewrite <- !app_assoc. reflexivity.
Qed.

(* ---- second duplicate pass ---- *)
Lemma dup_pass_nc buf ids : forall n j,
  all_le buf ids -> (j + n < length ids \/ n = 0)%nat -> nc (dup_pass n buf ids j).
Proof.
  intros n. induction n as [|n IH]; intros j Hall Hl; cbn [dup_pass]; [apply nc_ok|].
  destruct Hl as [Hl|Hl]; [|lia].
  destruct (nth_error_lt ids j ltac:(lia)) as [a Ha].
  destruct (nth_error_lt ids (j + 1) ltac:(lia)) as [b Hb].
  rewrite (rdi_nth _ _ _ Ha), (rdi_nth _ _ _ Hb). cbn [bind].
  assert (Hale : (a <= length buf)%nat).
  { unfold all_le in Hall. rewrite Forall_forall in Hall. apply Hall. eapply nth_error_In; exact Ha. }
  assert (Hble : (b <= length buf)%nat).
  { unfold all_le in Hall. rewrite Forall_forall in Hall. apply Hall. eapply nth_error_In; exact Hb. }
  rewrite !slice_ok by lia. cbn [bind].
  apply nc_bind; [apply scan_to_nc; lia|]. intros l _.
  apply nc_bind; [apply scan_to_nc; lia|]. intros r _.
  destruct (bytes_eqb _ _); [apply nc_err|apply IH; [exact Hall|left; lia]].
Qed.

(* ---- the small scanners read only below an index they have just found in range ---- *)
Lemma scan_meas_loop_nc buf : forall fuel i, nc (scan_meas_loop fuel buf i).
Proof.
  intros fuel. induction fuel as [|f IH]; intros i; cbn [scan_meas_loop]; [apply nc_err|].
  destruct (get buf (S i)) eqn:G; [|apply nc_err]. apply get_some_lt in G.
  destruct (rd_lt buf i ltac:(lia)) as [p [Hp _]]. rewrite Hp. cbn [bind].
  destruct (p =? c_bs); [apply IH|]. destruct (n =? c_comma); [apply nc_ok|].
  destruct (n =? c_space); [apply nc_ok|apply IH].
Qed.

Lemma scan_measurement_nc buf i : nc (scan_measurement buf i).
Proof.
  unfold scan_measurement. destruct (get buf i); [|apply nc_err].
  destruct (n =? c_comma); [apply nc_err|apply scan_meas_loop_nc].
Qed.

Lemma scan_tags_key_loop_nc buf : forall fuel i, nc (scan_tags_key_loop fuel buf i).
Proof.
  intros fuel. induction fuel as [|f IH]; intros i; cbn [scan_tags_key_loop]; [apply nc_err|].
  destruct (get buf (S i)) eqn:G; [|apply nc_err]. apply get_some_lt in G.
  destruct (rd_lt buf i ltac:(lia)) as [p [Hp _]]. rewrite Hp.
  destruct ((n =? c_space) || (n =? c_comma)); cbn [bind].
  - destruct (negb (p =? c_bs)); [apply nc_err|].
    destruct (n =? c_eq); cbn [bind]; apply IH.
  - destruct (n =? c_eq); cbn [bind]; [destruct (negb (p =? c_bs)); [apply nc_ok|apply IH]|apply IH].
Qed.

Lemma scan_tags_key_nc buf i : nc (scan_tags_key buf i).
Proof.
  unfold scan_tags_key. destruct (get buf i); [|apply nc_err].
  destruct (_ || _); [apply nc_err|apply scan_tags_key_loop_nc].
Qed.

Lemma scan_tags_value_loop_nc buf : forall fuel i, nc (scan_tags_value_loop fuel buf i).
Proof.
  intros fuel. induction fuel as [|f IH]; intros i; cbn [scan_tags_value_loop]; [apply nc_err|].
  destruct (get buf (S i)) eqn:G; [|apply nc_err]. apply get_some_lt in G.
  destruct (rd_lt buf i ltac:(lia)) as [p [Hp _]]. rewrite Hp.
  destruct ((n =? c_eq) || (n =? c_comma) || (n =? c_space)); cbn [bind].
  - destruct (negb (p =? c_bs)); cbn [andb]; [|apply IH].
    destruct (n =? c_eq); [apply nc_err|]. destruct (n =? c_comma); [apply nc_ok|].
    destruct (n =? c_space); [apply nc_ok|apply IH].
  - cbn [andb]. apply IH.
Qed.

Lemma scan_tags_value_nc buf i : nc (scan_tags_value buf i).
Proof.
  unfold scan_tags_value. destruct (get buf i); [|apply nc_err].
  destruct (_ || _); [apply nc_err|apply scan_tags_value_loop_nc].
Qed.

Lemma scan_tags_loop_nc buf : forall fuel i acc, nc (scan_tags_loop fuel buf i acc).
Proof.
  intros fuel. induction fuel as [|f IH]; intros i acc; cbn [scan_tags_loop]; [apply nc_err|].
  apply nc_bind; [apply scan_tags_key_nc|]. intros i1 _.
  apply nc_bind; [apply scan_tags_value_nc|]. intros [st i2] _.
  destruct st; [apply IH|apply nc_ok].
Qed.

(* ---- scanKey ---- *)
Lemma hd_nth_error (l : list nat) : (1 <= length l)%nat -> nth_error l 0 = Some (hd 0%nat l).
Proof. destruct l; cbn; [lia|reflexivity]. Qed.

Lemma chain_hd_seg buf idx : chain buf idx -> (2 <= length idx)%nat ->
  exists e, seg buf (hd 0%nat idx) e.
Proof.
  destruct idx as [|a [|b r]]; cbn [length]; try lia. cbn [chain hd]. intros [_ [H _]] _. eauto.
Qed.

Theorem scan_key_nc buf i0 : nc (scan_key buf i0).
Proof.
  unfold scan_key. set (start := skip_whitespace buf i0).
  pose proof (scan_measurement_nc buf start) as Hmnc.
  destruct (scan_measurement buf start) as [[st i]| |] eqn:Hm; cbn [bind]; [|apply nc_err|exfalso; apply Hmnc; reflexivity].
  pose proof (scan_measurement_sound buf start st i Hm) as [em [Hem [Htm [Hnom Hst]]]].
  destruct st.
  - (* tags *)
    destruct Hst as [-> Gcomma].
    pose proof (scan_tags_loop_nc buf (S (length buf)) (S em) []) as Htnc. fold (scan_tags buf (S em)) in Htnc.
    destruct (scan_tags buf (S em)) as [[e idx]| |] eqn:Ht; cbn [bind]; [|apply nc_err|exfalso; apply Htnc; reflexivity].
    apply scan_tags_sound in Ht. destruct Ht as [Hch [Hhd [Hlen [Hlast [Gs Hlt]]]]].
    cbn [fst snd].
    apply nc_bind.
    { apply sorted_pass_nc; [exact Hch|]. destruct (Nat.eq_dec (length idx - 1 - 1) 0); [right; assumption|left; lia]. }
    intros sorted _.
    destruct (negb sorted && (0 <? length idx - 1)%nat); [|rewrite slice_ok; [apply nc_ok| |]].
    2:{ pose proof (skip_whitespace_ge buf i0). fold start in H. lia. }
    2:{ apply get_some_lt in Gs. lia. }
    rewrite (rdi_nth _ _ _ (hd_nth_error idx ltac:(lia))). cbn [bind]. rewrite Hhd.
    (* measurement := buf[start : indices[0]-1] *)
    cbn [slice_m1]. rewrite slice_ok by lia. cbn [bind].
    assert (Hall : Forall (fun a => exists e0, seg buf a e0) (firstn (length idx - 1) idx)).
    { rewrite Forall_forall. intros a Ha. rewrite <- removelast_firstn_len in Ha.
      eapply chain_in; eassumption. }
    assert (Hle : all_le buf (firstn (length idx - 1) idx)).
    { unfold all_le. eapply Forall_impl; [|exact Hall]. intros a [e0 Hs]. apply seg_start_lt in Hs. lia. }
    apply nc_bind; [apply insertion_sort_nc; exact Hle|]. intros ids Hids.
    apply insertion_sort_perm in Hids.
    apply get_some_lt in Gs.
    rewrite slice_ok by lia. cbn [bind].
    set (L := length (firstn (e - start) (skipn start buf))).
    assert (HL : L = (e - start)%nat).
    { unfold L. rewrite firstn_length, skipn_length. lia. }
    rewrite rebuild_key_ok.
    + cbn [bind]. apply nc_bind; [|intros; apply nc_ok].
      apply dup_pass_nc.
      * eapply all_le_perm; eassumption.
      * apply Permutation_length in Hids. rewrite firstn_length in Hids.
        destruct (Nat.eq_dec (length idx - 1 - 1) 0); [right; assumption|left; lia].
    + eapply Permutation_Forall; eassumption.
    + (* the tags tile [indices[0], e+1) *)
      rewrite <- (sum_seglen_perm buf _ _ Hids). rewrite <- removelast_firstn_len.
      destruct (chain_sum buf idx Hch ltac:(lia)) as [Hsum Hle2]. rewrite Hhd, Hlast in Hsum.
      rewrite firstn_length. rewrite firstn_length, skipn_length.
      rewrite HL. lia.
  - (* no tags *)
    destruct Hst as [-> Gs]. cbn [bind fst snd length]. cbn [sorted_pass Nat.sub]. cbn [bind].
    cbn [negb andb Nat.ltb Nat.leb]. apply get_some_lt in Gs.
    pose proof (skip_whitespace_ge buf i0). fold start in H.
    rewrite slice_ok by lia. apply nc_ok.
Qed.

(* where scanKey ends: at an unescaped space, after at least one byte of measurement *)
Theorem scan_key_end buf i0 i key :
  scan_key buf i0 = Ok (i, key) -> (1 <= i)%nat /\ get buf i = Some c_space.
Proof.
  unfold scan_key. set (start := skip_whitespace buf i0). intros H.
  apply bind_ok_inv in H. destruct H as [[st im] [Hm H]].
  pose proof (scan_measurement_sound buf start st im Hm) as [em [Hem [_ [_ Hst]]]].
  apply bind_ok_inv in H. destruct H as [[[i' idx] commas] [Hti H]].
  assert (Hi : (1 <= i')%nat /\ get buf i' = Some c_space).
  { destruct st.
    - destruct Hst as [-> _]. apply bind_ok_inv in Hti. destruct Hti as [[e idx'] [Ht Hti]].
      inversion Hti; subst. apply scan_tags_sound in Ht. cbn [fst]. intuition; lia.
    - destruct Hst as [-> Gs]. inversion Hti; subst. split; [lia|exact Gs]. }
  apply bind_ok_inv in H. destruct H as [sorted [_ H]].
  destruct (negb sorted && (0 <? commas)%nat).
  - repeat (apply bind_ok_inv in H; destruct H as [? [_ H]]). inversion H; subst. exact Hi.
  - apply bind_ok_inv in H. destruct H as [? [_ H]]. inversion H; subst. exact Hi.
Qed.
