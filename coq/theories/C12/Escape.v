(* C12/Escape.v — the escape/unescape pairs of models/points.go and pkg/escape/bytes.go.
   bytes.Replace with a one-byte pattern / two-byte pattern is [replace1] / [replace2];
   the tables are re-read from the source (Consts.v).  Definitions only. *)
From Verif Require Export C12.Base.
From VerifGen Require Import Consts.
Open Scope N_scope.

(* bytes.Replace(in, [k], [e0;e1], -1) *)
Fixpoint replace1 (k e0 e1 : N) (l : bytes) : bytes :=
  match l with
  | [] => []
  | c :: r => if c =? k then e0 :: e1 :: replace1 k e0 e1 r else c :: replace1 k e0 e1 r
  end.

(* bytes.Replace(in, [e0;e1], [k], -1): leftmost non-overlapping matches *)
Fixpoint replace2 (e0 e1 k : N) (l : bytes) : bytes :=
  match l with
  | a :: r =>
      match r with
      | b :: r' => if (a =? e0) && (b =? e1) then k :: replace2 e0 e1 k r' else a :: replace2 e0 e1 k r
      | [] => l
      end
  | [] => l
  end.

(* EscapeMeasurement / escapeTag: for each code, if the byte occurs, Replace *)
Definition escape_with (codes : list (N * (N * N))) (l : bytes) : bytes :=
  fold_left (fun acc c => let '(k, (e0, e1)) := c in
                          if mem k acc then replace1 k e0 e1 acc else acc) codes l.

(* unescapeMeasurement / unescapeTag: no backslash -> unchanged; else for each code (same
   order as escaping), if the byte occurs, Replace esc -> k *)
Definition unescape_with (codes : list (N * (N * N))) (l : bytes) : bytes :=
  if negb (mem c_bs l) then l
  else fold_left (fun acc c => let '(k, (e0, e1)) := c in
                               if mem k acc then replace2 e0 e1 k acc else acc) codes l.

Definition escape_measurement := escape_with c12_measurement_escape_codes.
Definition unescape_measurement := unescape_with c12_measurement_escape_codes.
Definition escape_tag := escape_with c12_tag_escape_codes.
Definition unescape_tag := unescape_with c12_tag_escape_codes.

(* escape.Bytes / escape.String: Replace [b] -> `\`b for every key of escape.Codes (Go map
   order; the translator checks every entry has that shape).  Field keys are written with it. *)
Definition escape_bytes_keys (keys : list N) (l : bytes) : bytes :=
  fold_left (fun acc k => replace1 k c_bs k acc) keys l.
Definition escape_bytes := escape_bytes_keys c12_escape_codes_keys.

(* escape.Unescape / escape.AppendUnescaped: one pass, a backslash followed by one of
   escapeChars is dropped and the following byte is copied *)
Fixpoint unescape_chars (chars : list N) (l : bytes) : bytes :=
  match l with
  | a :: r =>
      match r with
      | b :: r' => if (a =? c_bs) && mem b chars then b :: unescape_chars chars r'
                   else a :: unescape_chars chars r
      | [] => l
      end
  | [] => l
  end.
Definition unescape_bytes := unescape_chars c12_escape_chars.

(* escape.IsEscaped *)
Fixpoint is_escaped_chars (chars : list N) (l : bytes) : bool :=
  match l with
  | a :: r =>
      match r with
      | b :: _ => ((a =? c_bs) && mem b chars) || is_escaped_chars chars r
      | [] => false
      end
  | [] => false
  end.
Definition is_escaped := is_escaped_chars c12_escape_chars.

(* field key as returned by the iterator *)
Definition iter_field_key (k : bytes) : bytes := if is_escaped k then unescape_bytes k else k.

(* EscapeStringField: strings.NewReplacer(`"`, `\"`, `\`, `\\`) *)
Fixpoint escape_string_field (l : bytes) : bytes :=
  match l with
  | [] => []
  | c :: r => if (c =? c_quote) || (c =? c_bs) then c_bs :: c :: escape_string_field r
              else c :: escape_string_field r
  end.

(* unescapeStringField *)
Fixpoint unescape_string_loop (l : bytes) : bytes :=
  match l with
  | a :: r =>
      match r with
      | b :: r' => if (a =? c_bs) && ((b =? c_bs) || (b =? c_quote)) then b :: unescape_string_loop r'
                   else a :: unescape_string_loop r
      | [] => l
      end
  | [] => l
  end.
Definition unescape_string_field (l : bytes) : bytes :=
  if negb (mem c_bs l) then l else unescape_string_loop l.
