(* C12/LineRound.v — the whole line: key text (tags in any order), a space, the rendered field set
   and an optional timestamp are accepted by parsePoint; the point has the canonical key, the field
   text as written, Fields() returns the typed values the line was written from, and the time is
   the exact instant of the timestamp (or the truncated default time). *)
From Verif Require Import C12.Base C12.Escape C12.Scan C12.Point C12.Spec C12.Print C12.ScanFacts C12.KeyFacts C12.OrderFacts
     C12.KeyComplete C12.LineProofs C12.EscapeProofs C12.TimeProofs C12.KeySort C12.KeyTheorem C12.SpecLink
     C12.FieldNum C12.FieldScan C12.FieldIter C12.FieldAsm.
From VerifGen Require Import Consts.
From Coq Require Import ZifyBool ZifyNat ZifyN Permutation.
Open Scope N_scope.

(* ---- scanTime on decimal text ---- *)
Lemma digit_time_facts c : is_digit c = true ->
  (c =? c_nl) = false /\ (c =? c_space) = false /\ (c =? c_minus) = false /\ ((c <? c_0) || (c_9 <? c)) = false /\ is_ws c = false.
Proof. unfold is_digit, is_ws, c_0, c_9, c_nl, c_space, c_minus, c_tab, c_nul. intros H. repeat split; lia. Qed.

Lemma scan_time_digits : forall ds pre start f,
  forallb is_digit ds = true -> (length ds < f)%nat ->
  scan_time_loop f (pre ++ ds) start (length pre) = Ok (length pre + length ds)%nat.
Proof.
  induction ds as [|c r IH]; intros pre start f Hd Hf; (destruct f as [|f]; [cbn in Hf; lia|]); cbn [scan_time_loop].
  - rewrite app_nil_r, get_app_end. cbn [length]. rewrite Nat.add_0_r. reflexivity.
  - cbn [forallb] in Hd. apply andb_true_iff in Hd. destruct Hd as [Hc Hr].
    destruct (digit_time_facts c Hc) as (H1&H2&H3&H4&_).
    rewrite get_app_mid, H1, H2, H3, H4. cbn [orb]. rewrite andb_false_r.
    rewrite snoc_cons, <- (len_snoc pre c). rewrite (IH (pre ++ [c]) start f Hr ltac:(cbn [length] in Hf; lia)).
    rewrite len_snoc. cbn [length]. f_equal; lia.
Qed.

Lemma scan_time_signed (P : bytes) neg ds f : forallb is_digit ds = true -> (S (length ds) < f)%nat ->
  scan_time_loop f (P ++ sign_txt neg ++ ds) (length P) (length P) = Ok (length P + length (sign_txt neg ++ ds))%nat.
Proof.
  intros Hd Hf. destruct neg; cbn [sign_txt app].
  - destruct f as [|f]; [lia|]. cbn [scan_time_loop]. rewrite get_app_mid.
    change (c_minus =? c_nl) with false. change (c_minus =? c_space) with false. cbn [orb].
    rewrite Nat.eqb_refl. change (c_minus =? c_minus) with true. cbn [andb].
    rewrite snoc_cons. replace (S (length P)) with (length (P ++ [c_minus])) by (rewrite len_snoc; reflexivity).
    rewrite scan_time_digits; [|exact Hd|lia]. rewrite len_snoc. cbn [length]. f_equal; lia.
  - rewrite scan_time_digits; [reflexivity|exact Hd|lia].
Qed.

Lemma scan_time_decimal (X : bytes) z : TimeProofs.in_int64 z ->
  scan_time (X ++ c_space :: fmt_z z) (length X) = Ok (length (X ++ c_space :: fmt_z z), fmt_z z).
Proof.
  intros Hz. destruct (fmt_z_shape z Hz) as [neg [d [ds [E Hd]]]]. rewrite E.
  set (txt := sign_txt neg ++ d :: ds). set (buf := X ++ c_space :: txt).
  pose proof Hd as Hd'. cbn [forallb] in Hd'. apply andb_true_iff in Hd'. destruct Hd' as [Hd0 _].
  destruct (digit_time_facts d Hd0) as (_&_&_&_&Hwd).
  assert (Hhd : exists c r, txt = c :: r /\ is_ws c = false).
  { unfold txt. destruct neg; cbn [sign_txt app]; eexists _, _; split; try reflexivity. exact Hwd. }
  destruct Hhd as [c0 [r0 [Et Hw0]]].
  assert (Hlen : length buf = (length X + 1 + length txt)%nat) by (unfold buf; llen; lia).
  unfold scan_time.
  assert (Hsk : skip_whitespace buf (length X) = S (length X)).
  { unfold skip_whitespace. assert (Hl : exists m, length buf = S (S m)).
    { exists (length X + length r0)%nat. rewrite Hlen, Et. cbn [length]. lia. }
    destruct Hl as [m ->]. cbn [skip_ws]. unfold buf. rewrite get_app_mid. cbn [is_ws c_space N.eqb Pos.eqb orb].
    rewrite Et. rewrite get_cons_app, Hw0. reflexivity. }
  rewrite Hsk.
  assert (Hb : buf = (X ++ [c_space]) ++ txt) by (unfold buf; lnorm; reflexivity).
  assert (Hloop : scan_time_loop (S (length buf)) buf (S (length X)) (S (length X)) = Ok (length buf)).
  { rewrite Hb. rewrite <- (len_snoc X c_space). unfold txt.
    rewrite (scan_time_signed (X ++ [c_space]) neg (d :: ds) _ Hd) by (rewrite app_length, len_snoc; unfold txt; llen; lia).
    f_equal. llen. lia. }
  rewrite Hloop. cbn [bind].
  assert (Hsl : slice buf (S (length X)) (length buf) = Ok txt).
  { rewrite Hb. rewrite <- (len_snoc X c_space). apply slice_suffix. }
  rewrite Hsl. reflexivity.
Qed.

Section Oracle.
Variable pf : bytes -> option N.
Variable us : bool.

Definition ts_suffix (t : option Z) : bytes := match t with Some ts => c_space :: fmt_z ts | None => [] end.

(* the instant a line denotes *)
Definition line_time (t : option Z) (prec : bytes) (dflt : Z) : tm :=
  match t with
  | Some ts => tm_of_unix_nano (ts * spec_mult prec)%Z
  | None => tm_of_unix_nano (set_precision dflt prec)
  end.

Definition time_ok (t : option Z) (prec : bytes) : Prop :=
  match t with
  | Some ts => TimeProofs.in_int64 ts /\ (c12_min_nano_time <= ts * spec_mult prec <= c12_max_nano_time)%Z
  | None => True
  end.

Lemma spec_key_nonempty p : meas_ok (a_meas p) = true -> spec_key p <> [].
Proof.
  unfold meas_ok, spec_key. intros H. apply andb_true_iff in H. destruct H as [Hn _].
  destruct (a_meas p) as [|c s]; [discriminate|].
  destruct (spec_escape_head meas_set c s) as [c' [s' [He _]]]. rewrite He. discriminate.
Qed.

(* print_parse_roundtrip: every well-formed point, written as text with its tags in any order, each
   value in any accepted spelling and an optional timestamp, parses to that point *)
Theorem line_roundtrip p tags' l dflt prec :
  akey_ok (a_meas p) (a_tags p) = true -> NoDup (map fst (a_tags p)) -> Permutation (a_tags p) tags' ->
  N.of_nat (length (spec_key p)) <= c12_max_key_length ->
  a_fields p <> [] -> Forall2 (fld_rel pf us) (a_fields p) l ->
  match render_fields l with c :: _ => is_ws c = false | [] => True end ->
  Forall (fld_size_ok (length (spec_key p))) l ->
  time_ok (a_time p) prec ->
  parse_point pf us (key_text (a_meas p) tags' ++ c_space :: render_fields l ++ ts_suffix (a_time p)) dflt prec =
    Ok (mk_point (spec_key p) (render_fields l) (line_time (a_time p) prec dflt)) /\
  point_fields pf 0 (mk_point (spec_key p) (render_fields l) (line_time (a_time p) prec dflt)) = Ok (a_fields p).
Proof.
  intros Hok Hnd Hperm Hklen Hfne Hrel Hws Hsz Htime.
  set (K := key_text (a_meas p) tags'). set (R := render_fields l) in *.
  assert (Hrest : space_or_end (ts_suffix (a_time p))).
  { destruct (a_time p); [right; eexists; reflexivity|left; reflexivity]. }
  destruct (fields_roundtrip pf us K (a_fields p) l (ts_suffix (a_time p)) (length (spec_key p)) Hfne Hrel Hrest Hws Hsz)
    as [Hsf [Hwalk Hpf]].
  fold R in Hsf, Hwalk, Hpf.
  split; [|apply Hpf].
  unfold parse_point.
  pose proof (key_meaning p tags' (R ++ ts_suffix (a_time p)) Hok Hnd Hperm) as Hkey. fold K in Hkey.
  rewrite Hkey. cbn [bind].
  assert (Hm : meas_ok (a_meas p) = true) by (unfold akey_ok in Hok; apply andb_true_iff in Hok; apply Hok).
  pose proof (spec_key_nonempty p Hm) as Hkne.
  destruct (spec_key p) as [|k0 kr] eqn:Ek; [congruence|]. rewrite <- Ek in *.
  destruct (N.ltb_spec c12_max_key_length (N.of_nat (length (spec_key p)))) as [Hx|_]; [lia|].
  rewrite Hsf. cbn [bind].
  assert (HRne : R <> []).
  { unfold R. apply render_fields_nonempty. destruct Hrel; [congruence|discriminate]. }
  destruct R as [|r0 rr] eqn:ER; [congruence|]. rewrite <- ER in *.
  rewrite Hwalk. cbn [bind].
  set (X := K ++ c_space :: R).
  assert (HX : K ++ c_space :: R ++ ts_suffix (a_time p) = X ++ ts_suffix (a_time p)) by (unfold X; lnorm; reflexivity).
  rewrite HX.
  unfold time_ok in Htime. unfold line_time. destruct (a_time p) as [ts|]; cbn [ts_suffix].
  - destruct Htime as [Hts Hrange].
    rewrite (scan_time_decimal X ts Hts). cbn [bind].
    destruct (fmt_z_shape ts Hts) as [neg [d [ds [E _]]]].
    assert (Hfz : exists c r, fmt_z ts = c :: r) by (rewrite E; destruct neg; cbn [sign_txt app]; eauto).
    destruct Hfz as [c0 [r0' Efz]]. rewrite Efz. rewrite <- Efz.
    rewrite (parse_int64_fmt_z ts Hts).
    rewrite (safe_calc_time_spec ts prec Hts).
    destruct Hrange as [H1 H2]. apply Z.leb_le in H1, H2. rewrite H1, H2. cbn [andb bind].
    assert (Htr : trailing_spaces (S (length (X ++ c_space :: fmt_z ts))) (X ++ c_space :: fmt_z ts)
                    (length (X ++ c_space :: fmt_z ts)) = Ok tt).
    { cbn [trailing_spaces]. rewrite get_app_end. reflexivity. }
    rewrite Htr. cbn [bind]. reflexivity.
  - rewrite app_nil_r.
    assert (Hst : scan_time X (length X) = Ok (length X, [])).
    { unfold scan_time.
      assert (Hsk : skip_whitespace X (length X) = length X).
      { unfold skip_whitespace. cbn [skip_ws]. rewrite get_app_end. reflexivity. }
      rewrite Hsk. cbn [scan_time_loop]. rewrite get_app_end. cbn [bind].
      rewrite slice_ok by lia. rewrite Nat.sub_diag. reflexivity. }
    rewrite Hst. cbn [bind]. reflexivity.
Qed.

End Oracle.
