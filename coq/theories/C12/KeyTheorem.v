(* C12/KeyTheorem.v — scanKey on a well-formed key: acceptance, canonical result, independence
   from the order of the tags. *)
From Verif Require Import C12.Base C12.Escape C12.Scan C12.ScanFacts C12.KeyFacts C12.KeyCrash
     C12.OrderFacts C12.KeyComplete C12.KeySort.
From VerifGen Require Import Consts.
From Coq Require Import ZifyBool ZifyNat ZifyN Permutation.
Open Scope N_scope.

Lemma skip_whitespace_nonws c r : is_ws c = false -> skip_whitespace (c :: r) 0 = 0%nat.
Proof. intros H. unfold skip_whitespace. cbn [skip_ws get nth_error]. rewrite H. reflexivity. Qed.

Lemma firstn_app_exact {A} (a b : list A) : firstn (length a) (a ++ b) = a.
Proof. rewrite firstn_app, firstn_all, Nat.sub_diag. cbn [firstn]. apply app_nil_r. Qed.

Lemma nth_error_ext_eq {A} (l1 l2 : list A) : (forall j, nth_error l1 j = nth_error l2 j) -> l1 = l2.
Proof.
  revert l2. induction l1 as [|x r IH]; intros [|y s] H.
  - reflexivity.
  - specialize (H O). discriminate.
  - specialize (H O). discriminate.
  - pose proof (H O) as H0. cbn in H0. inversion H0; subst. f_equal. apply IH. intros j. apply (H (S j)).
Qed.

Lemma nth_error_firstn_lt {A} (l : list A) n j : (j < n)%nat -> nth_error (firstn n l) j = nth_error l j.
Proof.
  revert n j. induction l as [|x r IH]; intros n j H.
  - rewrite firstn_nil. reflexivity.
  - destruct n; [lia|]. destruct j; [reflexivity|]. cbn. apply IH. lia.
Qed.

Lemma render_tags_length_ge ts : (length ts <= length (render_tags ts))%nat.
Proof.
  induction ts as [|t r IH]; [cbn; lia|]. cbn [render_tags flat_map length]. fold (render_tags r).
  rewrite app_length. cbn [length]. lia.
Qed.

Lemma nodup_map_perm {A B} (f : A -> B) l l' : Permutation l l' -> NoDup (map f l) -> NoDup (map f l').
Proof. intros Hp. apply Permutation_NoDup. apply Permutation_map. exact Hp. Qed.

(* the tag text scanToSpaceOr finds at a chain position *)
Lemma chain_tagtext buf idx ts j t a :
  chain buf idx -> lay buf idx ts -> nth_error ts j = Some t -> nth_error idx j = Some a ->
  tagtext buf a = tagtxt t /\ at_tag buf a t /\ wf_tag t = true /\ (exists e, seg buf a e).
Proof.
  intros Hch Hl Ht Ha.
  destruct (lay_nth buf idx ts Hl j t Ht) as [a' [b [Ha' [Hb [Hbe [Hat Hwf]]]]]].
  rewrite Ha in Ha'. inversion Ha'; subst a'. clear Ha'.
  destruct (chain_nth buf idx j a b Hch Ha Hb) as [Hb1 Hseg].
  split; [|split; [exact Hat|split; [exact Hwf|eauto]]].
  unfold tagtext. rewrite (scan_to_space_or_seg buf a (b - 1) Hseg).
  destruct Hat as [pre [x [post [Hbuf [Hlen _]]]]]. subst a. rewrite Hbuf.
  rewrite skipn_app, skipn_all, Nat.sub_diag. cbn [skipn app].
  replace (b - 1 - length pre)%nat with (length (tagtxt t)) by lia.
  apply firstn_app_exact.
Qed.

Section Complete.
Variable buf : bytes.

(* the tag found at an index, reconstructed from what the scanners return there *)
Definition tag_of (a : nat) : tag :=
  (key_at buf a, skipn (length (key_at buf a) + 1) (tagtext buf a)).

Lemma tag_of_at a t : at_tag buf a t -> wf_tag t = true -> tagtext buf a = tagtxt t -> tag_of a = t.
Proof.
  intros Hat Hwf Htt. unfold tag_of, key_at. rewrite (at_tag_scan_to buf a t Hat Hwf), Htt.
  unfold tagtxt. replace (length (fst t) + 1)%nat with (length (fst t ++ [c_eq])) by (llen; lia).
  replace (fst t ++ c_eq :: snd t) with ((fst t ++ [c_eq]) ++ snd t) by (lnorm; reflexivity).
  rewrite skipn_app, skipn_all, Nat.sub_diag. cbn [skipn app]. destruct t; reflexivity.
Qed.
End Complete.

Lemma lay_starts_facts buf idx ts :
  chain buf idx -> lay buf idx ts ->
  map (tag_of buf) (firstn (length ts) idx) = ts /\
  Forall (fun a => at_tag buf a (tag_of buf a) /\ wf_tag (tag_of buf a) = true /\
                   tagtext buf a = tagtxt (tag_of buf a) /\ (exists e, seg buf a e)) (firstn (length ts) idx).
Proof.
  intros Hch Hl. pose proof (lay_length buf idx ts Hl) as Hlen.
  assert (Hj : forall j a, (j < length ts)%nat -> nth_error idx j = Some a ->
              exists t, nth_error ts j = Some t /\ tag_of buf a = t /\ at_tag buf a t /\ wf_tag t = true /\
                        tagtext buf a = tagtxt t /\ (exists e, seg buf a e)).
  { intros j a Hjl Ha. destruct (nth_error_lt ts j Hjl) as [t Ht]. exists t.
    destruct (chain_tagtext buf idx ts j t a Hch Hl Ht Ha) as [Htt [Hat [Hwf Hs]]].
    split; [exact Ht|]. split; [apply tag_of_at; assumption|]. auto. }
  split.
  - apply nth_error_ext_eq. intros j. rewrite nth_error_map.
    destruct (Nat.lt_ge_cases j (length ts)) as [Hlt|Hge].
    + rewrite nth_error_firstn_lt by exact Hlt.
      destruct (nth_error_lt idx j ltac:(lia)) as [a Ha]. rewrite Ha. cbn [option_map].
      destruct (Hj j a Hlt Ha) as [t [Ht [Hto _]]]. rewrite Ht, Hto. reflexivity.
    + assert (H1 : nth_error (firstn (length ts) idx) j = None).
      { apply nth_error_None. rewrite firstn_length. lia. }
      rewrite H1. cbn [option_map]. symmetry. apply nth_error_None. exact Hge.
  - rewrite Forall_forall. intros a Hin. apply In_nth_error in Hin. destruct Hin as [j Hjn].
    assert (Hjl : (j < length ts)%nat).
    { assert (Hs : nth_error (firstn (length ts) idx) j <> None) by congruence.
      apply nth_error_Some in Hs. rewrite firstn_length in Hs. lia. }
    rewrite nth_error_firstn_lt in Hjn by exact Hjl.
    destruct (Hj j a Hjl Hjn) as [t [_ [Hto [Hat [Hwf [Htt Hs]]]]]]. rewrite Hto. auto.
Qed.

Theorem scan_key_complete m ts post :
  wf_meas m = true -> forallb wf_tag ts = true -> NoDup (map fst ts) ->
  scan_key (m ++ render_tags ts ++ c_space :: post) 0 =
  Ok (length (m ++ render_tags ts), m ++ render_tags (isort fst ts)).
Proof.
  intros Hm Hts Hnd. destruct (wf_meas_inv m Hm) as [c0 [s0 [Em [Hws _]]]].
  unfold scan_key.
  assert (Hstart : skip_whitespace (m ++ render_tags ts ++ c_space :: post) 0 = 0%nat).
  { rewrite Em. cbn [app]. apply skip_whitespace_nonws. exact Hws. }
  rewrite Hstart.
  destruct ts as [|t r].
  - (* no tags *)
    cbn [render_tags flat_map app isort]. rewrite app_nil_r.
    rewrite (scan_measurement_complete m c_space post Hm eq_refl). cbn [N.eqb c_space c_comma Pos.eqb bind].
    cbn [length Nat.sub sorted_pass bind negb andb].
    pose proof (slice_prefix m (c_space :: post)) as Hs. rewrite Hs. reflexivity.
  - cbn [forallb] in Hts. apply andb_true_iff in Hts. destruct Hts as [Ht Hr].
    cbn [render_tags flat_map]. fold (render_tags r).
    match goal with |- context [m ++ ?k ++ c_space :: post] => set (kr := k) end.
    assert (Hkr : kr = c_comma :: tagtxt t ++ render_tags r) by reflexivity.
    set (buf := m ++ kr ++ c_space :: post).
    set (pre := m ++ [c_comma]).
    assert (B0 : buf = m ++ c_comma :: (tagtxt t ++ render_tags r ++ c_space :: post)) by (unfold buf; rewrite Hkr; lnorm; reflexivity).
    assert (B1 : buf = pre ++ tagtxt t ++ render_tags r ++ c_space :: post) by (unfold buf, pre; rewrite Hkr; lnorm; reflexivity).
    assert (Lpre : length pre = (length m + 1)%nat) by (unfold pre; llen; lia).
    rewrite B0, (scan_measurement_complete m c_comma _ Hm eq_refl). cbn [N.eqb c_comma Pos.eqb bind].
    rewrite <- B0. unfold scan_tags. rewrite <- Lpre.
    pose proof (scan_tags_loop_complete r t pre post (S (length buf)) [] Ht Hr) as Hst.
    rewrite <- B1 in Hst. specialize (Hst ltac:(rewrite B1; pose proof (render_tags_length_ge r); llen; lia)).
    pose proof Hst as Hsound. apply (scan_tags_loop_sound buf) in Hsound.
    rewrite Hst. cbn [bind fst snd app].
    set (e := (length pre + length (tagtxt t ++ render_tags r))%nat) in *.
    set (idx := starts (length pre) (t :: r) ++ [S e]) in *.
    destruct Hsound as [mids [Hmids [Hch _]]]. cbn [app] in Hmids. subst mids.
    pose proof (lay_render r t pre post buf B1 Ht Hr) as Hlay. fold e in Hlay. fold idx in Hlay.
    assert (Hlen : length idx = S (length (t :: r))) by (apply (lay_length buf idx _ Hlay)).
    replace (length idx - 1)%nat with (length (t :: r)) by lia.
    assert (Hside : (0 + (length (t :: r) - 1) + 1 = length (t :: r) \/ (length (t :: r) - 1 = 0 /\ 0 + 1 >= length (t :: r)))%nat) by (left; cbn [length]; lia).
    rewrite (sorted_pass_lay buf idx (t :: r) Hlay (length (t :: r) - 1) 0 Hside).
    cbn [skipn].
    assert (He : e = length (m ++ kr)) by (unfold e; rewrite Lpre, Hkr; llen; lia).
    assert (Hwhole : slice buf 0 e = Ok (m ++ kr)).
    { rewrite He. unfold buf. rewrite app_assoc. apply slice_prefix. }
    destruct (adj_pass_cases (map fst (t :: r))) as [[b Hb]|Herr]; [|exfalso; eapply adj_pass_nodup; eassumption].
    rewrite Hb. cbn [bind]. destruct b.
    + (* already sorted *)
      cbn [negb andb]. rewrite Hwhole. cbn [bind].
      rewrite (isort_ssorted fst (t :: r) (adj_pass_true _ Hb)).
      f_equal. f_equal; try reflexivity; exact He.
    + (* sort *)
      change (0 <? length (t :: r))%nat with true. cbn [negb andb].
      assert (Hidx0 : nth_error idx 0 = Some (length pre)) by reflexivity.
      rewrite (rdi_nth _ _ _ Hidx0). cbn [bind].
      assert (Hmeas : slice_m1 buf 0 (length pre) = Ok m).
      { rewrite Lpre. replace (length m + 1)%nat with (S (length m)) by lia. cbn [slice_m1].
        unfold buf. apply slice_prefix. }
      rewrite Hmeas. cbn [bind].
      destruct (lay_starts_facts buf idx (t :: r) Hch Hlay) as [Hmap Hfacts].
      set (st := firstn (length (t :: r)) idx) in *.
      assert (Hscans : Forall (scans buf) st).
      { eapply Forall_impl; [|exact Hfacts]. intros a [Hat [Hwf _]].
        unfold scans. rewrite (at_tag_scan_to buf a _ Hat Hwf). eauto. }
      rewrite (insertion_sort_isort buf st Hscans). cbn [bind].
      set (ids := isort (key_at buf) st).
      assert (Hperm : Permutation st ids) by apply isort_perm.
      rewrite Hwhole. cbn [bind].
      set (L := length (m ++ kr)).
      assert (HLe : L = e) by (unfold L; rewrite He; reflexivity).
      assert (Hfm : firstn L m = m) by (apply firstn_all2; unfold L; llen; lia).
      rewrite Hfm.
      assert (Hfacts' : Forall (fun a => at_tag buf a (tag_of buf a) /\ wf_tag (tag_of buf a) = true /\
                   tagtext buf a = tagtxt (tag_of buf a) /\ (exists e0, seg buf a e0)) ids).
      { eapply Permutation_Forall; eassumption. }
      rewrite rebuild_key_ok.
      2:{ eapply Forall_impl; [|exact Hfacts']. intros a [_ [_ [_ Hs]]]. exact Hs. }
      2:{ rewrite <- (sum_seglen_perm buf _ _ Hperm).
          assert (Hrl : st = removelast idx).
          { unfold st. rewrite removelast_firstn_len. f_equal. lia. }
          rewrite Hrl. destruct (chain_sum buf idx Hch ltac:(lia)) as [Hsum _].
          assert (Hhd : hd 0%nat idx = length pre) by reflexivity.
          assert (Hlast : last idx 0%nat = S e) by (unfold idx; apply last_last).
          rewrite Hhd, Hlast in Hsum. rewrite HLe. lia. }
      cbn [bind].
      (* the sorted indices carry the sorted tags *)
      assert (Hmapids : map (tag_of buf) ids = isort fst (t :: r)).
      { unfold ids. rewrite (isort_map (key_at buf) fst (tag_of buf)) by (intros a; reflexivity).
        transitivity (isort fst (map (tag_of buf) (firstn (length (t :: r)) idx))); [reflexivity|exact (f_equal (isort fst) Hmap)]. }
      assert (Hss : ssorted fst (map (tag_of buf) ids)).
      { rewrite Hmapids. apply asorted_nodup_ssorted; [apply isort_sorted|].
        eapply nodup_map_perm; [apply isort_perm|exact Hnd]. }
      rewrite (dup_pass_ok buf ids (tag_of buf)).
      * cbn [bind]. f_equal. f_equal; [exact He|]. f_equal.
        rewrite <- Hmapids. clear -Hfacts'. induction ids as [|a l IH]; [reflexivity|].
        inversion Hfacts' as [|? ? [_ [_ [Htt _]]] Hl]; subst. cbn [flat_map map render_tags].
        rewrite Htt. fold (render_tags (map (tag_of buf) l)). rewrite (IH Hl). reflexivity.
      * intros a Ha. rewrite Forall_forall in Hfacts'. destruct (Hfacts' a Ha) as [H1 [H2 _]]. auto.
      * exact Hss.
      * assert (Hli : length ids = length (t :: r)).
        { rewrite <- (Permutation_length Hperm). unfold st. rewrite firstn_length. lia. }
        cbn [length] in *. destruct (length r); [right; reflexivity|left; lia].
Qed.

(* the key does not depend on the order in which the tags were written *)
Theorem key_perm_invariant m ts ts' post post' :
  wf_meas m = true -> forallb wf_tag ts = true -> NoDup (map fst ts) -> Permutation ts ts' ->
  exists i i' key,
    scan_key (m ++ render_tags ts ++ c_space :: post) 0 = Ok (i, key) /\
    scan_key (m ++ render_tags ts' ++ c_space :: post') 0 = Ok (i', key).
Proof.
  intros Hm Hts Hnd Hp.
  assert (Hts' : forallb wf_tag ts' = true).
  { rewrite forallb_forall in *. intros x Hx. apply Hts. eapply Permutation_in; [apply Permutation_sym; exact Hp|exact Hx]. }
  assert (Hnd' : NoDup (map fst ts')) by (eapply nodup_map_perm; eassumption).
  exists (length (m ++ render_tags ts)), (length (m ++ render_tags ts')), (m ++ render_tags (isort fst ts)).
  split; [apply scan_key_complete; assumption|].
  rewrite (scan_key_complete m ts' post' Hm Hts' Hnd'). f_equal. f_equal. f_equal. f_equal.
  (* two strictly sorted permutations of the same tags *)
  symmetry. apply (ssorted_perm_eq fst).
  - apply asorted_nodup_ssorted; [apply isort_sorted|]. eapply nodup_map_perm; [apply isort_perm|exact Hnd].
  - apply asorted_nodup_ssorted; [apply isort_sorted|]. eapply nodup_map_perm; [apply isort_perm|exact Hnd'].
  - eapply perm_trans; [apply Permutation_sym, isort_perm|]. eapply perm_trans; [exact Hp|apply isort_perm].
  - intros a b Ha Hb Hk.
    assert (Ha' : In a ts) by (eapply Permutation_in; [apply Permutation_sym, isort_perm|exact Ha]).
    assert (Hb' : In b ts) by (eapply Permutation_in; [apply Permutation_sym, isort_perm|exact Hb]).
    clear -Hnd Ha' Hb' Hk. induction ts as [|x l IH]; [destruct Ha'|].
    cbn [map] in Hnd. inversion Hnd as [|? ? Hn Hnd']; subst.
    destruct Ha' as [->|Ha']; destruct Hb' as [->|Hb']; auto.
    + exfalso. apply Hn. rewrite Hk. apply in_map. exact Hb'.
    + exfalso. apply Hn. rewrite <- Hk. apply in_map. exact Ha'.
Qed.
