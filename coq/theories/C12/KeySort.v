(* C12/KeySort.v — scanKey on well-formed key text: the sortedness test, the insertion sort on
   tag indices and the rebuilt key, in terms of the tag list; the returned key is the
   measurement followed by the tags in the order of their keys, and so does not depend on
   the order they were written in (key_perm_invariant). *)
From Verif Require Import C12.Base C12.Escape C12.Scan C12.ScanFacts C12.KeyFacts C12.KeyCrash
     C12.OrderFacts C12.KeyComplete.
From VerifGen Require Import Consts.
From Coq Require Import ZifyBool ZifyNat ZifyN Permutation.
Open Scope N_scope.

Definition tag := (bytes * bytes)%type.

(* tag t occupies buf[a, a+len) and is followed by ',' or ' ' *)
Definition at_tag (buf : bytes) (a : nat) (t : tag) : Prop :=
  exists pre x post, buf = pre ++ tagtxt t ++ x :: post /\ length pre = a /\ is_term x = true.

Lemma wf_tagkey_scan_to k : wf_tagkey k = true ->
  exists c s, k = c :: s /\ (c =? c_eq) = false /\ safe (fun x => x =? c_eq) c s = true /\ (last s c =? c_bs) = false.
Proof.
  intros Hk. destruct (wf_tagkey_inv k Hk) as [c [s [-> [Hc [Hs Hl]]]]].
  exists c, s. split; [reflexivity|]. split.
  - unfold is_stop_k in Hc. apply orb_false_iff in Hc. apply Hc.
  - split; [|exact Hl]. eapply safe_weaken; [|exact Hs]. intros x Hx. unfold is_stop_k. rewrite Hx. apply orb_true_r.
Qed.

Lemma scan_to_key buf pre k post :
  buf = pre ++ k ++ c_eq :: post -> wf_tagkey k = true ->
  scan_to buf (length pre) c_eq = Ok ((length pre + length k)%nat, k).
Proof.
  intros -> Hk. destruct (wf_tagkey_scan_to k Hk) as [c [s [-> [Hc [Hs Hl]]]]].
  unfold scan_to. cbn [app].
  rewrite (scan_to_loop_complete c_eq s pre c post) by (auto; llen; lia). cbn [bind].
  replace (pre ++ c :: s ++ c_eq :: post) with (pre ++ (c :: s) ++ c_eq :: post) by reflexivity.
  replace (length pre + length s + 1)%nat with (length pre + length (c :: s))%nat by (cbn [length]; lia).
  rewrite slice_app_mid. reflexivity.
Qed.

Lemma at_tag_scan_to buf a t : at_tag buf a t -> wf_tag t = true ->
  scan_to buf a c_eq = Ok ((a + length (fst t))%nat, fst t).
Proof.
  intros [pre [x [post [Hb [<- _]]]]] Ht. destruct (wf_tag_inv t Ht) as [Hk _].
  apply (scan_to_key buf pre (fst t) (snd t ++ x :: post)); [|exact Hk].
  rewrite Hb. unfold tagtxt. lnorm. reflexivity.
Qed.

Lemma at_tag_suffix_scan_to buf a t : at_tag buf a t -> wf_tag t = true ->
  exists s, slice buf a (length buf) = Ok s /\ scan_to s 0 c_eq = Ok (length (fst t), fst t).
Proof.
  intros [pre [x [post [Hb [<- _]]]]] Ht. destruct (wf_tag_inv t Ht) as [Hk _].
  exists (tagtxt t ++ x :: post). split.
  - rewrite Hb. apply slice_suffix.
  - pose proof (scan_to_key (tagtxt t ++ x :: post) [] (fst t) (snd t ++ x :: post)) as H.
    cbn [app length Nat.add] in H. apply H; [|exact Hk]. unfold tagtxt. lnorm. reflexivity.
Qed.

Lemma tagtxt_scan_to t : wf_tag t = true -> scan_to (tagtxt t) 0 c_eq = Ok (length (fst t), fst t).
Proof.
  intros Ht. destruct (wf_tag_inv t Ht) as [Hk _].
  pose proof (scan_to_key (tagtxt t) [] (fst t) (snd t)) as H. cbn [app length Nat.add] in H.
  apply H; [reflexivity|exact Hk].
Qed.

(* ---- layout of the index table ---- *)
Inductive lay (buf : bytes) : list nat -> list tag -> Prop :=
| lay_end fin : lay buf [fin] []
| lay_cons a b rest t ts :
    b = (a + length (tagtxt t) + 1)%nat -> at_tag buf a t -> wf_tag t = true ->
    lay buf (b :: rest) ts -> lay buf (a :: b :: rest) (t :: ts).

Lemma lay_render : forall ts t pre post buf,
  buf = pre ++ tagtxt t ++ render_tags ts ++ c_space :: post ->
  wf_tag t = true -> forallb wf_tag ts = true ->
  lay buf (starts (length pre) (t :: ts) ++ [S (length pre + length (tagtxt t ++ render_tags ts))]) (t :: ts).
Proof.
  induction ts as [|t2 ts IH]; intros t pre post buf Hb Ht Hts.
  - cbn [starts render_tags flat_map app]. rewrite app_nil_r.
    apply lay_cons; [lia| |exact Ht|constructor].
    exists pre, c_space, post. split; [|split; reflexivity]. rewrite Hb. cbn [render_tags flat_map app]. reflexivity.
  - cbn [forallb] in Hts. apply andb_true_iff in Hts. destruct Hts as [Ht2 Hts].
    cbn [starts app].
    set (pre2 := pre ++ tagtxt t ++ [c_comma]).
    assert (Hl2 : (length pre + length (tagtxt t) + 1)%nat = length pre2) by (unfold pre2; llen; lia).
    assert (Hb2 : buf = pre2 ++ tagtxt t2 ++ render_tags ts ++ c_space :: post).
    { rewrite Hb. unfold pre2. cbn [render_tags flat_map]. fold (render_tags ts). lnorm. reflexivity. }
    specialize (IH t2 pre2 post buf Hb2 Ht2 Hts).
    rewrite Hl2. cbn [starts app] in IH.
    replace (S (length pre + length (tagtxt t ++ render_tags (t2 :: ts))))
      with (S (length pre2 + length (tagtxt t2 ++ render_tags ts))).
    2:{ unfold pre2. cbn [render_tags flat_map]. fold (render_tags ts). llen. lia. }
    apply lay_cons; [lia| |exact Ht|exact IH].
    exists pre, c_comma, (tagtxt t2 ++ render_tags ts ++ c_space :: post). split; [|split; reflexivity].
    rewrite Hb. cbn [render_tags flat_map]. fold (render_tags ts). lnorm. reflexivity.
Qed.

Lemma lay_length buf idx ts : lay buf idx ts -> length idx = S (length ts).
Proof. induction 1; cbn [length]; [reflexivity|]. cbn [length] in IHlay. lia. Qed.

Lemma lay_nth buf idx ts : lay buf idx ts -> forall j t, nth_error ts j = Some t ->
  exists a b, nth_error idx j = Some a /\ nth_error idx (S j) = Some b /\
              b = (a + length (tagtxt t) + 1)%nat /\ at_tag buf a t /\ wf_tag t = true.
Proof.
  induction 1 as [|a b rest t ts Hb Hat Hwf Hl IH]; intros j u Hj; [destruct j; discriminate|].
  destruct j.
  - cbn in Hj. inversion Hj; subst. exists a, (a + length (tagtxt u) + 1)%nat. repeat split; auto.
  - cbn in Hj. destruct (IH j u Hj) as [a' [b' H]]. exists a', b'. exact H.
Qed.

Lemma at_tag_slice_m1 buf a t : at_tag buf a t -> slice_m1 buf a (a + length (tagtxt t) + 1) = Ok (tagtxt t).
Proof.
  intros [pre [x [post [Hb [<- _]]]]]. replace (length pre + length (tagtxt t) + 1)%nat with (S (length pre + length (tagtxt t))) by lia.
  cbn [slice_m1]. rewrite Hb. apply slice_app_mid.
Qed.

(* ---- the sortedness test on adjacent tag keys ---- *)
Fixpoint adj_pass (ks : list bytes) : res bool :=
  match ks with
  | k1 :: r => match r with
               | k2 :: _ => match bytes_cmp k1 k2 with
                            | Gt => Ok false
                            | Eq => Err 7
                            | Lt => adj_pass r
                            end
               | [] => Ok true
               end
  | [] => Ok true
  end.

Lemma sorted_pass_lay buf idx ts : lay buf idx ts -> forall n j,
  (j + n + 1 = length ts \/ (n = 0 /\ j + 1 >= length ts))%nat ->
  sorted_pass n buf idx j = adj_pass (map fst (skipn j ts)).
Proof.
  intros Hl n. induction n as [|n IH]; intros j Hj; cbn [sorted_pass].
  - (* no more comparisons: at most one tag left *)
    assert (Hsk : (length (skipn j ts) <= 1)%nat) by (rewrite skipn_length; lia).
    destruct (skipn j ts) as [|t1 [|t2 r]]; cbn [length] in Hsk; try lia; reflexivity.
  - destruct Hj as [Hj|[Hj _]]; [|discriminate].
    destruct (nth_error_lt ts j ltac:(lia)) as [t1 H1]. destruct (nth_error_lt ts (S j) ltac:(lia)) as [t2 H2].
    destruct (lay_nth buf idx ts Hl j t1 H1) as [a [b [Ha [Hb [Hbe [Hat1 Hw1]]]]]].
    destruct (lay_nth buf idx ts Hl (S j) t2 H2) as [b' [c [Hb' [Hc [Hce [Hat2 Hw2]]]]]].
    rewrite Hb in Hb'. inversion Hb'; subst b'. clear Hb'.
    rewrite (rdi_nth _ _ _ Ha). replace (j + 1)%nat with (S j) by lia. rewrite (rdi_nth _ _ _ Hb).
    replace (j + 2)%nat with (S (S j)) by lia. rewrite (rdi_nth _ _ _ Hc). cbn [bind].
    rewrite Hbe, (at_tag_slice_m1 buf a t1 Hat1). rewrite Hce, <- Hbe, (at_tag_slice_m1 buf b t2 Hat2). cbn [bind].
    rewrite (tagtxt_scan_to t1 Hw1), (tagtxt_scan_to t2 Hw2). cbn [bind snd].
    (* skipn j ts = t1 :: t2 :: ... *)
    assert (Hsk : skipn j ts = t1 :: skipn (S j) ts).
    { clear -H1. revert j H1. induction ts as [|x r IHr]; intros j H1; [destruct j; discriminate|].
      destruct j; [cbn in H1; inversion H1; reflexivity|]. cbn [skipn]. apply IHr. exact H1. }
    assert (Hsk2 : skipn (S j) ts = t2 :: skipn (S (S j)) ts).
    { clear -H2. revert H2. generalize (S j) as i. intros i. revert i. induction ts as [|x r IHr]; intros i H2; [destruct i; discriminate|].
      destruct i; [cbn in H2; inversion H2; reflexivity|]. cbn [skipn]. apply IHr. exact H2. }
    rewrite Hsk, Hsk2. cbn [map adj_pass fst].
    destruct (bytes_cmp (fst t1) (fst t2)); try reflexivity.
    rewrite IH; [rewrite Hsk2; reflexivity|].
    destruct n; [right; lia|left; lia].
Qed.

(* all adjacent keys strictly increasing *)
Lemma adj_pass_true (ts : list tag) : adj_pass (map fst ts) = Ok true -> ssorted fst ts.
Proof.
  induction ts as [|t1 r IH]; intros H; [constructor|].
  destruct r as [|t2 r']; [constructor|].
  cbn [map adj_pass] in H. destruct (bytes_cmp (fst t1) (fst t2)) eqn:E; try discriminate.
  constructor; [exact E|]. apply IH. exact H.
Qed.

Lemma adj_pass_nodup (ts : list tag) : NoDup (map fst ts) -> adj_pass (map fst ts) <> Err 7.
Proof.
  induction ts as [|t1 r IH]; intros Hnd; [discriminate|].
  destruct r as [|t2 r']; [discriminate|].
  cbn [map] in *. inversion Hnd as [|? ? Hn Hnd']; subst. cbn [adj_pass].
  destruct (bytes_cmp (fst t1) (fst t2)) eqn:E.
  - apply bytes_cmp_eq in E. exfalso. apply Hn. left. symmetry. exact E.
  - apply IH. exact Hnd'.
  - discriminate.
Qed.

Lemma adj_pass_cases ks : (exists b, adj_pass ks = Ok b) \/ adj_pass ks = Err 7.
Proof.
  induction ks as [|k1 r IH]; [left; eexists; reflexivity|].
  destruct r as [|k2 r']; [left; eexists; reflexivity|].
  cbn [adj_pass]. destruct (bytes_cmp k1 k2); [right; reflexivity|exact IH|left; eexists; reflexivity].
Qed.

(* ---- insertion sort on indices = sort of the keys found there ---- *)
Definition key_at (buf : bytes) (a : nat) : bytes :=
  match scan_to buf a c_eq with Ok (_, k) => k | _ => [] end.

Definition scans (buf : bytes) (a : nat) : Prop := exists e k, scan_to buf a c_eq = Ok (e, k).

Lemma tag_less_key_at buf a b : scans buf a -> scans buf b ->
  tag_less buf a b = Ok (kless (key_at buf) a b).
Proof.
  intros [ea [ka Ha]] [eb [kb Hb]]. unfold tag_less, kless, key_at. rewrite Ha, Hb. reflexivity.
Qed.

Lemma insert_left_isort buf x rp : scans buf x -> Forall (scans buf) rp ->
  insert_left buf x rp = Ok (ins_left (key_at buf) x rp).
Proof.
  intros Hx. induction rp as [|y r IH]; intros Hr; [reflexivity|].
  inversion Hr as [|? ? Hy Hr']; subst. cbn [insert_left ins_left].
  rewrite (tag_less_key_at buf x y Hx Hy). cbn [bind].
  destruct (kless (key_at buf) x y); [|reflexivity]. rewrite (IH Hr'). reflexivity.
Qed.

Lemma insertion_sort_from_isort buf : forall rest rp, Forall (scans buf) rp -> Forall (scans buf) rest ->
  insertion_sort_from buf rp rest = Ok (isort_from (key_at buf) rp rest).
Proof.
  intros rest. induction rest as [|x r IH]; intros rp Hrp Hrest; [reflexivity|].
  inversion Hrest as [|? ? Hx Hr]; subst. cbn [insertion_sort_from isort_from].
  rewrite (insert_left_isort buf x rp Hx Hrp). cbn [bind]. apply IH; [|exact Hr].
  eapply Permutation_Forall; [apply ins_left_perm|]. constructor; assumption.
Qed.

Lemma insertion_sort_isort buf l : Forall (scans buf) l -> insertion_sort buf l = Ok (isort (key_at buf) l).
Proof.
  intros H. destruct l as [|x r]; [reflexivity|]. inversion H; subst.
  apply insertion_sort_from_isort; [constructor; [assumption|constructor]|assumption].
Qed.

(* ---- second duplicate pass over sorted indices ---- *)
Lemma dup_pass_ok buf ids (f : nat -> tag) :
  (forall a, In a ids -> at_tag buf a (f a) /\ wf_tag (f a) = true) ->
  ssorted fst (map f ids) -> forall n j, (j + n < length ids \/ n = 0)%nat ->
  dup_pass n buf ids j = Ok tt.
Proof.
  intros Hat Hss n. induction n as [|n IH]; intros j Hj; cbn [dup_pass]; [reflexivity|].
  destruct Hj as [Hj|Hj]; [|lia].
  destruct (nth_error_lt ids j ltac:(lia)) as [a Ha]. destruct (nth_error_lt ids (j + 1) ltac:(lia)) as [b Hb].
  rewrite (rdi_nth _ _ _ Ha), (rdi_nth _ _ _ Hb). cbn [bind].
  destruct (Hat a (nth_error_In _ _ Ha)) as [Hta Hwa]. destruct (Hat b (nth_error_In _ _ Hb)) as [Htb Hwb].
  destruct (at_tag_suffix_scan_to buf a (f a) Hta Hwa) as [sa [Hsa Hka]].
  destruct (at_tag_suffix_scan_to buf b (f b) Htb Hwb) as [sb [Hsb Hkb]].
  rewrite Hsa, Hsb. cbn [bind]. rewrite Hka, Hkb. cbn [bind snd].
  (* adjacent keys of a strictly sorted list differ *)
  assert (Hlt : bytes_cmp (fst (f a)) (fst (f b)) = Lt).
  { clear -Ha Hb Hss. replace (j + 1)%nat with (S j) in Hb by lia. revert j Ha Hb.
    induction ids as [|x r IHr]; intros j Ha Hb; [destruct j; discriminate|].
    destruct j.
    - cbn in Ha. inversion Ha; subst. destruct r as [|y r']; [discriminate|]. cbn in Hb. inversion Hb; subst.
      cbn [map] in Hss. inversion Hss; subst. assumption.
    - cbn in Ha, Hb. apply (IHr ltac:(cbn [map] in Hss; inversion Hss; subst; [constructor|assumption]) j Ha Hb). }
  rewrite bytes_eqb_cmp, Hlt. apply IH. destruct n; [right; reflexivity|left; lia].
Qed.
