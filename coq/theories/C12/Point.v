(* C12/Point.v — parsePoint / ParsePointsWithPrecision, the point value, the field iterator,
   String/AppendString, HashID, MarshalBinary/UnmarshalBinary/NewPointFromBytes,
   hh.marshalWrite/unmarshalWrite, WriteShardRequest.unmarshalPoints.  Definitions only. *)
From Verif Require Export C12.Base C12.Escape C12.Scan.
From VerifGen Require Import Consts.
Open Scope N_scope.

(* ---- time.Time as far as the point code uses it ----
   [t_sec] = Time.sec() (seconds since year 1), [t_nsec] = Time.nsec(), [t_utc] = the location
   is UTC.  Times come from time.Unix(0, ns).UTC() or from Time.UnmarshalBinary. *)
Record tm := mk_tm { t_sec : Z; t_nsec : Z; t_utc : bool }.

Definition unix_to_internal : Z := 62135596800%Z.
Definition wall_to_internal : Z := 59453308800%Z.
Definition two30 : N := 1073741824.

Definition tm_is_zero (t : tm) : bool := ((t_sec t =? 0) && (t_nsec t =? 0))%Z.
(* UnixNano = (sec + internalToUnix) * 1e9 + nsec on wrapping int64 *)
Definition tm_unix_nano (t : tm) : Z :=
  zwrap64 (zwrap64 (zwrap64 (t_sec t - unix_to_internal) * 1000000000) + t_nsec t)%Z.

(* time.Unix(0, ns).UTC() *)
Definition tm_of_unix_nano (ns : Z) : tm :=
  mk_tm (ns / 1000000000 + unix_to_internal)%Z (ns mod 1000000000)%Z true.

Record point := mk_point { p_key : bytes; p_fields : bytes; p_time : tm }.

Definition lookup_bytes {A} (tbl : list (list N * A)) (k : bytes) : option A :=
  match find (fun e => bytes_eqb (fst e) k) tbl with Some e => Some (snd e) | None => None end.

Definition precision_multiplier (prec : bytes) : Z :=
  match lookup_bytes c12_precision_table prec with Some m => m | None => c12_precision_default end.

(* safeSignedMult *)
Definition safe_signed_mult (a b : Z) : Z * bool :=
  if ((a =? 0) || (b =? 0) || (a =? 1) || (b =? 1))%Z then (zwrap64 (a * b), true)
  else if ((a =? c12_min_nano_time) || (b =? c12_max_nano_time))%Z then (0%Z, false)
  else let c := zwrap64 (a * b) in (c, (Z.quot c b =? a)%Z).

(* SafeCalcTime + CheckTime *)
Definition safe_calc_time (ts : Z) (prec : bytes) : res tm :=
  let '(t, ok) := safe_signed_mult ts (precision_multiplier prec) in
  if ok then
    (if ((t <? c12_min_nano_time) || (c12_max_nano_time <? t))%Z then Err 20 else Ok (tm_of_unix_nano t))
  else Err 20.

(* point.SetPrecision on the default time (a UTC time given by its Unix nanoseconds, after
   year 1): Truncate(d) rounds down to a multiple of d since the zero time; the Unix epoch
   is a whole number of hours after it *)
Definition set_precision (ns : Z) (prec : bytes) : Z :=
  match lookup_bytes c12_truncate_table prec with
  | Some d => if (0 <? d)%Z then (ns - ns mod d)%Z else ns
  | None => ns
  end.

Section WithOracle.
Variable parse_float : bytes -> option N.
Variable uint_support : bool.

Fixpoint trailing_spaces (fuel : nat) (buf : bytes) (pos : nat) : res unit :=
  match fuel with
  | O => Err fuel_err
  | S f => match get buf pos with
           | None => Ok tt
           | Some c => if c =? c_space then trailing_spaces f buf (S pos) else Err 21
           end
  end.

(* ---- parsePoint ---- *)
Definition parse_point (buf : bytes) (default_ns : Z) (prec : bytes) : res point :=
  let* k := scan_key buf 0 in
  let '(pos, key) := k in
  match key with
  | [] => Err 22
  | _ =>
    if c12_max_key_length <? N.of_nat (length key) then Err 19
    else
      let* fl := scan_fields parse_float uint_support buf pos in
      let '(pos, fields) := fl in
      match fields with
      | [] => Err 23
      | _ =>
        let* _ := walk_fields_keysize (S (length fields)) (length key) fields in
        let* tsr := scan_time buf pos in
        let '(pos, ts) := tsr in
        match ts with
        | [] => Ok (mk_point key fields (tm_of_unix_nano (set_precision default_ns prec)))
        | _ =>
          match parse_int64 ts with
          | None => Err 24
          | Some v =>
            let* t := safe_calc_time v prec in
            let* _ := trailing_spaces (S (length buf)) buf pos in
            Ok (mk_point key fields t)
          end
        end
      end
  end.

(* ---- ParsePointsWithPrecision ---- *)
Inductive line_res := LPoint (p : point) | LErr.

Definition process_block (block : bytes) (default_ns : Z) (prec : bytes) : res (list line_res) :=
  match block with
  | [] => Ok []
  | _ =>
    let start := skip_whitespace block 0 in
    match get block start with
    | None => Ok []                                (* all whitespace *)
    | Some c =>
      if c =? c_hash then Ok []
      else
        let* lastc := rdm block (length block) 1 in
        let* blk := (if lastc =? c_nl then slice block 0 (length block - 1) else Ok block) in
        let* sub := slice blk start (length blk) in
        match parse_point sub default_ns prec with
        | Ok p => Ok [LPoint p]
        | Err _ => Ok [LErr]
        | Crash => Crash
        end
    end
  end.

Fixpoint parse_points_loop (fuel : nat) (buf : bytes) (pos : nat) (default_ns : Z) (prec : bytes)
  : res (list line_res) :=
  match fuel with
  | O => Err fuel_err
  | S f =>
    if (pos <? length buf)%nat then
      let* l := scan_line buf pos in
      let '(e, block) := l in
      let* r := process_block block default_ns prec in
      let* rest := parse_points_loop f buf (S e) default_ns prec in
      Ok (r ++ rest)
    else Ok []
  end.

Definition parse_points (buf : bytes) (default_ns : Z) (prec : bytes) : res (list line_res) :=
  parse_points_loop (S (length buf)) buf 0 default_ns prec.

(* ---- field iterator (point.Next and the typed accessors) ---- *)

(* StringValue: valueBuf[1:len-1] *)
Definition string_value (v : bytes) : res bytes :=
  let* s := slice_m1 v 1 (length v) in Ok (unescape_string_field s).

Definition is_numeric_start (c : N) : bool :=
  mem c [48;49;50;51;52;53;54;55;56;57;45;46;110;78;105;73;117].

Definition strip_last (v : bytes) : bytes := firstn (length v - 1) v.

(* type and value of one field; [check_only]: NewPointFromBytes does not call StringValue *)
Definition field_value (check_only : bool) (v : bytes) : res fvalue :=
  match v with
  | [] => Ok FEmpty
  | c :: _ =>
    if c =? c_quote then
      (if check_only then (if (length v <? 2)%nat then Err 30 else Ok (FString []))
       else let* s := string_value v in Ok (FString s))
    else if is_numeric_start c then
      let* l := rdm v (length v) 1 in
      if l =? c_i then
        match parse_int64 (strip_last v) with Some z => Ok (FInt z) | None => Err 31 end
      else if l =? c_u then
        match parse_uint64 (strip_last v) with Some n => Ok (FUint n) | None => Err 32 end
      else
        match parse_float v with Some b => Ok (FFloat b) | None => Err 33 end
    else
      match parse_bool v with Some b => Ok (FBool b) | None => Err 34 end
  end.

(* iterate like unmarshalBinary / NewPointFromBytes: fields with an empty key are skipped;
   the first undecodable value ends with that error.  [slack]: see scan_field_value. *)
Fixpoint iter_fields (fuel : nat) (slack : nat) (check_only : bool) (fields : bytes) (start : nat)
  : res (list (bytes * fvalue)) :=
  match fuel with
  | O => Err fuel_err
  | S f =>
    if (length fields <=? start)%nat then Ok []
    else
      let* k := scan_to fields start c_eq in
      let '(e1, rawkey) := k in
      let key := iter_field_key rawkey in
      let* v := scan_field_value slack fields (e1 + 1) in
      let '(e2, vb) := v in
      let next := S e2 in
      match key with
      | [] => iter_fields f slack check_only fields next
      | _ =>
        let* fv := field_value check_only vb in
        let* rest := iter_fields f slack check_only fields next in
        Ok ((key, fv) :: rest)
      end
  end.

(* point.Fields() (as the ordered sequence the iterator yields; Empty-typed entries are
   not stored in the map) *)
Definition point_fields (slack : nat) (p : point) : res (list (bytes * fvalue)) :=
  let* l := iter_fields (S (length (p_fields p))) slack false (p_fields p) 0 in
  Ok (filter (fun kv => match snd kv with FEmpty => false | _ => true end) l).

End WithOracle.

(* ---- String / AppendString ---- *)
Definition point_string (p : point) : bytes :=
  if tm_is_zero (p_time p) then p_key p ++ [c_space] ++ p_fields p
  else p_key p ++ [c_space] ++ p_fields p ++ [c_space] ++ fmt_z (tm_unix_nano (p_time p)).

(* ---- HashID: FNV-64a, multiplication mod 2^64 ---- *)
Definition fnv64a (l : bytes) : N :=
  fold_left (fun h c => (N.lxor h c * c12_prime64) mod two64) l c12_offset64.
Definition hash_id (p : point) : N := fnv64a (p_key p).

(* ---- binary form ---- *)
(* Time.MarshalBinary for a UTC time (version 1, offset -1) *)
Definition tm_marshal (t : tm) : bytes :=
  [1] ++ be_enc 8 (of_int64 (t_sec t)) ++ be_enc 4 (Z.to_N (t_nsec t)) ++ [255; 255].

Definition marshal_binary (p : point) : res bytes :=
  match p_fields p with
  | [] => Err 40
  | _ =>
    if t_utc (p_time p) then
      Ok (be_enc 4 (N.of_nat (length (p_key p))) ++ p_key p ++
          be_enc 4 (N.of_nat (length (p_fields p))) ++ p_fields p ++ tm_marshal (p_time p))
    else Err 98        (* non-UTC zones are outside the model *)
  end.

(* Time.UnmarshalBinary: version 1 (15 bytes) or 2 (16 bytes) *)
Definition tm_unmarshal (b : bytes) : res tm :=
  match b with
  | [] => Err 41
  | v :: _ =>
    if negb ((v =? 1) || (v =? 2)) then Err 42
    else if negb (length b =? (if (v =? 2)%N then 16 else 15))%nat then Err 43
    else
      let* secb := slice b 1 9 in
      let* nsb := slice b 9 13 in
      let* offb := slice b 13 15 in
      let nsec32 := be_dec nsb in
      (* t.wall = uint64(int32 nsec); a negative nsec sets the hasMonotonic bit, which setLoc
         strips again: ext = wallToInternal + wall<<1>>31, wall &= nsecMask *)
      let wall := if nsec32 <? 2147483648 then nsec32 else (two64 - 4294967296 + nsec32) in
      let sec := if nsec32 <? 2147483648 then to_int64 (be_dec secb)
                 else zwrap64 (wall_to_internal + Z.of_N (((wall * 2) mod two64) / 2147483648))%Z in
      let nsec := Z.of_N (wall mod two30) in
      let* sb := (if v =? 2 then rd b 15 else Ok 0) in
      let offm : Z := if be_dec offb <? 32768 then Z.of_N (be_dec offb) else (Z.of_N (be_dec offb) - 65536)%Z in
      let off : Z := (offm * 60 + Z.of_N sb)%Z in
      Ok (mk_tm sec nsec (off =? -60)%Z)
  end.

Definition unmarshal_binary (b : bytes) : res point :=
  match take 4 b with
  | None => Err 44
  | Some (h1, b1) =>
    (* int(binary.BigEndian.Uint32(..)) is non-negative on 64-bit ints; compared before
       it is used as a length *)
    if N.of_nat (length b1) <? be_dec h1 then Err 44
    else
      let n := N.to_nat (be_dec h1) in
      let* key := slice b1 0 n in
      let* b2 := slice b1 n (length b1) in
      match take 4 b2 with
      | None => Err 44
      | Some (h2, b3) =>
        if N.of_nat (length b3) <? be_dec h2 then Err 44
        else
          let n2 := N.to_nat (be_dec h2) in
          let* fields := slice b3 0 n2 in
          let* b4 := slice b3 n2 (length b3) in
          let* t := tm_unmarshal b4 in
          Ok (mk_point key fields t)
      end
  end.

Section WithOracle2.
Variable parse_float : bytes -> option N.

(* NewPointFromBytes; the fields slice is followed by the (>= 15) time bytes in the same
   array, hence slack >= 1 *)
Definition new_point_from_bytes (b : bytes) : res point :=
  let* p := unmarshal_binary b in
  let* l := iter_fields parse_float (S (length (p_fields p))) 15 true (p_fields p) 0 in
  match l with
  | [] => Err 45                 (* point without fields *)
  | _ => Ok p
  end.

(* WriteShardRequest.unmarshalPoints (as repaired): undecodable points are dropped *)
Fixpoint unmarshal_points (bs : list bytes) : res (list point) :=
  match bs with
  | [] => Ok []
  | b :: r =>
    match new_point_from_bytes b with
    | Ok p => let* rest := unmarshal_points r in Ok (p :: rest)
    | Err _ => unmarshal_points r
    | Crash => Crash
    end
  end.
End WithOracle2.

(* ---- hinted handoff: marshalWrite / unmarshalWrite ---- *)
Fixpoint marshal_write_points (pts : list point) : bytes :=
  match pts with
  | [] => []
  | p :: r => match marshal_binary p with
              | Ok pb => be_enc 4 (N.of_nat (length pb)) ++ pb ++ marshal_write_points r
              | _ => marshal_write_points r
              end
  end.
Definition marshal_write (shard : N) (pts : list point) : bytes :=
  be_enc 8 shard ++ marshal_write_points pts.

(* result: shard id, the point slices decoded so far, and whether an error was returned *)
Fixpoint unmarshal_write_loop (fuel : nat) (b : bytes) (acc : list bytes) : res (list bytes * bool) :=
  match fuel with
  | O => Err fuel_err
  | S f =>
    match b with
    | [] => Ok (acc, true)
    | _ =>
      match take 4 b with
      | None => Ok (acc, false)
      | Some (h, b1) =>
        if N.of_nat (length b1) <? be_dec h then Ok (acc, false)
        else
          let n := N.to_nat (be_dec h) in
          let* pb := slice b1 0 n in
          let* b2 := slice b1 n (length b1) in
          unmarshal_write_loop f b2 (acc ++ [pb])
      end
    end
  end.
Definition unmarshal_write (b : bytes) : res (N * list bytes * bool) :=
  match take 8 b with
  | None => Err 46
  | Some (h, b1) =>
    let* r := unmarshal_write_loop (S (length b1)) b1 [] in
    Ok (be_dec h, fst r, snd r)
  end.
