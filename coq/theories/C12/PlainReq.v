(* C12/PlainReq.v — the round trip at the level of the request (ParsePointsWithPrecision): a printed
   point whose text contains no newline, double quote or backslash (no string fields, no special
   bytes in names) and does not start with '#', sent as the whole request, yields exactly that
   one point and no error. *)
From Verif Require Import C12.Base C12.Escape C12.Scan C12.Point C12.Spec C12.Print C12.ScanFacts C12.KeyFacts C12.OrderFacts
     C12.KeyComplete C12.LineProofs C12.EscapeProofs C12.TimeProofs C12.KeySort C12.KeyTheorem C12.SpecLink C12.TimeExact
     C12.TimeLine C12.FieldNum C12.FieldScan C12.FieldIter C12.FieldAsm C12.LineRound C12.Reprint.
From VerifGen Require Import Consts.
From Coq Require Import ZifyBool ZifyNat ZifyN Permutation.
Open Scope N_scope.

Section Oracle.
Variable pf : bytes -> option N.
Variable us : bool.

(* one plain line that parsePoint accepts is one point of the request *)
Lemma plain_line_request (l : bytes) pt dflt prec :
  forallb very_plain l = true ->
  match l with c :: _ => is_ws c = false /\ (c =? c_hash) = false | [] => False end ->
  parse_point pf us l dflt prec = Ok pt ->
  parse_points pf us l dflt prec = Ok [LPoint pt].
Proof.
  intros Hplain Hhd Hpp. destruct l as [|c r]; [destruct Hhd|]. destruct Hhd as [Hws Hh].
  rewrite parse_points_one_block by (exact Hplain || discriminate).
  assert (Hblock : process_block pf us (c :: r) dflt prec = Ok [LPoint pt]).
  { unfold process_block.
    assert (Hsk : skip_whitespace (c :: r) 0 = 0%nat).
    { unfold skip_whitespace. cbn [length skip_ws get nth_error]. rewrite Hws. reflexivity. }
    rewrite Hsk. cbn [get nth_error]. rewrite Hh.
    set (l := c :: r) in *.
    destruct (rdm_lt l (length l) 1 ltac:(unfold l; cbn [length]; lia) ltac:(unfold l; cbn [length]; lia)) as [lc [Hrd Hget]].
    rewrite Hrd. cbn [bind].
    assert (Hlc : (lc =? c_nl) = false).
    { rewrite forallb_forall in Hplain. specialize (Hplain lc (nth_error_In _ _ Hget)). unfold very_plain in Hplain.
      apply andb_true_iff in Hplain. destruct Hplain as [Hp _]. apply andb_true_iff in Hp. destruct Hp as [H1 _].
      apply negb_true_iff in H1. exact H1. }
    rewrite Hlc. cbn [bind]. rewrite slice_full. cbn [bind]. rewrite Hpp. reflexivity. }
  rewrite Hblock. reflexivity.
Qed.

Variable ff : N -> bytes.

Theorem plain_request_roundtrip p tags' dflt prec :
  wf_point pf us ff p prec -> Permutation (a_tags p) tags' ->
  forallb very_plain (print_point ff p tags') = true ->
  match print_point ff p tags' with c :: _ => (c =? c_hash) = false | [] => True end ->
  parse_points pf us (print_point ff p tags') dflt prec =
    Ok [LPoint (mk_point (spec_key p) (print_fields ff (a_fields p)) (line_time (a_time p) prec dflt))].
Proof.
  intros Hwf Hperm Hplain Hhash.
  destruct (print_parse_roundtrip pf us ff p tags' dflt prec Hwf Hperm) as [Hpp _].
  apply plain_line_request; [exact Hplain| |exact Hpp].
  destruct Hwf as (Hok & _). unfold akey_ok in Hok. apply andb_true_iff in Hok. destruct Hok as [Hm _].
  pose proof (wf_meas_escape _ Hm) as Hwm.
  unfold print_point, key_text in *.
  destruct (spec_escape meas_set (a_meas p)) as [|c s] eqn:E; [discriminate|].
  cbn [app] in *. split; [|exact Hhash].
  cbn [wf_meas] in Hwm. apply andb_true_iff in Hwm. destruct Hwm as [Hwm _]. apply andb_true_iff in Hwm. destruct Hwm as [Hwm _].
  apply andb_true_iff in Hwm. destruct Hwm as [Hwm _]. apply negb_true_iff in Hwm. exact Hwm.
Qed.

End Oracle.
