(* C12/KeyFacts.v — what a successful scan of the key region establishes, for arbitrary input:
   every tag (and the measurement) is a segment that ends at the first unescaped ',' or ' ',
   which is exactly where scanToSpaceOr stops; the tag index table is an increasing chain of
   such segments. *)
From Verif Require Import C12.Base C12.Escape C12.Scan C12.ScanFacts.
From VerifGen Require Import Consts.
From Coq Require Import ZifyBool ZifyNat ZifyN Permutation.
Open Scope N_scope.

Definition is_term (c : N) : bool := (c =? c_comma) || (c =? c_space).

(* buf[p] is ',' or ' ' and buf[p-1] is not a backslash *)
Definition term_at (buf : bytes) (p : nat) : bool :=
  match p with
  | O => false
  | S q => match get buf p, get buf q with
           | Some c, Some d => is_term c && negb (d =? c_bs)
           | _, _ => false
           end
  end.

(* [a, e): starts with a non-terminator, e is the first unescaped terminator after a *)
Definition seg (buf : bytes) (a e : nat) : Prop :=
  (a < e)%nat /\ (e < length buf)%nat /\
  (exists c, get buf a = Some c /\ is_term c = false) /\
  (forall p, (a < p < e)%nat -> term_at buf p = false) /\
  term_at buf e = true.

Lemma scan_to_space_or_loop_seg buf a e : forall fuel i,
  seg buf a e -> (a <= i < e)%nat -> (e - i < fuel)%nat ->
  scan_to_space_or_loop fuel buf i c_comma = Ok e.
Proof.
  intros fuel. induction fuel as [|f IH]; intros i Hseg Hi Hf; [lia|].
  destruct Hseg as [Hae [Hel [Hfirst [Hno Hterm]]]].
  cbn [scan_to_space_or_loop].
  destruct (rd_lt buf i ltac:(lia)) as [p [Hp Gp]]. rewrite Hp. cbn [bind].
  destruct (get_lt_some buf (S i) ltac:(lia)) as [c Gc].
  destruct (p =? c_bs) eqn:Ebs.
  - (* the next byte is escaped: it is not the terminator *)
    assert (Hne : S i <> e).
    { intros Heq. subst e. unfold term_at in Hterm. rewrite Gc, Gp, Ebs in Hterm. cbn in Hterm.
      rewrite andb_false_r in Hterm. discriminate. }
    apply IH; [repeat split; auto|lia|lia].
  - rewrite Gc. fold (is_term c). destruct (is_term c) eqn:Et.
    + (* unescaped terminator: must be e *)
      assert (Ht : term_at buf (S i) = true).
      { unfold term_at. rewrite Gc, Gp, Et, Ebs. reflexivity. }
      destruct (Nat.eq_dec (S i) e) as [->|Hne]; [reflexivity|].
      rewrite Hno in Ht by lia. discriminate.
    + assert (Hne : S i <> e).
      { intros Heq. subst e. unfold term_at in Hterm. rewrite Gc, Gp, Et in Hterm. discriminate. }
      apply IH; [repeat split; auto|lia|lia].
Qed.

Lemma scan_to_space_or_seg buf a e :
  seg buf a e -> scan_to_space_or buf a c_comma = Ok (e, firstn (e - a) (skipn a buf)).
Proof.
  intros Hseg. pose proof Hseg as [Hae [Hel [[c [Gc Hc]] _]]].
  unfold scan_to_space_or. rewrite (rd_get _ _ _ Gc). cbn [bind].
  fold (is_term c). rewrite Hc.
  rewrite (scan_to_space_or_loop_seg buf a e _ a Hseg) by lia. cbn [bind].
  rewrite slice_ok by lia. reflexivity.
Qed.

(* ---- scanMeasurement ---- *)
Lemma scan_meas_loop_sound buf a : forall fuel i st j,
  scan_meas_loop fuel buf i = Ok (st, j) ->
  (a <= i)%nat -> (forall p, (a < p <= i)%nat -> term_at buf p = false) ->
  exists e, (i < e < length buf)%nat /\ term_at buf e = true /\
            (forall p, (a < p < e)%nat -> term_at buf p = false) /\
            match st with
            | StTagKey => j = S e /\ get buf e = Some c_comma
            | StFields => j = e /\ get buf e = Some c_space
            end.
Proof.
  intros fuel. induction fuel as [|f IH]; intros i st j H Hai Hno; cbn [scan_meas_loop] in H; [discriminate|].
  destruct (get buf (S i)) eqn:Gc; [|discriminate].
  pose proof (get_some_lt _ _ _ Gc) as Hlt.
  destruct (rd_lt buf i ltac:(lia)) as [p [Hp Gp]]. rewrite Hp in H. cbn [bind] in H.
  destruct (p =? c_bs) eqn:Ebs.
  - assert (Ht : term_at buf (S i) = false).
    { unfold term_at. rewrite Gc, Gp, Ebs. apply andb_false_r. }
    apply IH in H; [|lia|].
    + destruct H as [e [He H]]. exists e. split; [lia|exact H].
    + intros q Hq. destruct (Nat.eq_dec q (S i)) as [->|]; [exact Ht|apply Hno; lia].
  - destruct (n =? c_comma) eqn:Ecomma.
    + inversion H; subst. exists (S i). apply N.eqb_eq in Ecomma. subst n.
      split; [lia|]. split.
      { unfold term_at. rewrite Gc, Gp, Ebs. reflexivity. }
      split; [intros q Hq; apply Hno; lia|]. auto.
    + destruct (n =? c_space) eqn:Espace.
      * inversion H; subst. exists (S i). apply N.eqb_eq in Espace. subst n.
        split; [lia|]. split.
        { unfold term_at. rewrite Gc, Gp, Ebs. reflexivity. }
        split; [intros q Hq; apply Hno; lia|]. auto.
      * assert (Ht : term_at buf (S i) = false).
        { unfold term_at. rewrite Gc, Gp. unfold is_term. rewrite Ecomma, Espace. reflexivity. }
        apply IH in H; [|lia|].
        -- destruct H as [e [He H]]. exists e. split; [lia|exact H].
        -- intros q Hq. destruct (Nat.eq_dec q (S i)) as [->|]; [exact Ht|apply Hno; lia].
Qed.

Lemma scan_measurement_sound buf a st j :
  scan_measurement buf a = Ok (st, j) ->
  exists e, (a < e < length buf)%nat /\ term_at buf e = true /\
            (forall p, (a < p < e)%nat -> term_at buf p = false) /\
            match st with
            | StTagKey => j = S e /\ get buf e = Some c_comma
            | StFields => j = e /\ get buf e = Some c_space
            end.
Proof.
  unfold scan_measurement. destruct (get buf a) eqn:G; [|discriminate].
  destruct (n =? c_comma); [discriminate|]. intros H.
  apply (scan_meas_loop_sound buf a) in H; [exact H|lia|intros; lia].
Qed.

(* ---- scanTagsKey: from a, no unescaped terminator up to the returned index ---- *)
Lemma scan_tags_key_loop_sound buf a : forall fuel i j,
  scan_tags_key_loop fuel buf i = Ok j ->
  (a <= i)%nat -> (forall p, (a < p <= i)%nat -> term_at buf p = false) ->
  (i + 2 <= j)%nat /\ (j <= length buf)%nat /\ (forall p, (a < p < j)%nat -> term_at buf p = false).
Proof.
  intros fuel. induction fuel as [|f IH]; intros i j H Hai Hno; cbn [scan_tags_key_loop] in H; [discriminate|].
  destruct (get buf (S i)) eqn:Gc; [|discriminate].
  pose proof (get_some_lt _ _ _ Gc) as Hlt.
  destruct (rd_lt buf i ltac:(lia)) as [p [Hp Gp]].
  destruct ((n =? c_space) || (n =? c_comma)) eqn:Et.
  - rewrite Hp in H. cbn [bind] in H.
    destruct (negb (p =? c_bs)) eqn:Eb; [discriminate|].
    assert (Ec : n =? c_eq = false).
    { destruct (N.eqb_spec n c_eq); [|reflexivity]. subst n. cbn in Et. discriminate. }
    rewrite Ec in H. cbn [bind] in H.
    assert (Ht : term_at buf (S i) = false).
    { unfold term_at. rewrite Gc, Gp, Eb. apply andb_false_r. }
    apply IH in H; [|lia|].
    + destruct H as [H1 [H2 H3]]. repeat split; try lia. exact H3.
    + intros q Hq. destruct (Nat.eq_dec q (S i)) as [->|]; [exact Ht|apply Hno; lia].
  - cbn [bind] in H.
    assert (Ht : term_at buf (S i) = false).
    { unfold term_at. rewrite Gc, Gp. unfold is_term. rewrite orb_comm, Et. reflexivity. }
    assert (Hno' : forall q, (a < q <= S i)%nat -> term_at buf q = false).
    { intros q Hq. destruct (Nat.eq_dec q (S i)) as [->|]; [exact Ht|apply Hno; lia]. }
    destruct (n =? c_eq).
    + rewrite Hp in H. cbn [bind] in H. destruct (negb (p =? c_bs)).
      * inversion H; subst. repeat split; try lia. intros q Hq. apply Hno'. lia.
      * apply IH in H; [|lia|exact Hno']. destruct H as [H1 [H2 H3]]. repeat split; try lia. exact H3.
    + cbn [bind] in H. apply IH in H; [|lia|exact Hno'].
      destruct H as [H1 [H2 H3]]. repeat split; try lia. exact H3.
Qed.

Lemma scan_tags_key_sound buf a j :
  scan_tags_key buf a = Ok j ->
  (a + 2 <= j)%nat /\ (j <= length buf)%nat /\
  (exists c, get buf a = Some c /\ is_term c = false) /\
  (forall p, (a < p < j)%nat -> term_at buf p = false).
Proof.
  unfold scan_tags_key. destruct (get buf a) eqn:G; [|discriminate].
  destruct ((n =? c_space) || (n =? c_comma) || (n =? c_eq)) eqn:E; [discriminate|]. intros H.
  apply (scan_tags_key_loop_sound buf a) in H; [|lia|intros; lia].
  destruct H as [H1 [H2 H3]]. repeat split; try lia; [|exact H3].
  exists n. split; [reflexivity|]. unfold is_term.
  apply orb_false_iff in E. destruct E as [E _]. rewrite orb_comm. exact E.
Qed.

(* ---- scanTagsValue ---- *)
Lemma scan_tags_value_loop_sound buf a : forall fuel i st j,
  scan_tags_value_loop fuel buf i = Ok (st, j) ->
  (a <= i)%nat -> (forall p, (a < p <= i)%nat -> term_at buf p = false) ->
  exists e, (i < e < length buf)%nat /\ term_at buf e = true /\
            (forall p, (a < p < e)%nat -> term_at buf p = false) /\
            match st with
            | StTagKey => j = S e /\ get buf e = Some c_comma
            | StFields => j = e /\ get buf e = Some c_space
            end.
Proof.
  intros fuel. induction fuel as [|f IH]; intros i st j H Hai Hno; cbn [scan_tags_value_loop] in H; [discriminate|].
  destruct (get buf (S i)) eqn:Gc; [|discriminate].
  pose proof (get_some_lt _ _ _ Gc) as Hlt.
  destruct (rd_lt buf i ltac:(lia)) as [p [Hp Gp]].
  destruct ((n =? c_eq) || (n =? c_comma) || (n =? c_space)) eqn:E3.
  - rewrite Hp in H. cbn [bind] in H.
    destruct (negb (p =? c_bs)) eqn:Eb; cbn [andb] in H.
    + destruct (n =? c_eq) eqn:Eeq; [discriminate|].
      destruct (n =? c_comma) eqn:Ecomma.
      * inversion H; subst. exists (S i). apply N.eqb_eq in Ecomma. subst n.
        split; [lia|]. split; [unfold term_at; rewrite Gc, Gp, Eb; reflexivity|].
        split; [intros q Hq; apply Hno; lia|auto].
      * destruct (n =? c_space) eqn:Espace; [|cbn in E3; discriminate].
        inversion H; subst. exists (S i). apply N.eqb_eq in Espace. subst n.
        split; [lia|]. split; [unfold term_at; rewrite Gc, Gp, Eb; reflexivity|].
        split; [intros q Hq; apply Hno; lia|auto].
    + assert (Ht : term_at buf (S i) = false).
      { unfold term_at. rewrite Gc, Gp, Eb. apply andb_false_r. }
      apply IH in H; [|lia|].
      * destruct H as [e [He H]]. exists e. split; [lia|exact H].
      * intros q Hq. destruct (Nat.eq_dec q (S i)) as [->|]; [exact Ht|apply Hno; lia].
  - cbn [bind andb] in H.
    assert (Ht : term_at buf (S i) = false).
    { unfold term_at. rewrite Gc, Gp. unfold is_term.
      apply orb_false_iff in E3. destruct E3 as [E3 Es]. apply orb_false_iff in E3. destruct E3 as [_ Ec].
      rewrite Ec, Es. reflexivity. }
    apply IH in H; [|lia|].
    + destruct H as [e [He H]]. exists e. split; [lia|exact H].
    + intros q Hq. destruct (Nat.eq_dec q (S i)) as [->|]; [exact Ht|apply Hno; lia].
Qed.

(* one tag: key scan from a, value scan from the returned index *)
Lemma scan_tag_sound buf a i1 st j :
  scan_tags_key buf a = Ok i1 -> scan_tags_value buf i1 = Ok (st, j) ->
  exists e, seg buf a e /\
            match st with
            | StTagKey => j = S e /\ get buf e = Some c_comma
            | StFields => j = e /\ get buf e = Some c_space
            end.
Proof.
  intros Hk Hv. apply scan_tags_key_sound in Hk. destruct Hk as [K1 [K2 [K3 K4]]].
  unfold scan_tags_value in Hv. destruct (get buf i1) eqn:G; [|discriminate].
  destruct ((n =? c_comma) || (n =? c_space)) eqn:E; [discriminate|].
  assert (Hti : term_at buf i1 = false).
  { unfold term_at. destruct i1; [reflexivity|]. rewrite G. unfold is_term. rewrite E.
    destruct (get buf i1); reflexivity. }
  apply (scan_tags_value_loop_sound buf a) in Hv; [|lia|].
  - destruct Hv as [e [He [Ht [Hno Hst]]]]. exists e. split; [|exact Hst].
    unfold seg. repeat split; try lia; assumption.
  - intros q Hq. destruct (Nat.eq_dec q i1) as [->|]; [exact Hti|apply K4; lia].
Qed.

(* ---- scanTags: the index table is a chain of segments ---- *)
Fixpoint chain (buf : bytes) (idx : list nat) : Prop :=
  match idx with
  | a :: r => match r with
              | b :: _ => (1 <= b)%nat /\ seg buf a (b - 1) /\ chain buf r
              | [] => True
              end
  | [] => True
  end.

Lemma scan_tags_loop_sound buf : forall fuel i idx e idx',
  scan_tags_loop fuel buf i idx = Ok (e, idx') ->
  exists mids, idx' = idx ++ mids /\ chain buf mids /\ hd 0%nat mids = i /\
               (2 <= length mids)%nat /\ last mids 0%nat = S e /\ get buf e = Some c_space /\
               (i < e)%nat.
Proof.
  intros fuel. induction fuel as [|f IH]; intros i idx e idx' H; cbn [scan_tags_loop] in H; [discriminate|].
  apply bind_ok_inv in H. destruct H as [i1 [Hk H]].
  apply bind_ok_inv in H. destruct H as [[st i2] [Hv H]].
  destruct (scan_tag_sound buf i i1 st i2 Hk Hv) as [e1 [Hseg Hst]].
  destruct st.
  - destruct Hst as [-> Gc]. apply IH in H. destruct H as [mids [-> [Hch [Hhd [Hlen [Hlast [Gs Hlt]]]]]]].
    exists (i :: mids). rewrite <- app_assoc. split; [reflexivity|].
    destruct mids as [|m0 mr]; [cbn in Hlen; lia|]. cbn [hd] in Hhd. subst m0.
    split.
    { cbn [chain]. split; [lia|]. split; [|exact Hch]. replace (S e1 - 1)%nat with e1 by lia. exact Hseg. }
    split; [reflexivity|]. split; [cbn [length] in *; lia|].
    split; [exact Hlast|]. split; [exact Gs|]. destruct Hseg as [? _]. lia.
  - destruct Hst as [-> Gs]. inversion H; subst. exists [i; S e].
    rewrite <- app_assoc. split; [reflexivity|]. split.
    { cbn [chain]. split; [lia|]. split; [|exact I]. replace (S e - 1)%nat with e by lia. exact Hseg. }
    split; [reflexivity|]. split; [cbn; lia|]. split; [reflexivity|]. split; [exact Gs|].
    destruct Hseg as [? _]. lia.
Qed.

Lemma scan_tags_sound buf i e idx :
  scan_tags buf i = Ok (e, idx) ->
  chain buf idx /\ hd 0%nat idx = i /\ (2 <= length idx)%nat /\ last idx 0%nat = S e /\
  get buf e = Some c_space /\ (i < e)%nat.
Proof.
  unfold scan_tags. intros H. apply scan_tags_loop_sound in H.
  destruct H as [mids [-> H]]. exact H.
Qed.

(* ---- consequences of a chain ---- *)
Lemma chain_nth buf idx j a b :
  chain buf idx -> nth_error idx j = Some a -> nth_error idx (S j) = Some b ->
  (1 <= b)%nat /\ seg buf a (b - 1).
Proof.
  revert j. induction idx as [|x r IH]; intros j Hc Ha Hb; [destruct j; discriminate|].
  destruct j.
  - cbn in Ha, Hb. inversion Ha; subst. destruct r as [|y r']; [discriminate|].
    cbn in Hb. inversion Hb; subst. cbn [chain] in Hc. tauto.
  - cbn in Ha. destruct r as [|y r']; [destruct j; discriminate|].
    apply (IH j); [cbn [chain] in Hc; tauto|exact Ha|exact Hb].
Qed.

(* length of the tag text found by scanToSpaceOr at index a *)
Definition seglen (buf : bytes) (a : nat) : nat :=
  match scan_to_space_or buf a c_comma with Ok (_, v) => length v | _ => O end.

Lemma seglen_seg buf a e : seg buf a e -> seglen buf a = (e - a)%nat.
Proof.
  intros H. unfold seglen. rewrite (scan_to_space_or_seg buf a e H).
  destruct H as [H1 [H2 _]]. rewrite firstn_length, skipn_length. lia.
Qed.

Fixpoint sum_seglen (buf : bytes) (ids : list nat) : nat :=
  match ids with [] => O | a :: r => (1 + seglen buf a + sum_seglen buf r)%nat end.

Lemma sum_seglen_perm buf l l' : Permutation l l' -> sum_seglen buf l = sum_seglen buf l'.
Proof. induction 1; cbn [sum_seglen]; lia. Qed.

(* the tags tile the region between the first tag and the final space *)
Lemma chain_sum buf idx :
  chain buf idx -> (1 <= length idx)%nat ->
  (sum_seglen buf (removelast idx) + hd 0 idx = last idx 0)%nat /\ (hd 0 idx <= last idx 0)%nat.
Proof.
  induction idx as [|a r IH]; intros Hc Hl; [cbn in Hl; lia|].
  destruct r as [|b r'].
  - cbn. lia.
  - cbn [chain] in Hc. destruct Hc as [Hb [Hseg Hc]].
    specialize (IH Hc ltac:(cbn; lia)). destruct IH as [IH1 IH2].
    change (removelast (a :: b :: r')) with (a :: removelast (b :: r')).
    change (last (a :: b :: r') 0%nat) with (last (b :: r') 0%nat).
    cbn [sum_seglen hd] in *. rewrite (seglen_seg buf a (b - 1) Hseg).
    destruct Hseg as [H1 _]. lia.
Qed.

(* every index of a chain (but the last entry) starts a segment *)
Lemma chain_in buf idx a :
  chain buf idx -> In a (removelast idx) -> exists e, seg buf a e.
Proof.
  induction idx as [|x r IH]; intros Hc Hin; [destruct Hin|].
  destruct r as [|y r']; [destruct Hin|].
  change (removelast (x :: y :: r')) with (x :: removelast (y :: r')) in Hin.
  cbn [chain] in Hc. destruct Hc as [_ [Hseg Hc]].
  destruct Hin as [->|Hin]; [eauto|]. apply IH; assumption.
Qed.

Lemma seg_start_lt buf a e : seg buf a e -> (a < length buf)%nat.
Proof. intros [H1 [H2 _]]. lia. Qed.

Lemma removelast_firstn_len {A} (l : list A) : removelast l = firstn (length l - 1) l.
Proof.
  induction l as [|x r IH]; [reflexivity|]. destruct r as [|y r']; [reflexivity|].
  change (removelast (x :: y :: r')) with (x :: removelast (y :: r')). rewrite IH.
  cbn [length]. replace (S (S (length r')) - 1)%nat with (S (S (length r') - 1)) by lia. reflexivity.
Qed.
