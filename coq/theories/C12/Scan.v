(* C12/Scan.v — the scanner functions of models/points.go (as repaired by the fix: commits),
   over [list N] with explicit indices; every unguarded Go index/slice expression is a checked
   read that yields [Crash] when Go would panic.  Loops carry fuel; each iteration advances
   the index, so [S (length buf)] always suffices (proved in Proofs).  Definitions only. *)
From Verif Require Export C12.Base C12.Escape.
From VerifGen Require Import Consts.
Open Scope N_scope.

Definition is_ws (c : N) : bool := (c =? c_space) || (c =? c_tab) || (c =? c_nul).

(* ---- skipWhitespace ---- *)
Fixpoint skip_ws (fuel : nat) (buf : bytes) (i : nat) : nat :=
  match fuel with
  | O => i
  | S f => match get buf i with
           | None => i
           | Some c => if is_ws c then skip_ws f buf (S i) else i
           end
  end.
Definition skip_whitespace (buf : bytes) (i : nat) : nat := skip_ws (S (length buf)) buf i.

(* ---- scanLine ---- *)
(* [n] = len(buf), evaluated once *)
Fixpoint scan_line_loop (fuel : nat) (buf : bytes) (n : nat) (i : nat) (quoted fields : bool)
         (equals commas : nat) : res nat :=
  match fuel with
  | O => Err fuel_err
  | S f =>
    match get buf i with
    | None => Ok i
    | Some c =>
      (* if buf[i] == '\\' && i+2 < len(buf) && (quoted || buf[i+1] != '\n') *)
      let* skip :=
        (if (c =? c_bs) && (i + 2 <? n)%nat then
           let* d := rd buf (i + 1) in
           if quoted || negb (d =? c_nl) then
             (if negb quoted && (d =? c_bs) then Ok (Some (i + 1)%nat) else Ok (Some (i + 2)%nat))
           else Ok None
         else Ok None) in
      match skip with
      | Some j => scan_line_loop f buf n j quoted fields equals commas
      | None =>
        let fields' := fields || (c =? c_space) in
        if fields' && negb quoted && (c =? c_eq) then
          scan_line_loop f buf n (S i) quoted fields' (S equals) commas
        else if fields' && negb quoted && (c =? c_comma) then
          scan_line_loop f buf n (S i) quoted fields' equals (S commas)
        else if fields' && (c =? c_quote) && (commas <? equals)%nat then
          scan_line_loop f buf n (S i) (negb quoted) fields' equals commas
        else if (c =? c_nl) && negb quoted then Ok i
        else scan_line_loop f buf n (S i) quoted fields' equals commas
      end
    end
  end.

Definition scan_line (buf : bytes) (i : nat) : res (nat * bytes) :=
  let i0 := skip_whitespace buf i in
  let* e := scan_line_loop (S (length buf)) buf (length buf) i0 false false 0 0 in
  let* blk := slice buf i e in
  Ok (e, blk).

(* ---- scanTo ---- *)
Fixpoint scan_to_loop (fuel : nat) (buf : bytes) (i : nat) (stop : N) : res nat :=
  match fuel with
  | O => Err fuel_err
  | S f =>
    match get buf i with
    | None => Ok i
    | Some c =>
      if c =? stop then
        match i with
        | O => Ok i
        | S j => let* p := rd buf j in
                 if negb (p =? c_bs) then Ok i else scan_to_loop f buf (S i) stop
        end
      else scan_to_loop f buf (S i) stop
    end
  end.
Definition scan_to (buf : bytes) (i : nat) (stop : N) : res (nat * bytes) :=
  let* e := scan_to_loop (S (length buf)) buf i stop in
  let* s := slice buf i e in
  Ok (e, s).

(* ---- scanToSpaceOr ---- *)
Fixpoint scan_to_space_or_loop (fuel : nat) (buf : bytes) (i : nat) (stop : N) : res nat :=
  match fuel with
  | O => Err fuel_err
  | S f =>
    (* i++ ; if buf[i-1] == '\\' continue *)
    let* p := rd buf i in
    let i1 := S i in
    if p =? c_bs then scan_to_space_or_loop f buf i1 stop
    else match get buf i1 with
         | None => Ok i1
         | Some c => if (c =? stop) || (c =? c_space) then Ok i1
                     else scan_to_space_or_loop f buf i1 stop
         end
  end.
Definition scan_to_space_or (buf : bytes) (i : nat) (stop : N) : res (nat * bytes) :=
  let* c := rd buf i in
  if (c =? stop) || (c =? c_space) then Ok (i, [])
  else let* e := scan_to_space_or_loop (S (S (length buf))) buf i stop in
       let* s := slice buf i e in
       Ok (e, s).

(* ---- scanMeasurement ---- *)
Inductive scan_state := StTagKey | StFields.

Fixpoint scan_meas_loop (fuel : nat) (buf : bytes) (i : nat) : res (scan_state * nat) :=
  match fuel with
  | O => Err fuel_err
  | S f =>
    let i1 := S i in
    match get buf i1 with
    | None => Err 2                      (* missing fields *)
    | Some c =>
      let* p := rd buf i in            (* buf[i-1] after i++ *)
      if p =? c_bs then scan_meas_loop f buf i1
      else if c =? c_comma then Ok (StTagKey, S i1)
      else if c =? c_space then Ok (StFields, i1)
      else scan_meas_loop f buf i1
    end
  end.
Definition scan_measurement (buf : bytes) (i : nat) : res (scan_state * nat) :=
  match get buf i with
  | None => Err 1
  | Some c => if c =? c_comma then Err 1 else scan_meas_loop (S (length buf)) buf i
  end.

(* ---- scanTagsKey / scanTagsValue / scanTags ---- *)
Fixpoint scan_tags_key_loop (fuel : nat) (buf : bytes) (i : nat) : res nat :=
  match fuel with
  | O => Err fuel_err
  | S f =>
    let i1 := S i in
    match get buf i1 with
    | None => Err 4
    | Some c =>
      let* term :=
        (if (c =? c_space) || (c =? c_comma) then
           let* p := rd buf i in Ok (negb (p =? c_bs))
         else Ok false) in
      if term then Err 4                 (* missing tag value *)
      else
        let* eq :=
          (if c =? c_eq then let* p := rd buf i in Ok (negb (p =? c_bs)) else Ok false) in
        if eq then Ok (S i1) else scan_tags_key_loop f buf i1
    end
  end.
Definition scan_tags_key (buf : bytes) (i : nat) : res nat :=
  match get buf i with
  | None => Err 3
  | Some c => if (c =? c_space) || (c =? c_comma) || (c =? c_eq) then Err 3
              else scan_tags_key_loop (S (length buf)) buf i
  end.

Fixpoint scan_tags_value_loop (fuel : nat) (buf : bytes) (i : nat) : res (scan_state * nat) :=
  match fuel with
  | O => Err fuel_err
  | S f =>
    let i1 := S i in
    match get buf i1 with
    | None => Err 2                      (* missing fields *)
    | Some c =>
      let* unesc :=
        (if (c =? c_eq) || (c =? c_comma) || (c =? c_space) then
           let* p := rd buf i in Ok (negb (p =? c_bs))
         else Ok false) in
      if unesc && (c =? c_eq) then Err 6
      else if unesc && (c =? c_comma) then Ok (StTagKey, S i1)
      else if unesc && (c =? c_space) then Ok (StFields, i1)
      else scan_tags_value_loop f buf i1
    end
  end.
Definition scan_tags_value (buf : bytes) (i : nat) : res (scan_state * nat) :=
  match get buf i with
  | None => Err 5
  | Some c => if (c =? c_comma) || (c =? c_space) then Err 5
              else scan_tags_value_loop (S (length buf)) buf i
  end.

(* returns (i, indices) where indices has commas+1 entries: the start of every tag and,
   last, i+1 (the Go slice is pre-sized and grown on demand: no index can be out of range) *)
Fixpoint scan_tags_loop (fuel : nat) (buf : bytes) (i : nat) (idx : list nat) : res (nat * list nat) :=
  match fuel with
  | O => Err fuel_err
  | S f =>
    let idx1 := idx ++ [i] in
    let* i1 := scan_tags_key buf i in
    let* sv := scan_tags_value buf i1 in
    match sv with
    | (StTagKey, i2) => scan_tags_loop f buf i2 idx1
    | (StFields, i2) => Ok (i2, idx1 ++ [S i2])
    end
  end.
Definition scan_tags (buf : bytes) (i : nat) : res (nat * list nat) :=
  scan_tags_loop (S (length buf)) buf i [].

(* ---- insertionSort on the tag indices, comparing the (escaped) tag keys ---- *)
Definition tag_less (buf : bytes) (a b : nat) : res bool :=
  let* ka := scan_to buf a c_eq in
  let* kb := scan_to buf b c_eq in
  Ok (match bytes_cmp (snd ka) (snd kb) with Lt => true | _ => false end).

(* [rp] is the already sorted prefix, reversed (head = indices[j-1]); x walks left while
   less(x, indices[j-1]) *)
Fixpoint insert_left (buf : bytes) (x : nat) (rp : list nat) : res (list nat) :=
  match rp with
  | [] => Ok [x]
  | y :: r => let* lt := tag_less buf x y in
              if lt then let* r' := insert_left buf x r in Ok (y :: r') else Ok (x :: y :: r)
  end.
Fixpoint insertion_sort_from (buf : bytes) (rp : list nat) (rest : list nat) : res (list nat) :=
  match rest with
  | [] => Ok (rev rp)
  | x :: r => let* rp' := insert_left buf x rp in insertion_sort_from buf rp' r
  end.
Definition insertion_sort (buf : bytes) (idx : list nat) : res (list nat) :=
  match idx with
  | [] => Ok []
  | x :: r => insertion_sort_from buf [x] r
  end.

(* ---- scanKey ---- *)
(* first pass: are adjacent tag keys strictly increasing?  Ok true / Ok false / Err (dup) *)
Fixpoint sorted_pass (n : nat) (buf : bytes) (idx : list nat) (j : nat) : res bool :=
  match n with
  | O => Ok true
  | S n' =>
    let* a := rdi idx j in
    let* b := rdi idx (j + 1) in
    let* c := rdi idx (j + 2) in
    let* s1 := slice_m1 buf a b in
    let* s2 := slice_m1 buf b c in
    let* l := scan_to s1 0 c_eq in
    let* r := scan_to s2 0 c_eq in
    match bytes_cmp (snd l) (snd r) with
    | Gt => Ok false
    | Eq => Err 7                        (* duplicate tags *)
    | Lt => sorted_pass n' buf idx (S j)
    end
  end.

(* b := make([]byte, L); pos := copy(b, measurement); for each index: b[pos] = ',' ... *)
Fixpoint rebuild_key (buf : bytes) (L : nat) (ids : list nat) (acc : bytes) : res bytes :=
  match ids with
  | [] => Ok (acc ++ repeat 0 (L - length acc))
  | i :: r =>
    if (length acc <? L)%nat then
      let* v := scan_to_space_or buf i c_comma in
      let acc1 := acc ++ [c_comma] in
      rebuild_key buf L r (acc1 ++ firstn (L - length acc1) (snd v))
    else Crash
  end.

Fixpoint dup_pass (n : nat) (buf : bytes) (idx : list nat) (j : nat) : res unit :=
  match n with
  | O => Ok tt
  | S n' =>
    let* a := rdi idx j in
    let* b := rdi idx (j + 1) in
    let* s1 := slice buf a (length buf) in
    let* s2 := slice buf b (length buf) in
    let* l := scan_to s1 0 c_eq in
    let* r := scan_to s2 0 c_eq in
    if bytes_eqb (snd l) (snd r) then Err 7 else dup_pass n' buf idx (S j)
  end.

Definition scan_key (buf : bytes) (i0 : nat) : res (nat * bytes) :=
  let start := skip_whitespace buf i0 in
  let* m := scan_measurement buf start in
  let* ti :=
    (match m with
     | (StTagKey, i) => let* t := scan_tags buf i in Ok (fst t, snd t, (length (snd t) - 1)%nat)
     | (StFields, i) => Ok (i, [], O)
     end) in
  let '(i, idx, commas) := ti in
  let* sorted := sorted_pass (commas - 1) buf idx 0 in
  if negb sorted && (0 <? commas)%nat then
    let* i0' := rdi idx 0 in
    let* measurement := slice_m1 buf start i0' in
    let* ids := insertion_sort buf (firstn commas idx) in
    let* whole := slice buf start i in
    let L := length whole in
    let* b := rebuild_key buf L ids (firstn L measurement) in
    let* _ := dup_pass (commas - 1) buf ids 0 in
    Ok (i, b)
  else
    let* k := slice buf start i in
    Ok (i, k).

(* ---- scanNumber ---- *)
Definition is_numeric (c : N) : bool := is_digit c || (c =? c_dot).

Section WithOracle.
(* strconv.ParseFloat(s, 64) as an oracle: Some bits when err == nil *)
Variable parse_float : bytes -> option N.
(* models.enableUint64Support *)
Variable uint_support : bool.

Fixpoint scan_number_loop (fuel : nat) (buf : bytes) (n : nat) (start i : nat)
         (is_int is_uns decimal scientific : bool) : res (nat * (bool * bool * bool * bool)) :=
  match fuel with
  | O => Err fuel_err
  | S f =>
    match get buf i with
    | None => Ok (i, (is_int, is_uns, decimal, scientific))
    | Some c =>
      if (c =? c_comma) || (c =? c_space) then Ok (i, (is_int, is_uns, decimal, scientific))
      else if (c =? c_i) && (start <? i)%nat && negb (is_int || is_uns) then
        scan_number_loop f buf n start (S i) true is_uns decimal scientific
      else if (c =? c_u) && (start <? i)%nat && negb (is_int || is_uns) then
        scan_number_loop f buf n start (S i) is_int true decimal scientific
      else if (c =? c_dot) && decimal then Err 8
      else
        let decimal' := decimal || (c =? c_dot) in
        if (start <? i)%nat && ((c =? c_e) || (c =? c_E)) then
          scan_number_loop f buf n start (S i) is_int is_uns decimal' true
        else
          let* pm :=
            (if (c =? c_plus) || (c =? c_minus) then
               let* p := rdm buf i 1 in Ok ((p =? c_e) || (p =? c_E))
             else Ok false) in
          if pm then scan_number_loop f buf n start (S i) is_int is_uns decimal' scientific
          else if (i + 2 <? n)%nat && ((c =? c_N) || (c =? c_n)) then Err 8
          else if negb (is_numeric c) then Err 8
          else scan_number_loop f buf n start (S i) is_int is_uns decimal' scientific
    end
  end.

Definition scan_number (buf : bytes) (start : nat) : res nat :=
  let* i0 :=
    (match get buf start with
     | Some c => if c =? c_minus then
                   (if (S start =? length buf)%nat then Err 8 else Ok (S start))
                 else Ok start
     | None => Ok start
     end) in
  let* r := scan_number_loop (S (length buf)) buf (length buf) start i0 false false false false in
  let '(i, (is_int, is_uns, decimal, scientific)) := r in
  if (is_int || is_uns) && (decimal || scientific) then Err 8
  else
    let* c0 := rd buf start in
    let nd := (Z.of_nat i - Z.of_nat start - (if is_int then 1 else 0) - (if decimal then 1 else 0)
               - (if (c0 =? c_minus)%N then 1 else 0))%Z in
    if (nd =? 0)%Z then Err 8
    else if is_int then
      let* l := rdm buf i 1 in
      if negb (l =? c_i) then Err 8
      else
        let* txt := slice_m1 buf start i in
        if ((c12_max_int64_digits <=? length txt) || (c12_min_int64_digits <=? length txt))%nat then
          match parse_int64 txt with Some _ => Ok i | None => Err 9 end
        else Ok i
    else if is_uns then
      if negb uint_support then Err 8
      else
        let* l := rdm buf i 1 in
        if negb (l =? c_u) then Err 8
        else if c0 =? c_minus then Err 8
        else
          let* txt := slice_m1 buf start i in
          if (c12_max_uint64_digits <=? length txt)%nat then
            match parse_uint64 txt with Some _ => Ok i | None => Err 9 end
          else Ok i
    else
      let* txt := slice buf start i in
      if scientific || (c12_max_float64_digits <=? length txt)%nat || (c12_min_float64_digits <=? length txt)%nat then
        match parse_float txt with Some _ => Ok i | None => Err 10 end
      else Ok i.

(* ---- scanBoolean ---- *)
Fixpoint scan_bool_loop (fuel : nat) (buf : bytes) (i : nat) : nat :=
  match fuel with
  | O => i
  | S f => match get buf i with
           | None => i
           | Some c => if (c =? c_comma) || (c =? c_space) then i else scan_bool_loop f buf (S i)
           end
  end.

Definition scan_boolean (buf : bytes) (start : nat) : res nat :=
  let bad0 := match get buf start with
              | Some c => negb ((c =? c_t) || (c =? c_f) || (c =? c_T) || (c =? c_F))
              | None => false
              end in
  if bad0 then Err 11
  else
    let i := scan_bool_loop (S (length buf)) buf (S start) in
    if (i - start =? 1)%nat then Ok i
    else
      let* c0 := rd buf start in
      if ((c0 =? c_t) || (c0 =? c_T)) && negb (i - start =? 4)%nat then Err 11
      else if ((c0 =? c_f) || (c0 =? c_F)) && negb (i - start =? 5)%nat then Err 11
      else
        let* txt := slice buf start i in
        let valid :=
          if c0 =? c_t then bytes_eqb txt [116;114;117;101]
          else if c0 =? c_f then bytes_eqb txt [102;97;108;115;101]
          else if c0 =? c_T then bytes_eqb txt [84;82;85;69] || bytes_eqb txt [84;114;117;101]
          else if c0 =? c_F then bytes_eqb txt [70;65;76;83;69] || bytes_eqb txt [70;97;108;115;101]
          else false in
        if valid then Ok i else Err 11.

(* ---- scanFields ---- *)
Fixpoint scan_fields_loop (fuel : nat) (buf : bytes) (n : nat) (start i : nat) (quoted : bool)
         (equals commas : nat) : res (nat * (bool * nat * nat)) :=
  match fuel with
  | O => Err fuel_err
  | S f =>
    match get buf i with
    | None => Ok (i, (quoted, equals, commas))
    | Some c =>
      if (c =? c_bs) && (i + 1 <? n)%nat then
        let* d := rd buf (i + 1) in
        if negb quoted && (d =? c_bs) then scan_fields_loop f buf n start (i + 1) quoted equals commas
        else scan_fields_loop f buf n start (i + 2) quoted equals commas
      else if (c =? c_quote) && (commas <? equals)%nat then
        let quoted' := negb quoted in
        let i1 := S i in
        let bad := match get buf i1 with
                   | Some d => negb quoted' && negb ((d =? c_comma) || (d =? c_space) || (d =? c_quote))
                   | None => false
                   end in
        if bad then Err 12 else scan_fields_loop f buf n start i1 quoted' equals commas
      else
        let* after_eq :=
          (if (c =? c_eq) && negb quoted then
             let equals1 := S equals in
             (* i == start || (buf[i-1] == ' ' && buf[i-2] != '\\') *)
             let* nokey1 :=
               (if (i =? start)%nat then Ok true
                else let* p1 := rdm buf i 1 in
                     if p1 =? c_space then let* p2 := rdm buf i 2 in Ok (negb (p2 =? c_bs))
                     else Ok false) in
             if nokey1 then Err 13
             else
               let* p1 := rdm buf i 1 in
               let* nokey2 :=
                 (if p1 =? c_comma then let* p2 := rdm buf i 2 in Ok (negb (p2 =? c_bs)) else Ok false) in
               if nokey2 then Err 13
               else if (n <=? i + 1)%nat then Err 14
               else
                 let* n := rd buf (i + 1) in
                 if (n =? c_comma) || (n =? c_space) then Err 14
                 else if is_numeric n || (n =? c_minus) || (n =? c_N) || (n =? c_n) then
                   let* j := scan_number buf (i + 1) in Ok (Some j, equals1)
                 else if negb (n =? c_quote) then
                   let* j := scan_boolean buf (i + 1) in Ok (Some j, equals1)
                 else Ok (None, equals1)
           else Ok (None, equals)) in
        match after_eq with
        | (Some j, equals1) => scan_fields_loop f buf n start j quoted equals1 commas
        | (None, equals1) =>
          let commas1 := if (c =? c_comma) && negb quoted then S commas else commas in
          if (c =? c_comma) && negb quoted && (equals1 <? commas1)%nat then Err 15
          else if (c =? c_space) && negb quoted then Ok (i, (quoted, equals1, commas1))
          else scan_fields_loop f buf n start (S i) quoted equals1 commas1
        end
    end
  end.

Definition scan_fields (buf : bytes) (i0 : nat) : res (nat * bytes) :=
  let start := skip_whitespace buf i0 in
  let* r := scan_fields_loop (S (length buf)) buf (length buf) start start false 0 0 in
  let '(i, (quoted, equals, commas)) := r in
  if quoted then Err 16
  else if (equals =? 0)%nat || negb (commas =? equals - 1)%nat then Err 15
  else let* s := slice buf start i in Ok (i, s).

End WithOracle.

(* ---- scanTime ---- *)
Fixpoint scan_time_loop (fuel : nat) (buf : bytes) (start i : nat) : res nat :=
  match fuel with
  | O => Err fuel_err
  | S f =>
    match get buf i with
    | None => Ok i
    | Some c =>
      if (c =? c_nl) || (c =? c_space) then Ok i
      else if (i =? start)%nat && (c =? c_minus) then scan_time_loop f buf start (S i)
      else if (c <? c_0) || (c_9 <? c) then Err 17
      else scan_time_loop f buf start (S i)
    end
  end.
Definition scan_time (buf : bytes) (i0 : nat) : res (nat * bytes) :=
  let start := skip_whitespace buf i0 in
  let* i := scan_time_loop (S (length buf)) buf start start in
  let* s := slice buf start i in
  Ok (i, s).

(* ---- scanFieldValue ----
   [slack] = capacity of the underlying array beyond len(buf): buf[start:i] with
   len(buf) < start = i <= cap(buf) is an empty slice, not a panic (the field iterator calls
   this with start = len+1 when the last field has no '='). *)
Fixpoint scan_field_value_loop (fuel : nat) (buf : bytes) (n : nat) (i : nat) (quoted : bool) : res nat :=
  match fuel with
  | O => Err fuel_err
  | S f =>
    match get buf i with
    | None => Ok i
    | Some c =>
      let* esc :=
        (if (c =? c_bs) && (i + 1 <? n)%nat then
           let* d := rd buf (i + 1) in Ok ((d =? c_quote) || (d =? c_bs))
         else Ok false) in
      if esc then scan_field_value_loop f buf n (i + 2) quoted
      else if c =? c_quote then scan_field_value_loop f buf n (S i) (negb quoted)
      else if (c =? c_comma) && negb quoted then Ok i
      else scan_field_value_loop f buf n (S i) quoted
    end
  end.
Definition scan_field_value (slack : nat) (buf : bytes) (start : nat) : res (nat * bytes) :=
  if (length buf <? start)%nat then
    (if (start <=? length buf + slack)%nat then Ok (start, []) else Crash)
  else
    let* i := scan_field_value_loop (S (length buf)) buf (length buf) start false in
    let* s := slice buf start i in
    Ok (i, s).

(* ---- walkFields with the key-size callback of parsePoint ---- *)
Fixpoint walk_fields_keysize (fuel : nat) (keylen : nat) (buf : bytes) : res unit :=
  match fuel with
  | O => Err fuel_err
  | S f =>
    match buf with
    | [] => Ok tt
    | _ =>
      let* k := scan_to buf 0 c_eq in
      let '(i, key) := k in
      if (length buf <? i + 2)%nat then Err 18          (* i > len(buf)-2 *)
      else
        let* b1 := slice buf (i + 1) (length buf) in
        let* v := scan_field_value 0 b1 0 in
        let* b2 := slice b1 (fst v) (length b1) in
        if (c12_max_key_length <? N.of_nat (keylen + c12_field_key_sep_len + length key)) then Err 19
        else match b2 with
             | [] => Ok tt
             | _ :: b3 => walk_fields_keysize f keylen b3
             end
    end
  end.
