(* C12/OrderFacts.v — bytes.Compare is a strict total order; insertion sort by it; sorted
   permutations with distinct keys are unique. *)
From Verif Require Import C12.Base.
From Coq Require Import ZifyBool ZifyNat ZifyN Permutation Sorted.
Open Scope N_scope.

Lemma bytes_cmp_refl a : bytes_cmp a a = Eq.
Proof. induction a as [|x r IH]; cbn; [reflexivity|]. rewrite N.compare_refl. exact IH. Qed.

Lemma bytes_cmp_eq a b : bytes_cmp a b = Eq -> a = b.
Proof.
  revert b. induction a as [|x r IH]; intros [|y s] H; cbn in H; try discriminate; [reflexivity|].
  destruct (N.compare_spec x y); try discriminate. subst. f_equal. apply IH. exact H.
Qed.

Lemma bytes_cmp_antisym a b : bytes_cmp b a = CompOpp (bytes_cmp a b).
Proof.
  revert b. induction a as [|x r IH]; intros [|y s]; cbn; try reflexivity.
  rewrite (N.compare_antisym x y). destruct (N.compare x y); cbn; auto.
Qed.

Lemma bytes_cmp_lt_trans a b c : bytes_cmp a b = Lt -> bytes_cmp b c = Lt -> bytes_cmp a c = Lt.
Proof.
  revert b c. induction a as [|x r IH]; intros [|y s] [|z t] H1 H2; cbn in *; try discriminate; try reflexivity.
  destruct (N.compare_spec x y); try discriminate; destruct (N.compare_spec y z); try discriminate; subst.
  - rewrite N.compare_refl. eapply IH; eassumption.
  - destruct (N.compare_spec y z); try lia. reflexivity.
  - destruct (N.compare_spec x z); try lia. reflexivity.
  - destruct (N.compare_spec x z); try lia. reflexivity.
Qed.

Lemma bytes_eqb_eq a b : bytes_eqb a b = true <-> a = b.
Proof.
  revert b. induction a as [|x r IH]; intros [|y s]; cbn; split; intros H; try discriminate; try reflexivity.
  - apply andb_true_iff in H. destruct H as [H1 H2]. apply N.eqb_eq in H1. apply IH in H2. subst. reflexivity.
  - inversion H; subst. rewrite N.eqb_refl. cbn. apply IH. reflexivity.
Qed.

Lemma bytes_eqb_cmp a b : bytes_eqb a b = match bytes_cmp a b with Eq => true | _ => false end.
Proof.
  revert b. induction a as [|x r IH]; intros [|y s]; cbn; try reflexivity.
  destruct (N.compare_spec x y).
  - subst. rewrite N.eqb_refl. cbn. apply IH.
  - destruct (N.eqb_spec x y); [lia|reflexivity].
  - destruct (N.eqb_spec x y); [lia|reflexivity].
Qed.

(* ---- insertion sort, as insertionSort walks: each new element moves left while it is less
   than its left neighbour ---- *)
Section Sort.
Context {A : Type} (key : A -> bytes).

Definition kless (x y : A) : bool := match bytes_cmp (key x) (key y) with Lt => true | _ => false end.

(* rp: sorted prefix reversed (head = right-most) *)
Fixpoint ins_left (x : A) (rp : list A) : list A :=
  match rp with
  | [] => [x]
  | y :: r => if kless x y then y :: ins_left x r else x :: y :: r
  end.
Fixpoint isort_from (rp rest : list A) : list A :=
  match rest with
  | [] => rev rp
  | x :: r => isort_from (ins_left x rp) r
  end.
Definition isort (l : list A) : list A :=
  match l with [] => [] | x :: r => isort_from [x] r end.

Lemma ins_left_perm x rp : Permutation (x :: rp) (ins_left x rp).
Proof.
  induction rp as [|y r IH]; cbn [ins_left]; [apply Permutation_refl|].
  destruct (kless x y); [|apply Permutation_refl].
  eapply perm_trans; [apply perm_swap|]. apply perm_skip. exact IH.
Qed.

Lemma isort_from_perm rest : forall rp, Permutation (rp ++ rest) (isort_from rp rest).
Proof.
  induction rest as [|x r IH]; intros rp; cbn [isort_from].
  - rewrite app_nil_r. apply Permutation_rev.
  - eapply perm_trans; [|apply IH]. eapply perm_trans; [apply Permutation_sym, Permutation_middle|].
    change (x :: rp ++ r) with ((x :: rp) ++ r). apply Permutation_app_tail. apply ins_left_perm.
Qed.

Lemma isort_perm l : Permutation l (isort l).
Proof. destruct l as [|x r]; [constructor|]. apply (isort_from_perm r [x]). Qed.

(* descending-or-equal from the head: the reversed prefix *)
Definition klt (x y : A) : Prop := bytes_cmp (key x) (key y) = Lt.
Definition kge_rev := fun y x : A => bytes_cmp (key x) (key y) <> Gt.   (* x <= y *)

(* sortedness of the reversed prefix: each element is >= the one after it *)
Inductive rsorted : list A -> Prop :=
| rs_nil : rsorted []
| rs_one x : rsorted [x]
| rs_cons x y r : bytes_cmp (key y) (key x) <> Gt -> rsorted (y :: r) -> rsorted (x :: y :: r).

Lemma ins_left_rsorted x rp : rsorted rp -> rsorted (ins_left x rp).
Proof.
  induction 1 as [| y | y z r Hyz Hr IH]; cbn [ins_left].
  - constructor.
  - unfold kless. destruct (bytes_cmp (key x) (key y)) eqn:E.
    + constructor; [rewrite bytes_cmp_antisym, E; discriminate|constructor].
    + constructor; [rewrite E; discriminate|constructor].
    + constructor; [rewrite bytes_cmp_antisym, E; discriminate|constructor].
  - unfold kless in *. destruct (bytes_cmp (key x) (key y)) eqn:E.
    + constructor; [rewrite bytes_cmp_antisym, E; discriminate|constructor; assumption].
    + cbn [ins_left] in IH. unfold kless in IH.
      destruct (bytes_cmp (key x) (key z)) eqn:E2.
      * constructor; [rewrite E; discriminate|exact IH].
      * constructor; [exact Hyz|exact IH].
      * constructor; [rewrite E; discriminate|exact IH].
    + constructor; [rewrite bytes_cmp_antisym, E; discriminate|constructor; assumption].
Qed.

(* ascending sortedness *)
Inductive asorted : list A -> Prop :=
| as_nil : asorted []
| as_one x : asorted [x]
| as_cons x y r : bytes_cmp (key x) (key y) <> Gt -> asorted (y :: r) -> asorted (x :: y :: r).

Lemma asorted_app_one l x y : asorted (l ++ [x]) -> bytes_cmp (key x) (key y) <> Gt -> asorted (l ++ [x; y]).
Proof.
  induction l as [|a r IH]; intros H Hxy; cbn [app] in *.
  - constructor; [exact Hxy|constructor].
  - destruct r as [|b r'].
    + cbn [app] in *. inversion H; subst. constructor; [assumption|]. apply IH; assumption.
    + cbn [app] in *. inversion H; subst. constructor; [assumption|]. apply IH; assumption.
Qed.

Lemma rsorted_rev l : rsorted l -> asorted (rev l).
Proof.
  induction 1 as [| x | x y r Hyx Hr IH]; cbn [rev app].
  - constructor.
  - constructor.
  - cbn [rev] in IH. rewrite <- app_assoc. cbn [app]. apply asorted_app_one; assumption.
Qed.

Lemma isort_from_sorted rest : forall rp, rsorted rp -> asorted (isort_from rp rest).
Proof.
  induction rest as [|x r IH]; intros rp H; cbn [isort_from].
  - apply rsorted_rev. exact H.
  - apply IH. apply ins_left_rsorted. exact H.
Qed.

Lemma isort_sorted l : asorted (isort l).
Proof. destruct l as [|x r]; [constructor|]. apply isort_from_sorted. constructor. Qed.

(* strictly ascending: no two adjacent keys equal *)
Inductive ssorted : list A -> Prop :=
| ss_nil : ssorted []
| ss_one x : ssorted [x]
| ss_cons x y r : klt x y -> ssorted (y :: r) -> ssorted (x :: y :: r).

Lemma ssorted_head_lt x l : ssorted (x :: l) -> Forall (klt x) l.
Proof.
  revert x. induction l as [|y r IH]; intros x H; [constructor|].
  inversion H; subst. constructor; [assumption|].
  apply IH. destruct r as [|z r']; [constructor|]. inversion H4; subst.
  constructor; [|assumption]. unfold klt in *. eapply bytes_cmp_lt_trans; eassumption.
Qed.

(* a sorted list with pairwise distinct keys is strictly sorted *)
Lemma asorted_nodup_ssorted l : asorted l -> NoDup (map key l) -> ssorted l.
Proof.
  induction 1 as [| x | x y r Hxy Hr IH]; intros Hnd; [constructor|constructor|].
  cbn [map] in Hnd. inversion Hnd as [|? ? Hnotin Hnd']; subst.
  constructor; [|apply IH; exact Hnd'].
  unfold klt. destruct (bytes_cmp (key x) (key y)) eqn:E; [|reflexivity|congruence].
  apply bytes_cmp_eq in E. exfalso. apply Hnotin. cbn [map]. left. symmetry. exact E.
Qed.

(* two strictly sorted permutations of each other are equal *)
Lemma ssorted_perm_eq l1 : forall l2, ssorted l1 -> ssorted l2 -> Permutation l1 l2 ->
  (forall a b, In a l1 -> In b l1 -> key a = key b -> a = b) -> l1 = l2.
Proof.
  induction l1 as [|x r IH]; intros l2 H1 H2 Hp Hinj.
  - apply Permutation_nil in Hp. subst. reflexivity.
  - destruct l2 as [|y s]; [apply Permutation_sym, Permutation_nil in Hp; discriminate|].
    assert (Hxy : x = y).
    { pose proof (ssorted_head_lt x r H1) as F1. pose proof (ssorted_head_lt y s H2) as F2.
      assert (Hx : In x (y :: s)) by (eapply Permutation_in; [exact Hp|left; reflexivity]).
      assert (Hy : In y (x :: r)) by (eapply Permutation_in; [apply Permutation_sym; exact Hp|left; reflexivity]).
      destruct Hx as [Hx|Hx]; [congruence|]. destruct Hy as [Hy|Hy]; [congruence|].
      rewrite Forall_forall in F1, F2. specialize (F1 y Hy). specialize (F2 x Hx).
      unfold klt in *. rewrite bytes_cmp_antisym, F1 in F2. discriminate. }
    subst y. f_equal. apply IH.
    + inversion H1; subst; [constructor|assumption].
    + inversion H2; subst; [constructor|assumption].
    + eapply Permutation_cons_inv. exact Hp.
    + intros a b Ha Hb. apply Hinj; right; assumption.
Qed.

(* a strictly sorted list is left unchanged by the sort *)
Lemma ins_left_max x rp : Forall (fun y => klt y x) rp -> ins_left x rp = x :: rp.
Proof.
  intros H. destruct rp as [|y r]; [reflexivity|]. inversion H; subst. cbn [ins_left]. unfold kless.
  unfold klt in H2. rewrite bytes_cmp_antisym, H2. reflexivity.
Qed.

Lemma isort_from_ssorted rest : forall rp, ssorted (rev rp ++ rest) -> isort_from rp rest = rev rp ++ rest.
Proof.
  induction rest as [|x r IH]; intros rp H; cbn [isort_from]; [rewrite app_nil_r; reflexivity|].
  rewrite ins_left_max.
  - rewrite IH; cbn [rev]; rewrite <- app_assoc; [reflexivity|exact H].
  - (* every element of the prefix is below x *)
    clear IH. rewrite Forall_forall. intros y Hy. apply in_rev in Hy.
    revert H Hy. generalize (rev rp) as l. induction l as [|a l IHl]; intros H Hy; [destruct Hy|].
    destruct Hy as [->|Hy].
    + cbn [app] in H. apply ssorted_head_lt in H. rewrite Forall_forall in H. apply H.
      apply in_or_app. right. left. reflexivity.
    + apply IHl; [|exact Hy]. cbn [app] in H. inversion H; subst.
      * destruct l; discriminate.
      * assumption.
Qed.

Lemma isort_ssorted l : ssorted l -> isort l = l.
Proof. destruct l as [|x r]; [reflexivity|]. intros H. apply (isort_from_ssorted r [x]). exact H. Qed.

End Sort.

(* the sort commutes with a key-preserving map *)
Lemma ins_left_map {A B} (ka : A -> bytes) (kb : B -> bytes) (f : A -> B) x rp :
  (forall a, kb (f a) = ka a) -> map f (ins_left ka x rp) = ins_left kb (f x) (map f rp).
Proof.
  intros Hk. induction rp as [|y r IH]; [reflexivity|]. cbn [ins_left map]. unfold kless. rewrite !Hk.
  destruct (bytes_cmp (ka x) (ka y)); cbn [map]; [reflexivity|rewrite IH; reflexivity|reflexivity].
Qed.

Lemma isort_map {A B} (ka : A -> bytes) (kb : B -> bytes) (f : A -> B) l :
  (forall a, kb (f a) = ka a) -> map f (isort ka l) = isort kb (map f l).
Proof.
  intros Hk. destruct l as [|x r]; [reflexivity|]. cbn [isort map].
  change [f x] with (map f [x]). generalize [x] as rp. induction r as [|y r IH]; intros rp; cbn [isort_from map].
  - rewrite map_rev. reflexivity.
  - rewrite <- (ins_left_map ka kb f y rp Hk). apply IH.
Qed.
