(* C12/KeyComplete.v — scanKey on a well-formed key text: it is accepted, and the key it returns
   is the measurement followed by the tags sorted by their (escaped) key, whatever order they
   were written in. *)
From Verif Require Import C12.Base C12.Escape C12.Scan C12.ScanFacts C12.KeyFacts C12.KeyCrash C12.OrderFacts.
From VerifGen Require Import Consts.
From Coq Require Import ZifyBool ZifyNat ZifyN Permutation.
Open Scope N_scope.

(* ---- well-formed (escaped) text ---- *)
Definition is_stop_k (c : N) : bool := (c =? c_space) || (c =? c_comma) || (c =? c_eq).

(* every byte of s that satisfies [stops] is preceded by a backslash; p is the byte before s *)
Fixpoint safe (stops : N -> bool) (p : N) (s : bytes) : bool :=
  match s with
  | [] => true
  | x :: r => (negb (stops x) || (p =? c_bs)) && safe stops x r
  end.

Definition wf_meas (m : bytes) : bool :=
  match m with
  | [] => false
  | c :: s => negb (is_ws c) && negb (c =? c_comma) && safe is_term c s && negb (last s c =? c_bs)
  end.
Definition wf_tagkey (k : bytes) : bool :=
  match k with
  | [] => false
  | c :: s => negb (is_stop_k c) && safe is_stop_k c s && negb (last s c =? c_bs)
  end.
Definition wf_tagval (v : bytes) : bool :=
  match v with
  | [] => false
  | c :: s => negb (is_term c) && safe is_stop_k c s && negb (last s c =? c_bs)
  end.
Definition wf_tag (t : bytes * bytes) : bool := wf_tagkey (fst t) && wf_tagval (snd t).

Definition tagtxt (t : bytes * bytes) : bytes := fst t ++ c_eq :: snd t.
Definition render_tags (ts : list (bytes * bytes)) : bytes := flat_map (fun t => c_comma :: tagtxt t) ts.

Lemma safe_weaken (s1 s2 : N -> bool) p s :
  (forall x, s2 x = true -> s1 x = true) -> safe s1 p s = true -> safe s2 p s = true.
Proof.
  intros Hw. revert p. induction s as [|x r IH]; intros p H; [reflexivity|].
  cbn [safe] in *. apply andb_true_iff in H. destruct H as [H1 H2]. apply andb_true_iff. split; [|apply IH; exact H2].
  destruct (s2 x) eqn:E; [|reflexivity]. rewrite (Hw x E) in H1. exact H1.
Qed.

Lemma last_cons_irrel {A} (a : A) l d d' : last (a :: l) d = last (a :: l) d'.
Proof. revert a. induction l as [|b l IH]; intros a; [reflexivity|]. cbn [last] in *. apply IH. Qed.
Lemma last_cons_cons {A} (x : A) r c : last (x :: r) c = last r x.
Proof. destruct r as [|n r']; [reflexivity|]. cbn [last]. apply (last_cons_irrel n r' c x). Qed.

Lemma get_cons_app (pre : bytes) c d (r : bytes) : get (pre ++ c :: d :: r) (S (length pre)) = Some d.
Proof.
  replace (pre ++ c :: d :: r) with ((pre ++ [c]) ++ d :: r) by (rewrite <- app_assoc; reflexivity).
  replace (S (length pre)) with (length (pre ++ [c])) by (rewrite app_length; cbn; lia).
  apply get_app_mid.
Qed.

Lemma snoc_cons (pre : bytes) c r : pre ++ c :: r = (pre ++ [c]) ++ r.
Proof. rewrite <- app_assoc. reflexivity. Qed.

Lemma len_snoc (pre : bytes) c : length (pre ++ [c]) = S (length pre).
Proof. rewrite app_length. cbn. lia. Qed.

(* ---- the three "previous byte" loops over a well-formed segment ---- *)
Lemma meas_loop_complete : forall s pre c t post fuel,
  safe is_term c s = true -> (last s c =? c_bs) = false -> is_term t = true ->
  (length s < fuel)%nat ->
  scan_meas_loop fuel (pre ++ c :: s ++ t :: post) (length pre) =
  Ok (if t =? c_comma then (StTagKey, (length pre + length s + 2)%nat) else (StFields, (length pre + length s + 1)%nat)).
Proof.
  induction s as [|x r IH]; intros pre c t post fuel Hs Hl Ht Hf; (destruct fuel as [|f]; [cbn in Hf; lia|]);
    cbn [scan_meas_loop app].
  - rewrite get_cons_app. rewrite (rd_get _ _ _ (get_app_mid pre c (t :: post))). cbn [bind].
    cbn [last] in Hl. rewrite Hl. unfold is_term in Ht.
    destruct (t =? c_comma) eqn:Ec.
    + cbn [length]. f_equal. f_equal. lia.
    + cbn [orb] in Ht. rewrite Ht. cbn [length]. f_equal. f_equal. lia.
  - rewrite get_cons_app. rewrite (rd_get _ _ _ (get_app_mid pre c (x :: r ++ t :: post))). cbn [bind].
    cbn [safe] in Hs. apply andb_true_iff in Hs. destruct Hs as [Hx Hs].
    assert (Hl' : (last r x =? c_bs) = false) by (rewrite last_cons_cons in Hl; exact Hl).
    assert (Hrec : scan_meas_loop f (pre ++ c :: x :: r ++ t :: post) (S (length pre)) =
                   Ok (if t =? c_comma then (StTagKey, (length pre + length (x :: r) + 2)%nat)
                       else (StFields, (length pre + length (x :: r) + 1)%nat))).
    { rewrite snoc_cons, <- (len_snoc pre c).
      rewrite (IH (pre ++ [c]) x t post f Hs Hl' Ht ltac:(cbn [length] in Hf; lia)).
      rewrite len_snoc. cbn [length]. destruct (t =? c_comma); f_equal; f_equal; lia. }
    destruct (c =? c_bs) eqn:Eb; [exact Hrec|].
    rewrite orb_false_r in Hx. apply negb_true_iff in Hx. unfold is_term in Hx.
    apply orb_false_iff in Hx. destruct Hx as [Hx1 Hx2]. rewrite Hx1, Hx2. exact Hrec.
Qed.

Lemma key_loop_complete : forall s pre c post fuel,
  safe is_stop_k c s = true -> (last s c =? c_bs) = false -> (length s < fuel)%nat ->
  scan_tags_key_loop fuel (pre ++ c :: s ++ c_eq :: post) (length pre) = Ok (length pre + length s + 2)%nat.
Proof.
  induction s as [|x r IH]; intros pre c post fuel Hs Hl Hf; (destruct fuel as [|f]; [cbn in Hf; lia|]);
    cbn [scan_tags_key_loop app].
  - rewrite get_cons_app. rewrite (rd_get _ _ _ (get_app_mid pre c (c_eq :: post))).
    cbn [last] in Hl. cbn [N.eqb c_eq c_space c_comma Pos.eqb orb bind]. rewrite Hl. cbn [negb bind].
    cbn [length]. f_equal. lia.
  - rewrite get_cons_app. rewrite (rd_get _ _ _ (get_app_mid pre c (x :: r ++ c_eq :: post))).
    cbn [safe] in Hs. apply andb_true_iff in Hs. destruct Hs as [Hx Hs].
    assert (Hl' : (last r x =? c_bs) = false) by (rewrite last_cons_cons in Hl; exact Hl).
    assert (Hrec : scan_tags_key_loop f (pre ++ c :: x :: r ++ c_eq :: post) (S (length pre)) =
                   Ok (length pre + length (x :: r) + 2)%nat).
    { rewrite snoc_cons, <- (len_snoc pre c).
      rewrite (IH (pre ++ [c]) x post f Hs Hl' ltac:(cbn [length] in Hf; lia)).
      rewrite len_snoc. cbn [length]. f_equal. lia. }
    destruct (c =? c_bs) eqn:Eb.
    + (* x is escaped *)
      destruct ((x =? c_space) || (x =? c_comma)); cbn [bind]; rewrite ?Eb; cbn [negb];
        destruct (x =? c_eq); cbn [bind]; rewrite ?Eb; cbn [negb]; exact Hrec.
    + rewrite orb_false_r in Hx. apply negb_true_iff in Hx. unfold is_stop_k in Hx.
      apply orb_false_iff in Hx. destruct Hx as [Hx Hx3]. rewrite Hx, Hx3. cbn [bind]. exact Hrec.
Qed.

Lemma value_loop_complete : forall s pre c t post fuel,
  safe is_stop_k c s = true -> (last s c =? c_bs) = false -> is_term t = true -> (length s < fuel)%nat ->
  scan_tags_value_loop fuel (pre ++ c :: s ++ t :: post) (length pre) =
  Ok (if t =? c_comma then (StTagKey, (length pre + length s + 2)%nat) else (StFields, (length pre + length s + 1)%nat)).
Proof.
  induction s as [|x r IH]; intros pre c t post fuel Hs Hl Ht Hf; (destruct fuel as [|f]; [cbn in Hf; lia|]);
    cbn [scan_tags_value_loop app].
  - rewrite get_cons_app. rewrite (rd_get _ _ _ (get_app_mid pre c (t :: post))).
    cbn [last] in Hl. unfold is_term in Ht.
    assert (Hteq : t =? c_eq = false).
    { destruct (N.eqb_spec t c_eq); [subst t; cbn in Ht; discriminate|reflexivity]. }
    rewrite Hteq. cbn [orb]. rewrite Ht. cbn [bind]. rewrite Hl. cbn [negb andb].
    destruct (t =? c_comma) eqn:Ec.
    + cbn [length]. f_equal. f_equal. lia.
    + cbn [orb] in Ht. rewrite Ht. cbn [length]. f_equal. f_equal. lia.
  - rewrite get_cons_app. rewrite (rd_get _ _ _ (get_app_mid pre c (x :: r ++ t :: post))).
    cbn [safe] in Hs. apply andb_true_iff in Hs. destruct Hs as [Hx Hs].
    assert (Hl' : (last r x =? c_bs) = false) by (rewrite last_cons_cons in Hl; exact Hl).
    assert (Hrec : scan_tags_value_loop f (pre ++ c :: x :: r ++ t :: post) (S (length pre)) =
                   Ok (if t =? c_comma then (StTagKey, (length pre + length (x :: r) + 2)%nat)
                       else (StFields, (length pre + length (x :: r) + 1)%nat))).
    { rewrite snoc_cons, <- (len_snoc pre c).
      rewrite (IH (pre ++ [c]) x t post f Hs Hl' Ht ltac:(cbn [length] in Hf; lia)).
      rewrite len_snoc. cbn [length]. destruct (t =? c_comma); f_equal; f_equal; lia. }
    destruct (c =? c_bs) eqn:Eb.
    + destruct ((x =? c_eq) || (x =? c_comma) || (x =? c_space)); cbn [bind]; rewrite ?Eb; cbn [negb andb]; exact Hrec.
    + rewrite orb_false_r in Hx. apply negb_true_iff in Hx. unfold is_stop_k in Hx.
      apply orb_false_iff in Hx. destruct Hx as [Hx Hx3]. apply orb_false_iff in Hx. destruct Hx as [Hx1 Hx2].
      rewrite Hx1, Hx2, Hx3. cbn [orb bind andb]. exact Hrec.
Qed.

(* scanTo over a segment in which every [stop] is escaped; p is the byte before s *)
Lemma scan_to_loop_complete_gen stop : forall s pre0 p post fuel,
  safe (fun x => x =? stop) p s = true -> (last s p =? c_bs) = false -> (length s < fuel)%nat ->
  scan_to_loop fuel (pre0 ++ p :: s ++ stop :: post) (S (length pre0)) stop = Ok (length pre0 + length s + 1)%nat.
Proof.
  induction s as [|x r IH]; intros pre0 p post fuel Hs Hl Hf; (destruct fuel as [|f]; [cbn in Hf; lia|]);
    cbn [scan_to_loop app].
  - rewrite get_cons_app, N.eqb_refl.
    rewrite (rd_get _ _ _ (get_app_mid pre0 p (stop :: post))). cbn [bind last] in *. rewrite Hl.
    cbn [negb length]. f_equal. lia.
  - rewrite get_cons_app.
    cbn [safe] in Hs. apply andb_true_iff in Hs. destruct Hs as [Hx Hs].
    assert (Hl' : (last r x =? c_bs) = false) by (rewrite last_cons_cons in Hl; exact Hl).
    assert (Hrec : scan_to_loop f (pre0 ++ p :: x :: r ++ stop :: post) (S (S (length pre0))) stop =
                   Ok (length pre0 + length (x :: r) + 1)%nat).
    { rewrite snoc_cons, <- (len_snoc pre0 p).
      rewrite (IH (pre0 ++ [p]) x post f Hs Hl' ltac:(cbn [length] in Hf; lia)).
      rewrite len_snoc. cbn [length]. f_equal. lia. }
    destruct (x =? stop) eqn:Exs; [|exact Hrec].
    rewrite (rd_get _ _ _ (get_app_mid pre0 p (x :: r ++ stop :: post))). cbn [bind].
    cbn [negb orb] in Hx. rewrite Hx. cbn [negb]. exact Hrec.
Qed.

Lemma scan_to_loop_complete stop s pre c post fuel :
  (c =? stop) = false -> safe (fun x => x =? stop) c s = true -> (last s c =? c_bs) = false ->
  (S (length s) < fuel)%nat ->
  scan_to_loop fuel (pre ++ c :: s ++ stop :: post) (length pre) stop = Ok (length pre + length s + 1)%nat.
Proof.
  intros Hc Hs Hl Hf. destruct fuel as [|f]; [lia|].
  cbn [scan_to_loop]. rewrite get_app_mid, Hc.
  apply scan_to_loop_complete_gen; [exact Hs|exact Hl|lia].
Qed.

Ltac llen := repeat (rewrite app_length || (progress cbn [length])).
Ltac lnorm := repeat (rewrite <- app_assoc || (progress cbn [app])).

(* ---- whole scanners on well-formed text ---- *)
Lemma wf_meas_inv m : wf_meas m = true ->
  exists c s, m = c :: s /\ is_ws c = false /\ (c =? c_comma) = false /\ safe is_term c s = true /\ (last s c =? c_bs) = false.
Proof.
  destruct m as [|c s]; [discriminate|]. cbn [wf_meas]. intros H.
  apply andb_true_iff in H. destruct H as [H H4]. apply andb_true_iff in H. destruct H as [H H3].
  apply andb_true_iff in H. destruct H as [H1 H2].
  exists c, s. repeat split; auto; apply negb_true_iff; assumption.
Qed.

Lemma scan_measurement_complete m t post :
  wf_meas m = true -> is_term t = true ->
  scan_measurement (m ++ t :: post) 0 =
  Ok (if t =? c_comma then (StTagKey, (length m + 1)%nat) else (StFields, length m)).
Proof.
  intros Hm Ht. destruct (wf_meas_inv m Hm) as [c [s [-> [Hws [Hc [Hs Hl]]]]]].
  unfold scan_measurement. cbn [app get nth_error]. rewrite Hc.
  pose proof (meas_loop_complete s [] c t post (S (length (c :: s ++ t :: post))) Hs Hl Ht) as H.
  change ([] ++ c :: s ++ t :: post) with (c :: s ++ t :: post) in H. change (length (@nil N)) with O in H.
  rewrite H by (cbn [length]; rewrite app_length; cbn [length]; lia).
  cbn [length]. destruct (t =? c_comma); f_equal; f_equal; lia.
Qed.

Lemma wf_tagkey_inv k : wf_tagkey k = true ->
  exists c s, k = c :: s /\ is_stop_k c = false /\ safe is_stop_k c s = true /\ (last s c =? c_bs) = false.
Proof.
  destruct k as [|c s]; [discriminate|]. cbn [wf_tagkey]. intros H.
  apply andb_true_iff in H. destruct H as [H H3]. apply andb_true_iff in H. destruct H as [H1 H2].
  exists c, s. repeat split; auto; apply negb_true_iff; assumption.
Qed.

Lemma wf_tagval_inv v : wf_tagval v = true ->
  exists c s, v = c :: s /\ is_term c = false /\ safe is_stop_k c s = true /\ (last s c =? c_bs) = false.
Proof.
  destruct v as [|c s]; [discriminate|]. cbn [wf_tagval]. intros H.
  apply andb_true_iff in H. destruct H as [H H3]. apply andb_true_iff in H. destruct H as [H1 H2].
  exists c, s. repeat split; auto; apply negb_true_iff; assumption.
Qed.

Lemma scan_tags_key_complete buf pre k post :
  buf = pre ++ k ++ c_eq :: post -> wf_tagkey k = true ->
  scan_tags_key buf (length pre) = Ok (length pre + length k + 1)%nat.
Proof.
  intros -> Hk. destruct (wf_tagkey_inv k Hk) as [c [s [-> [Hc [Hs Hl]]]]].
  unfold scan_tags_key. cbn [app]. rewrite get_app_mid. fold (is_stop_k c). rewrite Hc.
  rewrite (key_loop_complete s pre c post) by (auto; rewrite !app_length; cbn [length]; rewrite app_length; cbn [length]; lia).
  cbn [length]. f_equal. lia.
Qed.

Lemma scan_tags_value_complete buf pre v t post i :
  buf = pre ++ v ++ t :: post -> i = length pre -> wf_tagval v = true -> is_term t = true ->
  scan_tags_value buf i =
  Ok (if t =? c_comma then (StTagKey, (i + length v + 1)%nat) else (StFields, (i + length v)%nat)).
Proof.
  intros -> -> Hv Ht. destruct (wf_tagval_inv v Hv) as [c [s [-> [Hc [Hs Hl]]]]].
  unfold scan_tags_value. cbn [app]. rewrite get_app_mid. unfold is_term in Hc. rewrite Hc.
  rewrite (value_loop_complete s pre c t post) by (auto; rewrite !app_length; cbn [length]; rewrite app_length; cbn [length]; lia).
  cbn [length]. destruct (t =? c_comma); f_equal; f_equal; lia.
Qed.

(* start offsets of the tags of a rendered tag list whose first tag starts at off *)
Fixpoint starts (off : nat) (ts : list (bytes * bytes)) : list nat :=
  match ts with
  | [] => []
  | t :: r => off :: starts (off + length (tagtxt t) + 1) r
  end.

Lemma starts_length off ts : length (starts off ts) = length ts.
Proof. revert off. induction ts as [|t r IH]; intros off; cbn [starts length]; [reflexivity|]. rewrite IH. reflexivity. Qed.

Lemma wf_tag_inv t : wf_tag t = true -> wf_tagkey (fst t) = true /\ wf_tagval (snd t) = true.
Proof. unfold wf_tag. intros H. apply andb_true_iff in H. exact H. Qed.

Lemma scan_tags_loop_complete : forall ts t pre post fuel acc,
  wf_tag t = true -> forallb wf_tag ts = true -> (length ts < fuel)%nat ->
  scan_tags_loop fuel (pre ++ tagtxt t ++ render_tags ts ++ c_space :: post) (length pre) acc =
  Ok ((length pre + length (tagtxt t ++ render_tags ts))%nat,
      acc ++ starts (length pre) (t :: ts) ++ [S (length pre + length (tagtxt t ++ render_tags ts))]).
Proof.
  induction ts as [|t2 ts IH]; intros t pre post fuel acc Ht Hts Hf; (destruct fuel as [|f]; [cbn in Hf; lia|]);
    destruct (wf_tag_inv t Ht) as [Hk Hv]; cbn [scan_tags_loop].
  - cbn [render_tags flat_map app]. rewrite app_nil_r.
    match goal with |- context [scan_tags_key ?b _] => set (buf := b) end.
    assert (B1 : buf = pre ++ fst t ++ c_eq :: (snd t ++ c_space :: post)).
    { unfold buf, tagtxt. lnorm. reflexivity. }
    assert (B2 : buf = (pre ++ fst t ++ [c_eq]) ++ snd t ++ c_space :: post).
    { unfold buf, tagtxt. lnorm. reflexivity. }
    rewrite (scan_tags_key_complete buf pre (fst t) _ B1 Hk). cbn [bind].
    rewrite (scan_tags_value_complete buf _ (snd t) c_space post (length pre + length (fst t) + 1)%nat B2 ltac:(llen; lia) Hv eq_refl).
    cbn [bind N.eqb c_space c_comma Pos.eqb].
    cbn [starts]. unfold tagtxt. llen.
    f_equal. f_equal; [lia|]. rewrite <- ?app_assoc. cbn [app]. f_equal. f_equal. f_equal. lia.
  - cbn [forallb] in Hts. apply andb_true_iff in Hts. destruct Hts as [Ht2 Hts].
    cbn [render_tags flat_map]. fold (render_tags ts).
    match goal with |- context [scan_tags_key ?b _] => set (buf := b) end.
    set (pre2 := pre ++ tagtxt t ++ [c_comma]).
    assert (B1 : buf = pre ++ fst t ++ c_eq :: (snd t ++ (c_comma :: tagtxt t2 ++ render_tags ts) ++ c_space :: post)).
    { unfold buf, tagtxt. lnorm. reflexivity. }
    assert (B2 : buf = (pre ++ fst t ++ [c_eq]) ++ snd t ++ c_comma :: (tagtxt t2 ++ render_tags ts ++ c_space :: post)).
    { unfold buf, tagtxt. lnorm. reflexivity. }
    assert (B3 : buf = pre2 ++ tagtxt t2 ++ render_tags ts ++ c_space :: post).
    { unfold buf, pre2. lnorm. reflexivity. }
    rewrite (scan_tags_key_complete buf pre (fst t) _ B1 Hk). cbn [bind].
    rewrite (scan_tags_value_complete buf _ (snd t) c_comma _ (length pre + length (fst t) + 1)%nat B2 ltac:(llen; lia) Hv eq_refl).
    cbn [bind N.eqb c_comma Pos.eqb].
    assert (Hlen2 : (length pre + length (fst t) + 1 + length (snd t) + 1 = length pre2)%nat).
    { unfold pre2, tagtxt. llen. lia. }
    rewrite Hlen2, B3.
    rewrite (IH t2 pre2 post f (acc ++ [length pre]) Ht2 Hts ltac:(cbn [length] in Hf; lia)).
    f_equal. f_equal.
    + unfold pre2. llen. lia.
    + rewrite <- ?app_assoc. cbn [app starts]. f_equal. f_equal.
      replace (length pre + length (tagtxt t) + 1)%nat with (length pre2) by (unfold pre2; llen; lia).
      f_equal. f_equal. f_equal. unfold pre2. llen. lia.
Qed.
