(* C12/Proofs.v — gathers the proof files and proves the link between the model and the
   executable spec of Run.v/Spec.v: what [check_case] demands of an observation holds of the
   model's own output for every input (as far as it is proved; the rest is listed at the end). *)
From Verif Require Export C12.Base C12.Escape C12.Scan C12.Point C12.Spec.
From Verif Require Export C12.ScanFacts C12.EscapeProofs C12.BinProofs C12.KeyFacts C12.KeyCrash
     C12.ParseCrash C12.OrderFacts C12.KeyComplete C12.KeySort C12.KeyTheorem C12.SpecLink C12.LineProofs C12.TimeProofs.
From VerifGen Require Import Consts.
From Coq Require Import ZifyBool ZifyNat ZifyN.
Open Scope N_scope.

(* HashID is the published FNV-64a of the key (constants re-read from the source) *)
Lemma hash_id_spec p : hash_id p = spec_fnv64a (p_key p).
Proof. reflexivity. Qed.

Lemma is_prefix_of_app a b : is_prefix_of a (a ++ b) = true.
Proof. induction a as [|x r IH]; [reflexivity|]. cbn. rewrite N.eqb_refl. exact IH. Qed.

Lemma is_suffix_of_app a b : is_suffix_of b (a ++ b) = true.
Proof. unfold is_suffix_of. rewrite rev_app_distr. apply is_prefix_of_app. Qed.

(* String() of a point with a non-zero time: key, space, fields, space, decimal nanoseconds *)
Lemma point_string_shape p :
  tm_is_zero (p_time p) = false ->
  spec_string_shape (p_key p) (point_string p) (tm_unix_nano (p_time p)) = true.
Proof.
  intros Hz. unfold spec_string_shape, point_string. rewrite Hz. apply andb_true_iff. split.
  - rewrite (app_assoc (p_key p) [c_space]). apply is_prefix_of_app.
  - rewrite !app_assoc. rewrite <- (app_assoc _ [c_space] (fmt_z _)). apply is_suffix_of_app.
Qed.

(* a time built from Unix nanoseconds in the int64 range is never the zero time *)
Lemma tm_of_unix_nano_not_zero ns :
  (- 9223372036854775808 <= ns)%Z -> tm_is_zero (tm_of_unix_nano ns) = false.
Proof.
  intros H. unfold tm_is_zero, tm_of_unix_nano. cbn [t_sec t_nsec].
  assert (ns / 1000000000 >= -9223372037)%Z.
  { apply Z.le_ge. apply Z.div_le_lower_bound; lia. }
  unfold unix_to_internal. destruct (Z.eqb_spec (ns / 1000000000 + 62135596800) 0); [lia|reflexivity].
Qed.

(* what the spec demands of the escape functions holds of the model's *)
Lemma escape_roundtrips_model x :
  unescape_measurement (escape_measurement x) = x /\ unescape_tag (escape_tag x) = x /\
  unescape_bytes (escape_bytes x) = x /\ unescape_string_field (escape_string_field x) = x.
Proof.
  repeat split; [apply escape_unescape_measurement|apply escape_unescape_tag|apply escape_unescape_bytes|
                 apply escape_unescape_string_field].
Qed.

(* The executable spec's remaining demands on a parsed point — that its printed form parses back
   to the same point and that its binary form decodes to it — are proved for every line that renders
   a well-formed abstract point (LineRound.line_roundtrip, Reprint.print_parse_roundtrip,
   Reprint.rendered_line_reprints_stable: key, field set, field iterator, timestamp) and for the
   binary codec under the decoder's own validation ([bin_roundtrip_valid]); for the remaining
   accepted lines (redundant escapes, exponent floats, ...) they are checked on the implementation
   by the harness on every run (reparse_ok / binrt_ok in the cases), not proved.  For the fprint
   cases (a point built from typed values, printed, parsed) Run.print_spec_ok of the model's own
   parse of the model's own print holds by print_parse_roundtrip. *)
