(* C12/FieldIter.v — the field iterator (point.Next, scanTo, scanFieldValue, the typed accessors)
   and walkFields on a rendered field set: the iterator finds the same key/value boundaries as
   scanFields, unescapes the key, and decodes each value text to the value it was written from. *)
From Verif Require Import C12.Base C12.Escape C12.Scan C12.Point C12.ScanFacts C12.KeyFacts C12.OrderFacts C12.KeyComplete
     C12.LineProofs C12.EscapeProofs C12.TimeProofs C12.FieldNum C12.FieldScan.
From VerifGen Require Import Consts.
From Coq Require Import ZifyBool ZifyNat ZifyN.
Open Scope N_scope.

Definition comma_or_end (rest : bytes) : Prop := rest = [] \/ exists r, rest = c_comma :: r.

(* ---- scanTo over a field key ---- *)
Lemma scan_to_key pre k post :
  wf_tagkey k = true ->
  scan_to (pre ++ k ++ c_eq :: post) (length pre) c_eq = Ok ((length pre + length k)%nat, k).
Proof.
  intros Hk. destruct (wf_tagkey_inv k Hk) as [c [s [-> [Hc [Hs Hl]]]]].
  destruct (is_stop_k_facts c Hc) as (_&_&Hce).
  assert (Hs' : safe (fun x => x =? c_eq) c s = true).
  { apply (safe_weaken is_stop_k); [|exact Hs]. intros x Hx. unfold is_stop_k. rewrite Hx. apply orb_true_r. }
  unfold scan_to. cbn [app].
  rewrite (scan_to_loop_complete c_eq s pre c post _ Hce Hs' Hl) by (llen; lia).
  cbn [bind].
  replace (length pre + length s + 1)%nat with (length pre + length (c :: s))%nat by (cbn [length]; lia).
  change (pre ++ c :: s ++ c_eq :: post) with (pre ++ (c :: s) ++ c_eq :: post).
  rewrite slice_app_mid. reflexivity.
Qed.

(* ---- scanFieldValue ---- *)
Notation sfv := scan_field_value_loop.

Lemma sfv_plain f buf n i c q :
  get buf i = Some c -> (c =? c_bs) = false -> (c =? c_quote) = false -> (q = true \/ (c =? c_comma) = false) ->
  sfv (S f) buf n i q = sfv f buf n (S i) q.
Proof.
  intros G Hb Hq Hc. cbn [scan_field_value_loop]. rewrite G, Hb, Hq. cbn [andb bind].
  destruct Hc as [-> | ->]; cbn [negb andb]; rewrite ?andb_false_r; reflexivity.
Qed.

Lemma sfv_esc f buf n i d q :
  get buf i = Some c_bs -> (i + 1 <? n)%nat = true -> rd buf (i + 1) = Ok d -> ((d =? c_quote) || (d =? c_bs)) = true ->
  sfv (S f) buf n i q = sfv f buf n (i + 2) q.
Proof.
  intros G Hn Hd He. cbn [scan_field_value_loop]. rewrite G, N.eqb_refl, Hn. cbn [andb]. rewrite Hd. cbn [bind].
  rewrite He. reflexivity.
Qed.

Lemma sfv_quote f buf n i q :
  get buf i = Some c_quote -> sfv (S f) buf n i q = sfv f buf n (S i) (negb q).
Proof.
  intros G. cbn [scan_field_value_loop]. rewrite G.
  change (c_quote =? c_bs) with false. change (c_quote =? c_quote) with true. cbn [andb bind]. reflexivity.
Qed.

Lemma sfv_end f buf n i :
  (get buf i = None \/ get buf i = Some c_comma) -> sfv (S f) buf n i false = Ok i.
Proof.
  intros [G|G]; cbn [scan_field_value_loop]; rewrite G; [reflexivity|].
  change (c_comma =? c_bs) with false. change (c_comma =? c_quote) with false. change (c_comma =? c_comma) with true.
  cbn [andb bind negb]. reflexivity.
Qed.

Definition plainv (c : N) : bool := negb ((c =? c_bs) || (c =? c_quote) || (c =? c_comma)).

Lemma sfv_plain_run : forall v pre rest n f,
  forallb plainv v = true -> comma_or_end rest -> (length (v ++ rest) < f)%nat ->
  sfv f (pre ++ v ++ rest) n (length pre) false = Ok (length pre + length v)%nat.
Proof.
  induction v as [|c r IH]; intros pre rest n f Hp Hrest Hf.
  - destruct f as [|f]; [lia|]. cbn [app length]. rewrite Nat.add_0_r. apply sfv_end.
    rewrite get_app_at. destruct Hrest as [->|[r0 ->]]; [left|right]; reflexivity.
  - destruct f as [|f]; [cbn in Hf; lia|].
    cbn [forallb] in Hp. apply andb_true_iff in Hp. destruct Hp as [Hc Hr].
    unfold plainv in Hc. apply negb_true_iff in Hc. apply orb_false_iff in Hc. destruct Hc as [Hc H3].
    apply orb_false_iff in Hc. destruct Hc as [H1 H2].
    cbn [app]. rewrite (sfv_plain f _ n (length pre) c false (get_app_mid pre c _) H1 H2 (or_intror H3)).
    rewrite snoc_cons, <- (len_snoc pre c).
    rewrite (IH (pre ++ [c]) rest n f Hr Hrest ltac:(cbn [length app] in Hf; lia)).
    rewrite len_snoc. cbn [length]. f_equal; lia.
Qed.

Lemma sfv_string_run : forall s pre post n f,
  (length pre + length (escape_string_field s) < n)%nat ->
  (length (escape_string_field s ++ post) < f)%nat ->
  exists f', (length post < f')%nat /\
    sfv f (pre ++ escape_string_field s ++ post) n (length pre) true =
    sfv f' (pre ++ escape_string_field s ++ post) n (length pre + length (escape_string_field s)) true.
Proof.
  induction s as [|c r IH]; intros pre post n f Hn Hf.
  - exists f. cbn [escape_string_field app length] in *. split; [exact Hf|]. rewrite Nat.add_0_r. reflexivity.
  - cbn [escape_string_field] in *. destruct ((c =? c_quote) || (c =? c_bs)) eqn:Esp.
    + destruct f as [|f]; [cbn in Hf; lia|]. cbn [app length] in *.
      rewrite (sfv_esc f _ n (length pre) c true (get_app_mid pre c_bs _)
                 ltac:(apply Nat.ltb_lt; lia) (rd_next pre c_bs c _) Esp).
      rewrite snoc_cons. rewrite (snoc_cons (pre ++ [c_bs]) c).
      replace (length pre + 2)%nat with (length ((pre ++ [c_bs]) ++ [c])) by (rewrite !len_snoc; lia).
      destruct (IH ((pre ++ [c_bs]) ++ [c]) post n f ltac:(rewrite !len_snoc; lia)
                  ltac:(rewrite app_length in *; lia)) as [f' [Hf' He]].
      exists f'. split; [exact Hf'|]. rewrite He. rewrite !len_snoc. f_equal; lia.
    + apply orb_false_iff in Esp. destruct Esp as [Eq Eb].
      destruct f as [|f]; [cbn in Hf; lia|]. cbn [app length] in *.
      rewrite (sfv_plain f _ n (length pre) c true (get_app_mid pre c _) Eb Eq (or_introl eq_refl)).
      rewrite snoc_cons. rewrite <- (len_snoc pre c).
      destruct (IH (pre ++ [c]) post n f ltac:(rewrite len_snoc; lia)
                  ltac:(rewrite app_length in *; lia)) as [f' [Hf' He]].
      exists f'. split; [exact Hf'|]. rewrite He. rewrite len_snoc. f_equal; lia.
Qed.

(* value texts the iterator delimits as one value *)
Inductive viter : bytes -> Prop :=
| VIPlain v : forallb plainv v = true -> viter v
| VIStr s : viter (c_quote :: escape_string_field s ++ [c_quote]).

Lemma scan_field_value_ok slack pre v rest :
  viter v -> comma_or_end rest ->
  scan_field_value slack (pre ++ v ++ rest) (length pre) = Ok ((length pre + length v)%nat, v).
Proof.
  intros Hv Hrest. unfold scan_field_value.
  destruct (Nat.ltb_spec (length (pre ++ v ++ rest)) (length pre)) as [H|_]; [rewrite app_length in H; lia|].
  assert (Hloop : sfv (S (length (pre ++ v ++ rest))) (pre ++ v ++ rest) (length (pre ++ v ++ rest)) (length pre) false =
                  Ok (length pre + length v)%nat).
  { destruct Hv as [v Hp|s].
    - apply sfv_plain_run; [exact Hp|exact Hrest|llen; lia].
    - set (body := escape_string_field s).
      set (buf := pre ++ (c_quote :: body ++ [c_quote]) ++ rest).
      assert (Hlen : length buf = (length pre + S (length body + 1) + length rest)%nat) by (unfold buf; llen; lia).
      assert (Hb1 : buf = pre ++ c_quote :: body ++ c_quote :: rest) by (unfold buf; lnorm; reflexivity).
      rewrite (sfv_quote _ buf (length buf) (length pre) false ltac:(rewrite Hb1; apply get_app_mid)).
      cbn [negb].
      assert (Hb2 : buf = (pre ++ [c_quote]) ++ body ++ c_quote :: rest) by (rewrite Hb1; lnorm; reflexivity).
      destruct (sfv_string_run s (pre ++ [c_quote]) (c_quote :: rest) (length buf) (length buf)
                  ltac:(rewrite len_snoc, Hlen; fold body; lia)
                  ltac:(fold body; rewrite Hlen; llen; lia)) as [f' [Hf' He]].
      fold body in He. rewrite <- Hb2 in He. rewrite len_snoc in He. rewrite He. clear He.
      destruct f' as [|f']; [cbn in Hf'; lia|].
      assert (Hb3 : buf = ((pre ++ [c_quote]) ++ body) ++ c_quote :: rest) by (rewrite Hb2; lnorm; reflexivity).
      assert (Hl3 : length ((pre ++ [c_quote]) ++ body) = (S (length pre) + length body)%nat) by (llen; lia).
      rewrite (sfv_quote f' buf (length buf) (S (length pre) + length body) true
                 ltac:(rewrite Hb3, <- Hl3; apply get_app_mid)).
      cbn [negb]. destruct f' as [|f']; [cbn in Hf'; lia|].
      rewrite sfv_end.
      + f_equal; llen; lia.
      + rewrite Hb3. rewrite (snoc_cons _ c_quote rest).
        replace (S (S (length pre) + length body)) with (length ((((pre ++ [c_quote]) ++ body)) ++ [c_quote]))
          by (rewrite len_snoc, Hl3; reflexivity).
        rewrite get_app_at. destruct Hrest as [->|[r0 ->]]; [left|right]; reflexivity. }
  rewrite Hloop. cbn [bind]. rewrite slice_app_mid. reflexivity.
Qed.

(* ---- the typed accessors on each value text ---- *)
Lemma strip_last_snoc (x : bytes) c : strip_last (x ++ [c]) = x.
Proof.
  unfold strip_last. rewrite app_length. cbn [length]. replace (length x + 1 - 1)%nat with (length x) by lia.
  rewrite firstn_app, firstn_all, Nat.sub_diag. cbn [firstn]. apply app_nil_r.
Qed.

Lemma rdm_end (x : bytes) c : rdm (x ++ [c]) (length (x ++ [c])) 1 = Ok c.
Proof. rewrite len_snoc. apply rdm_last1. Qed.

Lemma parse_digits_all_digits : forall l a v, parse_digits a l = Some v -> forallb is_digit l = true.
Proof.
  induction l as [|c r IH]; intros a v H; [reflexivity|]. cbn [parse_digits forallb] in *.
  destruct (is_digit c); [|discriminate]. cbn [andb]. eapply IH. exact H.
Qed.

(* decimal text: digits only *)
Lemma fmt_n_digits v : v < 10000000000000000000000000 ->
  exists d ds, fmt_n v = d :: ds /\ forallb is_digit (d :: ds) = true /\ parse_digits 0 (fmt_n v) = Some v.
Proof.
  intros Hv. destruct (fmt_n_spec v Hv) as [d [ds [E [Hd Hp]]]]. exists d, ds. split; [exact E|]. split; [|exact Hp].
  rewrite <- E. eapply parse_digits_all_digits. exact Hp.
Qed.

Lemma digits_num_body : forall l dec, forallb is_digit l = true ->
  num_body dec l = true /\ dec_after dec l = dec /\ ndigits l = length l /\ forallb plainv l = true.
Proof.
  induction l as [|c r IH]; intros dec H; [repeat split; reflexivity|].
  cbn [forallb] in H. apply andb_true_iff in H. destruct H as [Hc Hr].
  assert (Hn : is_numeric c = true) by (unfold is_numeric; rewrite Hc; reflexivity).
  assert (Hd : (c =? c_dot) = false) by (unfold is_digit, c_0, c_9, c_dot in *; lia).
  destruct (is_numeric_facts c Hn) as (H1&_&_&_&_&_&_&_&_&_&H11&H12&_).
  destruct (IH (dec || false) Hr) as (I1&I2&I3&I4). rewrite orb_false_r in *.
  cbn [num_body dec_after ndigits forallb length]. rewrite Hn, Hd, I3. cbn [andb negb]. rewrite orb_false_r.
  repeat split; try assumption; try lia.
  unfold plainv at 1. rewrite H11, H12, H1. cbn [orb negb andb]. exact I4.
Qed.

Definition is_numeric_start_b (c : N) : bool := is_numeric_start c.

Lemma digit_numeric_start c : is_digit c = true -> is_numeric_start c = true /\ (c =? c_quote) = false /\
  (c =? c_i) = false /\ (c =? c_u) = false /\ num_start c = true /\ is_term c = false.
Proof.
  intros H. unfold is_digit, c_0, c_9 in H.
  assert (Hc : c = 48 \/ c = 49 \/ c = 50 \/ c = 51 \/ c = 52 \/ c = 53 \/ c = 54 \/ c = 55 \/ c = 56 \/ c = 57) by lia.
  repeat (destruct Hc as [->|Hc]; [repeat split; reflexivity|]). subst. repeat split; reflexivity.
Qed.

Section Oracle.
Variable pf : bytes -> option N.
Variable us : bool.

(* what a value text means *)
Definition val_text_ok (fv : fvalue) (txt : bytes) : Prop :=
  match fv with
  | FInt z => TimeProofs.in_int64 z /\ txt = fmt_z z ++ [c_i]
  | FUint n => us = true /\ n <= max_uint64 /\ txt = fmt_n n ++ [c_u]
  | FFloat b => exists neg body, txt = sign_txt neg ++ body /\ num_body false body = true /\ (0 < ndigits body)%nat /\
                                 pf txt = Some b
  | FBool b => In txt (bool_spellings b)
  | FString s => txt = c_quote :: escape_string_field s ++ [c_quote]
  | FEmpty => False
  end.

Lemma fmt_z_shape z : TimeProofs.in_int64 z ->
  exists neg d ds, fmt_z z = sign_txt neg ++ d :: ds /\ forallb is_digit (d :: ds) = true.
Proof.
  intros Hz. unfold TimeProofs.in_int64 in Hz. unfold fmt_z. destruct (z <? 0)%Z.
  - destruct (fmt_n_digits (Z.to_N (- z)) ltac:(lia)) as [d [ds [E [Hd _]]]]. exists true, d, ds. rewrite E. split; [reflexivity|exact Hd].
  - destruct (fmt_n_digits (Z.to_N z) ltac:(lia)) as [d [ds [E [Hd _]]]]. exists false, d, ds. rewrite E. split; [reflexivity|exact Hd].
Qed.

Lemma sign_plainv neg : forallb plainv (sign_txt neg) = true.
Proof. destruct neg; reflexivity. Qed.

Lemma num_body_plainv : forall l dec, num_body dec l = true -> forallb plainv l = true.
Proof.
  induction l as [|c r IH]; intros dec H; [reflexivity|].
  cbn [num_body] in H. apply andb_true_iff in H. destruct H as [H Hr]. apply andb_true_iff in H. destruct H as [Hn _].
  destruct (is_numeric_facts c Hn) as (H1&_&_&_&_&_&_&_&_&_&H11&H12&_).
  cbn [forallb]. unfold plainv at 1. rewrite H11, H12, H1. cbn [orb negb andb]. eapply IH. exact Hr.
Qed.

(* every value text is delimited by the iterator as the scanner delimits it *)
Lemma val_text_viter fv txt : val_text_ok fv txt -> viter txt.
Proof.
  destruct fv as [z|n|b|b|s|]; cbn [val_text_ok]; intros H.
  - destruct H as [Hz ->]. destruct (fmt_z_shape z Hz) as [neg [d [ds [-> Hd]]]].
    apply VIPlain. rewrite !forallb_app, sign_plainv. destruct (digits_num_body _ false Hd) as (_&_&_&Hp). rewrite Hp. reflexivity.
  - destruct H as [_ [Hn ->]]. unfold max_uint64 in Hn. destruct (fmt_n_digits n ltac:(lia)) as [d [ds [E [Hd _]]]].
    apply VIPlain. rewrite forallb_app, E. destruct (digits_num_body _ false Hd) as (_&_&_&Hp). rewrite Hp. reflexivity.
  - destruct H as [neg [body [-> [Hb _]]]]. apply VIPlain. rewrite forallb_app, sign_plainv, (num_body_plainv _ _ Hb). reflexivity.
  - apply VIPlain. destruct b; cbn [bool_spellings In] in H;
      repeat (destruct H as [<- |H]; [reflexivity|]); destruct H.
  - subst txt. apply VIStr.
  - destruct H.
Qed.

(* ... and is accepted by scanFields *)
Lemma val_text_vscan fv txt : val_text_ok fv txt -> vscan pf us txt.
Proof.
  destruct fv as [z|n|b|b|s|]; cbn [val_text_ok]; intros H.
  - destruct H as [Hz ->]. destruct (fmt_z_shape z Hz) as [neg [d [ds [E Hd]]]].
    destruct (digits_num_body _ false Hd) as (Hnb&Hda&Hnd&_).
    assert (Hv0 : exists v0 vr, fmt_z z ++ [c_i] = v0 :: vr /\ num_start v0 = true /\ is_term v0 = false).
    { rewrite E. cbn [forallb] in Hd. apply andb_true_iff in Hd. destruct Hd as [Hd0 _].
      destruct (digit_numeric_start d Hd0) as (_&_&_&_&Hns&Ht).
      destruct neg; cbn [sign_txt app]; eexists _, _; (split; [reflexivity|]); [split; reflexivity|split; assumption]. }
    destruct Hv0 as [v0 [vr [Ev [Hns Ht]]]]. rewrite Ev. apply VNum; [exact Hns|exact Ht|].
    intros pre rest Hrest. rewrite <- Ev, E.
    pose proof (scan_number_value pf us pre neg (d :: ds) [c_i] rest Hnb ltac:(rewrite Hnd; cbn [length]; lia) Hrest) as Hsn.
    replace (pre ++ ((sign_txt neg ++ d :: ds) ++ [c_i]) ++ rest) with (pre ++ sign_txt neg ++ (d :: ds) ++ [c_i] ++ rest) by (lnorm; reflexivity).
    rewrite Hsn.
    + f_equal; llen; lia.
    + right. left. split; [reflexivity|]. split; [exact Hda|]. rewrite <- E, (parse_int64_fmt_z z Hz). discriminate.
  - destruct H as [Hus [Hn ->]]. unfold max_uint64 in Hn. destruct (fmt_n_digits n ltac:(lia)) as [d [ds [E [Hd Hp]]]].
    destruct (digits_num_body _ false Hd) as (Hnb&Hda&Hnd&_).
    rewrite E. cbn [app]. pose proof Hd as Hd'. cbn [forallb] in Hd'. apply andb_true_iff in Hd'. destruct Hd' as [Hd0 _].
    destruct (digit_numeric_start d Hd0) as (_&_&_&_&Hns&Ht).
    apply VNum; [exact Hns|exact Ht|]. intros pre rest Hrest.
    pose proof (scan_number_value pf us pre false (d :: ds) [c_u] rest Hnb ltac:(rewrite Hnd; cbn [length]; lia) Hrest) as Hsn.
    cbn [sign_txt app] in Hsn.
    replace (pre ++ (d :: ds ++ [c_u]) ++ rest) with (pre ++ d :: ds ++ c_u :: rest) by (lnorm; reflexivity).
    rewrite Hsn.
    + f_equal; llen; lia.
    + right. right. split; [reflexivity|]. split; [exact Hda|]. split; [reflexivity|]. split; [exact Hus|].
      unfold parse_uint64. rewrite <- E, Hp. destruct (N.leb_spec n max_uint64) as [_|Hx]; [discriminate|unfold max_uint64 in Hx; lia].
  - destruct H as [neg [body [-> [Hb [Hnd Hpf]]]]].
    destruct body as [|b0 br]; [cbn in Hnd; lia|].
    pose proof (num_body_first _ _ _ Hb) as Hb0.
    assert (Hv0 : exists v0 vr, sign_txt neg ++ b0 :: br = v0 :: vr /\ num_start v0 = true /\ is_term v0 = false).
    { destruct (is_numeric_facts b0 Hb0) as (H1&H2&_).
      destruct neg; cbn [sign_txt app]; eexists _, _; (split; [reflexivity|]); [split; reflexivity|].
      split; [unfold num_start; rewrite Hb0; reflexivity|unfold is_term; rewrite H1, H2; reflexivity]. }
    destruct Hv0 as [v0 [vr [Ev [Hns Ht]]]]. rewrite Ev. apply VNum; [exact Hns|exact Ht|].
    intros pre rest Hrest. rewrite <- Ev.
    pose proof (scan_number_value pf us pre neg (b0 :: br) [] rest Hb Hnd Hrest) as Hsn.
    replace (pre ++ (sign_txt neg ++ b0 :: br) ++ rest) with (pre ++ sign_txt neg ++ (b0 :: br) ++ [] ++ rest) by (lnorm; reflexivity).
    rewrite Hsn.
    + f_equal; llen; lia.
    + left. split; [reflexivity|]. rewrite Hpf. discriminate.
  - assert (Hv0 : exists v0 vr, txt = v0 :: vr /\ num_start v0 = false /\ (v0 =? c_quote) = false /\ is_term v0 = false).
    { destruct b; cbn [bool_spellings In] in H;
        repeat (destruct H as [<- |H]; [eexists _, _; repeat split; reflexivity|]); destruct H. }
    destruct Hv0 as [v0 [vr [-> [Hns [Hq Ht]]]]]. apply VBool; [exact Hns|exact Hq|exact Ht|].
    intros pre rest Hrest. apply (scan_boolean_value pre b (v0 :: vr) rest H Hrest).
  - subst txt. apply VStr.
  - destruct H.
Qed.

(* ... and decodes to the value *)
Lemma val_text_field_value fv txt : val_text_ok fv txt -> field_value pf false txt = Ok fv.
Proof.
  destruct fv as [z|n|b|b|s|]; cbn [val_text_ok]; intros H.
  - destruct H as [Hz ->]. destruct (fmt_z_shape z Hz) as [neg [d [ds [E Hd]]]].
    pose proof Hd as Hd'. cbn [forallb] in Hd'. apply andb_true_iff in Hd'. destruct Hd' as [Hd0 _].
    destruct (digit_numeric_start d Hd0) as (Hs&Hq&_).
    assert (Hhd : exists c r, fmt_z z ++ [c_i] = c :: r /\ (c =? c_quote) = false /\ is_numeric_start c = true).
    { rewrite E. destruct neg; cbn [sign_txt app]; eexists _, _; (split; [reflexivity|]); [split; reflexivity|split; assumption]. }
    destruct Hhd as [c [r [Ec [Hcq Hcs]]]].
    unfold field_value. rewrite Ec, Hcq, Hcs. rewrite <- Ec. rewrite rdm_end. cbn [bind].
    rewrite N.eqb_refl, strip_last_snoc, (parse_int64_fmt_z z Hz). reflexivity.
  - destruct H as [_ [Hn ->]]. unfold max_uint64 in Hn. destruct (fmt_n_digits n ltac:(lia)) as [d [ds [E [Hd Hp]]]].
    pose proof Hd as Hd'. cbn [forallb] in Hd'. apply andb_true_iff in Hd'. destruct Hd' as [Hd0 _].
    destruct (digit_numeric_start d Hd0) as (Hs&Hq&_).
    unfold field_value. rewrite E. cbn [app]. rewrite Hq, Hs.
    change (d :: ds ++ [c_u]) with ((d :: ds) ++ [c_u]). rewrite rdm_end. cbn [bind].
    change (c_u =? c_i) with false. change (c_u =? c_u) with true. cbv iota.
    rewrite strip_last_snoc. rewrite E in Hp. unfold parse_uint64. rewrite Hp.
    destruct (N.leb_spec n max_uint64) as [_|Hx]; [reflexivity|unfold max_uint64 in Hx; lia].
  - destruct H as [neg [body [-> [Hb [Hnd Hpf]]]]].
    destruct body as [|b0 br]; [cbn in Hnd; lia|].
    pose proof (num_body_first _ _ _ Hb) as Hb0.
    (* first byte *)
    assert (Hb0s : is_numeric_start b0 = true /\ (b0 =? c_quote) = false).
    { destruct (is_numeric_facts b0 Hb0) as (_&_&_&_&_&_&_&_&_&_&_&Hq&_). split; [|exact Hq].
      unfold is_numeric, is_digit, c_0, c_9, c_dot in Hb0.
      assert (Hc : b0 = 46 \/ b0 = 48 \/ b0 = 49 \/ b0 = 50 \/ b0 = 51 \/ b0 = 52 \/ b0 = 53 \/ b0 = 54 \/ b0 = 55 \/ b0 = 56 \/ b0 = 57) by lia.
      repeat (destruct Hc as [->|Hc]; [reflexivity|]). subst. reflexivity. }
    destruct Hb0s as [Hs Hq].
    assert (Hhd : exists c r, sign_txt neg ++ b0 :: br = c :: r /\ (c =? c_quote) = false /\ is_numeric_start c = true).
    { destruct neg; cbn [sign_txt app]; eexists _, _; (split; [reflexivity|]); [split; reflexivity|split; assumption]. }
    destruct Hhd as [c [r [Ec [Hcq Hcs]]]].
    (* last byte: numeric *)
    assert (Hlast : exists x l, sign_txt neg ++ b0 :: br = x ++ [l] /\ is_numeric l = true).
    { destruct (exists_last (l := b0 :: br) ltac:(discriminate)) as [x [l El]]. exists (sign_txt neg ++ x), l.
      split; [rewrite El, app_assoc; reflexivity|].
      assert (Hall : forall y, In y (b0 :: br) -> is_numeric y = true).
      { clear - Hb. revert Hb. generalize false. induction (b0 :: br) as [|a t IHt]; intros dec Hb y Hy; [destruct Hy|].
        cbn [num_body] in Hb. apply andb_true_iff in Hb. destruct Hb as [Hb Ht]. apply andb_true_iff in Hb. destruct Hb as [Ha _].
        destruct Hy as [<-|Hy]; [exact Ha|]. eapply IHt; eassumption. }
      apply Hall. rewrite El. apply in_or_app. right. left. reflexivity. }
    destruct Hlast as [x [l [El Hl]]].
    destruct (is_numeric_facts l Hl) as (_&_&Hli&Hlu&_).
    unfold field_value. rewrite Ec, Hcq, Hcs. rewrite <- Ec. rewrite El at 1 2. rewrite rdm_end. cbn [bind].
    rewrite Hli, Hlu, Hpf. reflexivity.
  - destruct b; cbn [bool_spellings In] in H;
      repeat (destruct H as [<- |H]; [reflexivity|]); destruct H.
  - subst txt. unfold field_value. change (c_quote =? c_quote) with true. cbv iota.
    unfold string_value. cbn [length slice_m1].
    assert (Hsl : slice (c_quote :: escape_string_field s ++ [c_quote]) 1 (length (escape_string_field s ++ [c_quote])) =
                  Ok (escape_string_field s)).
    { replace (length (escape_string_field s ++ [c_quote])) with (length [c_quote] + length (escape_string_field s))%nat
        by (llen; lia).
      exact (slice_app_mid [c_quote] (escape_string_field s) [c_quote]). }
    rewrite Hsl. cbn [bind].
    rewrite escape_unescape_string_field. reflexivity.
  - destruct H.
Qed.

End Oracle.
