(* C12/FieldAsm.v — from typed field values to the scanners: the field set a point is printed with
   (and every other accepted spelling of the same values) is accepted by scanFields, passes the
   key-size walk, and the field iterator returns the values it was written from: same names, same
   types, same values/bits, same order. *)
From Verif Require Import C12.Base C12.Escape C12.Scan C12.Point C12.Spec C12.Print C12.ScanFacts C12.KeyFacts C12.OrderFacts
     C12.KeyComplete C12.LineProofs C12.EscapeProofs C12.TimeProofs C12.KeySort C12.KeyTheorem C12.SpecLink
     C12.FieldNum C12.FieldScan C12.FieldIter.
From VerifGen Require Import Consts.
From Coq Require Import ZifyBool ZifyNat ZifyN.
Open Scope N_scope.

(* ---- field keys as escape.String writes them ---- *)
Lemma stop_in_keys x : is_stop_k x = true -> mem x c12_escape_codes_keys = true.
Proof.
  unfold is_stop_k, c_space, c_comma, c_eq, c12_escape_codes_keys, mem. cbn [existsb]. intros H. lia.
Qed.

Lemma escape_bytes_spec k : escape_bytes k = spec_escape c12_escape_codes_keys k.
Proof. unfold escape_bytes. apply escape_bytes_keys_spec. reflexivity. Qed.

Lemma wf_fieldkey_escape k : name_ok k = true -> wf_tagkey (escape_bytes k) = true.
Proof.
  intros Hn. rewrite escape_bytes_spec. destruct k as [|c s]; [discriminate|].
  destruct (spec_escape_head c12_escape_codes_keys c s) as [c' [s' [He [Hc' Hl]]]].
  assert (Hsafe : safe is_stop_k c' s' = true).
  { pose proof (spec_escape_safe c12_escape_codes_keys is_stop_k (c :: s) 0 stop_in_keys eq_refl) as Hs.
    rewrite He in Hs. cbn [safe] in Hs. apply andb_true_iff in Hs. apply Hs. }
  rewrite He. cbn [wf_tagkey]. rewrite Hsafe, Hl, (name_ok_last c s Hn). cbn [negb andb]. rewrite !andb_true_r.
  destruct (mem c c12_escape_codes_keys) eqn:Em; subst c'; [reflexivity|].
  destruct (is_stop_k c) eqn:Es; [|reflexivity]. rewrite (stop_in_keys c Es) in Em. discriminate.
Qed.

(* the first byte of an escaped name is not whitespace unless the name starts with tab or NUL *)
Lemma escape_bytes_head_ws c s :
  ((c =? c_tab) || (c =? c_nul)) = false ->
  match escape_bytes (c :: s) with x :: _ => is_ws x = false | [] => True end.
Proof.
  intros Hc. rewrite escape_bytes_spec, spec_escape_cons.
  destruct (mem c c12_escape_codes_keys) eqn:Em; [reflexivity|].
  unfold is_ws. apply orb_false_iff in Hc. destruct Hc as [H1 H2]. rewrite H1, H2.
  destruct (c =? c_space) eqn:E3; [|reflexivity].
  assert (is_stop_k c = true) by (unfold is_stop_k; rewrite E3; reflexivity).
  rewrite (stop_in_keys c H) in Em. discriminate.
Qed.

Lemma render_fields_cons k v l :
  render_fields ((k, v) :: l) = k ++ c_eq :: v ++ match l with [] => [] | _ :: _ => c_comma :: render_fields l end.
Proof.
  destruct l as [|kv2 l']; cbn [render_fields]; unfold ftxt; cbn [fst snd].
  - rewrite app_nil_r. reflexivity.
  - rewrite <- app_assoc. reflexivity.
Qed.

Section Oracle.
Variable pf : bytes -> option N.
Variable us : bool.

(* a typed field and a text for it: the key text is the escaped name, the value text one of the
   accepted spellings of the value *)
Definition fld_rel (a : bytes * fvalue) (kv : bytes * bytes) : Prop :=
  fst kv = escape_bytes (fst a) /\ name_ok (fst a) = true /\ val_text_ok pf us (snd a) (snd kv).

Lemma fld_rel_ok a kv : fld_rel a kv -> fld_ok pf us kv.
Proof.
  intros [Hk [Hn Hv]]. split; [rewrite Hk; apply wf_fieldkey_escape; exact Hn|].
  eapply val_text_vscan. exact Hv.
Qed.

Lemma fld_rel_all_ok afs l : Forall2 fld_rel afs l -> Forall (fld_ok pf us) l.
Proof. induction 1; constructor; [eapply fld_rel_ok; eassumption|assumption]. Qed.

Lemma val_text_nonempty fv txt : val_text_ok pf us fv txt -> txt <> [].
Proof.
  intros H. pose proof (val_text_vscan pf us fv txt H) as Hv. destruct Hv; discriminate.
Qed.

(* ---- the field iterator on a rendered field set ---- *)
Lemma iter_fields_rendered : forall afs l, Forall2 fld_rel afs l -> forall pre fuel slack,
  (length l < fuel)%nat ->
  iter_fields pf fuel slack false (pre ++ render_fields l) (length pre) = Ok afs.
Proof.
  induction 1 as [|a kv afs' l' Hr Hall IH]; intros pre fuel slack Hf.
  - destruct fuel as [|f]; [cbn in Hf; lia|]. cbn [iter_fields render_fields]. rewrite app_nil_r, Nat.leb_refl. reflexivity.
  - destruct fuel as [|f]; [cbn in Hf; lia|]. destruct kv as [k v]. destruct a as [name fv].
    destruct Hr as [Hk [Hn Hv]]. cbn [fst snd] in Hk, Hn, Hv.
    pose proof (wf_fieldkey_escape name Hn) as Hwk. rewrite <- Hk in Hwk.
    rewrite render_fields_cons.
    set (rest := match l' with [] => [] | _ :: _ => c_comma :: render_fields l' end).
    assert (Hrest : comma_or_end rest) by (unfold rest; destruct l'; [left; reflexivity|right; eexists; reflexivity]).
    set (buf := pre ++ k ++ c_eq :: v ++ rest).
    assert (Hlen : length buf = (length pre + length k + 1 + length v + length rest)%nat) by (unfold buf; llen; lia).
    cbn [iter_fields]. destruct (Nat.leb_spec (length buf) (length pre)) as [Hx|_].
    { destruct (wf_tagkey_inv k Hwk) as [c [s [E _]]]. rewrite E in Hlen. cbn [length] in Hlen. lia. }
    unfold buf at 1. rewrite (scan_to_key pre k (v ++ rest) Hwk). cbn [bind]. fold buf.
    assert (Hik : iter_field_key k = name) by (rewrite Hk; apply field_key_roundtrip).
    rewrite Hik.
    set (X := pre ++ k ++ [c_eq]).
    assert (HX : buf = X ++ v ++ rest) by (unfold buf, X; lnorm; reflexivity).
    assert (HlX : length X = (length pre + length k + 1)%nat) by (unfold X; llen; lia).
    rewrite <- HlX. rewrite HX at 1.
    rewrite (scan_field_value_ok slack X v rest (val_text_viter pf us fv v Hv) Hrest). cbn [bind].
    destruct name as [|n0 nr]; [discriminate|].
    rewrite (val_text_field_value pf us fv v Hv). cbn [bind].
    assert (Hrec : iter_fields pf f slack false buf (S (length X + length v)) = Ok afs').
    { unfold rest in *. destruct l' as [|kv2 l''].
      - inversion Hall; subst. destruct f as [|f']; [cbn in Hf; lia|]. cbn [iter_fields].
        destruct (Nat.leb_spec (length buf) (S (length X + length v))) as [_|Hx]; [reflexivity|].
        rewrite Hlen, HlX in Hx. cbn [length] in Hx. lia.
      - assert (HX2 : buf = (X ++ v ++ [c_comma]) ++ render_fields (kv2 :: l'')) by (rewrite HX; lnorm; reflexivity).
        replace (S (length X + length v)) with (length (X ++ v ++ [c_comma])) by (llen; lia).
        rewrite HX2. apply IH. cbn [length] in Hf |- *. lia. }
    rewrite Hrec. reflexivity.
Qed.

(* ---- walkFields with the key-size check ---- *)
Definition fld_size_ok (keylen : nat) (kv : bytes * bytes) : Prop :=
  N.of_nat (keylen + c12_field_key_sep_len + length (fst kv)) <= c12_max_key_length.

Lemma walk_rendered keylen : forall afs l, Forall2 fld_rel afs l -> Forall (fld_size_ok keylen) l ->
  forall fuel, (length l < fuel)%nat -> walk_fields_keysize fuel keylen (render_fields l) = Ok tt.
Proof.
  induction 1 as [|a kv afs' l' Hr Hall IH]; intros Hsz fuel Hf.
  - destruct fuel as [|f]; [cbn in Hf; lia|]. reflexivity.
  - destruct fuel as [|f]; [cbn in Hf; lia|]. destruct kv as [k v]. destruct a as [name fv].
    destruct Hr as [Hk [Hn Hv]]. cbn [fst snd] in Hk, Hn, Hv.
    pose proof (wf_fieldkey_escape name Hn) as Hwk. rewrite <- Hk in Hwk.
    apply Forall_cons_iff in Hsz. destruct Hsz as [Hs1 Hsz']. unfold fld_size_ok in Hs1. cbn [fst] in Hs1.
    rewrite render_fields_cons.
    set (rest := match l' with [] => [] | _ :: _ => c_comma :: render_fields l' end).
    assert (Hrest : comma_or_end rest) by (unfold rest; destruct l'; [left; reflexivity|right; eexists; reflexivity]).
    set (buf := k ++ c_eq :: v ++ rest).
    assert (Hvne : v <> []) by (eapply val_text_nonempty; exact Hv).
    assert (Hlen : length buf = (length k + 1 + length v + length rest)%nat) by (unfold buf; llen; lia).
    cbn [walk_fields_keysize].
    destruct buf as [|b0 br] eqn:Eb.
    { exfalso. unfold buf in Eb. destruct k; discriminate. }
    rewrite <- Eb. rewrite <- Eb in Hlen.
    pose proof (scan_to_key [] k (v ++ rest) Hwk) as Hst. cbn [app length Nat.add] in Hst. fold buf in Hst.
    rewrite Hst. cbn [bind].
    destruct (Nat.ltb_spec (length buf) (length k + 2)) as [Hx|_].
    { rewrite Hlen in Hx. destruct v; [congruence|]. cbn [length] in Hx. lia. }
    assert (Hb1 : slice buf (length k + 1) (length buf) = Ok (v ++ rest)).
    { assert (E : buf = (k ++ [c_eq]) ++ v ++ rest) by (unfold buf; lnorm; reflexivity).
      rewrite E at 1 2. replace (length k + 1)%nat with (length (k ++ [c_eq])) by (llen; lia). apply slice_suffix. }
    rewrite Hb1. cbn [bind].
    pose proof (scan_field_value_ok 0 [] v rest (val_text_viter pf us fv v Hv) Hrest) as Hsv. cbn [app length Nat.add] in Hsv.
    rewrite Hsv. cbn [bind fst].
    rewrite (slice_suffix v rest). cbn [bind].
    destruct (N.ltb_spec c12_max_key_length (N.of_nat (keylen + c12_field_key_sep_len + length k))) as [Hx|_]; [lia|].
    unfold rest. destruct l' as [|kv2 l'']; [reflexivity|].
    apply IH; [exact Hsz'|]. cbn [length] in Hf |- *. lia.
Qed.

(* Fields() : the iterator's sequence without Empty-typed entries; none here *)
Lemma filter_no_empty afs l : Forall2 fld_rel afs l ->
  filter (fun kv : bytes * fvalue => match snd kv with FEmpty => false | _ => true end) afs = afs.
Proof.
  induction 1 as [|a kv afs' l' Hr Hall IH]; [reflexivity|]. cbn [filter].
  destruct Hr as [_ [_ Hv]]. destruct (snd a); try (rewrite IH; reflexivity). destruct Hv.
Qed.

Lemma render_fields_length l : Forall (fld_ok pf us) l -> (length l <= length (render_fields l))%nat.
Proof.
  induction 1 as [|[k v] l' [Hk _] Hall IH]; [cbn; lia|]. cbn [fst] in Hk.
  rewrite render_fields_cons. destruct (wf_tagkey_inv k Hk) as [c [s [-> _]]].
  destruct l'; llen; [lia|]. cbn [length] in IH. lia.
Qed.

Lemma render_fields_nonempty l : l <> [] -> render_fields l <> [].
Proof.
  destruct l as [|[k v] l']; [congruence|]. intros _. rewrite render_fields_cons. intros E.
  apply app_eq_nil in E. destruct E as [_ E]. discriminate.
Qed.

(* ---- the field-set theorem: scanFields, walkFields and Fields() on a rendered field set ---- *)
Theorem fields_roundtrip pre afs l rest keylen :
  afs <> [] -> Forall2 fld_rel afs l -> space_or_end rest ->
  match render_fields l with c :: _ => is_ws c = false | [] => True end ->
  Forall (fld_size_ok keylen) l ->
  scan_fields pf us (pre ++ c_space :: render_fields l ++ rest) (length pre) =
    Ok (length (pre ++ c_space :: render_fields l), render_fields l) /\
  walk_fields_keysize (S (length (render_fields l))) keylen (render_fields l) = Ok tt /\
  (forall key t, point_fields pf 0 (mk_point key (render_fields l) t) = Ok afs).
Proof.
  intros Hne Hrel Hrest Hws Hsz.
  assert (Hlne : l <> []) by (destruct Hrel; [congruence|discriminate]).
  pose proof (fld_rel_all_ok afs l Hrel) as Hok.
  split; [apply scan_fields_rendered; assumption|]. split.
  - apply (walk_rendered keylen afs l Hrel Hsz). pose proof (render_fields_length l Hok). lia.
  - intros key t. unfold point_fields. cbn [p_fields].
    pose proof (iter_fields_rendered afs l Hrel [] (S (length (render_fields l))) 0
                  ltac:(pose proof (render_fields_length l Hok); lia)) as Hit.
    cbn [app length] in Hit. rewrite Hit. cbn [bind]. rewrite (filter_no_empty afs l Hrel). reflexivity.
Qed.

End Oracle.
