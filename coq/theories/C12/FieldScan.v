(* C12/FieldScan.v — scanFields on a rendered field set: field keys in which every ',' '=' ' '
   is preceded by a backslash (what escape.String produces), values of the shapes of FieldNum.v
   or quoted strings escaped by EscapeStringField.  The scanner accepts the text, consumes
   exactly it, and counts one '=' per field and one ',' between fields. *)
From Verif Require Import C12.Base C12.Escape C12.Scan C12.ScanFacts C12.KeyFacts C12.OrderFacts C12.KeyComplete
     C12.LineProofs C12.FieldNum C12.Print.
From VerifGen Require Import Consts.
From Coq Require Import ZifyBool ZifyNat ZifyN.
Open Scope N_scope.

Lemma rd_next (pre : bytes) c d r : rd (pre ++ c :: d :: r) (length pre + 1) = Ok d.
Proof. rewrite Nat.add_1_r. apply rd_get, get_cons_app. Qed.

Lemma is_stop_k_facts c : is_stop_k c = false ->
  (c =? c_space) = false /\ (c =? c_comma) = false /\ (c =? c_eq) = false.
Proof. unfold is_stop_k. intros H. apply orb_false_iff in H. destruct H as [H H3]. apply orb_false_iff in H. tauto. Qed.

Section Oracle.
Variable pf : bytes -> option N.
Variable us : bool.

Notation sfl := (scan_fields_loop pf us).

(* ---- single steps of the scanFields loop ---- *)
(* a byte that is not special in the current mode *)
Lemma sfl_plain f buf n start i c q e cm :
  get buf i = Some c -> (c =? c_bs) = false -> ((c =? c_quote) && (cm <? e)%nat) = false ->
  (q = true \/ is_stop_k c = false) ->
  sfl (S f) buf n start i q e cm = sfl f buf n start (S i) q e cm.
Proof.
  intros G Hb Hq Hs. cbn [scan_fields_loop]. rewrite G, Hb, Hq. cbn [andb].
  destruct Hs as [->|Hs].
  - cbn [negb]. rewrite !andb_false_r. cbn [bind andb]. rewrite ?andb_false_r. reflexivity.
  - destruct (is_stop_k_facts c Hs) as (H1&H2&H3). rewrite H3, H2, H1. cbn [andb bind]. reflexivity.
Qed.

(* a backslash pair *)
Lemma sfl_bs f buf n start i d q e cm :
  get buf i = Some c_bs -> (i + 1 <? n)%nat = true -> rd buf (i + 1) = Ok d ->
  sfl (S f) buf n start i q e cm =
  sfl f buf n start (if negb q && (d =? c_bs)%N then (i + 1)%nat else (i + 2)%nat) q e cm.
Proof.
  intros G Hn Hd. cbn [scan_fields_loop]. rewrite G, N.eqb_refl, Hn. cbn [andb]. rewrite Hd. cbn [bind].
  destruct (negb q && (d =? c_bs)); reflexivity.
Qed.

(* a quote while a value is open *)
Lemma sfl_quote f buf n start i q e cm :
  get buf i = Some c_quote -> (cm <? e)%nat = true ->
  (q = true -> match get buf (S i) with Some d => is_term d = true \/ d = c_quote | None => True end) ->
  sfl (S f) buf n start i q e cm = sfl f buf n start (S i) (negb q) e cm.
Proof.
  intros G Hq Hnext. cbn [scan_fields_loop]. rewrite G, Hq.
  change (c_quote =? c_bs) with false. change (c_quote =? c_quote) with true. cbn [andb].
  destruct q; cbn [negb andb].
  - specialize (Hnext eq_refl). destruct (get buf (S i)) as [d|]; [|reflexivity].
    destruct Hnext as [Ht| ->].
    + unfold is_term in Ht. destruct (d =? c_comma), (d =? c_space); cbn in Ht |- *; try discriminate; reflexivity.
    + change (c_quote =? c_comma) with false. change (c_quote =? c_space) with false. reflexivity.
  - destruct (get buf (S i)); reflexivity.
Qed.

(* the ',' between two fields *)
Lemma sfl_comma f buf n start i e :
  get buf i = Some c_comma ->
  sfl (S f) buf n start i false (S e) e = sfl f buf n start (S i) false (S e) (S e).
Proof.
  intros G. cbn [scan_fields_loop]. rewrite G.
  change (c_comma =? c_bs) with false. change (c_comma =? c_quote) with false. change (c_comma =? c_eq) with false.
  change (c_comma =? c_comma) with true. change (c_comma =? c_space) with false.
  cbn [andb negb bind]. rewrite Nat.ltb_irrefl. reflexivity.
Qed.

(* the end of the field set *)
Lemma sfl_end f buf n start i e cm :
  (get buf i = None \/ get buf i = Some c_space) ->
  sfl (S f) buf n start i false e cm = Ok (i, (false, e, cm)).
Proof.
  intros [G|G]; cbn [scan_fields_loop]; rewrite G; [reflexivity|].
  change (c_space =? c_bs) with false. change (c_space =? c_quote) with false. change (c_space =? c_eq) with false.
  change (c_space =? c_comma) with false. change (c_space =? c_space) with true.
  cbn [andb negb bind]. reflexivity.
Qed.

(* the '=' that ends a field key *)
Definition num_start (c : N) : bool := is_numeric c || (c =? c_minus) || (c =? c_N) || (c =? c_n).

Lemma sfl_eq f buf n start i e cm p1 v0 :
  get buf i = Some c_eq -> (i =? start)%nat = false ->
  rdm buf i 1 = Ok p1 -> (is_term p1 = true -> rdm buf i 2 = Ok c_bs) ->
  (n <=? i + 1)%nat = false -> rd buf (i + 1) = Ok v0 -> is_term v0 = false ->
  sfl (S f) buf n start i false e cm =
  if num_start v0 then (let* j := scan_number pf us buf (i + 1) in sfl f buf n start j false (S e) cm)
  else if negb (v0 =? c_quote) then (let* j := scan_boolean buf (i + 1) in sfl f buf n start j false (S e) cm)
  else sfl f buf n start (S i) false (S e) cm.
Proof.
  intros G Hst Hp1 Hp2 Hn Hv0 Ht. cbn [scan_fields_loop]. rewrite G.
  change (c_eq =? c_bs) with false. change (c_eq =? c_quote) with false. change (c_eq =? c_eq) with true.
  change (c_eq =? c_comma) with false. change (c_eq =? c_space) with false.
  cbn [andb negb]. rewrite Hst, Hp1. cbn [bind].
  assert (Hk1 : (if p1 =? c_space then let* p2 := rdm buf i 2 in Ok (negb (p2 =? c_bs)) else Ok false) = Ok false).
  { destruct (p1 =? c_space) eqn:E; [|reflexivity]. rewrite Hp2 by (unfold is_term; rewrite E; apply orb_true_r). reflexivity. }
  rewrite Hk1. cbn [bind].
  assert (Hk2 : (if p1 =? c_comma then let* p2 := rdm buf i 2 in Ok (negb (p2 =? c_bs)) else Ok false) = Ok false).
  { destruct (p1 =? c_comma) eqn:E; [|reflexivity]. rewrite Hp2 by (unfold is_term; rewrite E; reflexivity). reflexivity. }
  rewrite Hk2. cbn [bind]. rewrite Hn, Hv0. cbn [bind].
  unfold is_term in Ht. rewrite Ht. fold (num_start v0).
  destruct (num_start v0).
  - destruct (scan_number pf us buf (i + 1)); cbn [bind]; reflexivity.
  - destruct (negb (v0 =? c_quote)).
    + destruct (scan_boolean buf (i + 1)); cbn [bind]; reflexivity.
    + cbn [bind andb]. reflexivity.
Qed.

(* ---- a field key: every ',' '=' ' ' preceded by a backslash, last byte not a backslash ---- *)
Lemma safe_cons stops p x r : safe stops p (x :: r) = true ->
  (stops x = false \/ (p =? c_bs) = true) /\ safe stops x r = true.
Proof.
  cbn [safe]. intros H. apply andb_true_iff in H. destruct H as [H1 H2]. split; [|exact H2].
  destruct (stops x); [right|left; reflexivity]. exact H1.
Qed.

Lemma fields_key_run : forall m s pre c post n start e cm f,
  (length s <= m)%nat ->
  is_stop_k c = false -> safe is_stop_k c s = true -> (last s c =? c_bs) = false ->
  (cm <? e)%nat = false -> (length pre + S (length s) < n)%nat ->
  (length (c :: s ++ c_eq :: post) < f)%nat ->
  exists f', (length (c_eq :: post) < f')%nat /\
    sfl f (pre ++ c :: s ++ c_eq :: post) n start (length pre) false e cm =
    sfl f' (pre ++ c :: s ++ c_eq :: post) n start (length pre + S (length s)) false e cm.
Proof.
  induction m as [|m IH]; intros s pre c post n start e cm f Hm Hc Hs Hl Hq Hn Hf.
  - destruct s as [|x r]; [|cbn in Hm; lia]. cbn [last] in Hl. cbn [app length] in *.
    destruct f as [|f]; [lia|]. exists f. split; [lia|].
    rewrite (sfl_plain f _ n start (length pre) c false e cm (get_app_mid pre c _) Hl
               ltac:(rewrite Hq; apply andb_false_r) (or_intror Hc)).
    rewrite Nat.add_1_r. reflexivity.
  - destruct s as [|x r].
    { apply (IH [] pre c post n start e cm f); try assumption; cbn [length]; lia. }
    destruct f as [|f]; [cbn in Hf; lia|].
    apply safe_cons in Hs. destruct Hs as [Hx Hs].
    assert (Hl' : (last r x =? c_bs) = false) by (rewrite last_cons_cons in Hl; exact Hl).
    cbn [length] in *. cbn [app].
    destruct (c =? c_bs) eqn:Ecb.
    + apply N.eqb_eq in Ecb. subst c.
      rewrite (sfl_bs f _ n start (length pre) x false e cm (get_app_mid pre c_bs _)
                 ltac:(apply Nat.ltb_lt; lia) (rd_next pre c_bs x _)).
      cbn [negb andb].
      destruct (x =? c_bs) eqn:Exb.
      * (* doubled backslash: go on at the second one *)
        apply N.eqb_eq in Exb. subst x.
        rewrite snoc_cons. rewrite Nat.add_1_r, <- (len_snoc pre c_bs).
        destruct (IH r (pre ++ [c_bs]) c_bs post n start e cm f ltac:(lia) eq_refl Hs Hl' Hq
                    ltac:(rewrite len_snoc; lia) ltac:(cbn [length] in *; rewrite app_length in *; cbn [length] in *; lia))
          as [f' [Hf' He]].
        exists f'. split; [exact Hf'|]. rewrite He. rewrite len_snoc. f_equal; lia.
      * (* x is escaped: skipped *)
        destruct r as [|y r'].
        { exists f. split; [cbn [length app] in *; lia|]. cbn [length]. f_equal; lia. }
        apply safe_cons in Hs. destruct Hs as [Hy Hs].
        assert (Hyk : is_stop_k y = false) by (destruct Hy as [Hy|Hy]; [exact Hy|congruence]).
        assert (Hl'' : (last r' y =? c_bs) = false) by (rewrite last_cons_cons in Hl'; exact Hl').
        rewrite snoc_cons. rewrite (snoc_cons (pre ++ [c_bs]) x).
        replace (length pre + 2)%nat with (length ((pre ++ [c_bs]) ++ [x])) by (rewrite !len_snoc; lia).
        destruct (IH r' ((pre ++ [c_bs]) ++ [x]) y post n start e cm f ltac:(cbn [length] in Hm; lia) Hyk Hs Hl'' Hq
                    ltac:(rewrite !len_snoc; cbn [length] in Hn; lia)
                    ltac:(cbn [length] in *; rewrite app_length in *; cbn [length] in *; lia))
          as [f' [Hf' He]].
        exists f'. split; [exact Hf'|]. rewrite <- app_comm_cons. rewrite He. rewrite !len_snoc. cbn [length]. f_equal; lia.
    + assert (Hxk : is_stop_k x = false) by (destruct Hx as [Hx|Hx]; [exact Hx|congruence]).
      rewrite (sfl_plain f _ n start (length pre) c false e cm (get_app_mid pre c _) Ecb
                 ltac:(rewrite Hq; apply andb_false_r) (or_intror Hc)).
      rewrite snoc_cons. rewrite <- (len_snoc pre c).
      destruct (IH r (pre ++ [c]) x post n start e cm f ltac:(lia) Hxk Hs Hl' Hq
                  ltac:(rewrite len_snoc; lia) ltac:(cbn [length] in *; rewrite app_length in *; cbn [length] in *; lia))
        as [f' [Hf' He]].
      exists f'. split; [exact Hf'|]. rewrite He. rewrite len_snoc. f_equal; lia.
Qed.

(* ---- a quoted string body produced by EscapeStringField ---- *)
Lemma fields_string_run : forall s pre post n start e cm f,
  (length pre + length (escape_string_field s) < n)%nat ->
  (length (escape_string_field s ++ post) < f)%nat ->
  exists f', (length post < f')%nat /\
    sfl f (pre ++ escape_string_field s ++ post) n start (length pre) true e cm =
    sfl f' (pre ++ escape_string_field s ++ post) n start (length pre + length (escape_string_field s)) true e cm.
Proof.
  induction s as [|c r IH]; intros pre post n start e cm f Hn Hf.
  - exists f. cbn [escape_string_field app length] in *. split; [exact Hf|]. rewrite Nat.add_0_r. reflexivity.
  - cbn [escape_string_field] in *. destruct ((c =? c_quote) || (c =? c_bs)) eqn:Esp.
    + destruct f as [|f]; [cbn in Hf; lia|]. cbn [app length] in *.
      rewrite (sfl_bs f _ n start (length pre) c true e cm (get_app_mid pre c_bs _)
                 ltac:(apply Nat.ltb_lt; lia) (rd_next pre c_bs c _)).
      cbn [negb andb].
      rewrite snoc_cons. rewrite (snoc_cons (pre ++ [c_bs]) c).
      replace (length pre + 2)%nat with (length ((pre ++ [c_bs]) ++ [c])) by (rewrite !len_snoc; lia).
      destruct (IH ((pre ++ [c_bs]) ++ [c]) post n start e cm f ltac:(rewrite !len_snoc; lia)
                  ltac:(rewrite app_length in *; lia)) as [f' [Hf' He]].
      exists f'. split; [exact Hf'|]. rewrite He. rewrite !len_snoc. f_equal; lia.
    + apply orb_false_iff in Esp. destruct Esp as [Eq Eb].
      destruct f as [|f]; [cbn in Hf; lia|]. cbn [app length] in *.
      rewrite (sfl_plain f _ n start (length pre) c true e cm (get_app_mid pre c _) Eb
                 ltac:(rewrite Eq; reflexivity) (or_introl eq_refl)).
      rewrite snoc_cons. rewrite <- (len_snoc pre c).
      destruct (IH (pre ++ [c]) post n start e cm f ltac:(rewrite len_snoc; lia)
                  ltac:(rewrite app_length in *; lia)) as [f' [Hf' He]].
      exists f'. split; [exact Hf'|]. rewrite He. rewrite len_snoc. f_equal; lia.
Qed.

(* ---- value texts the scanner accepts as one value ---- *)
Inductive vscan : bytes -> Prop :=
| VNum v0 vr : num_start v0 = true -> is_term v0 = false ->
    (forall pre rest, term_or_end rest ->
       scan_number pf us (pre ++ (v0 :: vr) ++ rest) (length pre) = Ok (length (pre ++ v0 :: vr))) ->
    vscan (v0 :: vr)
| VBool v0 vr : num_start v0 = false -> (v0 =? c_quote) = false -> is_term v0 = false ->
    (forall pre rest, term_or_end rest ->
       scan_boolean (pre ++ (v0 :: vr) ++ rest) (length pre) = Ok (length (pre ++ v0 :: vr))) ->
    vscan (v0 :: vr)
| VStr s : vscan (c_quote :: escape_string_field s ++ [c_quote]).

(* the last two bytes of a key: a final ',' or ' ' is preceded by a backslash *)
Lemma key_last2 : forall s c, safe is_stop_k c s = true ->
  s = [] \/ exists a p2 p1, c :: s = a ++ [p2; p1] /\ (is_term p1 = true -> p2 = c_bs).
Proof.
  induction s as [|x r IH]; intros c Hs; [left; reflexivity|right].
  apply safe_cons in Hs. destruct Hs as [Hx Hs].
  destruct r as [|y r'].
  - exists [], c, x. split; [reflexivity|]. intros Ht.
    destruct Hx as [Hx|Hx]; [|apply N.eqb_eq; exact Hx].
    exfalso. unfold is_stop_k in Hx. unfold is_term in Ht.
    destruct (x =? c_comma), (x =? c_space); cbn in *; discriminate.
  - destruct (IH x Hs) as [E|[a [p2 [p1 [E Hesc]]]]]; [discriminate|].
    exists (c :: a), p2, p1. split; [cbn [app]; rewrite <- E; reflexivity|exact Hesc].
Qed.

(* one field "key=value": from the first key byte to the byte after the value *)
Lemma field_run k v pre rest start e f :
  wf_tagkey k = true -> vscan v -> term_or_end rest -> (start <= length pre)%nat ->
  (length (k ++ c_eq :: v ++ rest) < f)%nat ->
  let buf := pre ++ k ++ c_eq :: v ++ rest in
  exists f', (length rest < f')%nat /\
    sfl f buf (length buf) start (length pre) false e e =
    sfl f' buf (length buf) start (length (pre ++ k ++ c_eq :: v)) false (S e) e.
Proof.
  intros Hk Hv Hrest Hst Hf buf.
  destruct (wf_tagkey_inv k Hk) as [c [s [-> [Hc [Hs Hl]]]]].
  assert (Hvne : exists v0 vr, v = v0 :: vr /\ is_term v0 = false).
  { destruct Hv as [v0 vr _ Ht _|v0 vr _ _ Ht _|s0]; eauto. }
  destruct Hvne as [v0 [vr [Ev Htv0]]].
  assert (Hbuf : buf = pre ++ c :: s ++ c_eq :: (v ++ rest)) by (unfold buf; rewrite <- app_comm_cons; reflexivity).
  assert (Hlen : length buf = (length pre + S (length s) + S (length v + length rest))%nat).
  { rewrite Hbuf. rewrite !app_length. cbn [length]. rewrite !app_length. cbn [length]. rewrite app_length. lia. }
  clearbody buf.
  (* the key *)
  destruct (fields_key_run (length s) s pre c (v ++ rest) (length buf) start e e f (le_n _) Hc Hs Hl
              (Nat.ltb_irrefl e) ltac:(rewrite Hlen; lia)
              ltac:(cbn [length app] in Hf |- *; rewrite !app_length in *; cbn [length] in *; rewrite !app_length in *; lia))
    as [f1 [Hf1 He1]].
  rewrite <- Hbuf in He1. rewrite He1. clear He1.
  destruct f1 as [|f1]; [cbn in Hf1; lia|].
  set (ieq := (length pre + S (length s))%nat).
  set (X := pre ++ c :: s).
  assert (HX : buf = X ++ c_eq :: v0 :: vr ++ rest).
  { rewrite Hbuf, Ev. unfold X. rewrite <- app_assoc. reflexivity. }
  assert (HlX : length X = ieq) by (unfold X, ieq; rewrite app_length; cbn [length]; lia).
  assert (Hgeq : get buf ieq = Some c_eq) by (rewrite HX, <- HlX; apply get_app_mid).
  (* the bytes before the '=' *)
  assert (Hp : exists p1, rdm buf ieq 1 = Ok p1 /\ (is_term p1 = true -> rdm buf ieq 2 = Ok c_bs)).
  { destruct (key_last2 s c Hs) as [-> | [a [p2 [p1 [Ecs Hesc]]]]].
    - exists c. split.
      + rewrite Hbuf. unfold ieq. cbn [length app]. replace (length pre + 1)%nat with (S (length pre)) by lia. apply rdm_last1.
      + intros Ht. exfalso. unfold is_term in Ht. destruct (is_stop_k_facts c Hc) as (H1&H2&_). rewrite H1, H2 in Ht. discriminate.
    - exists p1. assert (HX2 : buf = (pre ++ a) ++ p2 :: p1 :: c_eq :: v ++ rest).
      { rewrite Hbuf. change (c :: s ++ c_eq :: v ++ rest) with ((c :: s) ++ c_eq :: v ++ rest). rewrite Ecs.
        rewrite <- !app_assoc. reflexivity. }
      assert (Hi : ieq = S (S (length (pre ++ a)))).
      { unfold ieq. assert (length (c :: s) = length (a ++ [p2; p1])) by (rewrite Ecs; reflexivity).
        rewrite !app_length in *. cbn [length] in *. lia. }
      split.
      + rewrite HX2, Hi. rewrite (snoc_cons (pre ++ a) p2). rewrite <- (len_snoc (pre ++ a) p2). apply rdm_last1.
      + intros Ht. rewrite <- (Hesc Ht). rewrite HX2, Hi. unfold rdm.
        destruct (Nat.ltb_spec (S (S (length (pre ++ a)))) 2); [lia|].
        replace (S (S (length (pre ++ a))) - 2)%nat with (length (pre ++ a)) by lia. apply rd_get, get_app_mid. }
  destruct Hp as [p1 [Hp1 Hp2]].
  assert (Hrdv : rd buf (ieq + 1) = Ok v0) by (rewrite HX, <- HlX; apply rd_next).
  rewrite (sfl_eq f1 buf (length buf) start ieq e e p1 v0 Hgeq ltac:(apply Nat.eqb_neq; unfold ieq; lia) Hp1 Hp2
             ltac:(apply Nat.leb_gt; rewrite Hlen, Ev; unfold ieq; cbn [length]; lia) Hrdv Htv0).
  assert (Hfin : length (pre ++ (c :: s) ++ c_eq :: v) = (ieq + 1 + length v)%nat).
  { rewrite !app_length. cbn [length]. unfold ieq. lia. }
  rewrite Hfin.
  assert (HXe : buf = (X ++ [c_eq]) ++ v ++ rest) by (rewrite HX, Ev, <- app_assoc; reflexivity).
  assert (HlXe : length (X ++ [c_eq]) = (ieq + 1)%nat) by (rewrite len_snoc, HlX; lia).
  destruct Hv as [v0' vr' Hns _ Hsn|v0' vr' Hns Hnq _ Hsb|s0].
  - inversion Ev; subst v0' vr'. rewrite Hns.
    assert (Hsn' : scan_number pf us buf (ieq + 1) = Ok (ieq + 1 + length (v0 :: vr))%nat).
    { rewrite HXe, <- HlXe. rewrite (Hsn (X ++ [c_eq]) rest Hrest). f_equal. apply app_length. }
    rewrite Hsn'. cbn [bind].
    exists f1. split; [cbn [length] in Hf1; rewrite app_length in Hf1; lia|reflexivity].
  - inversion Ev; subst v0' vr'. rewrite Hns, Hnq. cbn [negb].
    assert (Hsb' : scan_boolean buf (ieq + 1) = Ok (ieq + 1 + length (v0 :: vr))%nat).
    { rewrite HXe, <- HlXe. rewrite (Hsb (X ++ [c_eq]) rest Hrest). f_equal. apply app_length. }
    rewrite Hsb'. cbn [bind].
    exists f1. split; [cbn [length] in Hf1; rewrite app_length in Hf1; lia|reflexivity].
  - inversion Ev; subst v0 vr. change (num_start c_quote) with false. change (negb (c_quote =? c_quote)) with false. cbv iota.
    (* opening quote, body, closing quote *)
    set (body := escape_string_field s0) in *.
    assert (HXq : buf = (X ++ [c_eq]) ++ c_quote :: body ++ c_quote :: rest).
    { rewrite HXe. lnorm. reflexivity. }
    destruct f1 as [|f2]; [cbn [length app] in Hf1; lia|].
    replace (S ieq) with (ieq + 1)%nat by lia.
    rewrite (sfl_quote f2 buf (length buf) start (ieq + 1) false (S e) e
               ltac:(rewrite HXq, <- HlXe; apply get_app_mid) ltac:(apply Nat.ltb_lt; lia) ltac:(discriminate)).
    cbn [negb].
    assert (HXb : buf = ((X ++ [c_eq]) ++ [c_quote]) ++ body ++ c_quote :: rest).
    { rewrite HXq. lnorm. reflexivity. }
    assert (HlXb : length ((X ++ [c_eq]) ++ [c_quote]) = S (ieq + 1)) by (rewrite len_snoc, HlXe; reflexivity).
    destruct (fields_string_run s0 ((X ++ [c_eq]) ++ [c_quote]) (c_quote :: rest) (length buf) start (S e) e f2
                ltac:(rewrite HlXb, Hlen; fold body; unfold ieq; cbn [length]; rewrite !app_length; cbn [length]; lia)
                ltac:(fold body; cbn [length] in Hf1; rewrite !app_length in *; cbn [length] in *; rewrite !app_length in *; cbn [length] in *; lia))
      as [f3 [Hf3 He3]].
    fold body in He3. rewrite <- HXb, HlXb in He3. rewrite He3. clear He3.
    destruct f3 as [|f3]; [cbn in Hf3; lia|].
    assert (HXc : buf = (((X ++ [c_eq]) ++ [c_quote]) ++ body) ++ c_quote :: rest).
    { rewrite HXb. lnorm. reflexivity. }
    assert (HlXc : length (((X ++ [c_eq]) ++ [c_quote]) ++ body) = (S (ieq + 1) + length body)%nat)
      by (rewrite app_length, HlXb; reflexivity).
    rewrite (sfl_quote f3 buf (length buf) start (S (ieq + 1) + length body) true (S e) e
               ltac:(rewrite HXc, <- HlXc; apply get_app_mid) ltac:(apply Nat.ltb_lt; lia)).
    + exists f3. split; [cbn [length] in Hf3; lia|]. cbn [negb]. f_equal.
      cbn [length]. rewrite app_length. cbn [length]. lia.
    + intros _. rewrite HXc. rewrite (snoc_cons _ c_quote rest).
      replace (S (S (ieq + 1) + length body)) with (length ((((X ++ [c_eq]) ++ [c_quote]) ++ body) ++ [c_quote]))
        by (rewrite len_snoc, HlXc; reflexivity).
      rewrite get_app_at.
      destruct (term_or_end_get rest Hrest) as [->|[t [-> Ht]]]; [exact I|left; exact Ht].
Qed.


(* ---- the whole field set ---- *)
(* ftxt, render_fields: Print.v *)

Definition fld_ok (kv : bytes * bytes) : Prop := wf_tagkey (fst kv) = true /\ vscan (snd kv).
Definition space_or_end (rest : bytes) : Prop := rest = [] \/ exists r, rest = c_space :: r.

Lemma space_or_end_term rest : space_or_end rest -> term_or_end rest.
Proof. intros [->|[r ->]]; [left; reflexivity|right; exists c_space, r; split; reflexivity]. Qed.

Lemma fields_run : forall l pre rest start e f,
  l <> [] -> Forall fld_ok l -> space_or_end rest -> (start <= length pre)%nat ->
  (length (render_fields l ++ rest) < f)%nat ->
  sfl f (pre ++ render_fields l ++ rest) (length (pre ++ render_fields l ++ rest)) start (length pre) false e e =
  Ok (length (pre ++ render_fields l), (false, (e + length l)%nat, (e + length l - 1)%nat)).
Proof.
  induction l as [|[k v] r IH]; intros pre rest start e f Hne Hall Hrest Hst Hf; [congruence|].
  inversion Hall as [|? ? [Hk Hv] Hall']; subst. cbn [fst snd] in Hk, Hv.
  destruct r as [|kv2 r'].
  - cbn [render_fields length] in *. unfold ftxt in *. cbn [fst snd] in *.
    assert (Hb : pre ++ (k ++ c_eq :: v) ++ rest = pre ++ k ++ c_eq :: v ++ rest) by (lnorm; reflexivity).
    rewrite Hb.
    destruct (field_run k v pre rest start e f Hk Hv (space_or_end_term rest Hrest) Hst
                ltac:(rewrite <- app_assoc in Hf; exact Hf)) as [f' [Hf' He]].
    cbv zeta in He. rewrite He. destruct f' as [|f']; [lia|].
    rewrite sfl_end.
    + replace (e + 1 - 1)%nat with e by lia. replace (e + 1)%nat with (S e) by lia. first [reflexivity|f_equal; f_equal; rewrite !app_length; cbn [length]; rewrite !app_length; cbn [length]; lia].
    + replace (pre ++ k ++ c_eq :: v ++ rest) with ((pre ++ k ++ c_eq :: v) ++ rest) by (lnorm; reflexivity).
      rewrite get_app_at. destruct Hrest as [->|[r0 ->]]; [left|right]; reflexivity.
  - set (R := render_fields (kv2 :: r')) in *.
    assert (HR : render_fields ((k, v) :: kv2 :: r') = (k ++ c_eq :: v) ++ c_comma :: R) by reflexivity.
    rewrite HR in *.
    assert (Hb : pre ++ ((k ++ c_eq :: v) ++ c_comma :: R) ++ rest = pre ++ k ++ c_eq :: v ++ (c_comma :: R ++ rest))
      by (lnorm; reflexivity).
    rewrite Hb.
    destruct (field_run k v pre (c_comma :: R ++ rest) start e f Hk Hv
                ltac:(right; exists c_comma, (R ++ rest); split; reflexivity) Hst
                ltac:(replace (k ++ c_eq :: v ++ c_comma :: R ++ rest) with (((k ++ c_eq :: v) ++ c_comma :: R) ++ rest) by (lnorm; reflexivity); exact Hf)) as [f' [Hf' He]].
    cbv zeta in He. rewrite He. clear He. destruct f' as [|f']; [cbn in Hf'; lia|].
    set (X := pre ++ k ++ c_eq :: v).
    assert (HX : pre ++ k ++ c_eq :: v ++ c_comma :: R ++ rest = X ++ c_comma :: R ++ rest) by (unfold X; lnorm; reflexivity).
    rewrite HX.
    assert (HleX : (length pre <= length X)%nat) by (unfold X; rewrite app_length; lia).
    rewrite (sfl_comma f' _ _ start (length X) e (get_app_mid X c_comma _)).
    rewrite snoc_cons. rewrite <- (len_snoc X c_comma).
    assert (Q1 : (start <= length (X ++ [c_comma]))%nat) by (rewrite len_snoc; lia).
    assert (Q2 : (length (R ++ rest) < f')%nat) by (cbn [length] in Hf'; lia).
    assert (Q0 : kv2 :: r' <> []) by discriminate.
    rewrite (IH (X ++ [c_comma]) rest start (S e) f' Q0 Hall' Hrest Q1 Q2).
    replace (S e + length (kv2 :: r') - 1)%nat with (e + length ((k, v) :: kv2 :: r') - 1)%nat by (cbn [length]; lia).
    replace (S e + length (kv2 :: r'))%nat with (e + length ((k, v) :: kv2 :: r'))%nat by (cbn [length]; lia).
    assert (HlenX : length ((X ++ [c_comma]) ++ R) = length (pre ++ (k ++ c_eq :: v) ++ c_comma :: R)).
    { unfold X. llen. lia. }
    rewrite HlenX. reflexivity.
Qed.

(* scanFields from the space after the key *)
Theorem scan_fields_rendered pre l rest :
  l <> [] -> Forall fld_ok l -> space_or_end rest ->
  match render_fields l with c :: _ => is_ws c = false | [] => True end ->
  scan_fields pf us (pre ++ c_space :: render_fields l ++ rest) (length pre) =
  Ok (length (pre ++ c_space :: render_fields l), render_fields l).
Proof.
  intros Hne Hall Hrest Hws. unfold scan_fields.
  set (R := render_fields l) in *.
  assert (HRne : exists c R', R = c :: R' /\ is_ws c = false).
  { destruct l as [|[k v] r]; [congruence|]. inversion Hall as [|? ? [Hk _] _]; subst. cbn [fst] in Hk.
    destruct (wf_tagkey_inv k Hk) as [c [s [-> _]]].
    unfold R in *. cbn [render_fields ftxt fst snd] in *. destruct r; cbn [app] in *; eexists _, _; split; try reflexivity; exact Hws. }
  destruct HRne as [c [R' [ER Hc]]].
  set (buf := pre ++ c_space :: R ++ rest).
  assert (Hsk : skip_whitespace buf (length pre) = S (length pre)).
  { unfold skip_whitespace. assert (Hl : exists m, length buf = S (S m)).
    { exists (length pre + length R' + length rest)%nat. unfold buf. rewrite ER. llen. lia. }
    destruct Hl as [m ->]. cbn [skip_ws].
    unfold buf. rewrite get_app_mid. cbn [is_ws c_space N.eqb Pos.eqb orb].
    rewrite ER. cbn [app]. rewrite get_cons_app, Hc. reflexivity. }
  rewrite Hsk.
  assert (Hb : buf = (pre ++ [c_space]) ++ R ++ rest) by (unfold buf; lnorm; reflexivity).
  rewrite Hb. rewrite <- (len_snoc pre c_space).
  unfold R. rewrite (fields_run l (pre ++ [c_space]) rest (length (pre ++ [c_space])) 0 _ Hne Hall Hrest (le_n _))
    by (rewrite !app_length; cbn [length]; lia).
  cbn [bind Nat.add]. fold R.
  destruct l as [|kv r]; [congruence|]. cbn [length]. rewrite Nat.eqb_refl. cbn [Nat.eqb orb negb].
  rewrite (app_length (pre ++ [c_space]) R). rewrite slice_app_mid. cbn [bind]. f_equal; f_equal; llen; lia.
Qed.

End Oracle.
