(* C12/TimeExact.v — the timestamp of a line at the requested precision: for EVERY timestamp
   text and every precision string, the model of scanTime + strconv.ParseInt + SafeCalcTime
   (safeSignedMult with its int64 product taken mod 2^64, then CheckTime) accepts exactly the
   texts whose exact product text_value * unit, computed in Z, lies in [MinNanoTime,
   MaxNanoTime], and then stores exactly that product; everything else is rejected. *)
From Verif Require Import C12.Base C12.Escape C12.Scan C12.Point C12.Spec C12.ScanFacts C12.OrderFacts C12.TimeProofs.
From VerifGen Require Import Consts.
From Coq Require Import ZifyBool ZifyNat ZifyN.
Open Scope N_scope.

(* the texts scanTime lets through: an optional '-' in front, digits otherwise *)
Definition time_shape (s : bytes) : bool :=
  match s with
  | [] => false
  | c :: r => ((c =? c_minus) || is_digit c) && forallb is_digit r
  end.

(* what parsePoint does with a non-empty timestamp token *)
Definition time_of_text (s prec : bytes) : res tm :=
  match parse_int64 s with
  | None => Err 24
  | Some v => safe_calc_time v prec
  end.

Lemma spec_dec_parse_digits l : forall a, spec_dec (Z.of_N a) l = option_map Z.of_N (parse_digits a l).
Proof.
  induction l as [|c r IH]; intros a; cbn [spec_dec parse_digits option_map]; [reflexivity|].
  destruct (is_digit c) eqn:Ed; [|reflexivity].
  rewrite <- IH. f_equal. unfold is_digit, c_0, c_9 in *. lia.
Qed.

Lemma parse_digits_digits l : forall a, forallb is_digit l = true -> exists v, parse_digits a l = Some v.
Proof.
  induction l as [|c r IH]; intros a H; cbn [parse_digits]; [eauto|].
  cbn [forallb] in H. apply andb_true_iff in H. destruct H as [Hc Hr]. rewrite Hc. apply IH. exact Hr.
Qed.

Lemma spec_dec_not_digits l : forall a, forallb is_digit l = false -> spec_dec a l = None.
Proof.
  induction l as [|c r IH]; intros a H; cbn [forallb] in H; [discriminate|].
  cbn [spec_dec]. destruct (is_digit c); [apply IH; exact H|reflexivity].
Qed.

(* strconv.ParseInt on a scanTime token: the value of the text when it fits int64 *)
Lemma parse_int64_spec s : time_shape s = true ->
  match parse_int64 s with
  | Some v => spec_ts_value s = Some v /\ in_int64 v
  | None => spec_ts_value s = None \/ exists t, spec_ts_value s = Some t /\ ~ in_int64 t
  end.
Proof.
  destruct s as [|c r]; [discriminate|]. cbn [time_shape]. intros H.
  apply andb_true_iff in H. destruct H as [Hc Hr].
  unfold parse_int64, spec_ts_value.
  destruct (c =? c_minus) eqn:Em.
  - destruct r as [|d r']; [left; reflexivity|].
    destruct (parse_digits_digits (d :: r') 0 Hr) as [v Hv]. rewrite Hv.
    pose proof (spec_dec_parse_digits (d :: r') 0) as Hs. rewrite Hv in Hs.
    change (Z.of_N 0) with 0%Z in Hs. rewrite Hs. cbn [option_map].
    destruct (N.leb_spec v 9223372036854775808).
    + split; [reflexivity|unfold in_int64; lia].
    + right. eexists. split; [reflexivity|unfold in_int64; lia].
  - cbn [orb] in Hc.
    assert (Ep : (c =? c_plus) = false) by (unfold is_digit, c_0, c_9, c_plus in *; lia).
    rewrite Ep.
    assert (Hall : forallb is_digit (c :: r) = true) by (cbn [forallb]; rewrite Hc, Hr; reflexivity).
    destruct (parse_digits_digits (c :: r) 0 Hall) as [v Hv]. rewrite Hv.
    pose proof (spec_dec_parse_digits (c :: r) 0) as Hs. rewrite Hv in Hs.
    change (Z.of_N 0) with 0%Z in Hs. rewrite Hs. cbn [option_map].
    destruct (N.leb_spec v 9223372036854775807).
    + split; [reflexivity|unfold in_int64; lia].
    + right. eexists. split; [reflexivity|unfold in_int64; lia].
Qed.

Lemma spec_mult_pos prec : (1 <= spec_mult prec)%Z.
Proof. rewrite <- precision_multiplier_spec. apply precision_units_ok. Qed.

(* timestamp_exact_or_rejected, on the token: equational form *)
Theorem time_of_text_exact s prec : time_shape s = true ->
  match spec_ts_verdict s prec with
  | Some ns => time_of_text s prec = Ok (tm_of_unix_nano ns) /\ tm_unix_nano (tm_of_unix_nano ns) = ns
  | None => exists e, time_of_text s prec = Err e
  end.
Proof.
  intros Hsh. pose proof (parse_int64_spec s Hsh) as H.
  unfold time_of_text, spec_ts_verdict.
  destruct (parse_int64 s) as [v|].
  - destruct H as [Hs Hin]. rewrite Hs. rewrite (safe_calc_time_spec v prec Hin).
    unfold spec_in_time_range, spec_min_nano_time, spec_max_nano_time, c12_min_nano_time, c12_max_nano_time.
    destruct ((-9223372036854775806 <=? v * spec_mult prec)%Z && (v * spec_mult prec <=? 9223372036854775806)%Z) eqn:E.
    + split; [reflexivity|]. apply unix_nano_roundtrip. unfold in_int64. lia.
    + eexists. reflexivity.
  - destruct H as [Hs|[t [Hs Hn]]]; rewrite Hs; [eexists; reflexivity|].
    pose proof (spec_mult_pos prec) as Hm.
    destruct (spec_in_time_range (t * spec_mult prec)) eqn:E; [|eexists; reflexivity].
    exfalso. apply Hn. unfold spec_in_time_range, spec_min_nano_time, spec_max_nano_time, in_int64 in *. nia.
Qed.

(* the same read from the implementation's side: a result is exact, an error means the text
   does not denote a representable instant *)
Corollary time_of_text_sound s prec : time_shape s = true ->
  match time_of_text s prec with
  | Ok t => spec_ts_verdict s prec = Some (tm_unix_nano t) /\
            (spec_min_nano_time <= tm_unix_nano t <= spec_max_nano_time)%Z
  | Err _ => spec_ts_verdict s prec = None
  | Crash => False
  end.
Proof.
  intros Hsh. pose proof (time_of_text_exact s prec Hsh) as H.
  destruct (spec_ts_verdict s prec) as [ns|] eqn:Ev.
  - destruct H as [-> Hr]. rewrite Hr. split; [reflexivity|].
    unfold spec_ts_verdict in Ev. destruct (spec_ts_value s); [|discriminate].
    destruct (spec_in_time_range _) eqn:Er; [|discriminate]. inversion Ev; subst.
    unfold spec_in_time_range in Er. lia.
  - destruct H as [e ->]. reflexivity.
Qed.

(* a text that is not of scanTime's shape has no value *)
Lemma not_shape_no_value s : time_shape s = false -> s <> [] -> spec_ts_value s = None \/ s = [c_minus].
Proof.
  destruct s as [|c r]; [congruence|]. intros H _. cbn [time_shape] in H. unfold spec_ts_value.
  destruct (c =? c_minus) eqn:Em.
  - cbn [orb andb] in H. destruct r as [|d r']; [right; apply N.eqb_eq in Em; subst; reflexivity|].
    left. rewrite (spec_dec_not_digits _ _ H). reflexivity.
  - cbn [orb] in H. left. cbn [spec_dec]. destruct (is_digit c); [|reflexivity].
    cbn [andb] in H. apply spec_dec_not_digits. exact H.
Qed.

(* ---- scanTime returns a token of that shape (or the empty token) ---- *)
Lemma nth_error_firstn_lt {A} (l : list A) : forall n k, (k < n)%nat -> nth_error (firstn n l) k = nth_error l k.
Proof.
  induction l as [|x r IH]; intros n k H; [rewrite firstn_nil; reflexivity|].
  destruct n; [lia|]. destruct k; [reflexivity|]. cbn [firstn nth_error]. apply IH. lia.
Qed.

Lemma nth_error_skipn_add {A} (l : list A) : forall a k, nth_error (skipn a l) k = nth_error l (a + k).
Proof.
  induction l as [|x r IH]; intros a k.
  - rewrite skipn_nil. destruct k, a; reflexivity.
  - destruct a; [reflexivity|]. cbn [skipn Nat.add nth_error]. apply IH.
Qed.

Lemma get_slice buf a b s k : slice buf a b = Ok s -> (k < b - a)%nat -> get s k = get buf (a + k).
Proof.
  intros H Hk. apply slice_inv in H. destruct H as [_ [_ ->]]. unfold get.
  rewrite nth_error_firstn_lt by exact Hk. apply nth_error_skipn_add.
Qed.

Lemma forallb_nth (P : N -> bool) l :
  (forall k c, nth_error l k = Some c -> P c = true) -> forallb P l = true.
Proof.
  induction l as [|x r IH]; intros H; [reflexivity|]. cbn [forallb].
  rewrite (H 0%nat x eq_refl). apply IH. intros k c Hk. apply (H (S k) c). exact Hk.
Qed.

Lemma scan_time_loop_shape buf start : forall fuel i e,
  scan_time_loop fuel buf start i = Ok e ->
  forall j c, (i <= j < e)%nat -> get buf j = Some c ->
  (if (j =? start)%nat then (c =? c_minus) || is_digit c else is_digit c) = true.
Proof.
  intros fuel. induction fuel as [|f IH]; intros i e H j c Hj Gj; cbn [scan_time_loop] in H; [discriminate|].
  destruct (get buf i) as [ci|] eqn:Gi.
  2:{ inversion H; subst; lia. }
  destruct ((ci =? c_nl) || (ci =? c_space)) eqn:Estop; [inversion H; subst; lia|].
  destruct ((i =? start)%nat && (ci =? c_minus)) eqn:Eminus.
  - destruct (Nat.eq_dec j i) as [->|Hne].
    + rewrite Gi in Gj. inversion Gj; subst. apply andb_true_iff in Eminus. destruct Eminus as [E1 E2].
      rewrite E1, E2. reflexivity.
    + apply (IH (S i) e H j c); [lia|exact Gj].
  - destruct ((ci <? c_0) || (c_9 <? ci)) eqn:Ebad; [discriminate|].
    destruct (Nat.eq_dec j i) as [->|Hne].
    + rewrite Gi in Gj. inversion Gj; subst.
      assert (Hd : is_digit c = true) by (unfold is_digit; lia).
      rewrite Hd, orb_true_r. destruct (_ =? _)%nat; reflexivity.
    + apply (IH (S i) e H j c); [lia|exact Gj].
Qed.

Lemma scan_time_shape buf i0 e s : scan_time buf i0 = Ok (e, s) -> s = [] \/ time_shape s = true.
Proof.
  unfold scan_time. set (start := skip_whitespace buf i0).
  destruct (scan_time_loop (S (length buf)) buf start start) as [i| |] eqn:El; cbn [bind]; try discriminate.
  destruct (slice buf start i) as [s'| |] eqn:Es; cbn [bind]; try discriminate.
  intros H. inversion H; subst e s'. clear H.
  destruct s as [|c r]; [left; reflexivity|right].
  pose proof (slice_length _ _ _ _ Es) as Hlen. cbn [length] in Hlen.
  cbn [time_shape]. apply andb_true_iff. split.
  - pose proof (get_slice _ _ _ _ 0%nat Es ltac:(lia)) as G. cbn [get nth_error] in G.
    pose proof (scan_time_loop_shape buf start _ _ _ El (start + 0)%nat c ltac:(lia) (eq_sym G)) as Hc.
    replace (start + 0 =? start)%nat with true in Hc by (symmetry; apply Nat.eqb_eq; lia). exact Hc.
  - apply forallb_nth. intros k d Hk.
    pose proof (get_slice _ _ _ _ (S k) Es) as G.
    assert (Hkl : (k < length r)%nat) by (apply nth_error_Some; congruence).
    specialize (G ltac:(lia)). unfold get at 1 in G. cbn [nth_error] in G. rewrite Hk in G.
    pose proof (scan_time_loop_shape buf start _ _ _ El (start + S k)%nat d ltac:(lia) (eq_sym G)) as Hd.
    replace (start + S k =? start)%nat with false in Hd by (symmetry; apply Nat.eqb_neq; lia). exact Hd.
Qed.

(* ---- timestamp_exact_or_rejected for parsePoint: whatever the line, if it is accepted with an
   explicit timestamp token [ts], then [ts] denotes a representable instant and the point
   carries exactly that instant ---- *)
Section Oracle.
Variable pf : bytes -> option N.
Variable us : bool.

Theorem parse_point_timestamp buf dflt prec pos key pos2 fields pos3 ts p :
  scan_key buf 0 = Ok (pos, key) ->
  scan_fields pf us buf pos = Ok (pos2, fields) ->
  scan_time buf pos2 = Ok (pos3, ts) -> ts <> [] ->
  parse_point pf us buf dflt prec = Ok p ->
  spec_ts_verdict ts prec = Some (tm_unix_nano (p_time p)) /\
  (spec_min_nano_time <= tm_unix_nano (p_time p) <= spec_max_nano_time)%Z.
Proof.
  intros Hk Hf Ht Hne. unfold parse_point. rewrite Hk. cbn [bind].
  destruct key as [|k0 key']; [discriminate|].
  destruct (_ <? _); [discriminate|].
  rewrite Hf. cbn [bind]. destruct fields as [|f0 fields']; [discriminate|].
  destruct (walk_fields_keysize _ _ _) as [[]| |]; cbn [bind]; try discriminate.
  rewrite Ht. cbn [bind].
  destruct ts as [|c r]; [congruence|].
  destruct (scan_time_shape _ _ _ _ Ht) as [Hs|Hs]; [discriminate|].
  pose proof (time_of_text_sound (c :: r) prec Hs) as Hsound. unfold time_of_text in Hsound.
  destruct (parse_int64 (c :: r)) as [v|]; [|discriminate].
  destruct (safe_calc_time v prec) as [t| |]; cbn [bind]; try discriminate.
  destruct (trailing_spaces _ _ _) as [[]| |]; cbn [bind]; try discriminate.
  intros H. inversion H; subst p. cbn [p_time]. exact Hsound.
Qed.

(* and the converse direction: a token that does not denote a representable instant makes
   parsePoint fail *)
Corollary parse_point_rejects buf dflt prec pos key pos2 fields pos3 ts :
  scan_key buf 0 = Ok (pos, key) ->
  scan_fields pf us buf pos = Ok (pos2, fields) ->
  scan_time buf pos2 = Ok (pos3, ts) -> ts <> [] ->
  spec_ts_verdict ts prec = None ->
  forall p, parse_point pf us buf dflt prec <> Ok p.
Proof.
  intros Hk Hf Ht Hne Hv p Hp.
  destruct (parse_point_timestamp _ _ _ _ _ _ _ _ _ _ Hk Hf Ht Hne Hp) as [H _]. congruence.
Qed.
End Oracle.
