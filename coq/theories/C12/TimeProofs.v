(* C12/TimeProofs.v — precision scaling: SafeCalcTime returns the exact product timestamp*unit
   when it lies in [MinNanoTime, MaxNanoTime] and an error otherwise (no silent wrap-around);
   UnixNano of the resulting time is that product; decimal text of an int64 parses back. *)
From Verif Require Import C12.Base C12.Escape C12.Scan C12.Point C12.Spec C12.OrderFacts.
From VerifGen Require Import Consts.
From Coq Require Import ZifyBool ZifyNat ZifyN.
Open Scope Z_scope.

Definition in_int64 (z : Z) : Prop := - 9223372036854775808 <= z < 9223372036854775808.

Lemma zwrap64_id z : in_int64 z -> zwrap64 z = z.
Proof. intros H. unfold zwrap64. apply to_of_int64. unfold two63. cbn. exact H. Qed.

(* wrapping subtracts a multiple of 2^64 and lands in the int64 range *)
Lemma zwrap64_spec z : exists k, zwrap64 z = z - k * 18446744073709551616 /\ in_int64 (zwrap64 z).
Proof.
  unfold zwrap64, to_int64, of_int64, in_int64, two64, two63. cbn [Z.of_N].
  pose proof (Z.mod_pos_bound z 18446744073709551616 ltac:(lia)) as Hb.
  pose proof (Z.div_mod z 18446744073709551616 ltac:(lia)) as Hd.
  set (m := z mod 18446744073709551616) in *. set (q := z / 18446744073709551616) in *.
  destruct (N.ltb_spec (Z.to_N m) 9223372036854775808).
  - exists q. rewrite Z2N.id by lia. split; lia.
  - exists (q + 1). rewrite Z2N.id by lia. split; lia.
Qed.

(* safeSignedMult for a unit b of the precision table *)
Lemma safe_signed_mult_spec a b :
  in_int64 a -> 1 <= b < 4611686018427387904 -> b <> c12_max_nano_time ->
  let '(c, ok) := safe_signed_mult a b in
  (in_int64 (a * b) -> c = a * b /\ ok = true) /\ (~ in_int64 (a * b) -> ok = false).
Proof.
  intros Ha Hb Hbm. unfold safe_signed_mult.
  destruct ((a =? 0) || (b =? 0) || (a =? 1) || (b =? 1)) eqn:E1.
  - (* trivial products are in range *)
    assert (Hin : in_int64 (a * b)).
    { unfold in_int64 in *. repeat (apply orb_true_iff in E1; destruct E1 as [E1|E1]); apply Z.eqb_eq in E1; subst; lia. }
    split; [intros _; split; [apply zwrap64_id; exact Hin|reflexivity]|intros Hn; contradiction].
  - repeat (apply orb_false_iff in E1; destruct E1 as [E1 ?]).
    apply Z.eqb_neq in E1, H, H0, H1.
    destruct ((a =? c12_min_nano_time) || (b =? c12_max_nano_time)) eqn:E2.
    + (* a = MinNanoTime with b >= 2 overflows *)
      apply orb_true_iff in E2. destruct E2 as [E2|E2]; apply Z.eqb_eq in E2; [|contradiction].
      split; [|reflexivity]. intros Hin. exfalso. subst a. unfold c12_min_nano_time, in_int64 in *. nia.
    + destruct (zwrap64_spec (a * b)) as [k [Hk Hr]].
      split.
      * intros Hin. rewrite (zwrap64_id _ Hin). split; [reflexivity|].
        apply Z.eqb_eq. apply Z.quot_mul. lia.
      * intros Hn. apply Z.eqb_neq. intros Hq.
        (* c = a*b - k*2^64 and c quot b = a force k = 0 *)
        pose proof (Z.quot_rem' (zwrap64 (a * b)) b) as Hqr. rewrite Hq in Hqr.
        pose proof (Z.rem_bound_abs (zwrap64 (a * b)) b ltac:(lia)) as Hab.
        assert (Hk0 : k = 0) by nia.
        subst k. apply Hn. rewrite Hk in Hr. replace (a * b - 0 * 18446744073709551616) with (a * b) in Hr by lia. exact Hr.
Qed.

Lemma precision_units_ok : forall prec,
  1 <= precision_multiplier prec < 4611686018427387904 /\ precision_multiplier prec <> c12_max_nano_time.
Proof.
  intros prec. unfold precision_multiplier, lookup_bytes.
  assert (Hall : Forall (fun e : list N * Z => 1 <= snd e < 4611686018427387904 /\ snd e <> c12_max_nano_time) c12_precision_table).
  { unfold c12_precision_table, c12_max_nano_time. repeat constructor; cbn [snd]; lia. }
  match goal with |- context [find ?f ?l] => destruct (find f l) as [e|] eqn:Ef end.
  - apply find_some in Ef. destruct Ef as [Hin _]. rewrite Forall_forall in Hall. apply Hall. exact Hin.
  - unfold c12_precision_default, c12_max_nano_time. lia.
Qed.

Lemma bytes_eqb_sym a b : bytes_eqb a b = bytes_eqb b a.
Proof.
  revert b. induction a as [|x r IH]; intros [|y s]; cbn; try reflexivity.
  rewrite N.eqb_sym, IH. reflexivity.
Qed.

(* the unit the implementation uses is the documented one *)
Lemma precision_multiplier_spec prec : precision_multiplier prec = spec_mult prec.
Proof.
  unfold precision_multiplier, lookup_bytes, spec_mult, c12_precision_table, c12_precision_default.
  cbn [find fst snd]. rewrite !(bytes_eqb_sym _ prec).
  repeat (match goal with |- context [bytes_eqb prec ?b] =>
            destruct (bytes_eqb prec b) eqn:E;
            [apply OrderFacts.bytes_eqb_eq in E; subst prec; reflexivity|clear E] end).
  reflexivity.
Qed.

(* SafeCalcTime: exact product or error *)
Theorem safe_calc_time_spec ts prec :
  in_int64 ts ->
  safe_calc_time ts prec =
  if (c12_min_nano_time <=? ts * spec_mult prec) && (ts * spec_mult prec <=? c12_max_nano_time)
  then Ok (tm_of_unix_nano (ts * spec_mult prec)) else Err 20%N.
Proof.
  intros Hts. unfold safe_calc_time. rewrite <- precision_multiplier_spec.
  destruct (precision_units_ok prec) as [Hb Hbm]. set (b := precision_multiplier prec) in *.
  pose proof (safe_signed_mult_spec ts b Hts Hb Hbm) as Hs.
  destruct (safe_signed_mult ts b) as [c ok]. destruct Hs as [Hin Hout].
  unfold c12_min_nano_time, c12_max_nano_time in *.
  destruct (Z.leb_spec (-9223372036854775806) (ts * b)); destruct (Z.leb_spec (ts * b) 9223372036854775806); cbn [andb].
  - destruct (Hin ltac:(unfold in_int64; lia)) as [-> ->].
    destruct (Z.ltb_spec (ts * b) (-9223372036854775806)); [lia|].
    destruct (Z.ltb_spec 9223372036854775806 (ts * b)); [lia|]. reflexivity.
  - destruct ok; [|reflexivity].
    (* ok = true means the product is in range, but then it exceeds MaxNanoTime *)
    destruct (Z.lt_ge_cases (ts * b) 9223372036854775808) as [Hlt|Hge].
    + destruct (Hin ltac:(unfold in_int64; lia)) as [-> _].
      destruct (Z.ltb_spec (ts * b) (-9223372036854775806)); [reflexivity|].
      destruct (Z.ltb_spec 9223372036854775806 (ts * b)); [reflexivity|lia].
    + specialize (Hout ltac:(unfold in_int64; lia)). discriminate.
  - destruct ok; [|reflexivity].
    destruct (Z.le_gt_cases (-9223372036854775808) (ts * b)) as [Hge|Hlt].
    + destruct (Hin ltac:(unfold in_int64; lia)) as [-> _].
      destruct (Z.ltb_spec (ts * b) (-9223372036854775806)); [reflexivity|lia].
    + specialize (Hout ltac:(unfold in_int64; lia)). discriminate.
  - lia.
Qed.

(* UnixNano of time.Unix(0, ns).UTC() is ns *)
Theorem unix_nano_roundtrip ns : in_int64 ns -> tm_unix_nano (tm_of_unix_nano ns) = ns.
Proof.
  intros H. unfold tm_unix_nano, tm_of_unix_nano, unix_to_internal. cbn [t_sec t_nsec].
  pose proof (Z.div_mod ns 1000000000 ltac:(lia)) as Hd.
  pose proof (Z.mod_pos_bound ns 1000000000 ltac:(lia)) as Hm.
  set (q := ns / 1000000000) in *. set (r := ns mod 1000000000) in *.
  replace (q + 62135596800 - 62135596800) with q by lia.
  unfold in_int64 in H.
  rewrite (zwrap64_id q) by (unfold in_int64; lia).
  (* q * 1e9 may be just below int64 min when ns is negative: work modulo 2^64 *)
  destruct (zwrap64_spec (q * 1000000000)) as [k1 [Hk1 Hr1]]. rewrite Hk1.
  destruct (zwrap64_spec (q * 1000000000 - k1 * 18446744073709551616 + r)) as [k2 [Hk2 Hr2]]. rewrite Hk2.
  rewrite Hk2 in Hr2. unfold in_int64 in *. lia.
Qed.


(* ---- decimal text of an integer parses back to it (strconv.FormatInt / ParseInt) ---- *)
Open Scope N_scope.

Lemma parse_digits_app ds : forall a es,
  parse_digits a (ds ++ es) = match parse_digits a ds with Some a' => parse_digits a' es | None => None end.
Proof.
  induction ds as [|d r IH]; intros a es; [reflexivity|]. cbn [app parse_digits].
  destruct (is_digit d); [apply IH|reflexivity].
Qed.

Lemma is_digit_of_mod v : is_digit (c_0 + v mod 10) = true.
Proof.
  unfold is_digit, c_0, c_9. pose proof (N.mod_lt v 10 ltac:(lia)).
  apply andb_true_iff. split; apply N.leb_le; lia.
Qed.

Lemma fmt_digits_spec : forall f v acc, v < 10 ^ N.of_nat f -> (1 <= f)%nat ->
  exists ds, fmt_digits f v acc = ds ++ acc /\ parse_digits 0 ds = Some v /\ ds <> [] /\
             (forall a, parse_digits a ds = Some (a * 10 ^ N.of_nat (length ds) + v)) /\
             Forall (fun d => is_digit d = true) ds.
Proof.
  intros f. induction f as [|f IH]; intros v acc Hv Hf; [lia|].
  cbn [fmt_digits]. destruct (N.ltb_spec v 10) as [Hlt|Hge].
  - exists [c_0 + v mod 10]. rewrite N.mod_small by lia.
    assert (Hd : is_digit (c_0 + v) = true).
    { pose proof (is_digit_of_mod v) as H. rewrite N.mod_small in H by lia. exact H. }
    split; [reflexivity|]. split; [cbn [parse_digits]; rewrite Hd; f_equal; unfold c_0; lia|].
    split; [discriminate|]. split.
    + intros a. cbn [parse_digits length]. rewrite Hd. f_equal.
      change (N.of_nat 1) with 1. rewrite N.pow_1_r. unfold c_0. lia.
    + constructor; [exact Hd|constructor].
  - destruct f as [|f'].
    { cbn in Hv. lia. }
    assert (Hv' : v / 10 < 10 ^ N.of_nat (S f')).
    { apply N.div_lt_upper_bound; [lia|]. rewrite <- N.pow_succ_r'. rewrite <- Nat2N.inj_succ. exact Hv. }
    destruct (IH (v / 10) ((c_0 + v mod 10) :: acc) Hv' ltac:(lia)) as [ds [Hds [Hp [Hne [Hpa Hall]]]]].
    exists (ds ++ [c_0 + v mod 10]). rewrite Hds, <- app_assoc. split; [reflexivity|].
    pose proof (is_digit_of_mod v) as Hd.
    assert (Hval : forall a, parse_digits a (ds ++ [c_0 + v mod 10]) = Some (a * 10 ^ N.of_nat (length (ds ++ [c_0 + v mod 10])) + v)).
    { intros a. rewrite parse_digits_app, Hpa. cbn [parse_digits]. rewrite Hd. f_equal.
      rewrite app_length. cbn [length]. rewrite Nat.add_1_r, Nat2N.inj_succ, N.pow_succ_r'.
      pose proof (N.div_mod v 10 ltac:(lia)). unfold c_0. lia. }
    split; [rewrite Hval; f_equal; lia|]. split; [destruct ds; discriminate|]. split; [exact Hval|].
    apply Forall_app. split; [exact Hall|constructor; [exact Hd|constructor]].
Qed.

Lemma fmt_n_spec v : v < 10000000000000000000000000 ->
  exists d ds, fmt_n v = d :: ds /\ is_digit d = true /\ parse_digits 0 (fmt_n v) = Some v.
Proof.
  intros Hv. unfold fmt_n.
  assert (Hv' : v < 10 ^ N.of_nat 25) by (replace (10 ^ N.of_nat 25) with 10000000000000000000000000 by reflexivity; exact Hv).
  destruct (fmt_digits_spec 25 v [] Hv' ltac:(lia)) as [ds [Hds [Hp [Hne [_ Hall]]]]].
  rewrite app_nil_r in Hds. rewrite Hds. destruct ds as [|d r]; [congruence|].
  exists d, r. inversion Hall; subst. auto.
Qed.

Theorem parse_int64_fmt_z z : TimeProofs.in_int64 z -> parse_int64 (fmt_z z) = Some z.
Proof.
  intros Hz. unfold TimeProofs.in_int64 in Hz. unfold fmt_z.
  destruct (Z.ltb_spec z 0) as [Hneg|Hpos].
  - assert (Hb : Z.to_N (- z) < 10000000000000000000000000) by lia.
    destruct (fmt_n_spec (Z.to_N (- z)) Hb) as [d [ds [Hf [Hd Hp]]]].
    unfold parse_int64. rewrite N.eqb_refl. rewrite Hf in Hp. rewrite Hf, Hp.
    destruct (N.leb_spec (Z.to_N (- z)) 9223372036854775808); [|lia]. f_equal. lia.
  - assert (Hb : Z.to_N z < 10000000000000000000000000) by lia.
    destruct (fmt_n_spec (Z.to_N z) Hb) as [d [ds [Hf [Hd Hp]]]].
    unfold parse_int64. rewrite Hf in Hp. rewrite Hf.
    assert (Hdm : (d =? c_minus) = false /\ (d =? c_plus) = false).
    { unfold is_digit, c_0, c_9, c_minus, c_plus in *. apply andb_true_iff in Hd. destruct Hd as [H1 H2].
      apply N.leb_le in H1, H2. split; apply N.eqb_neq; lia. }
    destruct Hdm as [-> ->]. rewrite Hp.
    destruct (N.leb_spec (Z.to_N z) 9223372036854775807); [|lia]. f_equal. lia.
Qed.
