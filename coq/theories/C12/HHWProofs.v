(* C12/HHWProofs.v — concurrent hinted-handoff writes (CHHW cases of Run.v): whenever the
   queue holds, in ANY order, the blocks marshalWrite assigns to the acknowledged batches (plus
   the blocks of some unacknowledged ones), every block decodes (unmarshalWrite, then
   NewPointFromBytes) and the decoded batches are exactly the acknowledged ones, each once —
   i.e. the model of WriteShard (one marshalWrite block per call, calls appended in some
   order) meets the executable spec hw_spec_ok, and agrees with itself (hw_agree). *)
From Verif Require Import C12.Base C12.Escape C12.Scan C12.Point C12.Spec C12.ScanFacts C12.OrderFacts C12.BinProofs C12.Run.
From VerifGen Require Import Consts.
From Coq Require Import ZifyBool ZifyNat ZifyN Permutation.
Open Scope N_scope.

(* ---- multisets through remove_first / remove_all ---- *)
Section Multiset.
Context {A : Type}.
Variable eqb : A -> A -> bool.
Hypothesis eqb_eq : forall x y, eqb x y = true <-> x = y.

Lemma remove_first_in x l : In x l ->
  exists l1 l2, l = l1 ++ x :: l2 /\ remove_first eqb x l = Some (l1 ++ l2).
Proof.
  induction l as [|y r IH]; intros Hin; [destruct Hin|]. cbn [remove_first].
  destruct (eqb x y) eqn:E.
  - apply eqb_eq in E. subst y. exists [], r. split; reflexivity.
  - destruct Hin as [->|Hin].
    + assert (eqb x x = true) by (apply eqb_eq; reflexivity). congruence.
    + destruct (IH Hin) as [l1 [l2 [-> Hr]]]. rewrite Hr. exists (y :: l1), l2. split; reflexivity.
Qed.

Lemma remove_all_perm xs : forall l rest,
  Permutation l (xs ++ rest) -> exists rest', remove_all eqb xs l = Some rest' /\ Permutation rest' rest.
Proof.
  induction xs as [|x xs' IH]; intros l rest Hp; cbn [remove_all].
  - exists l. split; [reflexivity|exact Hp].
  - assert (Hin : In x l).
    { apply (Permutation_in x (Permutation_sym Hp)). left. reflexivity. }
    destruct (remove_first_in x l Hin) as [l1 [l2 [-> Hr]]]. rewrite Hr.
    apply IH. cbn [app] in Hp. apply Permutation_sym in Hp.
    apply Permutation_cons_app_inv in Hp. apply Permutation_sym. exact Hp.
Qed.

Lemma exactly_once_perm acked unacked found extra rest :
  Permutation found (acked ++ extra) -> Permutation unacked (extra ++ rest) ->
  exactly_once eqb acked unacked found = true.
Proof.
  intros Hf Hu. unfold exactly_once.
  destruct (remove_all_perm acked found extra Hf) as [r1 [-> Hr1]].
  assert (Hu' : Permutation unacked (r1 ++ rest)).
  { eapply Permutation_trans; [exact Hu|]. apply Permutation_app_tail. apply Permutation_sym. exact Hr1. }
  destruct (remove_all_perm r1 unacked rest Hu') as [r2 [-> _]]. reflexivity.
Qed.
End Multiset.

Lemma list_eqb_eq {A} (eqb : A -> A -> bool) :
  (forall x y, eqb x y = true <-> x = y) -> forall a b, list_eqb eqb a b = true <-> a = b.
Proof.
  intros Heq. induction a as [|x a' IH]; intros [|y b']; cbn [list_eqb]; split; intros H; try reflexivity; try discriminate.
  - apply andb_true_iff in H. destruct H as [H1 H2]. apply Heq in H1. apply IH in H2. subst. reflexivity.
  - inversion H; subst. apply andb_true_iff. split; [apply Heq; reflexivity|apply IH; reflexivity].
Qed.

Lemma tm_eqb_eq a b : tm_eqb a b = true <-> a = b.
Proof.
  unfold tm_eqb. destruct a as [s1 n1 u1], b as [s2 n2 u2]. cbn [t_sec t_nsec t_utc]. split.
  - intros H. apply andb_true_iff in H. destruct H as [H H3]. apply andb_true_iff in H. destruct H as [H1 H2].
    apply Z.eqb_eq in H1, H2. apply Bool.eqb_prop in H3. subst. reflexivity.
  - intros H. inversion H; subst. rewrite !Z.eqb_refl, Bool.eqb_reflx. reflexivity.
Qed.

Lemma point_eqb_eq a b : point_eqb a b = true <-> a = b.
Proof.
  unfold point_eqb. destruct a as [k1 f1 t1], b as [k2 f2 t2]. cbn [p_key p_fields p_time]. split.
  - intros H. apply andb_true_iff in H. destruct H as [H H3]. apply andb_true_iff in H. destruct H as [H1 H2].
    apply bytes_eqb_eq in H1, H2. apply tm_eqb_eq in H3. subst. reflexivity.
  - intros H. inversion H; subst. apply andb_true_iff. split; [apply andb_true_iff; split; apply bytes_eqb_eq; reflexivity|].
    apply tm_eqb_eq. reflexivity.
Qed.

(* ---- a batch WriteShard can hand to the queue: every point passes the decoder's own
   validation (BinProofs.point_wf, no float fields needed: oracle no_float) and its binary form
   fits the 32-bit length prefix ---- *)
Definition hw_point_ok (p : point) : Prop :=
  point_wf no_float p /\ forall pb, marshal_binary p = Ok pb -> N.of_nat (length pb) < 4294967296.
Definition batch_ok (pts : list point) : Prop := Forall hw_point_ok pts.

Lemma all_some_map_some {A} (l : list A) : all_some (map Some l) = Some l.
Proof. induction l as [|x r IH]; [reflexivity|]. cbn [map all_some]. rewrite IH. reflexivity. Qed.

Lemma hw_decode_marshal shard pts :
  shard < two64 -> batch_ok pts -> hw_decode shard (marshal_write shard pts) = Some pts.
Proof.
  intros Hs Hok.
  assert (Hpbs : exists pbs, Forall2 (fun p pb => marshal_binary p = Ok pb) pts pbs /\
                             Forall (fun pb => N.of_nat (length pb) < 4294967296) pbs /\
                             map (fun pb => match new_point_from_bytes no_float pb with Ok p => Some p | _ => None end) pbs = map Some pts).
  { induction Hok as [|p r [Hwf Hsz] _ IH].
    - exists []. repeat split; constructor.
    - destruct IH as [pbs [H1 [H2 H3]]].
      pose proof (marshal_binary_ok no_float p Hwf) as Hm.
      eexists (_ :: pbs). split; [constructor; [exact Hm|exact H1]|]. split; [constructor; [apply Hsz; exact Hm|exact H2]|].
      cbn [map]. rewrite (bin_roundtrip_valid no_float p _ Hwf Hm), H3. reflexivity. }
  destruct Hpbs as [pbs [H1 [H2 H3]]].
  unfold hw_decode. rewrite (hh_marshal_roundtrip shard pts pbs Hs H1 H2). rewrite N.eqb_refl, H3.
  apply all_some_map_some.
Qed.

Section Link.
Variable shard : N.
Variable bs : list (list (bytes * bytes * Z) * bool).
Hypothesis shard_ok : shard < two64.
Hypothesis batches_ok : Forall (fun b => batch_ok (hw_batch b)) bs.

Lemma acked_ok : Forall batch_ok (hw_acked bs).
Proof.
  unfold hw_acked. rewrite Forall_forall in *. intros pts Hin. apply in_map_iff in Hin.
  destruct Hin as [b [<- Hb]]. apply filter_In in Hb. apply batches_ok. apply Hb.
Qed.
Lemma unacked_ok : Forall batch_ok (hw_unacked bs).
Proof.
  unfold hw_unacked. rewrite Forall_forall in *. intros pts Hin. apply in_map_iff in Hin.
  destruct Hin as [b [<- Hb]]. apply filter_In in Hb. apply batches_ok. apply Hb.
Qed.

Lemma decode_all (l : list (list point)) : Forall batch_ok l ->
  map (hw_decode shard) (map (marshal_write shard) l) = map Some l.
Proof.
  induction 1 as [|pts r Hp _ IH]; [reflexivity|]. cbn [map].
  rewrite (hw_decode_marshal shard pts shard_ok Hp), IH. reflexivity.
Qed.

(* the queue content: the model's blocks of the acknowledged batches and of some of the
   unacknowledged ones ([extra]), in any order *)
Variable blocks : list bytes.
Variable extra rest : list (list point).
Hypothesis queue_content :
  Permutation blocks (map (marshal_write shard) (hw_acked bs) ++ map (marshal_write shard) extra).
Hypothesis extra_unacked : Permutation (hw_unacked bs) (extra ++ rest).

Lemma extra_ok : Forall batch_ok extra.
Proof.
  pose proof unacked_ok as Hu. rewrite Forall_forall in *. intros pts Hin. apply Hu.
  apply (Permutation_in pts (Permutation_sym extra_unacked)). apply in_or_app. left. exact Hin.
Qed.

Theorem hhw_model_meets_spec : hw_spec_ok shard bs blocks true false = true.
Proof.
  unfold hw_spec_ok. cbn [negb andb].
  pose proof (Permutation_map (hw_decode shard) queue_content) as Hd.
  rewrite map_app, (decode_all _ acked_ok), (decode_all _ extra_ok), <- map_app in Hd.
  apply Permutation_map_inv in Hd. destruct Hd as [d [Hd Hperm]].
  rewrite Hd, all_some_map_some.
  apply (exactly_once_perm (list_eqb point_eqb) (list_eqb_eq point_eqb point_eqb_eq) _ _ _ extra rest);
    [apply Permutation_sym; exact Hperm|exact extra_unacked].
Qed.

Theorem hhw_model_agrees :
  forallb hw_small (map hw_batch bs) = true -> hw_agree shard bs blocks true false = true.
Proof.
  intros Hsmall. unfold hw_agree. cbn [negb andb]. rewrite Hsmall. cbn [andb].
  apply (exactly_once_perm bytes_eqb bytes_eqb_eq _ _ _ (map (marshal_write shard) extra) (map (marshal_write shard) rest));
    [exact queue_content|].
  eapply Permutation_trans; [apply Permutation_map; exact extra_unacked|].
  rewrite List.map_app. apply Permutation_refl.
Qed.
End Link.

(* non-vacuity: a batch of the shape the harness writes is batch_ok *)
Example batch_ok_example :
  batch_ok [hw_point ([104;119;44;98;61;48;95;48;44;105;61;48], [110;61;53;105;44;115;61;34;97;34;44;107;61;116], 1600000000000000000%Z)].
Proof.
  constructor; [|constructor]. split.
  - unfold point_wf, hw_point. cbn [p_key p_fields p_time].
    split; [vm_compute; reflexivity|]. split; [vm_compute; reflexivity|]. split.
    + unfold tm_wf. split; [reflexivity|]. split; vm_compute; split; congruence.
    + unfold fields_valid. vm_compute. eexists _, _. reflexivity.
  - intros pb Hm. vm_compute in Hm. inversion Hm; subst. vm_compute. reflexivity.
Qed.
