(* C12/TimeLine.v — the whole line "m v=1 <ts>" (Spec.ts_line), for EVERY token <ts>: the model of
   ParsePointsWithPrecision returns one point m / v=1 at exactly the instant Spec.spec_ts_verdict
   gives, or one error when the verdict is None.  This is the link between the model and the
   executable spec of the CTime cases of Run.v (ts_obs_ok). *)
From Verif Require Import C12.Base C12.Escape C12.Scan C12.Point C12.Spec C12.ScanFacts C12.OrderFacts C12.TimeProofs
     C12.LineProofs C12.TimeExact C12.Run.
From VerifGen Require Import Consts.
From Coq Require Import ZifyBool ZifyNat ZifyN.
Open Scope N_scope.

Definition ts_pre : bytes := [109; c_space; 118; c_eq; 49; c_space].

(* ---- a line without newline, quote and backslash is one block, also without a final newline ---- *)
Definition very_plain (c : N) : bool := negb (c =? c_nl) && negb (c =? c_quote) && negb (c =? c_bs).

Lemma plain_scan_end (l : bytes) : forall f i fl eq cm,
  forallb very_plain l = true -> (i <= length l)%nat -> (length l - i < f)%nat ->
  scan_line_loop f l (length l) i false fl eq cm = Ok (length l).
Proof.
  intros f. induction f as [|f IH]; intros i fl eq cm Hp Hi Hf; [lia|].
  rewrite scan_line_loop_step.
  destruct (Nat.eq_dec i (length l)) as [->|Hne].
  - rewrite get_app_end. reflexivity.
  - assert (Hlt : (i < length l)%nat) by lia.
    destruct (get_lt_some l i Hlt) as [c Gc]. rewrite Gc.
    assert (Hc : (c =? c_nl) = false /\ (c =? c_quote) = false /\ (c =? c_bs) = false).
    { rewrite forallb_forall in Hp. specialize (Hp c (nth_error_In _ _ Gc)). unfold very_plain in Hp.
      apply andb_true_iff in Hp. destruct Hp as [Hp H3]. apply andb_true_iff in Hp. destruct Hp as [H1 H2].
      apply negb_true_iff in H1, H2, H3. auto. }
    destruct Hc as [Hn [Hq Hb]].
    rewrite (line_step_nobs c _ (Ok 0) _ (i + 2 <? length l)%nat i false fl eq cm Hb).
    destruct (line_step_plain c 0 (i + 2 <? length l)%nat i fl eq cm Hn Hq) as [j [fl' [eq' [cm' Hs]]]].
    rewrite Hs. pose proof (line_step_next _ _ _ _ _ _ _ _ _ _ _ _ _ Hs) as Hj.
    apply IH; [exact Hp| |].
    + destruct Hj as [->|[-> Hla]]; [lia|]. apply Nat.ltb_lt in Hla. lia.
    + destruct Hj as [->|[-> _]]; lia.
Qed.

Lemma plain_scan_line (l : bytes) : forallb very_plain l = true -> scan_line l 0 = Ok (length l, l).
Proof.
  intros Hp. unfold scan_line.
  pose proof (skip_whitespace_le l 0 ltac:(lia)) as Hle.
  rewrite (plain_scan_end l _ _ false 0%nat 0%nat Hp Hle) by lia.
  cbn [bind]. rewrite slice_full. reflexivity.
Qed.

Section Oracle.
Variable pf : bytes -> option N.
Variable us : bool.

(* ParsePointsWithPrecision on one such non-empty line = the block handler on the line *)
Lemma parse_points_one_block (l : bytes) dflt prec :
  forallb very_plain l = true -> l <> [] ->
  parse_points pf us l dflt prec = (let* r := process_block pf us l dflt prec in Ok (r ++ [])).
Proof.
  intros Hp Hne. unfold parse_points. cbn [parse_points_loop].
  destruct l as [|c0 l']; [congruence|].
  destruct (Nat.ltb_spec 0 (length (c0 :: l'))) as [_|H]; [|cbn [length] in H; lia].
  rewrite (plain_scan_line _ Hp). cbn [bind].
  destruct (process_block pf us (c0 :: l') dflt prec) as [r| |]; cbn [bind]; try reflexivity.
  cbn [length parse_points_loop].
  destruct (Nat.ltb_spec (S (S (length l'))) (S (length l'))) as [H|_]; [lia|]. reflexivity.
Qed.

(* ---- scanTime on a suffix that is one token ---- *)
Definition no_stop (c : N) : bool := negb ((c =? c_nl) || (c =? c_space)).

Definition shape_b (first : bool) (l : bytes) : bool :=
  match l with
  | [] => true
  | c :: r => ((first && (c =? c_minus)) || is_digit c) && forallb is_digit r
  end.

Lemma scan_time_loop_run (pre : bytes) : forall rest done f,
  forallb no_stop rest = true -> (length rest < f)%nat ->
  scan_time_loop f (pre ++ done ++ rest) (length pre) (length pre + length done) =
  if shape_b (length done =? 0)%nat rest && forallb is_digit (tl rest) then Ok (length pre + length done + length rest)%nat
  else Err 17.
Proof.
  induction rest as [|c r IH]; intros done f Hns Hf.
  - destruct f; [cbn [length] in Hf; lia|]. cbn [scan_time_loop].
    replace (length pre + length done)%nat with (length (pre ++ done ++ [])) by (rewrite !app_length; cbn [length]; lia).
    rewrite get_app_end. cbn [shape_b tl forallb andb]. f_equal. rewrite !app_length. cbn [length]. lia.
  - destruct f; [cbn [length] in Hf; lia|]. cbn [scan_time_loop].
    cbn [forallb] in Hns. apply andb_true_iff in Hns. destruct Hns as [Hc Hr].
    replace (pre ++ done ++ c :: r) with ((pre ++ done) ++ c :: r) by (rewrite app_assoc; reflexivity).
    replace (length pre + length done)%nat with (length (pre ++ done)) by (rewrite app_length; reflexivity).
    rewrite get_app_mid. unfold no_stop in Hc. apply negb_true_iff in Hc. rewrite Hc.
    rewrite app_length.
    replace (length pre + length done =? length pre)%nat with (length done =? 0)%nat
      by (destruct (Nat.eqb_spec (length done) 0); symmetry; [apply Nat.eqb_eq|apply Nat.eqb_neq]; lia).
    assert (Hnext : forall f', (length r < f')%nat ->
      scan_time_loop f' ((pre ++ done) ++ c :: r) (length pre) (S (length pre + length done)) =
      if forallb is_digit r then Ok (length pre + length done + length (c :: r))%nat else Err 17).
    { intros f' Hf'. specialize (IH (done ++ [c]) f' Hr Hf').
      replace ((pre ++ done) ++ c :: r) with (pre ++ (done ++ [c]) ++ r) by (rewrite <- !app_assoc; reflexivity).
      replace (S (length pre + length done)) with (length pre + length (done ++ [c]))%nat by (rewrite app_length; cbn [length]; lia).
      rewrite IH. rewrite app_length. cbn [length].
      replace (length done + 1 =? 0)%nat with false by (symmetry; apply Nat.eqb_neq; lia).
      destruct r as [|d r']; cbn [shape_b tl forallb andb orb].
      - f_equal. lia.
      - destruct (is_digit d); cbn [andb]; [|reflexivity].
        destruct (forallb is_digit r'); cbn [andb]; [f_equal; cbn [length]; lia|reflexivity]. }
    cbn [shape_b tl]. cbn [length] in Hf.
    destruct ((length done =? 0)%nat && (c =? c_minus)) eqn:Em.
    + rewrite Hnext by lia. cbn [orb andb]. rewrite andb_diag. reflexivity.
    + cbn [orb]. destruct ((c <? c_0) || (c_9 <? c)) eqn:Ebad.
      * assert (Hd : is_digit c = false) by (unfold is_digit; lia). rewrite Hd. reflexivity.
      * assert (Hd : is_digit c = true) by (unfold is_digit; lia). rewrite Hd.
        rewrite Hnext by lia. cbn [andb]. rewrite andb_diag. reflexivity.
Qed.

Lemma shape_b_time_shape c r : shape_b true (c :: r) && forallb is_digit (tl (c :: r)) = time_shape (c :: r).
Proof. cbn [shape_b tl time_shape andb]. rewrite <- andb_assoc, andb_diag. reflexivity. Qed.

Lemma ts_token_facts ts : ts_token ts = true ->
  exists c r, ts = c :: r /\ is_ws c = false /\ forallb no_stop ts = true /\ forallb very_plain ts = true.
Proof.
  unfold ts_token. destruct ts as [|c r]; [discriminate|]. intros H. exists c, r. split; [reflexivity|].
  assert (Hall : forall x, In x (c :: r) ->
            (x =? c_nul) = false /\ (x =? c_tab) = false /\ (x =? c_nl) = false /\ (x =? c_space) = false /\
            (x =? c_quote) = false /\ (x =? c_bs) = false).
  { intros x Hx. rewrite forallb_forall in H. specialize (H x Hx). apply negb_true_iff in H.
    unfold mem in H. cbn [existsb] in H. repeat (apply orb_false_iff in H; destruct H as [? H]). auto 10. }
  split; [|split].
  - destruct (Hall c (or_introl eq_refl)) as [H1 [H2 [_ [H4 _]]]]. unfold is_ws. rewrite H1, H2, H4. reflexivity.
  - apply forallb_forall. intros x Hx. destruct (Hall x Hx) as [_ [_ [H3 [H4 _]]]]. unfold no_stop. rewrite H3, H4. reflexivity.
  - apply forallb_forall. intros x Hx. destruct (Hall x Hx) as [_ [_ [H3 [_ [H5 H6]]]]]. unfold very_plain. rewrite H3, H5, H6. reflexivity.
Qed.

Lemma ts_line_scan_time c r :
  is_ws c = false -> forallb no_stop (c :: r) = true ->
  scan_time (ts_pre ++ c :: r) 5 =
  if time_shape (c :: r) then Ok (length (ts_pre ++ c :: r), c :: r) else Err 17.
Proof.
  intros Hw Hns. unfold scan_time, skip_whitespace.
  set (buf := ts_pre ++ c :: r).
  assert (Hsk : skip_ws (S (length buf)) buf 5 = 6%nat).
  { unfold buf. cbn. rewrite Hw. reflexivity. }
  rewrite Hsk.
  assert (Hlen : length buf = (6 + length (c :: r))%nat) by (unfold buf; rewrite app_length; reflexivity).
  pose proof (scan_time_loop_run ts_pre (c :: r) [] (S (length buf)) Hns ltac:(rewrite Hlen; lia)) as Hrun.
  change ([] ++ c :: r) with (c :: r) in Hrun. fold buf in Hrun.
  change (length ts_pre + length (@nil N))%nat with 6%nat in Hrun.
  change (length (@nil N) =? 0)%nat with true in Hrun.
  change (length ts_pre) with 6%nat in Hrun.
  rewrite Hrun. rewrite (shape_b_time_shape c r).
  destruct (time_shape (c :: r)); cbn [bind]; [|reflexivity].
  rewrite <- Hlen. change 6%nat with (length ts_pre). unfold buf. rewrite slice_suffix. reflexivity.
Qed.

Lemma ts_line_key ts : scan_key (ts_line ts) 0 = Ok (1%nat, [109]).
Proof. unfold ts_line. vm_compute. reflexivity. Qed.

Lemma ts_line_fields c r : scan_fields pf us (ts_line (c :: r)) 1 = Ok (5%nat, [118; c_eq; 49]).
Proof. unfold ts_line. vm_compute. reflexivity. Qed.

Lemma not_shape_no_value s : time_shape s = false -> spec_ts_value s = None.
Proof.
  destruct s as [|c r]; [reflexivity|]. intros H. cbn [time_shape] in H. unfold spec_ts_value.
  destruct (c =? c_minus) eqn:Em.
  - cbn [orb andb] in H. destruct r as [|d r']; [discriminate|].
    rewrite (spec_dec_not_digits _ _ H). reflexivity.
  - cbn [orb] in H. cbn [spec_dec]. destruct (is_digit c); [|reflexivity].
    cbn [andb] in H. apply spec_dec_not_digits. exact H.
Qed.

Definition ts_point (ns : Z) : point := mk_point [109] [118; c_eq; 49] (tm_of_unix_nano ns).

Theorem ts_line_parse_point ts dflt prec : ts_token ts = true ->
  match spec_ts_verdict ts prec with
  | Some ns => parse_point pf us (ts_line ts) dflt prec = Ok (ts_point ns)
  | None => exists e, parse_point pf us (ts_line ts) dflt prec = Err e
  end.
Proof.
  intros Htok. destruct (ts_token_facts ts Htok) as [c [r [-> [Hw [Hns _]]]]].
  unfold parse_point. rewrite ts_line_key. cbn [bind].
  replace (c12_max_key_length <? N.of_nat (length [109])) with false by reflexivity.
  rewrite ts_line_fields. cbn [bind].
  replace (walk_fields_keysize (S (length [118; c_eq; 49])) (length [109]) [118; c_eq; 49]) with (Ok tt) by (vm_compute; reflexivity).
  cbn [bind]. change (ts_line (c :: r)) with (ts_pre ++ c :: r).
  rewrite (ts_line_scan_time c r Hw Hns).
  destruct (time_shape (c :: r)) eqn:Esh; cbn [bind].
  - pose proof (time_of_text_exact (c :: r) prec Esh) as Hex. unfold time_of_text in Hex.
    destruct (spec_ts_verdict (c :: r) prec) as [ns|].
    + destruct Hex as [Hex _]. destruct (parse_int64 (c :: r)) as [v|]; [|discriminate].
      rewrite Hex. cbn [bind].
      replace (trailing_spaces (S (length (ts_pre ++ c :: r))) (ts_pre ++ c :: r) (length (ts_pre ++ c :: r))) with (Ok tt).
      * reflexivity.
      * cbn [trailing_spaces]. rewrite get_app_end. reflexivity.
    + destruct Hex as [e Hex]. destruct (parse_int64 (c :: r)) as [v|]; [|eexists; reflexivity].
      rewrite Hex. cbn [bind]. eexists. reflexivity.
  - unfold spec_ts_verdict. rewrite (not_shape_no_value _ Esh). eexists. reflexivity.
Qed.

(* timestamp_exact_or_rejected for the whole request *)
Theorem ts_line_parse_points ts dflt prec : ts_token ts = true ->
  parse_points pf us (ts_line ts) dflt prec =
  match spec_ts_verdict ts prec with
  | Some ns => Ok [LPoint (ts_point ns)]
  | None => Ok [LErr]
  end.
Proof.
  intros Htok. pose proof (ts_line_parse_point ts dflt prec Htok) as Hpp.
  destruct (ts_token_facts ts Htok) as [c [r [-> [Hw [_ Hvp]]]]].
  assert (Hplain : forallb very_plain (ts_line (c :: r)) = true).
  { unfold ts_line. rewrite forallb_app. rewrite Hvp. reflexivity. }
  rewrite parse_points_one_block by (exact Hplain || (unfold ts_line; discriminate)).
  (* the block handler: no leading whitespace, not a comment, no final newline to strip *)
  assert (Hblock : process_block pf us (ts_line (c :: r)) dflt prec =
                   match parse_point pf us (ts_line (c :: r)) dflt prec with
                   | Ok p => Ok [LPoint p] | Err _ => Ok [LErr] | Crash => Crash end).
  { unfold process_block. change (ts_line (c :: r)) with (109 :: c_space :: 118 :: c_eq :: 49 :: c_space :: c :: r) at 1 2 3.
    cbv beta iota.
    assert (Hsk : skip_whitespace (109 :: c_space :: 118 :: c_eq :: 49 :: c_space :: c :: r) 0 = 0%nat) by reflexivity.
    rewrite Hsk. cbn [get nth_error]. replace (109 =? c_hash) with false by reflexivity.
    change (109 :: c_space :: 118 :: c_eq :: 49 :: c_space :: c :: r) with (ts_line (c :: r)).
    set (l := ts_line (c :: r)) in *.
    destruct (rdm_lt l (length l) 1 ltac:(unfold l, ts_line; rewrite app_length; cbn [length]; lia)
                ltac:(unfold l, ts_line; rewrite app_length; cbn [length]; lia)) as [lc [Hrd Hget]].
    rewrite Hrd. cbn [bind].
    assert (Hlc : (lc =? c_nl) = false).
    { rewrite forallb_forall in Hplain. specialize (Hplain lc (nth_error_In _ _ Hget)). unfold very_plain in Hplain.
      apply andb_true_iff in Hplain. destruct Hplain as [Hplain _]. apply andb_true_iff in Hplain. destruct Hplain as [H1 _].
      apply negb_true_iff in H1. exact H1. }
    rewrite Hlc. cbn [bind]. rewrite slice_full. cbn [bind]. reflexivity. }
  rewrite Hblock.
  destruct (spec_ts_verdict (c :: r) prec) as [ns|].
  - rewrite Hpp. reflexivity.
  - destruct Hpp as [e ->]. reflexivity.
Qed.
End Oracle.

(* ---- the link to the executable spec: what Run.ts_obs_ok demands of an observation holds of
   the model's own result for every token, given that ParseFloat("1") is 1.0 ---- *)
Definition model_opoint (pf : bytes -> option N) (p : point) : opoint :=
  OP (p_key p) (fobs_of (point_fields pf 0 p)) (tm_unix_nano (p_time p)) (point_string p) (hash_id p)
     (match marshal_binary p with Ok b => b | _ => [] end) true true.
Definition model_pobs (pf : bytes -> option N) (r : res (list line_res)) : pobs :=
  match r with
  | Ok lrs => POk (map (model_opoint pf) (flat_map (fun x => match x with LPoint p => [p] | LErr => [] end) lrs))
                  (existsb (fun x => match x with LErr => true | _ => false end) lrs)
  | _ => PPanic
  end.

Theorem ts_line_model_meets_spec pf ts dflt prec :
  pf [49] = Some float_one_bits -> ts_token ts = true ->
  ts_obs_ok ts prec (model_pobs pf (parse_points pf false (ts_line ts) dflt prec)) = true.
Proof.
  intros Hpf Htok. rewrite (ts_line_parse_points pf false ts dflt prec Htok).
  unfold ts_obs_ok. rewrite Htok.
  pose proof (TimeExact.time_of_text_exact) as _.
  destruct (spec_ts_verdict ts prec) as [ns|] eqn:Ev; [|reflexivity].
  cbn [model_pobs flat_map app map existsb model_opoint ts_point p_key p_time].
  assert (Hfields : fobs_of (point_fields pf 0 (ts_point ns)) = FOk [([118], FFloat float_one_bits)]).
  { unfold ts_point, point_fields. cbn. rewrite Hpf. reflexivity. }
  rewrite Hfields.
  (* the stored instant reads back as ns *)
  assert (Hns : tm_unix_nano (tm_of_unix_nano ns) = ns).
  { apply unix_nano_roundtrip. unfold spec_ts_verdict in Ev. destruct (spec_ts_value ts); [|discriminate].
    destruct (spec_in_time_range _) eqn:Er; [|discriminate]. inversion Ev; subst.
    unfold spec_in_time_range, spec_min_nano_time, spec_max_nano_time, in_int64 in *. lia. }
  rewrite Hns, Z.eqb_refl. reflexivity.
Qed.
