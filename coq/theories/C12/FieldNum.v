(* C12/FieldNum.v — scanNumber and scanBoolean on the value texts a point is printed with (and
   on every other accepted spelling of the same shapes): an optional '-' followed by digits and
   at most one '.', then nothing, 'i' or 'u'; and the ten boolean spellings.  The value ends at
   ',' / ' ' or at the end of the buffer. *)
From Verif Require Import C12.Base C12.Escape C12.Scan C12.ScanFacts C12.KeyFacts C12.OrderFacts C12.KeyComplete
     C12.LineProofs.
From VerifGen Require Import Consts.
From Coq Require Import ZifyBool ZifyNat ZifyN.
Open Scope N_scope.

(* what follows a value: nothing, or a ',' / ' ' *)
Definition term_or_end (rest : bytes) : Prop := rest = [] \/ exists t r, rest = t :: r /\ is_term t = true.

Lemma get_app_at (a rest : bytes) : get (a ++ rest) (length a) = get rest 0.
Proof. rewrite <- (Nat.add_0_r (length a)). apply get_shift. Qed.

Lemma get_app_at_k (a rest : bytes) k : get (a ++ rest) (length a + k) = get rest k.
Proof. apply get_shift. Qed.

Lemma term_or_end_get rest : term_or_end rest ->
  get rest 0 = None \/ exists t, get rest 0 = Some t /\ is_term t = true.
Proof. intros [->|[t [r [-> Ht]]]]; [left; reflexivity|right; exists t; split; [reflexivity|exact Ht]]. Qed.

(* ---- numeric bytes ---- *)
Lemma is_numeric_facts c : is_numeric c = true ->
  (c =? c_comma) = false /\ (c =? c_space) = false /\ (c =? c_i) = false /\ (c =? c_u) = false /\
  (c =? c_e) = false /\ (c =? c_E) = false /\ (c =? c_plus) = false /\ (c =? c_minus) = false /\
  (c =? c_N) = false /\ (c =? c_n) = false /\ (c =? c_bs) = false /\ (c =? c_quote) = false /\ (c =? c_eq) = false.
Proof.
  unfold is_numeric, is_digit, c_0, c_9, c_dot, c_comma, c_space, c_i, c_u, c_e, c_E, c_plus, c_minus, c_N, c_n,
    c_bs, c_quote, c_eq.
  intros H. repeat split; lia.
Qed.

(* digits and at most one '.'; [dec] = a '.' has been seen before *)
Fixpoint num_body (dec : bool) (l : bytes) : bool :=
  match l with
  | [] => true
  | c :: r => is_numeric c && negb ((c =? c_dot) && dec) && num_body (dec || (c =? c_dot)) r
  end.
Fixpoint dec_after (dec : bool) (l : bytes) : bool :=
  match l with [] => dec | c :: r => dec_after (dec || (c =? c_dot)) r end.
(* number of digits *)
Fixpoint ndigits (l : bytes) : nat :=
  match l with [] => O | c :: r => ((if (c =? c_dot)%N then 0 else 1) + ndigits r)%nat end.

Lemma num_step f buf n start i c dec :
  get buf i = Some c -> is_numeric c = true -> ((c =? c_dot) && dec) = false ->
  scan_number_loop (S f) buf n start i false false dec false =
  scan_number_loop f buf n start (S i) false false (dec || (c =? c_dot)) false.
Proof.
  intros G Hn Hd. destruct (is_numeric_facts c Hn) as (H1&H2&H3&H4&H5&H6&H7&H8&H9&H10&_).
  cbn [scan_number_loop]. rewrite G, H1, H2, H3, H4, Hd, H5, H6, H7, H8, H9, H10, Hn.
  cbn [orb andb negb bind]. rewrite !andb_false_r. cbn [negb]. reflexivity.
Qed.

Lemma num_run : forall body pre post n start dec f,
  num_body dec body = true -> (length (body ++ post) < f)%nat ->
  exists f', (length post < f')%nat /\
    scan_number_loop f (pre ++ body ++ post) n start (length pre) false false dec false =
    scan_number_loop f' (pre ++ body ++ post) n start (length pre + length body) false false (dec_after dec body) false.
Proof.
  induction body as [|c r IH]; intros pre post n start dec f Hb Hf.
  - exists f. split; [exact Hf|]. cbn [length app dec_after]. rewrite Nat.add_0_r. reflexivity.
  - destruct f as [|f]; [cbn in Hf; lia|].
    cbn [num_body] in Hb. apply andb_true_iff in Hb. destruct Hb as [Hb Hr]. apply andb_true_iff in Hb. destruct Hb as [Hn Hd].
    apply negb_true_iff in Hd.
    cbn [app]. rewrite (num_step f _ n start (length pre) c dec (get_app_mid pre c (r ++ post)) Hn Hd).
    rewrite snoc_cons, <- (len_snoc pre c).
    destruct (IH (pre ++ [c]) post n start (dec || (c =? c_dot)) f Hr ltac:(cbn [length app] in Hf; lia)) as [f' [Hf' He]].
    exists f'. split; [exact Hf'|]. rewrite He. cbn [dec_after length]. rewrite len_snoc.
    replace (S (length pre) + length r)%nat with (length pre + S (length r))%nat by lia. reflexivity.
Qed.

Lemma ndigits_le l : (ndigits l <= length l)%nat.
Proof. induction l as [|c r IH]; cbn [ndigits length]; [lia|]. destruct (c =? c_dot); lia. Qed.

(* length = digits + (1 if a dot occurs) for a body with at most one dot *)
Lemma num_body_len : forall l dec, num_body dec l = true ->
  length l = (ndigits l + (if dec_after dec l then (if dec then 0 else 1) else 0))%nat.
Proof.
  induction l as [|c r IH]; intros dec H.
  - cbn. destruct dec; reflexivity.
  - cbn [num_body] in H. apply andb_true_iff in H. destruct H as [H Hr]. apply andb_true_iff in H. destruct H as [_ Hd].
    apply negb_true_iff in Hd. specialize (IH _ Hr). cbn [length ndigits dec_after]. rewrite IH.
    destruct (c =? c_dot) eqn:E.
    + cbn [andb] in Hd. subst dec. cbn [orb].
      assert (Ht : dec_after true r = true). { clear. induction r as [|x r IH]; [reflexivity|]. cbn. exact IH. }
      rewrite Ht. lia.
    + rewrite orb_false_r. destruct (dec_after dec r), dec; lia.
Qed.

Lemma rdm_last1 (X : bytes) x rest : rdm (X ++ x :: rest) (S (length X)) 1 = Ok x.
Proof.
  unfold rdm. destruct (Nat.ltb_spec (S (length X)) 1); [lia|].
  replace (S (length X) - 1)%nat with (length X) by lia. apply rd_get, get_app_mid.
Qed.

Lemma num_body_first dec c r : num_body dec (c :: r) = true -> is_numeric c = true.
Proof. cbn [num_body]. intros H. apply andb_true_iff in H. destruct H as [H _]. apply andb_true_iff in H. apply H. Qed.

Lemma ndigits_pos_ne l : (0 < ndigits l)%nat -> l <> [].
Proof. destruct l; [cbn; lia|discriminate]. Qed.

Section Oracle.
Variable pf : bytes -> option N.
Variable us : bool.

Definition sign_txt (neg : bool) : bytes := if neg then [c_minus] else [].

(* the loop from just after the sign over the body, then the optional suffix, to the end *)
Lemma scan_number_loop_value pre neg body sfx rest :
  num_body false body = true -> body <> [] -> term_or_end rest ->
  (sfx = [] \/ sfx = [c_i] \/ sfx = [c_u]) ->
  let buf := pre ++ sign_txt neg ++ body ++ sfx ++ rest in
  scan_number_loop (S (length buf)) buf (length buf) (length pre) (length (pre ++ sign_txt neg)) false false false false =
  Ok (length (pre ++ sign_txt neg ++ body ++ sfx),
      (bytes_eqb sfx [c_i], bytes_eqb sfx [c_u], dec_after false body, false)).
Proof.
  intros Hb Hne Hrest Hsfx buf.
  assert (Hbuf : buf = (pre ++ sign_txt neg) ++ body ++ (sfx ++ rest)) by (unfold buf; rewrite <- !app_assoc; reflexivity).
  clearbody buf.
  destruct (num_run body (pre ++ sign_txt neg) (sfx ++ rest) (length buf) (length pre) false (S (length buf)) Hb
              ltac:(rewrite Hbuf; rewrite !app_length; lia)) as [f' [Hf' He]].
  rewrite <- Hbuf in He. rewrite He. clear He.
  assert (Hend : forall f2 i a b, (0 < f2)%nat -> get buf i = get rest 0 ->
            scan_number_loop f2 buf (length buf) (length pre) i a b (dec_after false body) false =
            Ok (i, (a, b, dec_after false body, false))).
  { intros f2 i a b Hf2 Hg. destruct f2 as [|f2]; [lia|]. cbn [scan_number_loop]. rewrite Hg.
    destruct (term_or_end_get rest Hrest) as [->|[t [-> Ht]]]; [reflexivity|].
    unfold is_term in Ht. rewrite Ht. reflexivity. }
  assert (Hlt : (length pre < length (pre ++ sign_txt neg) + length body)%nat).
  { rewrite app_length. destruct body; [congruence|]. cbn [length]. lia. }
  destruct Hsfx as [-> | [-> | ->]].
  - cbn [app] in *. rewrite Hend.
    + f_equal. f_equal. rewrite !app_length. cbn [length]. lia.
    + lia.
    + rewrite Hbuf. rewrite app_assoc. rewrite <- app_length. cbn [app]. apply get_app_at.
  - destruct f' as [|f']; [cbn [length app] in Hf'; lia|].
    cbn [scan_number_loop].
    assert (Hg : get buf (length (pre ++ sign_txt neg) + length body) = Some c_i).
    { rewrite Hbuf. rewrite app_assoc. rewrite <- app_length. cbn [app]. apply get_app_mid. }
    rewrite Hg. cbn [c_i c_comma c_space N.eqb Pos.eqb orb andb negb].
    destruct (Nat.ltb_spec (length pre) (length (pre ++ sign_txt neg) + length body)) as [_|Hx]; [|lia].
    cbn [andb]. rewrite Hend.
    + f_equal. f_equal. rewrite !app_length. cbn [length]. lia.
    + cbn [length app] in Hf'. lia.
    + rewrite Hbuf. replace ((pre ++ sign_txt neg) ++ body ++ [c_i] ++ rest) with (((pre ++ sign_txt neg) ++ body ++ [c_i]) ++ rest)
        by (rewrite <- !app_assoc; reflexivity).
      replace (S (length (pre ++ sign_txt neg) + length body)) with (length ((pre ++ sign_txt neg) ++ body ++ [c_i]))
        by (rewrite !app_length; cbn [length]; lia).
      apply get_app_at.
  - destruct f' as [|f']; [cbn [length app] in Hf'; lia|].
    cbn [scan_number_loop].
    assert (Hg : get buf (length (pre ++ sign_txt neg) + length body) = Some c_u).
    { rewrite Hbuf. rewrite app_assoc. rewrite <- app_length. cbn [app]. apply get_app_mid. }
    rewrite Hg. cbn [c_u c_i c_comma c_space N.eqb Pos.eqb orb andb negb].
    destruct (Nat.ltb_spec (length pre) (length (pre ++ sign_txt neg) + length body)) as [_|Hx]; [|lia].
    cbn [andb]. rewrite Hend.
    + f_equal. f_equal. rewrite !app_length. cbn [length]. lia.
    + cbn [length app] in Hf'. lia.
    + rewrite Hbuf. replace ((pre ++ sign_txt neg) ++ body ++ [c_u] ++ rest) with (((pre ++ sign_txt neg) ++ body ++ [c_u]) ++ rest)
        by (rewrite <- !app_assoc; reflexivity).
      replace (S (length (pre ++ sign_txt neg) + length body)) with (length ((pre ++ sign_txt neg) ++ body ++ [c_u]))
        by (rewrite !app_length; cbn [length]; lia).
      apply get_app_at.
Qed.


(* scanNumber on "[-]digits[.digits]" followed by nothing, 'i' or 'u' *)
Lemma scan_number_value pre neg body sfx rest :
  num_body false body = true -> (0 < ndigits body)%nat -> term_or_end rest ->
  (sfx = [] /\ pf (sign_txt neg ++ body) <> None
   \/ sfx = [c_i] /\ dec_after false body = false /\ parse_int64 (sign_txt neg ++ body) <> None
   \/ sfx = [c_u] /\ dec_after false body = false /\ neg = false /\ us = true /\ parse_uint64 body <> None) ->
  scan_number pf us (pre ++ sign_txt neg ++ body ++ sfx ++ rest) (length pre) =
  Ok (length (pre ++ sign_txt neg ++ body ++ sfx)).
Proof.
  intros Hb Hnd Hrest Hk.
  pose proof (ndigits_pos_ne body Hnd) as Hne.
  assert (Hsfx : sfx = [] \/ sfx = [c_i] \/ sfx = [c_u]) by (destruct Hk as [[-> _]|[[-> _]|[-> _]]]; auto).
  pose proof (scan_number_loop_value pre neg body sfx rest Hb Hne Hrest Hsfx) as Hloop. cbv zeta in Hloop.
  pose proof (num_body_len body false Hb) as Hlen.
  unfold scan_number.
  set (buf := pre ++ sign_txt neg ++ body ++ sfx ++ rest) in *.
  assert (Hlb : length buf = (length pre + length (sign_txt neg) + length body + length sfx + length rest)%nat).
  { unfold buf. rewrite !app_length. lia. }
  destruct body as [|b0 br]; [congruence|].
  pose proof (num_body_first _ _ _ Hb) as Hb0. destruct (is_numeric_facts b0 Hb0) as (_&_&_&_&_&_&_&Hb0m&_).
  (* first byte and the index after the sign *)
  assert (Hg0 : get buf (length pre) = Some (if neg then c_minus else b0)).
  { unfold buf. destruct neg; cbn [sign_txt app]; apply get_app_mid. }
  rewrite Hg0.
  assert (Hi0 : (if (if neg then c_minus else b0) =? c_minus
                 then if (S (length pre) =? length buf)%nat then Err 8 else Ok (S (length pre))
                 else Ok (length pre)) = Ok (length (pre ++ sign_txt neg))).
  { destruct neg; cbn [sign_txt].
    - rewrite N.eqb_refl. destruct (Nat.eqb_spec (S (length pre)) (length buf)) as [E|_].
      + rewrite Hlb in E. cbn [length sign_txt] in E. lia.
      + rewrite app_length. cbn [length]. f_equal. lia.
    - rewrite Hb0m, app_nil_r. reflexivity. }
  rewrite Hi0. cbn [bind]. rewrite Hloop. cbn [bind].
  rewrite (rd_get _ _ _ Hg0). cbn [bind].
  assert (Hc0 : ((if neg then c_minus else b0) =? c_minus) = neg).
  { destruct neg; [apply N.eqb_refl|exact Hb0m]. }
  rewrite Hc0.
  set (X := pre ++ sign_txt neg ++ b0 :: br).
  assert (HX : buf = X ++ sfx ++ rest) by (unfold buf, X; rewrite <- !app_assoc; reflexivity).
  assert (Hsl : slice buf (length pre) (length X) = Ok (sign_txt neg ++ b0 :: br)).
  { unfold buf, X. rewrite (app_assoc (sign_txt neg)). rewrite (app_length pre). apply slice_app_mid. }
  assert (HlX : length X = (length pre + length (sign_txt neg) + length (b0 :: br))%nat) by (unfold X; rewrite !app_length; lia).
  destruct Hk as [[-> Hpf]|[[-> [Hdec Hpi]]|[-> [Hdec [-> [-> Hpu]]]]]].
  - (* float *)
    cbn [bytes_eqb orb andb app]. rewrite app_nil_r. fold X.
    destruct (_ =? 0)%Z eqn:Ez.
    { exfalso. apply Z.eqb_eq in Ez. rewrite HlX in Ez. destruct neg, (dec_after false (b0 :: br)); cbn [sign_txt length] in *; lia. }
    rewrite Hsl. cbn [bind]. destruct (pf (sign_txt neg ++ b0 :: br)); [|congruence].
    match goal with |- (if ?c then _ else _) = _ => destruct c end; reflexivity.
  - (* integer *)
    rewrite Hdec. cbn [bytes_eqb c_i c_u N.eqb Pos.eqb orb andb].
    replace (length (pre ++ sign_txt neg ++ (b0 :: br) ++ [c_i])) with (S (length X))
      by (unfold X; rewrite !app_length; cbn [length]; lia).
    destruct (_ =? 0)%Z eqn:Ez.
    { exfalso. apply Z.eqb_eq in Ez. rewrite HlX in Ez. rewrite Hdec in Hlen. destruct neg; cbn [sign_txt length] in *; lia. }
    rewrite HX. cbn [app]. rewrite rdm_last1. cbn [bind]. rewrite N.eqb_refl. cbn [negb slice_m1].
    change (X ++ c_i :: rest) with (X ++ [c_i] ++ rest). rewrite <- HX, Hsl. cbn [bind].
    destruct (parse_int64 (sign_txt neg ++ b0 :: br)); [|congruence].
    match goal with |- (if ?c then _ else _) = _ => destruct c end; reflexivity.
  - (* unsigned *)
    rewrite Hdec. cbn [bytes_eqb c_i c_u N.eqb Pos.eqb orb andb negb].
    replace (length (pre ++ sign_txt false ++ (b0 :: br) ++ [c_u])) with (S (length X))
      by (unfold X; rewrite !app_length; cbn [length]; lia).
    destruct (_ =? 0)%Z eqn:Ez.
    { exfalso. apply Z.eqb_eq in Ez. rewrite HlX in Ez. rewrite Hdec in Hlen. cbn [sign_txt length] in *. lia. }
    rewrite HX. cbn [app]. rewrite rdm_last1. cbn [bind]. rewrite N.eqb_refl. cbn [negb slice_m1].
    change (X ++ c_u :: rest) with (X ++ [c_u] ++ rest). rewrite <- HX, Hsl. cbn [bind sign_txt app].
    destruct (parse_uint64 (b0 :: br)); [|congruence].
    match goal with |- (if ?c then _ else _) = _ => destruct c end; reflexivity.
Qed.

End Oracle.

(* ---- scanBoolean ---- *)
Definition bool_spellings (b : bool) : list bytes :=
  if b then [[c_t]; [c_T]; [116;114;117;101]; [84;114;117;101]; [84;82;85;69]]
  else [[c_f]; [c_F]; [102;97;108;115;101]; [70;97;108;115;101]; [70;65;76;83;69]].

Definition no_term (c : N) : bool := negb (is_term c).

Lemma scan_bool_loop_run : forall txt pre rest f,
  forallb no_term txt = true -> term_or_end rest -> (length txt < f)%nat ->
  scan_bool_loop f (pre ++ txt ++ rest) (length pre) = (length pre + length txt)%nat.
Proof.
  induction txt as [|c r IH]; intros pre rest f Hp Hrest Hf; (destruct f as [|f]; [lia|]); cbn [scan_bool_loop app].
  - rewrite get_app_at. cbn [length]. rewrite Nat.add_0_r.
    destruct (term_or_end_get rest Hrest) as [->|[t [-> Ht]]]; [reflexivity|]. unfold is_term in Ht. rewrite Ht. reflexivity.
  - rewrite get_app_mid. cbn [forallb] in Hp. apply andb_true_iff in Hp. destruct Hp as [Hc Hr].
    unfold no_term, is_term in Hc. apply negb_true_iff in Hc. rewrite Hc.
    rewrite snoc_cons, <- (len_snoc pre c). rewrite (IH (pre ++ [c]) rest f Hr Hrest ltac:(cbn [length] in Hf; lia)).
    rewrite len_snoc. cbn [length]. lia.
Qed.

Lemma scan_boolean_value pre b txt rest :
  In txt (bool_spellings b) -> term_or_end rest ->
  scan_boolean (pre ++ txt ++ rest) (length pre) = Ok (length (pre ++ txt)).
Proof.
  intros Hin Hrest.
  assert (Hsh : exists c r, txt = c :: r /\ forallb no_term r = true /\
                 negb ((c =? c_t) || (c =? c_f) || (c =? c_T) || (c =? c_F)) = false).
  { destruct b; cbn [bool_spellings In] in Hin;
      repeat (destruct Hin as [<-|Hin]; [eexists _, _; split; [reflexivity|split; reflexivity]|]); destruct Hin. }
  destruct Hsh as [c [r [-> [Hr Hc0]]]].
  unfold scan_boolean. cbn [app]. rewrite get_app_mid, Hc0.
  set (buf := pre ++ c :: r ++ rest).
  assert (Hloop : scan_bool_loop (S (length buf)) buf (S (length pre)) = (length pre + S (length r))%nat).
  { unfold buf. rewrite snoc_cons, <- (len_snoc pre c).
    rewrite (scan_bool_loop_run r (pre ++ [c]) rest _ Hr Hrest) by (rewrite !app_length; cbn [length]; lia).
    rewrite len_snoc. lia. }
  rewrite Hloop.
  replace (length pre + S (length r) - length pre)%nat with (S (length r)) by lia.
  assert (Hrd : rd buf (length pre) = Ok c) by (unfold buf; apply rd_get, get_app_mid).
  rewrite Hrd. cbn [bind].
  assert (Hsl : slice buf (length pre) (length pre + S (length r)) = Ok (c :: r)).
  { unfold buf. change (pre ++ c :: r ++ rest) with (pre ++ (c :: r) ++ rest). apply (slice_app_mid pre (c :: r) rest). }
  rewrite Hsl. cbn [bind].
  replace (length (pre ++ c :: r)) with (length pre + S (length r))%nat by (rewrite app_length; reflexivity).
  clear Hloop Hsl Hr Hc0 Hrd. clearbody buf.
  destruct b; cbn [bool_spellings In] in Hin;
    repeat (destruct Hin as [Hin|Hin]; [inversion Hin; subst; reflexivity|]); destruct Hin.
Qed.
