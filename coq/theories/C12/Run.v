(* C12/Run.v — correspondence cases.  The harness records what the implementation did on an
   input; [check_case] compares with the model (agree) and evaluates the executable spec of
   Spec.v on the implementation's observation (spec_ok).
   result code: 0 agree/spec_ok, 1 differ/spec_ok, 2 differ/spec fails, 3 agree/spec fails. *)
From Verif Require Export C12.Model C12.Spec C12.Print.
From VerifGen Require Import Consts.
From Coq Require Export Uint63.
Open Scope N_scope.

(* Byte strings are written by the harness as lists of primitive 63-bit integers, each holding
   a marker byte 1 followed by up to 7 data bytes (big-endian): primitive literals elaborate
   ~25x faster than N literals.  [ub] decodes them. *)
Fixpoint unpack7 (fuel : nat) (z : N) (acc : list N) : list N :=
  match fuel with
  | O => acc
  | S f => if z <=? 1 then acc else unpack7 f (z / 256) (z mod 256 :: acc)
  end.
Definition ub (l : list int) : list N :=
  flat_map (fun i => unpack7 8 (Z.to_N (Uint63.to_Z i)) []) l.

Definition code (agree spec_ok : bool) : N :=
  match agree, spec_ok with
  | true, true => 0 | false, true => 1 | false, false => 2 | true, false => 3
  end.

Fixpoint list_eqb {A} (eqb : A -> A -> bool) (a b : list A) : bool :=
  match a, b with
  | [], [] => true
  | x :: a', y :: b' => eqb x y && list_eqb eqb a' b'
  | _, _ => false
  end.

Definition fvalue_eqb (a b : fvalue) : bool :=
  match a, b with
  | FInt x, FInt y => (x =? y)%Z
  | FUint x, FUint y => x =? y
  | FFloat x, FFloat y => x =? y
  | FBool x, FBool y => Bool.eqb x y
  | FString x, FString y => bytes_eqb x y
  | FEmpty, FEmpty => true
  | _, _ => false
  end.
Definition field_eqb (a b : bytes * fvalue) : bool :=
  bytes_eqb (fst a) (fst b) && fvalue_eqb (snd a) (snd b).

(* ---- observations ---- *)
Inductive fobs := FOk (l : list (bytes * fvalue)) | FErr | FPanic.
(* one point as observed: Key(), the field iterator / Fields(), UnixNano(), String(), HashID(),
   MarshalBinary(), and two checks the harness ran on the real code: the printed point parses
   back to the same point; NewPointFromBytes(MarshalBinary()) and the hinted-handoff framing
   give the same point back *)
Inductive opoint :=
  OP (key : bytes) (fields : fobs) (nano : Z) (str : bytes) (hash : N) (bin : bytes)
     (reparse_ok binrt_ok : bool).
Inductive pobs := POk (pts : list opoint) (had_err : bool) | PPanic.
Inductive bobs := BOk (p : opoint) | BErr | BPanic.
Inductive hobs := HOk (shard : N) (pts : list bytes) (complete : bool) | HShort | HPanic.

Inductive case :=
(* ParsePointsWithPrecision on the lines joined by '\n' (whole) and on every line alone
   (per_line); aps: for a structured line, the abstract point it was rendered from;
   perm_ok: re-rendering the structured lines with permuted tags gave the same Key()/HashID() *)
| CParse (lines : list bytes) (aps : list (option apoint)) (default_ns : Z) (prec : bytes)
         (uint : bool) (floats : list (bytes * option N)) (whole : pobs) (per_line : list pobs)
         (perm_ok : bool)
(* NewPointFromBytes on arbitrary bytes, then the accessors *)
| CBin (b : bytes) (floats : list (bytes * option N)) (obs : bobs)
(* hh.unmarshalWrite on arbitrary bytes *)
| CHH (b : bytes) (obs : hobs)
(* WriteShardRequest with these binary points: number of points returned by Points(), whether
   one of them is nil, whether writing them to a real shard panicked *)
| CWsr (bs : list bytes) (floats : list (bytes * option N)) (count : N) (has_nil panicked : bool)
(* escape functions: which, input, output, and unescape(escape(input)) == input on the real code *)
| CEsc (which : N) (input output : bytes) (roundtrip_ok : bool)
(* ParsePointsWithPrecision on the line "m v=1 <ts>" (Spec.ts_line) at precision prec *)
| CTime (ts : bytes) (default_ns : Z) (prec : bytes) (floats : list (bytes * option N)) (o : pobs)
(* hh.NodeProcessor.WriteShard called concurrently, one call per batch (points given as key,
   field text, Unix nanoseconds; acked = the call returned nil), then the queue directory
   reopened and drained single-threaded: the blocks in queue order; drain_ok = the queue was
   read to its end without an error; panicked = a WriteShard call or the drain panicked *)
| CHHW (shard : N) (batches : list (list (bytes * bytes * Z) * bool)) (blocks : list bytes)
       (drain_ok panicked : bool)
(* models.NewPoint("m", nil, Fields{...}, time.Unix(0, nano)) with the typed field values [afs]
   (given in sort.Strings order of their names), then String() and ParsePointsWithPrecision of
   that text at precision n: ftexts = what strconv.AppendFloat(bits,'f',-1,64) gives for the float
   fields (recorded from the real strconv); made = NewPoint returned a point without panicking;
   str = String(); o = the parse of str *)
| CPrint (afs : list (bytes * fvalue)) (nano : Z) (ftexts : list (N * bytes)) (uint : bool)
         (floats : list (bytes * option N)) (made : bool) (str : bytes) (o : pobs).

Definition oracle (tbl : list (bytes * option N)) (s : bytes) : option N :=
  match find (fun e => bytes_eqb (fst e) s) tbl with Some e => snd e | None => None end.

Fixpoint join_lines (ls : list bytes) : bytes :=
  match ls with
  | [] => []
  | [l] => l
  | l :: r => l ++ [c_nl] ++ join_lines r
  end.

(* ---- model observation of a point ---- *)
Definition fobs_of (r : res (list (bytes * fvalue))) : fobs :=
  match r with Ok l => FOk l | Err _ => FErr | Crash => FPanic end.
Definition fobs_eqb (a b : fobs) : bool :=
  match a, b with
  | FOk x, FOk y => list_eqb field_eqb x y
  | FErr, FErr => true
  | FPanic, FPanic => true
  | _, _ => false
  end.

Definition point_agrees (pf : bytes -> option N) (slack : nat) (with_bin : bool) (p : point) (o : opoint) : bool :=
  let '(OP key fields nano str hash bin _ _) := o in
  bytes_eqb (p_key p) key
  && fobs_eqb (fobs_of (point_fields pf slack p)) fields
  && (tm_unix_nano (p_time p) =? nano)%Z
  && bytes_eqb (point_string p) str
  && (hash_id p =? hash)
  && (negb with_bin || match marshal_binary p with Ok b => bytes_eqb b bin | _ => false end).

Definition parse_agrees (pf : bytes -> option N) (uint : bool) (buf : bytes) (dflt : Z) (prec : bytes) (o : pobs) : bool :=
  match parse_points pf uint buf dflt prec, o with
  | Ok lrs, POk pts had_err =>
      let mpts := flat_map (fun r => match r with LPoint p => [p] | LErr => [] end) lrs in
      let merr := existsb (fun r => match r with LErr => true | _ => false end) lrs in
      Bool.eqb merr had_err
      && (length mpts =? length pts)%nat
      && forallb (fun mp => point_agrees pf 0 true (fst mp) (snd mp)) (combine mpts pts)
  | Crash, PPanic => true
  | _, _ => false
  end.

(* ---- executable spec on observations ---- *)
Definition point_spec_ok (o : opoint) : bool :=
  let '(OP key fields nano str hash _ reparse_ok binrt_ok) := o in
  match fields with FOk (_ :: _) => true | _ => false end
  && reparse_ok && binrt_ok
  && (hash =? spec_fnv64a key)
  && spec_string_shape key str nano.

Definition pobs_ok (o : pobs) : bool :=
  match o with POk pts _ => forallb point_spec_ok pts | PPanic => false end.

Definition pobs_pts (o : pobs) : list opoint := match o with POk pts _ => pts | PPanic => [] end.
Definition pobs_err (o : pobs) : bool := match o with POk _ e => e | PPanic => false end.

(* same point, as far as the client can see *)
Definition opoint_same (a b : opoint) : bool :=
  let '(OP k1 f1 n1 s1 h1 b1 _ _) := a in
  let '(OP k2 f2 n2 s2 h2 b2 _ _) := b in
  bytes_eqb k1 k2 && fobs_eqb f1 f2 && (n1 =? n2)%Z && bytes_eqb s1 s2 && (h1 =? h2) && bytes_eqb b1 b2.

Definition pobs_eqb (a b : pobs) : bool :=
  match a, b with
  | POk p1 e1, POk p2 e2 => list_eqb opoint_same p1 p2 && Bool.eqb e1 e2
  | PPanic, PPanic => true
  | _, _ => false
  end.

(* a line that is one record: no newline or quote in it, or the implementation accepted it
   alone as exactly one point *)
Definition one_record (l : bytes) (o : pobs) : bool :=
  plain_line l || match o with POk [_] false => true | _ => false end.

Definition isolation_ok (lines : list bytes) (whole : pobs) (per_line : list pobs) : bool :=
  if forallb (fun lo => one_record (fst lo) (snd lo)) (combine lines per_line)
     && (length lines =? length per_line)%nat
  then list_eqb opoint_same (pobs_pts whole) (flat_map pobs_pts per_line)
       && Bool.eqb (pobs_err whole) (existsb pobs_err per_line)
  else true.

(* a structured line means its abstract point: accepted with the canonical key, the fields and
   the exact instant (timestamp * unit computed in Z) when that instant is representable;
   rejected (no point, an error) when it is not *)
Definition meaning_ok (ap : apoint) (prec : bytes) (dflt : Z) (o : pobs) : bool :=
  match spec_time_verdict ap prec dflt with
  | Some ns =>
      match o with
      | POk [OP key (FOk fl) nano _ _ _ _ _] false =>
          bytes_eqb key (spec_key ap)
          && list_eqb field_eqb fl (a_fields ap)
          && (nano =? ns)%Z
      | _ => false
      end
  | None => match o with POk [] true => true | _ => false end
  end.

(* the line "m v=1 <ts>": when <ts> is one token, it is accepted exactly when Spec.spec_ts_verdict
   gives an instant, and then the point is measurement m, field v = 1.0, at that instant;
   otherwise it is rejected.  Text that is not one token (whitespace, quotes...) only must
   not panic here; such lines are covered by the other checks. *)
Definition float_one_bits : N := 4607182418800017408.
Definition ts_obs_ok (ts prec : bytes) (o : pobs) : bool :=
  if ts_token ts then
    match spec_ts_verdict ts prec, o with
    | Some ns, POk [OP key (FOk [(fk, FFloat bits)]) nano _ _ _ _ _] false =>
        (nano =? ns)%Z && bytes_eqb key [109] && bytes_eqb fk [118] && (bits =? float_one_bits)
    | None, POk [] true => true
    | _, _ => false
    end
  else match o with PPanic => false | _ => true end.

Fixpoint meanings_ok (aps : list (option apoint)) (prec : bytes) (dflt : Z) (os : list pobs) : bool :=
  match aps, os with
  | Some ap :: aps', o :: os' => meaning_ok ap prec dflt o && meanings_ok aps' prec dflt os'
  | None :: aps', _ :: os' => meanings_ok aps' prec dflt os'
  | [], _ => true
  | _, [] => false
  end.

(* ---- escape functions ---- *)
Definition model_escape (which : N) (x : bytes) : bytes :=
  match which with
  | 0 => escape_measurement x
  | 1 => unescape_measurement x
  | 2 => escape_tag x
  | 3 => unescape_tag x
  | 4 => escape_bytes x
  | 5 => unescape_bytes x
  | 6 => if is_escaped x then [1] else [0]
  | 7 => unescape_bytes x                 (* AppendUnescaped(nil, x) *)
  | 8 => escape_string_field x
  | 9 => unescape_string_field x
  | _ => []
  end.

(* ---- concurrent hinted-handoff writes ---- *)
Fixpoint remove_first {A} (eqb : A -> A -> bool) (x : A) (l : list A) : option (list A) :=
  match l with
  | [] => None
  | y :: r => if eqb x y then Some r
              else match remove_first eqb x r with Some r' => Some (y :: r') | None => None end
  end.
(* remove every element of [xs] once from [l]; None when one is missing *)
Fixpoint remove_all {A} (eqb : A -> A -> bool) (xs l : list A) : option (list A) :=
  match xs with
  | [] => Some l
  | x :: xs' => match remove_first eqb x l with Some l' => remove_all eqb xs' l' | None => None end
  end.
(* [found] is, as a multiset, the acknowledged items plus some of the unacknowledged ones, each
   at most once: nothing acknowledged is missing, nothing appears twice, nothing is foreign *)
Definition exactly_once {A} (eqb : A -> A -> bool) (acked unacked found : list A) : bool :=
  match remove_all eqb acked found with
  | Some rest => match remove_all eqb rest unacked with Some _ => true | None => false end
  | None => false
  end.

Fixpoint all_some {A} (l : list (option A)) : option (list A) :=
  match l with
  | [] => Some []
  | Some x :: r => match all_some r with Some r' => Some (x :: r') | None => None end
  | None :: _ => None
  end.

Definition tm_eqb (a b : tm) : bool :=
  ((t_sec a =? t_sec b) && (t_nsec a =? t_nsec b))%Z && Bool.eqb (t_utc a) (t_utc b).
Definition point_eqb (a b : point) : bool :=
  bytes_eqb (p_key a) (p_key b) && bytes_eqb (p_fields a) (p_fields b) && tm_eqb (p_time a) (p_time b).

Definition hw_point (x : bytes * bytes * Z) : point :=
  let '(k, f, ns) := x in mk_point k f (tm_of_unix_nano ns).
Definition hw_batch (b : list (bytes * bytes * Z) * bool) : list point := map hw_point (fst b).
Definition hw_acked (bs : list (list (bytes * bytes * Z) * bool)) : list (list point) :=
  map hw_batch (filter (fun b => snd b) bs).
Definition hw_unacked (bs : list (list (bytes * bytes * Z) * bool)) : list (list point) :=
  map hw_batch (filter (fun b => negb (snd b)) bs).

Definition no_float (_ : bytes) : option N := None.

(* a queue block read back: the shard id and the points it decodes to (unmarshalWrite, then
   NewPointFromBytes as the receiving node does) *)
Definition hw_decode (shard : N) (blk : bytes) : option (list point) :=
  match unmarshal_write blk with
  | Ok (sh, pbs, true) =>
      if sh =? shard
      then all_some (map (fun pb => match new_point_from_bytes no_float pb with Ok p => Some p | _ => None end) pbs)
      else None
  | _ => None
  end.

(* spec: the queue could be read to its end, every block decodes, and the decoded batches are
   exactly the acknowledged ones (any order), each once *)
Definition hw_spec_ok (shard : N) (bs : list (list (bytes * bytes * Z) * bool)) (blocks : list bytes)
           (drain_ok panicked : bool) : bool :=
  negb panicked && drain_ok &&
  match all_some (map (hw_decode shard) blocks) with
  | Some decoded => exactly_once (list_eqb point_eqb) (hw_acked bs) (hw_unacked bs) decoded
  | None => false
  end.

(* model of WriteShard for a batch below the segment size: one block, marshalWrite of the batch;
   concurrent calls append their blocks in some order *)
Definition hw_small (pts : list point) : bool :=
  (Z.of_nat (length (marshal_write 0 pts)) <=? c04_default_segment_size)%Z.   (* hh.defaultSegmentSize, re-read from the source *)
Definition hw_agree (shard : N) (bs : list (list (bytes * bytes * Z) * bool)) (blocks : list bytes)
           (drain_ok panicked : bool) : bool :=
  negb panicked && drain_ok
  && forallb hw_small (map hw_batch bs)
  && exactly_once bytes_eqb (map (marshal_write shard) (hw_acked bs)) (map (marshal_write shard) (hw_unacked bs)) blocks.

(* ---- printing a point built from typed values ---- *)
Definition ff_oracle (tbl : list (N * bytes)) (b : N) : bytes :=
  match find (fun e => fst e =? b) tbl with Some e => snd e | None => [] end.

(* "m", space, the printed field set, space, decimal nanoseconds *)
Definition print_line (ff : N -> bytes) (afs : list (bytes * fvalue)) (nano : Z) : bytes :=
  [109; c_space] ++ print_fields ff afs ++ [c_space] ++ fmt_z nano.

(* the printed point parsed again is the point it was built from: measurement m, the same field
   names with the same types and values/bits in the same order, the same instant *)
Definition print_spec_ok (afs : list (bytes * fvalue)) (nano : Z) (made : bool) (o : pobs) : bool :=
  made && keys_increasing afs &&
  match o with
  | POk [OP key (FOk fl) nano' _ _ _ _ _] false =>
      bytes_eqb key [109] && list_eqb field_eqb fl afs && (nano' =? nano)%Z
  | _ => false
  end.

Definition check_case (c : case) : N :=
  match c with
  | CParse lines aps dflt prec uint floats whole per_line perm_ok =>
      let pf := oracle floats in
      let agree :=
        parse_agrees pf uint (join_lines lines) dflt prec whole
        && (length lines =? length per_line)%nat
        && match lines, per_line with
           | [_], [o] => pobs_eqb o whole      (* same input as [whole] *)
           | _, _ => forallb (fun lo => parse_agrees pf uint (fst lo) dflt prec (snd lo)) (combine lines per_line)
           end in
      let spec_ok :=
        pobs_ok whole && forallb pobs_ok per_line
        && isolation_ok lines whole per_line
        && meanings_ok aps prec dflt per_line
        && perm_ok in
      code agree spec_ok
  | CBin b floats obs =>
      let pf := oracle floats in
      let agree :=
        match new_point_from_bytes pf b, obs with
        | Ok p, BOk o => point_agrees pf 15 false p o
        | Err _, BErr => true
        | Crash, BPanic => true
        | Ok p, BPanic =>
            (* the panic happened in an accessor after a successful decode *)
            match point_fields pf 15 p with Crash => true | _ => false end
        | _, _ => false
        end in
      code agree (match obs with BPanic => false | _ => true end)
  | CHH b obs =>
      let agree :=
        match unmarshal_write b, obs with
        | Ok (sh, pts, complete), HOk sh' pts' complete' =>
            (sh =? sh') && list_eqb bytes_eqb pts pts' && Bool.eqb complete complete'
        | Err _, HShort => true
        | Crash, HPanic => true
        | _, _ => false
        end in
      code agree (match obs with HPanic => false | _ => true end)
  | CWsr bs floats count has_nil panicked =>
      let pf := oracle floats in
      let agree :=
        match unmarshal_points pf bs with
        | Ok ps => (N.of_nat (length ps) =? count) && negb has_nil && negb panicked
        | _ => false
        end in
      code agree (negb has_nil && negb panicked)
  | CEsc which input output rt =>
      code (bytes_eqb (model_escape which input) output) rt
  | CHHW shard bs blocks drain_ok panicked =>
      code (hw_agree shard bs blocks drain_ok panicked) (hw_spec_ok shard bs blocks drain_ok panicked)
  | CPrint afs nano ftexts uint floats made str o =>
      let ff := ff_oracle ftexts in
      code (made && bytes_eqb str (print_line ff afs nano) && parse_agrees (oracle floats) uint str 0 [110] o)
           (pobs_ok o && print_spec_ok afs nano made o)
  | CTime ts dflt prec floats o =>
      code (parse_agrees (oracle floats) false (ts_line ts) dflt prec o)
           (pobs_ok o && ts_obs_ok ts prec o)
  end.
