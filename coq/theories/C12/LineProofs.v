(* C12/LineProofs.v — line isolation: if scanning a line followed by a newline stops at that
   newline ([line_closed]), then for every continuation the result of parsing
   line ++ "\n" ++ rest is the result for the line followed by the result for rest. *)
From Verif Require Import C12.Base C12.Escape C12.Scan C12.Point C12.ScanFacts C12.KeyFacts C12.KeyCrash C12.ParseCrash.
From VerifGen Require Import Consts.
From Coq Require Import ZifyBool ZifyNat ZifyN.
Open Scope N_scope.

(* ---- one iteration of scanLine's loop ---- *)
Inductive lstep := LDone (r : res nat) | LNext (i : nat) (q fl : bool) (eq cm : nat).

Definition line_step (c : N) (d : res N) (la : bool) (i : nat) (q fl : bool) (eq cm : nat) : lstep :=
  match (if (c =? c_bs) && la then
           let* d := d in
           if q || negb (d =? c_nl) then
             (if negb q && (d =? c_bs) then Ok (Some (i + 1)%nat) else Ok (Some (i + 2)%nat))
           else Ok None
         else Ok None) with
  | Crash => LDone Crash
  | Err e => LDone (Err e)
  | Ok (Some j) => LNext j q fl eq cm
  | Ok None =>
    let fl' := fl || (c =? c_space) in
    if fl' && negb q && (c =? c_eq) then LNext (S i) q fl' (S eq) cm
    else if fl' && negb q && (c =? c_comma) then LNext (S i) q fl' eq (S cm)
    else if fl' && (c =? c_quote) && (cm <? eq)%nat then LNext (S i) (negb q) fl' eq cm
    else if (c =? c_nl) && negb q then LDone (Ok i)
    else LNext (S i) q fl' eq cm
  end.

Lemma scan_line_loop_step f buf n i q fl eq cm :
  scan_line_loop (S f) buf n i q fl eq cm =
  match get buf i with
  | None => Ok i
  | Some c => match line_step c (rd buf (i + 1)) (i + 2 <? n)%nat i q fl eq cm with
              | LDone r => r
              | LNext j q' fl' eq' cm' => scan_line_loop f buf n j q' fl' eq' cm'
              end
  end.
Proof.
  cbn [scan_line_loop]. destruct (get buf i) as [c|]; [|reflexivity]. unfold line_step.
  destruct ((c =? c_bs) && (i + 2 <? n)%nat).
  - destruct (rd buf (i + 1)) as [d| |]; cbn [bind]; try reflexivity.
    destruct (q || negb (d =? c_nl)).
    + destruct (negb q && (d =? c_bs)); reflexivity.
    + repeat (match goal with |- context [if ?b then _ else _] => destruct b end); reflexivity.
  - cbn [bind]. repeat (match goal with |- context [if ?b then _ else _] => destruct b end); reflexivity.
Qed.

(* the next index moves forward by one or two, two only when the look-ahead is in range *)
Lemma line_step_next c d la i q fl eq cm j q' fl' eq' cm' :
  line_step c d la i q fl eq cm = LNext j q' fl' eq' cm' ->
  j = S i \/ (j = S (S i) /\ la = true).
Proof.
  unfold line_step. destruct ((c =? c_bs) && la) eqn:E.
  - apply andb_true_iff in E. destruct E as [_ ->].
    destruct d as [x| |]; cbn [bind]; try discriminate.
    destruct (q || negb (x =? c_nl)).
    + destruct (negb q && (x =? c_bs)); intros H; inversion H; subst; [left; lia|right; split; [lia|reflexivity]].
    + repeat (match goal with |- context [if ?b then _ else _] => destruct b end); intros H; inversion H; auto.
  - repeat (match goal with |- context [if ?b then _ else _] => destruct b end); intros H; inversion H; auto.
Qed.

(* when the byte is not a backslash the look-ahead plays no role *)
Lemma line_step_nobs c d d' la la' i q fl eq cm :
  (c =? c_bs) = false -> line_step c d la i q fl eq cm = line_step c d' la' i q fl eq cm.
Proof. intros H. unfold line_step. rewrite H. reflexivity. Qed.

(* ---- fuel: any sufficient amount gives the same result ---- *)
Lemma scan_line_loop_fuel buf n : forall f1 f2 i q fl eq cm,
  (length buf - i < f1)%nat -> (length buf - i < f2)%nat ->
  scan_line_loop f1 buf n i q fl eq cm = scan_line_loop f2 buf n i q fl eq cm.
Proof.
  intros f1. induction f1 as [|f1 IH]; intros f2 i q fl eq cm H1 H2; [lia|].
  destruct f2 as [|f2]; [lia|]. rewrite !scan_line_loop_step.
  destruct (get buf i) eqn:G; [|reflexivity]. apply get_some_lt in G.
  destruct (line_step _ _ _ _ _ _ _ _) eqn:Es; [reflexivity|].
  apply line_step_next in Es. apply IH; destruct Es as [->|[-> _]]; lia.
Qed.

Lemma skip_ws_fuel buf : forall f1 f2 i,
  (length buf - i < f1)%nat -> (length buf - i < f2)%nat -> skip_ws f1 buf i = skip_ws f2 buf i.
Proof.
  intros f1. induction f1 as [|f1 IH]; intros f2 i H1 H2; [lia|]. destruct f2 as [|f2]; [lia|].
  cbn [skip_ws]. destruct (get buf i) eqn:G; [|reflexivity]. apply get_some_lt in G.
  destruct (is_ws n); [|reflexivity]. apply IH; lia.
Qed.

(* ---- shifting the buffer ---- *)
Lemma get_shift (pre rest : bytes) i : get (pre ++ rest) (length pre + i) = get rest i.
Proof. unfold get. rewrite nth_error_app2 by lia. f_equal. lia. Qed.

Lemma rd_shift (pre rest : bytes) i : rd (pre ++ rest) (length pre + i) = rd rest i.
Proof. unfold rd. pose proof (get_shift pre rest i) as H. unfold get in H. rewrite H. reflexivity. Qed.

Definition shift_res (k : nat) (r : res nat) : res nat :=
  match r with Ok e => Ok (k + e)%nat | Err e => Err e | Crash => Crash end.

Lemma line_step_shift k c d la i q fl eq cm :
  line_step c d la (k + i) q fl eq cm =
  match line_step c d la i q fl eq cm with
  | LDone r => LDone (shift_res k r)
  | LNext j q' fl' eq' cm' => LNext (k + j) q' fl' eq' cm'
  end.
Proof.
  unfold line_step. destruct ((c =? c_bs) && la).
  - destruct d as [x| |]; cbn [bind]; try reflexivity.
    destruct (q || negb (x =? c_nl)).
    + destruct (negb q && (x =? c_bs)); cbn [shift_res]; f_equal; lia.
    + repeat (match goal with |- context [if ?b then _ else _] => destruct b end); cbn [shift_res]; f_equal; lia.
  - repeat (match goal with |- context [if ?b then _ else _] => destruct b end); cbn [shift_res]; f_equal; lia.
Qed.

Lemma scan_line_loop_shift (pre rest : bytes) : forall f i q fl eq cm,
  scan_line_loop f (pre ++ rest) (length pre + length rest) (length pre + i) q fl eq cm =
  shift_res (length pre) (scan_line_loop f rest (length rest) i q fl eq cm).
Proof.
  intros f. induction f as [|f IH]; intros i q fl eq cm; [reflexivity|].
  rewrite !scan_line_loop_step. rewrite get_shift.
  destruct (get rest i) as [c|]; [|reflexivity].
  replace (length pre + i + 1)%nat with (length pre + (i + 1))%nat by lia. rewrite rd_shift.
  replace (length pre + i + 2 <? length pre + length rest)%nat with (i + 2 <? length rest)%nat.
  2:{ destruct (Nat.ltb_spec (i + 2) (length rest)); destruct (Nat.ltb_spec (length pre + i + 2) (length pre + length rest)); lia || reflexivity. }
  rewrite line_step_shift. destruct (line_step _ _ _ _ _ _ _ _); [reflexivity|apply IH].
Qed.

Lemma skip_ws_shift (pre rest : bytes) : forall f i,
  skip_ws f (pre ++ rest) (length pre + i) = (length pre + skip_ws f rest i)%nat.
Proof.
  intros f. induction f as [|f IH]; intros i; [reflexivity|]. cbn [skip_ws]. rewrite get_shift.
  destruct (get rest i); [|reflexivity]. destruct (is_ws n); [|reflexivity].
  replace (S (length pre + i)) with (length pre + S i)%nat by lia. apply IH.
Qed.

Lemma slice_shift (pre rest : bytes) a b : slice (pre ++ rest) (length pre + a) (length pre + b) = slice rest a b.
Proof.
  unfold slice. rewrite app_length.
  replace (length pre + a <=? length pre + b)%nat with (a <=? b)%nat
    by (destruct (Nat.leb_spec a b), (Nat.leb_spec (length pre + a) (length pre + b)); lia || reflexivity).
  replace (length pre + b <=? length pre + length rest)%nat with (b <=? length rest)%nat
    by (destruct (Nat.leb_spec b (length rest)), (Nat.leb_spec (length pre + b) (length pre + length rest)); lia || reflexivity).
  destruct ((a <=? b)%nat && (b <=? length rest)%nat); [|reflexivity].
  rewrite skipn_app. rewrite skipn_all2 by lia. cbn [app].
  f_equal. f_equal; [lia|]. f_equal. lia.
Qed.

(* scanLine on the tail of a buffer *)
Lemma scan_line_shift (pre rest : bytes) pos :
  (pos <= length rest)%nat ->
  scan_line (pre ++ rest) (length pre + pos) =
  match scan_line rest pos with
  | Ok (e, blk) => Ok ((length pre + e)%nat, blk)
  | Err x => Err x
  | Crash => Crash
  end.
Proof.
  intros Hpos. unfold scan_line, skip_whitespace.
  rewrite (skip_ws_fuel (pre ++ rest) _ (S (length rest)) (length pre + pos))
    by (rewrite app_length; lia).
  rewrite skip_ws_shift.
  pose proof (skip_ws_ge (S (length rest)) rest pos) as Hge.
  pose proof (skip_ws_le (S (length rest)) rest pos Hpos) as Hle.
  set (i0 := skip_ws (S (length rest)) rest pos) in *.
  rewrite app_length.
  rewrite (scan_line_loop_fuel (pre ++ rest) _ (S (length pre + length rest)) (S (length rest) + length pre))
    by (rewrite app_length; lia).
  rewrite scan_line_loop_shift.
  rewrite (scan_line_loop_fuel rest _ (S (length rest) + length pre) (S (length rest))) by lia.
  destruct (scan_line_loop (S (length rest)) rest (length rest) i0 false false 0 0) as [e| |]; cbn [shift_res bind]; try reflexivity.
  rewrite slice_shift. destruct (slice rest pos e); reflexivity.
Qed.

Section Oracle.
Variable pf : bytes -> option N.
Variable us : bool.

(* ParsePointsWithPrecision's loop on the tail of a buffer, any sufficient fuel *)
Lemma parse_points_loop_shift (pre rest : bytes) dflt prec : forall f1 f2 pos,
  (length rest - pos < f1)%nat -> (length rest - pos < f2)%nat ->
  parse_points_loop pf us f1 (pre ++ rest) (length pre + pos) dflt prec =
  parse_points_loop pf us f2 rest pos dflt prec.
Proof.
  intros f1. induction f1 as [|f1 IH]; intros f2 pos H1 H2; [lia|]. destruct f2 as [|f2]; [lia|].
  cbn [parse_points_loop]. rewrite app_length.
  replace (length pre + pos <? length pre + length rest)%nat with (pos <? length rest)%nat
    by (destruct (Nat.ltb_spec pos (length rest)), (Nat.ltb_spec (length pre + pos) (length pre + length rest)); lia || reflexivity).
  destruct (Nat.ltb_spec pos (length rest)) as [Hlt|Hge]; [|reflexivity].
  rewrite scan_line_shift by lia.
  destruct (scan_line rest pos) as [[e blk]| |] eqn:Hs; cbn [bind]; try reflexivity.
  apply scan_line_bounds in Hs; [|lia].
  destruct (process_block pf us blk dflt prec); cbn [bind]; try reflexivity.
  replace (S (length pre + e)) with (length pre + S e)%nat by lia.
  rewrite (IH f2 (S e)) by lia. reflexivity.
Qed.
End Oracle.

(* ---- a closed line ---- *)
Definition line_closed (l1 : bytes) : bool :=
  match scan_line (l1 ++ [c_nl]) 0 with
  | Ok (e, _) => (e =? length l1)%nat
  | _ => false
  end.

Lemma line_step_done c d la i q fl eq cm e :
  line_step c d la i q fl eq cm = LDone (Ok e) -> e = i.
Proof.
  unfold line_step. destruct ((c =? c_bs) && la).
  - destruct d as [x| |]; cbn [bind]; try discriminate.
    destruct (q || negb (x =? c_nl)).
    + destruct (negb q && (x =? c_bs)); discriminate.
    + repeat (match goal with |- context [if ?b then _ else _] => destruct b end); intros H; inversion H; reflexivity.
  - repeat (match goal with |- context [if ?b then _ else _] => destruct b end); intros H; inversion H; reflexivity.
Qed.

Lemma scan_line_loop_ge buf n : forall f i q fl eq cm e,
  scan_line_loop f buf n i q fl eq cm = Ok e -> (i <= e)%nat.
Proof.
  intros f. induction f as [|f IH]; intros i q fl eq cm e H; [discriminate|].
  rewrite scan_line_loop_step in H. destruct (get buf i); [|inversion H; lia].
  destruct (line_step _ _ _ _ _ _ _ _) eqn:Es.
  - subst r. apply line_step_done in Es. lia.
  - apply line_step_next in Es. apply IH in H. destruct Es as [->|[-> _]]; lia.
Qed.

Lemma get_prefix (l1 : bytes) r i : (i < length l1)%nat -> get (l1 ++ r) i = get l1 i.
Proof. intros H. unfold get. apply nth_error_app1. exact H. Qed.

Lemma rd_prefix (l1 : bytes) r i : (i < length l1)%nat -> rd (l1 ++ r) i = rd l1 i.
Proof. intros H. unfold rd. pose proof (get_prefix l1 r i H) as G. unfold get in G. rewrite G. reflexivity. Qed.

(* the scan of a closed line does not depend on what follows its newline *)
Lemma closed_prefix_stable (l1 r2 : bytes) : forall f i q fl eq cm,
  (i <= length l1)%nat ->
  scan_line_loop f (l1 ++ [c_nl]) (length (l1 ++ [c_nl])) i q fl eq cm = Ok (length l1) ->
  scan_line_loop f (l1 ++ c_nl :: r2) (length (l1 ++ c_nl :: r2)) i q fl eq cm = Ok (length l1).
Proof.
  intros f. induction f as [|f IH]; intros i q fl eq cm Hi H; [discriminate|].
  rewrite scan_line_loop_step in *.
  destruct (Nat.eq_dec i (length l1)) as [->|Hne].
  - (* at the newline *)
    rewrite get_app_mid in *.
    rewrite (line_step_nobs c_nl _ (rd (l1 ++ [c_nl]) (length l1 + 1)) _ (length l1 + 2 <? length (l1 ++ [c_nl]))%nat) by reflexivity.
    destruct (line_step _ _ _ _ _ _ _ _) eqn:Es; [exact H|].
    apply scan_line_loop_ge in H. apply line_step_next in Es. destruct Es as [->|[-> _]]; lia.
  - assert (Hlt : (i < length l1)%nat) by lia.
    destruct (get_lt_some l1 i Hlt) as [c Gc].
    rewrite (get_prefix l1 [c_nl] i Hlt) in H. rewrite (get_prefix l1 (c_nl :: r2) i Hlt). rewrite Gc in *.
    destruct (Nat.eq_dec (i + 1) (length l1)) as [Hlast|Hnl].
    + (* last byte of the line *)
      assert (Hd1 : rd (l1 ++ [c_nl]) (i + 1) = Ok c_nl) by (rewrite Hlast; apply rd_get, get_app_mid).
      assert (Hd2 : rd (l1 ++ c_nl :: r2) (i + 1) = Ok c_nl) by (rewrite Hlast; apply rd_get, get_app_mid).
      assert (Hla1 : (i + 2 <? length (l1 ++ [c_nl]))%nat = false) by (apply Nat.ltb_ge; rewrite app_length; cbn [length]; lia).
      rewrite Hd1, Hla1 in H. rewrite Hd2.
      destruct (c =? c_bs) eqn:Ebs.
      * apply N.eqb_eq in Ebs. subst c.
        (* in the short buffer the backslash is an ordinary byte *)
        assert (Hs1 : line_step c_bs (Ok c_nl) false i q fl eq cm = LNext (S i) q (fl || false) eq cm).
        { unfold line_step. cbn [N.eqb c_bs c_space c_eq c_comma c_quote c_nl Pos.eqb andb orb bind].
          rewrite !andb_false_r. reflexivity. }
        rewrite Hs1 in H.
        assert (Hq : q = false).
        { destruct q; [|reflexivity]. exfalso. destruct f as [|f']; [discriminate|].
          rewrite scan_line_loop_step in H. replace (S i) with (length l1) in H by lia.
          rewrite get_app_mid in H.
          assert (Hs : forall d la, line_step c_nl d la (length l1) true (fl || false) eq cm = LNext (S (length l1)) true (fl || false || false) eq cm).
          { intros d la. unfold line_step. cbn [N.eqb c_bs c_space c_eq c_comma c_quote c_nl Pos.eqb andb orb bind negb].
            rewrite !andb_false_r. reflexivity. }
          rewrite Hs in H. apply scan_line_loop_ge in H. lia. }
        subst q.
        assert (Hs2 : forall la, line_step c_bs (Ok c_nl) la i false fl eq cm = LNext (S i) false (fl || false) eq cm).
        { intros la. unfold line_step. destruct la; cbn [N.eqb c_bs c_space c_eq c_comma c_quote c_nl Pos.eqb andb orb bind negb];
            rewrite ?andb_false_r; reflexivity. }
        rewrite Hs2. apply IH; [lia|exact H].
      * rewrite (line_step_nobs c _ (Ok c_nl) _ false) by exact Ebs.
        destruct (line_step c (Ok c_nl) false i q fl eq cm) eqn:Es; [exact H|].
        apply IH; [|exact H]. apply line_step_next in Es. destruct Es as [->|[_ Hf]]; [lia|discriminate].
    + (* inside the line: both look-aheads are in range and read the same byte *)
      assert (Hi2 : (i + 1 < length l1)%nat) by lia.
      rewrite (rd_prefix l1 [c_nl] (i + 1) Hi2) in H. rewrite (rd_prefix l1 (c_nl :: r2) (i + 1) Hi2).
      assert (Hla1 : (i + 2 <? length (l1 ++ [c_nl]))%nat = true) by (apply Nat.ltb_lt; rewrite app_length; cbn [length]; lia).
      assert (Hla2 : (i + 2 <? length (l1 ++ c_nl :: r2))%nat = true) by (apply Nat.ltb_lt; rewrite app_length; cbn [length]; lia).
      rewrite Hla1 in H. rewrite Hla2.
      destruct (line_step c (rd l1 (i + 1)) true i q fl eq cm) eqn:Es; [exact H|].
      apply IH; [|exact H]. apply line_step_next in Es. destruct Es as [->|[-> _]]; lia.
Qed.

Lemma skip_ws_prefix (l1 : bytes) r : forall f i, (i <= length l1)%nat ->
  skip_ws f (l1 ++ c_nl :: r) i = skip_ws f (l1 ++ [c_nl]) i.
Proof.
  intros f. induction f as [|f IH]; intros i Hi; [reflexivity|]. cbn [skip_ws].
  destruct (Nat.eq_dec i (length l1)) as [->|Hne].
  - rewrite !get_app_mid. reflexivity.
  - rewrite !get_prefix by lia. destruct (get l1 i); [|reflexivity].
    destruct (is_ws n); [apply IH; lia|reflexivity].
Qed.

Lemma scan_line_loop_mono buf n : forall f f' i q fl eq cm e,
  (f <= f')%nat -> scan_line_loop f buf n i q fl eq cm = Ok e -> scan_line_loop f' buf n i q fl eq cm = Ok e.
Proof.
  intros f. induction f as [|f IH]; intros f' i q fl eq cm e Hle H; [discriminate|].
  destruct f' as [|f']; [lia|]. rewrite scan_line_loop_step in *.
  destruct (get buf i); [|exact H]. destruct (line_step _ _ _ _ _ _ _ _); [exact H|].
  eapply IH; [|exact H]. lia.
Qed.

Lemma line_closed_scan l1 rest :
  line_closed l1 = true -> scan_line (l1 ++ c_nl :: rest) 0 = Ok (length l1, l1).
Proof.
  unfold line_closed. destruct (scan_line (l1 ++ [c_nl]) 0) as [[e blk]| |] eqn:Hs; try discriminate.
  intros He. apply Nat.eqb_eq in He. subst e.
  unfold scan_line in *. apply bind_ok_inv in Hs. destruct Hs as [e [Hl Hs]].
  apply bind_ok_inv in Hs. destruct Hs as [b [_ Hs]]. inversion Hs; subst e b. clear Hs.
  unfold skip_whitespace in *.
  set (b1 := l1 ++ [c_nl]) in *. set (b2 := l1 ++ c_nl :: rest).
  pose proof (scan_line_loop_ge _ _ _ _ _ _ _ _ _ Hl) as Hi0.
  set (i0 := skip_ws (S (length b1)) b1 0) in *.
  assert (Hsk : skip_ws (S (length b2)) b2 0 = i0).
  { unfold i0, b1, b2. rewrite (skip_ws_prefix l1 rest) by lia.
    (* more fuel than needed on the short buffer changes nothing *)
    apply skip_ws_fuel; rewrite !app_length; cbn [length]; lia. }
  rewrite Hsk.
  pose proof (closed_prefix_stable l1 rest (S (length b1)) i0 false false 0 0 Hi0 Hl) as H2. fold b2 in H2.
  rewrite (scan_line_loop_mono b2 _ (S (length b1)) (S (length b2)) _ _ _ _ _ _ ltac:(unfold b1, b2; rewrite !app_length; cbn [length]; lia) H2).
  cbn [bind]. unfold b2. rewrite slice_prefix. reflexivity.
Qed.

Section Isolation.
Variable pf : bytes -> option N.
Variable us : bool.

(* bad_line_isolated *)
Theorem closed_line_isolated l1 rest dflt prec :
  line_closed l1 = true ->
  parse_points pf us (l1 ++ c_nl :: rest) dflt prec =
  (let* a := process_block pf us l1 dflt prec in
   let* b := parse_points pf us rest dflt prec in
   Ok (a ++ b)).
Proof.
  intros Hc. unfold parse_points at 1.
  set (buf := l1 ++ c_nl :: rest).
  assert (Hlen : length buf = (length l1 + 1 + length rest)%nat) by (unfold buf; rewrite app_length; cbn [length]; lia).
  cbn [parse_points_loop]. destruct (Nat.ltb_spec 0 (length buf)); [|lia].
  unfold buf at 1. rewrite (line_closed_scan l1 rest Hc). cbn [bind].
  destruct (process_block pf us l1 dflt prec) as [a| |]; cbn [bind]; try reflexivity.
  assert (Hb : buf = (l1 ++ [c_nl]) ++ rest) by (unfold buf; rewrite <- app_assoc; reflexivity).
  replace (S (length l1)) with (length (l1 ++ [c_nl]) + 0)%nat by (rewrite app_length; cbn [length]; lia).
  rewrite Hb.
  rewrite (parse_points_loop_shift pf us (l1 ++ [c_nl]) rest dflt prec _ (S (length rest)) 0)
    by (rewrite ?app_length; cbn [length]; lia).
  reflexivity.
Qed.

(* several closed lines: the result is the concatenation of the per-line results *)
Fixpoint join_nl (ls : list bytes) : bytes :=
  match ls with [] => [] | l :: r => l ++ c_nl :: join_nl r end.

Fixpoint per_line (ls : list bytes) (dflt : Z) (prec : bytes) : res (list line_res) :=
  match ls with
  | [] => Ok []
  | l :: r => let* a := process_block pf us l dflt prec in
              let* b := per_line r dflt prec in Ok (a ++ b)
  end.

Theorem closed_lines_isolated ls dflt prec :
  forallb line_closed ls = true ->
  parse_points pf us (join_nl ls) dflt prec = per_line ls dflt prec.
Proof.
  induction ls as [|l r IH]; intros H; [reflexivity|].
  cbn [forallb] in H. apply andb_true_iff in H. destruct H as [Hl Hr].
  cbn [join_nl per_line]. rewrite (closed_line_isolated l (join_nl r) dflt prec Hl).
  rewrite (IH Hr). reflexivity.
Qed.
End Isolation.

(* a line with no newline and no double quote is closed *)
Example line_closed_example : line_closed [99;112;117;32;118;61;49;92] = true.   (* "cpu v=1\" *)
Proof. vm_compute. reflexivity. Qed.

(* ---- every line without a newline and without a double quote is closed, whatever else it
   contains (in particular every malformed line of that kind) ---- *)
Lemma line_step_plain c x la i fl eq cm :
  (c =? c_nl) = false -> (c =? c_quote) = false ->
  exists j fl' eq' cm', line_step c (Ok x) la i false fl eq cm = LNext j false fl' eq' cm'.
Proof.
  intros Hn Hq. unfold line_step. rewrite Hn, Hq. cbn [bind negb orb andb].
  destruct ((c =? c_bs) && la).
  - destruct (negb (x =? c_nl)).
    + destruct (x =? c_bs); eauto.
    + rewrite !andb_false_r. cbn [andb]. repeat (match goal with |- context [if ?b then _ else _] => destruct b end); eauto.
  - rewrite !andb_false_r. cbn [andb]. repeat (match goal with |- context [if ?b then _ else _] => destruct b end); eauto.
Qed.

Lemma plain_scan (l : bytes) : forall f i fl eq cm,
  forallb (fun c => negb (c =? c_nl) && negb (c =? c_quote)) l = true ->
  (i <= length l)%nat -> (length l - i < f)%nat ->
  scan_line_loop f (l ++ [c_nl]) (length (l ++ [c_nl])) i false fl eq cm = Ok (length l).
Proof.
  intros f. induction f as [|f IH]; intros i fl eq cm Hp Hi Hf; [lia|].
  rewrite scan_line_loop_step.
  destruct (Nat.eq_dec i (length l)) as [->|Hne].
  - rewrite get_app_mid. unfold line_step. cbn [N.eqb c_nl c_bs Pos.eqb andb]. cbn [N.eqb c_nl c_space c_eq c_comma c_quote Pos.eqb andb orb negb].
    rewrite !andb_false_r. reflexivity.
  - assert (Hlt : (i < length l)%nat) by lia.
    destruct (get_lt_some l i Hlt) as [c Gc]. rewrite (get_prefix l [c_nl] i Hlt), Gc.
    assert (Hc : (c =? c_nl) = false /\ (c =? c_quote) = false).
    { rewrite forallb_forall in Hp. specialize (Hp c (nth_error_In _ _ Gc)).
      apply andb_true_iff in Hp. destruct Hp as [H1 H2]. apply negb_true_iff in H1, H2. auto. }
    destruct Hc as [Hn Hq].
    destruct (rd_lt (l ++ [c_nl]) (i + 1) ltac:(rewrite app_length; cbn [length]; lia)) as [x [Hx _]].
    rewrite Hx.
    destruct (line_step_plain c x (i + 2 <? length (l ++ [c_nl]))%nat i fl eq cm Hn Hq) as [j [fl' [eq' [cm' Hs]]]].
    rewrite Hs. pose proof (line_step_next _ _ _ _ _ _ _ _ _ _ _ _ _ Hs) as Hj.
    apply IH; [exact Hp| |].
    + destruct Hj as [->|[-> Hla]]; [lia|]. apply Nat.ltb_lt in Hla. rewrite app_length in Hla. cbn [length] in Hla. lia.
    + destruct Hj as [->|[-> _]]; lia.
Qed.

Theorem plain_line_closed l :
  forallb (fun c => negb (c =? c_nl) && negb (c =? c_quote)) l = true -> line_closed l = true.
Proof.
  intros Hp. unfold line_closed, scan_line, skip_whitespace.
  pose proof (skip_ws_ge (S (length (l ++ [c_nl]))) (l ++ [c_nl]) 0) as Hge.
  set (i0 := skip_ws (S (length (l ++ [c_nl]))) (l ++ [c_nl]) 0) in *.
  assert (Hi0 : (i0 <= length l)%nat).
  { (* whitespace skipping stops at the newline at the latest *)
    destruct (Nat.le_gt_cases i0 (length l)) as [H|H]; [exact H|exfalso].
    assert (Hw : is_ws c_nl = true).
    { apply (skip_ws_skipped (S (length (l ++ [c_nl]))) (l ++ [c_nl]) 0 (length l) c_nl); [fold i0; lia|apply get_app_mid]. }
    discriminate. }
  rewrite (plain_scan l _ i0 false 0 0 Hp Hi0) by (rewrite app_length; cbn [length]; lia).
  cbn [bind]. rewrite slice_ok by (rewrite ?app_length; cbn [length]; lia). apply Nat.eqb_refl.
Qed.
