(* C12/Print.v — how a point's field set is written as text: Fields.MarshalBinary / appendField
   (field keys escaped by escape.String, '=' , the value: strconv.AppendInt + 'i',
   strconv.AppendUint + 'u', strconv.AppendFloat(v,'f',-1,64) (an oracle: [ff] gives the text for
   the float64 bits), strconv.AppendBool, '"' EscapeStringField '"'), fields joined by ','.
   Fields.MarshalBinary writes the fields in sort.Strings order of their names; the caller passes
   them in that order.  Definitions only. *)
From Verif Require Export C12.Base C12.Escape.
Open Scope N_scope.

Definition ftxt (kv : bytes * bytes) : bytes := fst kv ++ c_eq :: snd kv.
Fixpoint render_fields (l : list (bytes * bytes)) : bytes :=
  match l with
  | [] => []
  | kv :: r => match r with [] => ftxt kv | _ :: _ => ftxt kv ++ c_comma :: render_fields r end
  end.

Definition print_value (ff : N -> bytes) (fv : fvalue) : bytes :=
  match fv with
  | FInt z => fmt_z z ++ [c_i]
  | FUint n => fmt_n n ++ [c_u]
  | FFloat b => ff b
  | FBool true => [116; 114; 117; 101]
  | FBool false => [102; 97; 108; 115; 101]
  | FString s => c_quote :: escape_string_field s ++ [c_quote]
  | FEmpty => []
  end.

Definition print_field (ff : N -> bytes) (a : bytes * fvalue) : bytes * bytes :=
  (escape_bytes (fst a), print_value ff (snd a)).

Definition print_fields (ff : N -> bytes) (afs : list (bytes * fvalue)) : bytes :=
  render_fields (map (print_field ff) afs).

(* sort.Strings order: strictly increasing byte-wise *)
Fixpoint keys_increasing (afs : list (bytes * fvalue)) : bool :=
  match afs with
  | a :: r => match r with
              | b :: _ => match bytes_cmp (fst a) (fst b) with Lt => true | _ => false end && keys_increasing r
              | [] => true
              end
  | [] => true
  end.
