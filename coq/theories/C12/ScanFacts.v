(* C12/ScanFacts.v — basic facts about checked reads, slices and the small scanners
   (bounds of the returned index, absence of Crash), shared by the proof files. *)
From Verif Require Import C12.Base C12.Escape C12.Scan.
From VerifGen Require Import Consts.
From Coq Require Import ZifyBool ZifyNat ZifyN.
Open Scope N_scope.

Lemma get_some_lt buf i c : get buf i = Some c -> (i < length buf)%nat.
Proof. unfold get. intros H. apply nth_error_Some. congruence. Qed.

Lemma get_none_ge buf i : get buf i = None -> (length buf <= i)%nat.
Proof. unfold get. apply nth_error_None. Qed.

Lemma get_lt_some buf i : (i < length buf)%nat -> exists c, get buf i = Some c.
Proof.
  intros H. unfold get. destruct (nth_error buf i) eqn:E; [eauto|].
  apply nth_error_None in E. lia.
Qed.

Lemma rd_get buf i c : get buf i = Some c -> rd buf i = Ok c.
Proof. unfold get, rd. intros ->. reflexivity. Qed.

Lemma rd_lt buf i : (i < length buf)%nat -> exists c, rd buf i = Ok c /\ get buf i = Some c.
Proof. intros H. destruct (get_lt_some buf i H) as [c Hc]. exists c. split; [apply rd_get|]; exact Hc. Qed.

Lemma rd_ok_inv buf i c : rd buf i = Ok c -> get buf i = Some c.
Proof. unfold rd, get. destruct (nth_error buf i); intros H; inversion H; reflexivity. Qed.

Lemma rdm_lt buf i k : (k <= i)%nat -> (i - k < length buf)%nat -> exists c, rdm buf i k = Ok c /\ get buf (i - k) = Some c.
Proof.
  intros H1 H2. unfold rdm. destruct (Nat.ltb_spec i k); [lia|]. apply rd_lt. exact H2.
Qed.

Lemma slice_ok buf a b :
  (a <= b)%nat -> (b <= length buf)%nat -> slice buf a b = Ok (firstn (b - a) (skipn a buf)).
Proof.
  intros H1 H2. unfold slice.
  destruct (Nat.leb_spec a b); [|lia]. destruct (Nat.leb_spec b (length buf)); [|lia]. reflexivity.
Qed.

Lemma slice_inv buf a b s :
  slice buf a b = Ok s -> (a <= b)%nat /\ (b <= length buf)%nat /\ s = firstn (b - a) (skipn a buf).
Proof.
  unfold slice. destruct (Nat.leb_spec a b); cbn [andb]; [|discriminate].
  destruct (Nat.leb_spec b (length buf)); [|discriminate]. intros Hs. inversion Hs. auto.
Qed.

Lemma slice_not_err buf a b e : slice buf a b <> Err e.
Proof. unfold slice. destruct (_ && _); discriminate. Qed.

Lemma slice_length buf a b s : slice buf a b = Ok s -> length s = (b - a)%nat.
Proof.
  intros H. apply slice_inv in H. destruct H as [H1 [H2 ->]].
  rewrite firstn_length, skipn_length. lia.
Qed.

Lemma slice_full buf : slice buf 0 (length buf) = Ok buf.
Proof. rewrite slice_ok by lia. cbn [skipn]. rewrite Nat.sub_0_r, firstn_all. reflexivity. Qed.

Lemma slice_app_mid (a b c : bytes) :
  slice (a ++ b ++ c) (length a) (length a + length b) = Ok b.
Proof.
  rewrite slice_ok by (rewrite ?app_length; lia).
  rewrite skipn_app, skipn_all, Nat.sub_diag. cbn [skipn app].
  replace (length a + length b - length a)%nat with (length b) by lia.
  rewrite firstn_app, firstn_all, Nat.sub_diag. cbn [firstn]. rewrite app_nil_r. reflexivity.
Qed.

Lemma slice_prefix (a b : bytes) : slice (a ++ b) 0 (length a) = Ok a.
Proof.
  rewrite slice_ok by (rewrite ?app_length; lia). cbn [skipn]. rewrite Nat.sub_0_r.
  rewrite firstn_app, firstn_all, Nat.sub_diag. cbn [firstn]. apply f_equal, app_nil_r.
Qed.

Lemma slice_suffix (a b : bytes) : slice (a ++ b) (length a) (length (a ++ b)) = Ok b.
Proof.
  rewrite slice_ok by (rewrite ?app_length; lia).
  rewrite skipn_app, skipn_all, Nat.sub_diag. cbn [skipn app].
  rewrite app_length. replace (length a + length b - length a)%nat with (length b) by lia.
  rewrite firstn_all. reflexivity.
Qed.

Lemma get_app_mid (a : bytes) c (b : bytes) : get (a ++ c :: b) (length a) = Some c.
Proof. unfold get. rewrite nth_error_app2 by lia. rewrite Nat.sub_diag. reflexivity. Qed.

Lemma get_app_end (a : bytes) : get a (length a) = None.
Proof. unfold get. apply nth_error_None. lia. Qed.

(* not-Crash through bind *)
Definition nc {A} (r : res A) : Prop := r <> Crash.

Lemma nc_bind {A B} (r : res A) (f : A -> res B) :
  nc r -> (forall a, r = Ok a -> nc (f a)) -> nc (bind r f).
Proof. unfold nc. destruct r; cbn; intros H1 H2; [apply H2; reflexivity|discriminate|congruence]. Qed.

Lemma nc_ok {A} (a : A) : nc (Ok a).
Proof. discriminate. Qed.
Lemma nc_err {A} e : nc (@Err A e).
Proof. discriminate. Qed.

Lemma bind_ok_inv {A B} (r : res A) (f : A -> res B) b :
  bind r f = Ok b -> exists a, r = Ok a /\ f a = Ok b.
Proof. destruct r; cbn; intros H; [eauto|discriminate|discriminate]. Qed.

(* ---- skipWhitespace ---- *)
Lemma skip_ws_ge fuel buf i : (i <= skip_ws fuel buf i)%nat.
Proof.
  revert i. induction fuel as [|f IH]; intros i; cbn [skip_ws]; [lia|].
  destruct (get buf i); [|lia]. destruct (is_ws n); [|lia]. specialize (IH (S i)). lia.
Qed.

Lemma skip_ws_le fuel buf i : (i <= length buf)%nat -> (skip_ws fuel buf i <= length buf)%nat.
Proof.
  revert i. induction fuel as [|f IH]; intros i H; cbn [skip_ws]; [lia|].
  destruct (get buf i) eqn:E; [|lia]. apply get_some_lt in E.
  destruct (is_ws n); [|lia]. apply IH. lia.
Qed.

(* the scan stops at a non-whitespace byte or at the end *)
Lemma skip_ws_stop fuel buf i :
  (length buf - i < fuel)%nat ->
  match get buf (skip_ws fuel buf i) with Some c => is_ws c = false | None => True end.
Proof.
  revert i. induction fuel as [|f IH]; intros i H; [lia|]. cbn [skip_ws].
  destruct (get buf i) eqn:E.
  - destruct (is_ws n) eqn:W.
    + apply IH. apply get_some_lt in E. lia.
    + rewrite E. exact W.
  - rewrite E. exact I.
Qed.

Lemma skip_whitespace_ge buf i : (i <= skip_whitespace buf i)%nat.
Proof. apply skip_ws_ge. Qed.
Lemma skip_whitespace_le buf i : (i <= length buf)%nat -> (skip_whitespace buf i <= length buf)%nat.
Proof. apply skip_ws_le. Qed.
Lemma skip_whitespace_stop buf i :
  match get buf (skip_whitespace buf i) with Some c => is_ws c = false | None => True end.
Proof. apply skip_ws_stop. lia. Qed.

(* all bytes skipped are whitespace *)
Lemma skip_ws_skipped fuel buf i j c :
  (i <= j < skip_ws fuel buf i)%nat -> get buf j = Some c -> is_ws c = true.
Proof.
  revert i. induction fuel as [|f IH]; intros i H G; cbn [skip_ws] in H; [lia|].
  destruct (get buf i) eqn:E; [|lia]. destruct (is_ws n) eqn:W; [|lia].
  destruct (Nat.eq_dec i j) as [->|Hne].
  - congruence.
  - apply (IH (S i)); [lia|exact G].
Qed.

(* ---- scanTo ---- *)
Lemma scan_to_loop_nc fuel buf i stop : nc (scan_to_loop fuel buf i stop).
Proof.
  revert i. induction fuel as [|f IH]; intros i; cbn [scan_to_loop]; [apply nc_err|].
  destruct (get buf i) eqn:E; [|apply nc_ok].
  destruct (n =? stop); [|apply IH].
  destruct i as [|j]; [apply nc_ok|].
  apply get_some_lt in E. destruct (rd_lt buf j ltac:(lia)) as [p [Hp _]]. rewrite Hp. cbn [bind].
  destruct (negb (p =? c_bs)); [apply nc_ok|apply IH].
Qed.

Lemma scan_to_loop_bounds fuel buf i stop e :
  scan_to_loop fuel buf i stop = Ok e -> (i <= length buf)%nat -> (i <= e <= length buf)%nat.
Proof.
  revert i. induction fuel as [|f IH]; intros i H Hi; cbn [scan_to_loop] in H; [discriminate|].
  destruct (get buf i) eqn:E.
  2:{ inversion H. subst. lia. }
  pose proof (get_some_lt _ _ _ E) as Hlt.
  destruct (n =? stop).
  - destruct i as [|j]; [inversion H; lia|].
    destruct (rd buf j); cbn [bind] in H; try discriminate.
    destruct (negb (a =? c_bs)); [inversion H; lia|].
    apply IH in H; lia.
  - apply IH in H; lia.
Qed.

Lemma scan_to_nc buf i stop : (i <= length buf)%nat -> nc (scan_to buf i stop).
Proof.
  intros Hi. unfold scan_to. apply nc_bind; [apply scan_to_loop_nc|].
  intros e He. apply scan_to_loop_bounds in He; [|exact Hi].
  rewrite slice_ok by lia. apply nc_ok.
Qed.

Lemma scan_to_inv buf i stop e s :
  scan_to buf i stop = Ok (e, s) -> (i <= length buf)%nat ->
  (i <= e <= length buf)%nat /\ s = firstn (e - i) (skipn i buf).
Proof.
  unfold scan_to. intros H Hi. apply bind_ok_inv in H. destruct H as [e' [He H]].
  apply bind_ok_inv in H. destruct H as [s' [Hs H]]. inversion H; subst.
  apply scan_to_loop_bounds in He; [|exact Hi]. apply slice_inv in Hs. intuition.
Qed.

(* enough fuel: the loop never reports out-of-fuel *)
Lemma scan_to_loop_fuel fuel buf i stop :
  (length buf - i < fuel)%nat -> scan_to_loop fuel buf i stop <> Err fuel_err.
Proof.
  revert i. induction fuel as [|f IH]; intros i H; [lia|]. cbn [scan_to_loop].
  destruct (get buf i) eqn:E; [|discriminate]. apply get_some_lt in E.
  destruct (n =? stop); [|apply IH; lia].
  destruct i as [|j]; [discriminate|].
  destruct (rd_lt buf j ltac:(lia)) as [p [Hp _]]. rewrite Hp. cbn [bind].
  destruct (negb (p =? c_bs)); [discriminate|apply IH; lia].
Qed.

(* ---- scanFieldValue ---- *)
Lemma scan_field_value_loop_nc fuel buf i q : nc (scan_field_value_loop fuel buf (length buf) i q).
Proof.
  revert i q. induction fuel as [|f IH]; intros i q; cbn [scan_field_value_loop]; [apply nc_err|].
  destruct (get buf i) eqn:E; [|apply nc_ok].
  destruct ((n =? c_bs) && (i + 1 <? length buf)%nat) eqn:Eb.
  - apply andb_true_iff in Eb. destruct Eb as [_ Eb]. apply Nat.ltb_lt in Eb.
    destruct (rd_lt buf (i + 1) Eb) as [d [Hd _]]. rewrite Hd. cbn [bind].
    destruct ((d =? c_quote) || (d =? c_bs)); [apply IH|].
    destruct (n =? c_quote); [apply IH|]. destruct ((n =? c_comma) && negb q); [apply nc_ok|apply IH].
  - cbn [bind]. destruct (n =? c_quote); [apply IH|].
    destruct ((n =? c_comma) && negb q); [apply nc_ok|apply IH].
Qed.

Lemma scan_field_value_loop_bounds fuel buf i q e :
  scan_field_value_loop fuel buf (length buf) i q = Ok e -> (i <= length buf)%nat ->
  (i <= e <= length buf)%nat.
Proof.
  revert i q. induction fuel as [|f IH]; intros i q H Hi; cbn [scan_field_value_loop] in H; [discriminate|].
  destruct (get buf i) eqn:E.
  2:{ inversion H; subst; lia. }
  pose proof (get_some_lt _ _ _ E) as Hlt.
  destruct ((n =? c_bs) && (i + 1 <? length buf)%nat) eqn:Eb.
  - apply andb_true_iff in Eb. destruct Eb as [_ Eb]. apply Nat.ltb_lt in Eb.
    destruct (rd buf (i + 1)); cbn [bind] in H; try discriminate.
    destruct ((a =? c_quote) || (a =? c_bs)); [apply IH in H; lia|].
    destruct (n =? c_quote); [apply IH in H; lia|].
    destruct ((n =? c_comma) && negb q); [inversion H; subst; lia|apply IH in H; lia].
  - cbn [bind] in H. destruct (n =? c_quote); [apply IH in H; lia|].
    destruct ((n =? c_comma) && negb q); [inversion H; subst; lia|apply IH in H; lia].
Qed.

Lemma scan_field_value_nc slack buf start :
  (start <= length buf + slack)%nat -> nc (scan_field_value slack buf start).
Proof.
  intros Hs. unfold scan_field_value.
  destruct (Nat.ltb_spec (length buf) start).
  - destruct (Nat.leb_spec start (length buf + slack)); [apply nc_ok|lia].
  - apply nc_bind; [apply scan_field_value_loop_nc|].
    intros e He. apply scan_field_value_loop_bounds in He; [|lia].
    rewrite slice_ok by lia. apply nc_ok.
Qed.

Lemma scan_field_value_inv slack buf start e s :
  scan_field_value slack buf start = Ok (e, s) ->
  (start <= e)%nat /\ (e <= Nat.max start (length buf))%nat /\ length s = (e - start)%nat.
Proof.
  unfold scan_field_value. destruct (Nat.ltb_spec (length buf) start).
  - destruct (start <=? length buf + slack)%nat; [|discriminate]. intros H0. inversion H0; subst. cbn. lia.
  - intros H0. apply bind_ok_inv in H0. destruct H0 as [e' [He H0]].
    apply bind_ok_inv in H0. destruct H0 as [s' [Hs H0]]. inversion H0; subst.
    apply scan_field_value_loop_bounds in He; [|lia]. apply slice_length in Hs. lia.
Qed.
