(* C12/ParseCrash.v — ParsePointsWithPrecision never crashes: for every byte string, every
   default time, precision, float oracle and uint flag, the model's result is not Crash. *)
From Verif Require Import C12.Base C12.Escape C12.Scan C12.Point C12.ScanFacts C12.KeyFacts C12.KeyCrash.
From VerifGen Require Import Consts.
From Coq Require Import ZifyBool ZifyNat ZifyN.
Open Scope N_scope.

Ltac ifG := match goal with |- nc (if ?b then _ else _) => destruct b end.
Ltac ifH H := match type of H with (if ?b then _ else _) = _ => destruct b end.

(* ---- scanLine ---- *)
Lemma scan_line_loop_nc buf : forall fuel i q fl eq cm, nc (scan_line_loop fuel buf (length buf) i q fl eq cm).
Proof.
  intros fuel. induction fuel as [|f IH]; intros i q fl eq cm; cbn [scan_line_loop]; [apply nc_err|].
  destruct (get buf i) eqn:G; [|apply nc_ok].
  destruct ((n =? c_bs) && (i + 2 <? length buf)%nat) eqn:Eb.
  - apply andb_true_iff in Eb. destruct Eb as [_ Eb]. apply Nat.ltb_lt in Eb.
    destruct (rd_lt buf (i + 1) ltac:(lia)) as [d [Hd _]]. rewrite Hd. cbn [bind].
    destruct (q || negb (d =? c_nl)).
    + destruct (negb q && (d =? c_bs)); cbn [bind]; apply IH.
    + cbn [bind]. repeat (match goal with |- nc (if ?b then _ else _) => destruct b end); try apply IH; apply nc_ok.
  - cbn [bind]. repeat (match goal with |- nc (if ?b then _ else _) => destruct b end); try apply IH; apply nc_ok.
Qed.

Lemma scan_line_loop_bounds buf : forall fuel i q fl eq cm e,
  scan_line_loop fuel buf (length buf) i q fl eq cm = Ok e -> (i <= length buf)%nat -> (i <= e <= length buf)%nat.
Proof.
  intros fuel. induction fuel as [|f IH]; intros i q fl eq cm e H Hi; cbn [scan_line_loop] in H; [discriminate|].
  destruct (get buf i) eqn:G.
  2:{ inversion H; subst; lia. }
  pose proof (get_some_lt _ _ _ G) as Hlt.
  destruct ((n =? c_bs) && (i + 2 <? length buf)%nat) eqn:Eb.
  - apply andb_true_iff in Eb. destruct Eb as [_ Eb]. apply Nat.ltb_lt in Eb.
    destruct (rd buf (i + 1)); cbn [bind] in H; try discriminate.
    destruct (q || negb (a =? c_nl)).
    + destruct (negb q && (a =? c_bs)); cbn [bind] in H; apply IH in H; lia.
    + cbn [bind] in H.
      repeat (match type of H with (if ?b then _ else _) = _ => destruct b end);
        try (apply IH in H; lia); inversion H; subst; lia.
  - cbn [bind] in H.
    repeat (match type of H with (if ?b then _ else _) = _ => destruct b end);
      try (apply IH in H; lia); inversion H; subst; lia.
Qed.

Lemma scan_line_nc buf i : (i <= length buf)%nat -> nc (scan_line buf i).
Proof.
  intros Hi. unfold scan_line.
  pose proof (skip_whitespace_ge buf i). pose proof (skip_whitespace_le buf i Hi).
  apply nc_bind; [apply scan_line_loop_nc|]. intros e He.
  apply scan_line_loop_bounds in He; [|lia]. rewrite slice_ok by lia. apply nc_ok.
Qed.

Lemma scan_line_bounds buf i e blk :
  scan_line buf i = Ok (e, blk) -> (i <= length buf)%nat -> (i <= e <= length buf)%nat.
Proof.
  unfold scan_line. intros H Hi. apply bind_ok_inv in H. destruct H as [e' [He H]].
  apply bind_ok_inv in H. destruct H as [b [_ H]]. inversion H; subst.
  pose proof (skip_whitespace_ge buf i). pose proof (skip_whitespace_le buf i Hi).
  apply scan_line_loop_bounds in He; lia.
Qed.

Section Oracle.
Variable pf : bytes -> option N.
Variable us : bool.

(* ---- scanNumber ---- *)
Lemma scan_number_loop_nc buf start : forall fuel i a b c d,
  (1 <= start <= i)%nat -> nc (scan_number_loop fuel buf (length buf) start i a b c d).
Proof.
  intros fuel. induction fuel as [|f IH]; intros i a b c d Hi; cbn [scan_number_loop]; [apply nc_err|].
  destruct (get buf i) eqn:G; [|apply nc_ok]. pose proof (get_some_lt _ _ _ G) as Hlt.
  destruct ((n =? c_comma) || (n =? c_space)); [apply nc_ok|].
  destruct ((n =? c_i) && (start <? i)%nat && negb (a || b)); [apply IH; lia|].
  destruct ((n =? c_u) && (start <? i)%nat && negb (a || b)); [apply IH; lia|].
  destruct ((n =? c_dot) && c); [apply nc_err|].
  destruct ((start <? i)%nat && ((n =? c_e) || (n =? c_E))); [apply IH; lia|].
  destruct (rdm_lt buf i 1 ltac:(lia) ltac:(lia)) as [p [Hp _]].
  destruct ((n =? c_plus) || (n =? c_minus)).
  - rewrite Hp. cbn [bind]. destruct ((p =? c_e) || (p =? c_E)); [apply IH; lia|].
    destruct (_ && _); [apply nc_err|]. destruct (negb _); [apply nc_err|apply IH; lia].
  - cbn [bind]. destruct (_ && _); [apply nc_err|]. destruct (negb _); [apply nc_err|apply IH; lia].
Qed.

(* the loop index stays inside the buffer and a suffix letter has been consumed after start *)
Lemma scan_number_loop_inv buf start : forall fuel i a b c d i' a' b' c' d',
  scan_number_loop fuel buf (length buf) start i a b c d = Ok (i', (a', b', c', d')) ->
  (start <= i <= length buf)%nat -> ((a || b) = true -> (start + 2 <= i)%nat) ->
  (i <= i' <= length buf)%nat /\ ((a' || b') = true -> (start + 2 <= i')%nat).
Proof.
  intros fuel. induction fuel as [|f IH]; intros i a b c d i' a' b' c' d' H Hi Hab; cbn [scan_number_loop] in H; [discriminate|].
  destruct (get buf i) eqn:G.
  2:{ inversion H; subst. split; [lia|exact Hab]. }
  pose proof (get_some_lt _ _ _ G) as Hlt.
  destruct ((n =? c_comma) || (n =? c_space)).
  { inversion H; subst. split; [lia|exact Hab]. }
  destruct ((n =? c_i) && (start <? i)%nat && negb (a || b)) eqn:Ei.
  { apply andb_true_iff in Ei. destruct Ei as [Ei _]. apply andb_true_iff in Ei. destruct Ei as [_ Ei].
    apply Nat.ltb_lt in Ei. apply IH in H; [|lia|intros; lia]. destruct H. split; [lia|assumption]. }
  destruct ((n =? c_u) && (start <? i)%nat && negb (a || b)) eqn:Eu.
  { apply andb_true_iff in Eu. destruct Eu as [Eu _]. apply andb_true_iff in Eu. destruct Eu as [_ Eu].
    apply Nat.ltb_lt in Eu. apply IH in H; [|lia|intros; lia]. destruct H. split; [lia|assumption]. }
  destruct ((n =? c_dot) && c); [discriminate|].
  destruct ((start <? i)%nat && ((n =? c_e) || (n =? c_E))).
  { apply IH in H; [|lia|intros Hx; specialize (Hab Hx); lia]. destruct H. split; [lia|assumption]. }
  destruct ((n =? c_plus) || (n =? c_minus)).
  - destruct (rdm buf i 1); cbn [bind] in H; try discriminate.
    destruct ((a0 =? c_e) || (a0 =? c_E)).
    { apply IH in H; [|lia|intros Hx; specialize (Hab Hx); lia]. destruct H. split; [lia|assumption]. }
    ifH H; [discriminate|]. ifH H; [discriminate|].
    apply IH in H; [|lia|intros Hx; specialize (Hab Hx); lia]. destruct H. split; [lia|assumption].
  - cbn [bind] in H. ifH H; [discriminate|]. ifH H; [discriminate|].
    apply IH in H; [|lia|intros Hx; specialize (Hab Hx); lia]. destruct H. split; [lia|assumption].
Qed.

Lemma scan_number_nc buf start : (1 <= start < length buf)%nat -> nc (scan_number pf us buf start).
Proof.
  intros Hs. unfold scan_number.
  destruct (get_lt_some buf start ltac:(lia)) as [c0 G0]. rewrite G0.
  assert (Hi0 : forall i0, (if c0 =? c_minus then if (S start =? length buf)%nat then Err 8 else Ok (S start) else Ok start) = Ok i0 ->
                           (start <= i0 <= length buf)%nat).
  { intros i0. destruct (c0 =? c_minus); [destruct (S start =? length buf)%nat; [discriminate|]|];
      intros H; inversion H; subst; lia. }
  apply nc_bind.
  { destruct (c0 =? c_minus); [destruct (S start =? length buf)%nat|]; [apply nc_err|apply nc_ok|apply nc_ok]. }
  intros i0 Hi0'. specialize (Hi0 i0 Hi0').
  apply nc_bind; [apply scan_number_loop_nc; lia|].
  intros [i [[[a b] c] d]] Hl.
  apply scan_number_loop_inv in Hl; [|lia|cbn; discriminate]. destruct Hl as [Hb Hab].
  destruct ((a || b) && (c || d)); [apply nc_err|].
  rewrite (rd_get _ _ _ G0). cbn [bind].
  destruct (_ =? 0)%Z; [apply nc_err|].
  destruct a.
  - specialize (Hab eq_refl).
    destruct (rdm_lt buf i 1 ltac:(lia) ltac:(lia)) as [l [Hl _]]. rewrite Hl. cbn [bind].
    destruct (negb (l =? c_i)); [apply nc_err|].
    destruct i as [|i1]; [lia|]. cbn [slice_m1]. rewrite slice_ok by lia. cbn [bind].
    destruct (_ || _)%nat; [destruct (parse_int64 _); [apply nc_ok|apply nc_err]|apply nc_ok].
  - destruct b.
    + specialize (Hab eq_refl). destruct (negb us); [apply nc_err|].
      destruct (rdm_lt buf i 1 ltac:(lia) ltac:(lia)) as [l [Hl _]]. rewrite Hl. cbn [bind].
      destruct (negb (l =? c_u)); [apply nc_err|]. destruct (c0 =? c_minus); [apply nc_err|].
      destruct i as [|i1]; [lia|]. cbn [slice_m1]. rewrite slice_ok by lia. cbn [bind].
      destruct (_ <=? _)%nat; [destruct (parse_uint64 _); [apply nc_ok|apply nc_err]|apply nc_ok].
    + rewrite slice_ok by lia. cbn [bind].
      destruct (_ || _ || _); [destruct (pf _); [apply nc_ok|apply nc_err]|apply nc_ok].
Qed.

Lemma scan_number_bounds buf start i :
  scan_number pf us buf start = Ok i -> (start < length buf)%nat -> (start <= i <= length buf)%nat.
Proof.
  unfold scan_number. intros H Hs.
  apply bind_ok_inv in H. destruct H as [i0 [Hi0 H]].
  assert (B0 : (start <= i0 <= length buf)%nat).
  { destruct (get buf start); [|inversion Hi0; subst; lia].
    destruct (n =? c_minus); [destruct (S start =? length buf)%nat; [discriminate|]|]; inversion Hi0; subst; lia. }
  apply bind_ok_inv in H. destruct H as [[i' [[[a b] c] d]] [Hl H]].
  apply scan_number_loop_inv in Hl; [|lia|cbn; discriminate]. destruct Hl as [Hb _].
  assert (Hres : forall r : res nat, r = Ok i -> (r = Ok i' \/ exists e, r = Err e) -> i = i').
  { intros r Hr [Hx|[e Hx]]; congruence. }
  destruct ((a || b) && (c || d)); [discriminate|].
  apply bind_ok_inv in H. destruct H as [c0 [_ H]].
  destruct (_ =? 0)%Z; [discriminate|].
  assert (i = i').
  { destruct a.
    - apply bind_ok_inv in H. destruct H as [l [_ H]]. destruct (negb _); [discriminate|].
      apply bind_ok_inv in H. destruct H as [txt [_ H]].
      destruct (_ || _)%nat; [destruct (parse_int64 _); [|discriminate]|]; inversion H; reflexivity.
    - destruct b.
      + destruct (negb us); [discriminate|]. apply bind_ok_inv in H. destruct H as [l [_ H]].
        destruct (negb _); [discriminate|]. destruct (c0 =? c_minus); [discriminate|].
        apply bind_ok_inv in H. destruct H as [txt [_ H]].
        destruct (_ <=? _)%nat; [destruct (parse_uint64 _); [|discriminate]|]; inversion H; reflexivity.
      + apply bind_ok_inv in H. destruct H as [txt [_ H]].
        destruct (_ || _ || _); [destruct (pf _); [|discriminate]|]; inversion H; reflexivity. }
  subst. lia.
Qed.

(* ---- scanBoolean ---- *)
Lemma scan_bool_loop_bounds buf : forall fuel i, (i <= length buf)%nat ->
  (i <= scan_bool_loop fuel buf i <= length buf)%nat.
Proof.
  intros fuel. induction fuel as [|f IH]; intros i Hi; cbn [scan_bool_loop]; [lia|].
  destruct (get buf i) eqn:G; [|lia]. apply get_some_lt in G.
  destruct (_ || _); [lia|]. specialize (IH (S i) ltac:(lia)). lia.
Qed.

Lemma scan_boolean_nc buf start : (start < length buf)%nat -> nc (scan_boolean buf start).
Proof.
  intros Hs. unfold scan_boolean.
  destruct (get_lt_some buf start Hs) as [c0 G0]. rewrite G0.
  destruct (negb _); [apply nc_err|].
  pose proof (scan_bool_loop_bounds buf (S (length buf)) (S start) ltac:(lia)) as Hb.
  set (i := scan_bool_loop (S (length buf)) buf (S start)) in *.
  destruct (i - start =? 1)%nat; [apply nc_ok|].
  rewrite (rd_get _ _ _ G0). cbn [bind].
  destruct (_ && _); [apply nc_err|]. destruct (_ && _); [apply nc_err|].
  rewrite slice_ok by lia. cbn [bind]. destruct (if c0 =? c_t then _ else _); [apply nc_ok|apply nc_err].
Qed.

Lemma scan_boolean_bounds buf start i :
  scan_boolean buf start = Ok i -> (start < length buf)%nat -> (start < i <= length buf)%nat.
Proof.
  unfold scan_boolean. intros H Hs.
  pose proof (scan_bool_loop_bounds buf (S (length buf)) (S start) ltac:(lia)) as Hb.
  set (j := scan_bool_loop (S (length buf)) buf (S start)) in *.
  destruct (match get buf start with Some c => _ | None => false end); [discriminate|].
  destruct (j - start =? 1)%nat; [inversion H; subst; lia|].
  apply bind_ok_inv in H. destruct H as [c0 [_ H]].
  destruct (_ && _); [discriminate|]. destruct (_ && _); [discriminate|].
  apply bind_ok_inv in H. destruct H as [txt [_ H]].
  destruct (if c0 =? c_t then _ else _); [inversion H; subst; lia|discriminate].
Qed.

(* ---- scanFields ---- *)
Lemma scan_fields_loop_nc buf start : forall fuel i q eq cm,
  (1 <= start <= i)%nat -> nc (scan_fields_loop pf us fuel buf (length buf) start i q eq cm).
Proof.
  intros fuel. induction fuel as [|f IH]; intros i q eq cm Hi; cbn [scan_fields_loop]; [apply nc_err|].
  destruct (get buf i) eqn:G; [|apply nc_ok]. pose proof (get_some_lt _ _ _ G) as Hlt.
  destruct ((n =? c_bs) && (i + 1 <? length buf)%nat) eqn:Eb.
  { apply andb_true_iff in Eb. destruct Eb as [_ Eb]. apply Nat.ltb_lt in Eb.
    destruct (rd_lt buf (i + 1) Eb) as [d [Hd _]]. rewrite Hd. cbn [bind].
    destruct (negb q && (d =? c_bs)); apply IH; lia. }
  destruct ((n =? c_quote) && (cm <? eq)%nat).
  { destruct (match get buf (S i) with Some d => _ | None => false end); [apply nc_err|apply IH; lia]. }
  apply nc_bind.
  - destruct ((n =? c_eq) && negb q); [|apply nc_ok].
    destruct (Nat.eqb_spec i start) as [->|Hne]; cbn [bind]; [apply nc_err|].
    assert (Hi2 : (2 <= i)%nat) by lia.
    destruct (rdm_lt buf i 1 ltac:(lia) ltac:(lia)) as [p1 [Hp1 _]].
    destruct (rdm_lt buf i 2 ltac:(lia) ltac:(lia)) as [p2 [Hp2 _]].
    rewrite Hp1. cbn [bind].
    apply nc_bind.
    { destruct (p1 =? c_space); [rewrite Hp2; apply nc_ok|apply nc_ok]. }
    intros nokey1 _. destruct nokey1; [apply nc_err|].
    apply nc_bind.
    { destruct (p1 =? c_comma); [rewrite Hp2; apply nc_ok|apply nc_ok]. }
    intros nokey2 _. destruct nokey2; [apply nc_err|].
    destruct (Nat.leb_spec (length buf) (i + 1)); [apply nc_err|].
    destruct (rd_lt buf (i + 1) ltac:(lia)) as [nx [Hnx _]]. rewrite Hnx. cbn [bind].
    destruct (_ || _); [apply nc_err|].
    destruct (_ || _ || _ || _).
    + apply nc_bind; [apply scan_number_nc; lia|]. intros; apply nc_ok.
    + destruct (negb _); [|apply nc_ok].
      apply nc_bind; [apply scan_boolean_nc; lia|]. intros; apply nc_ok.
  - intros [[j|] eq1] Hae.
    + (* continue after a number / boolean: the index has moved forward *)
      assert (Hj : (i < j)%nat \/ (i + 1 <= j)%nat).
      { destruct ((n =? c_eq) && negb q); [|inversion Hae].
        destruct (i =? start)%nat; cbn [bind] in Hae; [discriminate|].
        repeat (apply bind_ok_inv in Hae; destruct Hae as [? [_ Hae]];
                try match type of Hae with (if ?b then _ else _) = _ => destruct b; try discriminate end).
        destruct (length buf <=? i + 1)%nat eqn:El; [discriminate|]. apply Nat.leb_gt in El.
        apply bind_ok_inv in Hae. destruct Hae as [nx [_ Hae]].
        destruct (_ || _); [discriminate|].
        destruct (_ || _ || _ || _).
        - apply bind_ok_inv in Hae. destruct Hae as [j' [Hn Hae]]. inversion Hae; subst.
          apply scan_number_bounds in Hn; lia.
        - destruct (negb _); [|inversion Hae].
          apply bind_ok_inv in Hae. destruct Hae as [j' [Hn Hae]]. inversion Hae; subst.
          apply scan_boolean_bounds in Hn; lia. }
      apply IH. lia.
    + ifG; [apply nc_err|]. ifG; [apply nc_ok|apply IH; lia].
Qed.

Lemma scan_fields_loop_bounds buf start : forall fuel i q eq cm i' st,
  scan_fields_loop pf us fuel buf (length buf) start i q eq cm = Ok (i', st) ->
  (start <= i <= length buf)%nat -> (i <= i' <= length buf)%nat.
Proof.
  intros fuel. induction fuel as [|f IH]; intros i q eq cm i' st H Hi; cbn [scan_fields_loop] in H; [discriminate|].
  destruct (get buf i) eqn:G.
  2:{ inversion H; subst; lia. }
  pose proof (get_some_lt _ _ _ G) as Hlt.
  destruct ((n =? c_bs) && (i + 1 <? length buf)%nat) eqn:Eb.
  { apply andb_true_iff in Eb. destruct Eb as [_ Eb]. apply Nat.ltb_lt in Eb.
    apply bind_ok_inv in H. destruct H as [d [_ H]].
    destruct (negb q && (d =? c_bs)); apply IH in H; lia. }
  destruct ((n =? c_quote) && (cm <? eq)%nat).
  { destruct (match get buf (S i) with Some d => _ | None => false end); [discriminate|apply IH in H; lia]. }
  apply bind_ok_inv in H. destruct H as [[[j|] eq1] [Hae H]].
  - assert (Hj : (i < j <= length buf)%nat).
    { destruct ((n =? c_eq) && negb q); [|inversion Hae].
      destruct (i =? start)%nat; cbn [bind] in Hae; [discriminate|].
      repeat (apply bind_ok_inv in Hae; destruct Hae as [? [_ Hae]];
              try match type of Hae with (if ?b then _ else _) = _ => destruct b; try discriminate end).
      destruct (length buf <=? i + 1)%nat eqn:El; [discriminate|]. apply Nat.leb_gt in El.
      apply bind_ok_inv in Hae. destruct Hae as [nx [_ Hae]].
      destruct (_ || _); [discriminate|].
      destruct (_ || _ || _ || _).
      - apply bind_ok_inv in Hae. destruct Hae as [j' [Hn Hae]]. inversion Hae; subst.
        apply scan_number_bounds in Hn; lia.
      - destruct (negb _); [|inversion Hae].
        apply bind_ok_inv in Hae. destruct Hae as [j' [Hn Hae]]. inversion Hae; subst.
        apply scan_boolean_bounds in Hn; lia. }
    apply IH in H; lia.
  - ifH H; [discriminate|].
    ifH H; [inversion H; subst; lia|apply IH in H; lia].
Qed.

Lemma scan_fields_nc buf i0 : (1 <= i0)%nat -> nc (scan_fields pf us buf i0).
Proof.
  intros Hi. unfold scan_fields. pose proof (skip_whitespace_ge buf i0) as Hge.
  set (start := skip_whitespace buf i0) in *.
  apply nc_bind; [apply scan_fields_loop_nc; lia|].
  intros [i [[q eq] cm]] Hl.
  destruct (Nat.le_gt_cases start (length buf)) as [Hsl|Hsl].
  - apply scan_fields_loop_bounds in Hl; [|lia].
    destruct q; [apply nc_err|]. destruct (_ || _); [apply nc_err|].
    rewrite slice_ok by lia. apply nc_ok.
  - (* start beyond the buffer: the loop returns at once with no '=' seen *)
    cbn [scan_fields_loop] in Hl. destruct (get buf start) eqn:G; [apply get_some_lt in G; lia|].
    inversion Hl; subst. cbn [Nat.eqb orb]. apply nc_err.
Qed.

Lemma scan_fields_bounds buf i0 i fields :
  scan_fields pf us buf i0 = Ok (i, fields) -> (i0 <= length buf)%nat -> (i0 <= i <= length buf)%nat.
Proof.
  unfold scan_fields. intros H Hi. pose proof (skip_whitespace_ge buf i0) as Hge.
  pose proof (skip_whitespace_le buf i0 Hi) as Hle.
  set (start := skip_whitespace buf i0) in *.
  apply bind_ok_inv in H. destruct H as [[i' [[q eq] cm]] [Hl H]].
  apply scan_fields_loop_bounds in Hl; [|lia].
  destruct q; [discriminate|]. destruct (_ || _); [discriminate|].
  apply bind_ok_inv in H. destruct H as [s [_ H]]. inversion H; subst. lia.
Qed.

End Oracle.

(* ---- walkFields with the key-size check ---- *)
Lemma walk_fields_keysize_nc keylen : forall fuel buf, nc (walk_fields_keysize fuel keylen buf).
Proof.
  intros fuel. induction fuel as [|f IH]; intros buf; cbn [walk_fields_keysize]; [apply nc_err|].
  destruct buf as [|x r]; [apply nc_ok|]. set (buf := x :: r).
  apply nc_bind; [apply scan_to_nc; lia|]. intros [i key] Hk.
  apply scan_to_inv in Hk; [|lia]. destruct Hk as [Hb _].
  destruct (Nat.ltb_spec (length buf) (i + 2)); [apply nc_err|].
  rewrite slice_ok by lia. cbn [bind].
  set (b1 := firstn (length buf - (i + 1)) (skipn (i + 1) buf)).
  apply nc_bind; [apply scan_field_value_nc; lia|]. intros [e v] Hv.
  apply scan_field_value_inv in Hv. cbn [fst].
  rewrite slice_ok by lia. cbn [bind].
  ifG; [apply nc_err|].
  match goal with |- nc (match ?x with [] => _ | _ :: _ => _ end) => destruct x end; [apply nc_ok|apply IH].
Qed.

(* ---- scanTime ---- *)
Lemma scan_time_loop_nc buf start : forall fuel i, nc (scan_time_loop fuel buf start i).
Proof.
  intros fuel. induction fuel as [|f IH]; intros i; cbn [scan_time_loop]; [apply nc_err|].
  destruct (get buf i); [|apply nc_ok]. destruct (_ || _); [apply nc_ok|].
  destruct (_ && _); [apply IH|]. destruct (_ || _); [apply nc_err|apply IH].
Qed.

Lemma scan_time_loop_bounds buf start : forall fuel i e,
  scan_time_loop fuel buf start i = Ok e -> (i <= length buf)%nat -> (i <= e <= length buf)%nat.
Proof.
  intros fuel. induction fuel as [|f IH]; intros i e H Hi; cbn [scan_time_loop] in H; [discriminate|].
  destruct (get buf i) eqn:G.
  2:{ inversion H; subst; lia. }
  apply get_some_lt in G. destruct (_ || _); [inversion H; subst; lia|].
  destruct (_ && _); [apply IH in H; lia|]. destruct (_ || _); [discriminate|apply IH in H; lia].
Qed.

Lemma scan_time_nc buf i0 : (i0 <= length buf)%nat -> nc (scan_time buf i0).
Proof.
  intros Hi. unfold scan_time. pose proof (skip_whitespace_ge buf i0). pose proof (skip_whitespace_le buf i0 Hi).
  apply nc_bind; [apply scan_time_loop_nc|]. intros e He.
  apply scan_time_loop_bounds in He; [|lia]. rewrite slice_ok by lia. apply nc_ok.
Qed.

Lemma trailing_spaces_nc buf : forall fuel pos, nc (trailing_spaces fuel buf pos).
Proof.
  intros fuel. induction fuel as [|f IH]; intros pos; cbn [trailing_spaces]; [apply nc_err|].
  destruct (get buf pos); [|apply nc_ok]. destruct (_ =? _); [apply IH|apply nc_err].
Qed.

(* ---- parsePoint / ParsePointsWithPrecision ---- *)
Section Oracle2.
Variable pf : bytes -> option N.
Variable us : bool.

Theorem parse_point_nc buf dflt prec : nc (parse_point pf us buf dflt prec).
Proof.
  unfold parse_point. apply nc_bind; [apply scan_key_nc|]. intros [pos key] Hk.
  pose proof (scan_key_end buf 0 pos key Hk) as [Hpos Gs].
  destruct key; [apply nc_err|]. destruct (_ <? _); [apply nc_err|].
  apply nc_bind; [apply scan_fields_nc; exact Hpos|]. intros [pos2 fields] Hf.
  apply get_some_lt in Gs.
  apply scan_fields_bounds in Hf; [|lia].
  destruct fields; [apply nc_err|].
  apply nc_bind; [apply walk_fields_keysize_nc|]. intros _ _.
  apply nc_bind; [apply scan_time_nc; lia|]. intros [pos3 ts] _.
  destruct ts; [apply nc_ok|]. destruct (parse_int64 _); [|apply nc_err].
  apply nc_bind.
  { unfold safe_calc_time. destruct (safe_signed_mult _ _) as [t ok]. destruct ok; [|apply nc_err].
    destruct (_ || _)%Z; [apply nc_err|apply nc_ok]. }
  intros t _. apply nc_bind; [apply trailing_spaces_nc|]. intros; apply nc_ok.
Qed.

Lemma process_block_nc block dflt prec : nc (process_block pf us block dflt prec).
Proof.
  unfold process_block. destruct block as [|x r]; [apply nc_ok|]. set (block := x :: r).
  pose proof (skip_whitespace_ge block 0) as Hge.
  destruct (get block (skip_whitespace block 0)) eqn:G; [|apply nc_ok].
  apply get_some_lt in G. set (start := skip_whitespace block 0) in *.
  destruct (_ =? c_hash); [apply nc_ok|].
  destruct (rdm_lt block (length block) 1) as [lc [Hlc _]]; [unfold block; cbn [length]; lia|lia|].
  rewrite Hlc. cbn [bind].
  apply nc_bind.
  { destruct (lc =? c_nl); [rewrite slice_ok by lia|]; apply nc_ok. }
  intros blk Hblk.
  assert (Hlen : (start <= length blk)%nat).
  { destruct (lc =? c_nl).
    - apply slice_length in Hblk. lia.
    - inversion Hblk; subst. lia. }
  rewrite slice_ok by lia. cbn [bind].
  pose proof (parse_point_nc (firstn (length blk - start) (skipn start blk)) dflt prec) as Hp.
  destruct (parse_point _ _ _ _ _); [apply nc_ok|apply nc_ok|exfalso; apply Hp; reflexivity].
Qed.

Lemma parse_points_loop_nc buf dflt prec : forall fuel pos, nc (parse_points_loop pf us fuel buf pos dflt prec).
Proof.
  intros fuel. induction fuel as [|f IH]; intros pos; cbn [parse_points_loop]; [apply nc_err|].
  destruct (Nat.ltb_spec pos (length buf)); [|apply nc_ok].
  apply nc_bind; [apply scan_line_nc; lia|]. intros [e block] _.
  apply nc_bind; [apply process_block_nc|]. intros r _.
  apply nc_bind; [apply IH|]. intros; apply nc_ok.
Qed.

Theorem parse_points_nc buf dflt prec : nc (parse_points pf us buf dflt prec).
Proof. apply parse_points_loop_nc. Qed.

End Oracle2.
