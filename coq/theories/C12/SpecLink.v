(* C12/SpecLink.v — from abstract points (Spec.v) to the scanner: escaped names are well-formed
   key text; the key scanKey returns for any ordering of the tags is Spec.spec_key. *)
From Verif Require Import C12.Base C12.Escape C12.Scan C12.Spec C12.ScanFacts C12.KeyFacts C12.KeyCrash
     C12.OrderFacts C12.KeyComplete C12.KeySort C12.KeyTheorem C12.EscapeProofs.
From VerifGen Require Import Consts.
From Coq Require Import ZifyBool ZifyNat ZifyN Permutation.
Open Scope N_scope.

(* an (unescaped) name: non-empty, not ending in a backslash *)
Definition name_ok (n : bytes) : bool :=
  match n with [] => false | c :: s => negb (last s c =? c_bs) end.
(* a measurement additionally must not start with the whitespace the scanner skips *)
Definition meas_ok (m : bytes) : bool :=
  name_ok m && match m with c :: _ => negb ((c =? c_tab) || (c =? c_nul)) | [] => false end.

Lemma spec_escape_safe set stops l : forall p,
  (forall x, stops x = true -> mem x set = true) -> stops c_bs = false ->
  safe stops p (spec_escape set l) = true.
Proof.
  intros p Hsub Hbs. revert p. induction l as [|x r IH]; intros p; [reflexivity|].
  rewrite spec_escape_cons. destruct (mem x set) eqn:Ex.
  - cbn [safe]. rewrite Hbs, N.eqb_refl. cbn [negb orb andb]. rewrite orb_true_r. apply IH.
  - cbn [safe]. assert (Hx : stops x = false).
    { destruct (stops x) eqn:E; [|reflexivity]. rewrite (Hsub x E) in Ex. discriminate. }
    rewrite Hx. cbn [negb orb andb]. apply IH.
Qed.

Lemma spec_escape_last set l d : l <> [] -> last (spec_escape set l) d = last l d.
Proof.
  induction l as [|x r IH]; intros Hne; [congruence|].
  destruct r as [|y r'].
  { cbn [spec_escape]. destruct (mem x set); reflexivity. }
  specialize (IH ltac:(discriminate)).
  rewrite spec_escape_cons.
  destruct (spec_escape set (y :: r')) as [|z zs] eqn:Ez.
  { rewrite spec_escape_cons in Ez. destruct (mem y set); discriminate. }
  change (last (x :: y :: r') d) with (last (y :: r') d). rewrite <- IH.
  destruct (mem x set); reflexivity.
Qed.

Lemma name_ok_last c s : name_ok (c :: s) = true -> (last (c :: s) 0 =? c_bs) = false.
Proof. cbn [name_ok]. intros H. apply negb_true_iff in H. rewrite last_cons_cons. exact H. Qed.

(* shape of the escaped text: first byte and the rest *)
Lemma spec_escape_head set c s :
  exists c' s', spec_escape set (c :: s) = c' :: s' /\
                (if mem c set then c' = c_bs else c' = c) /\
                last s' c' = last (c :: s) 0.
Proof.
  pose proof (spec_escape_last set (c :: s) 0 ltac:(discriminate)) as Hl.
  rewrite spec_escape_cons in *. destruct (mem c set).
  - exists c_bs, (c :: spec_escape set s). split; [reflexivity|]. split; [reflexivity|].
    rewrite <- Hl. symmetry. apply last_cons_cons.
  - exists c, (spec_escape set s). split; [reflexivity|]. split; [reflexivity|].
    rewrite <- Hl. symmetry. apply last_cons_cons.
Qed.

Lemma wf_meas_escape m : meas_ok m = true -> wf_meas (spec_escape meas_set m) = true.
Proof.
  unfold meas_ok. intros H. apply andb_true_iff in H. destruct H as [Hn Hf].
  destruct m as [|c s]; [discriminate|].
  destruct (spec_escape_head meas_set c s) as [c' [s' [He [Hc' Hl]]]].
  assert (Hsafe : safe is_term c' s' = true).
  { pose proof (spec_escape_safe meas_set is_term (c :: s) 0) as Hs. rewrite He in Hs. cbn [safe] in Hs.
    apply andb_true_iff in Hs; [apply Hs| |reflexivity].
    intros x Hx. unfold is_term in Hx. unfold meas_set, mem. cbn [existsb].
    destruct (x =? c_comma), (x =? c_space); cbn in *; try reflexivity; discriminate. }
  rewrite He. cbn [wf_meas]. rewrite Hsafe, Hl, (name_ok_last c s Hn). cbn [negb andb]. rewrite !andb_true_r.
  destruct (mem c meas_set) eqn:Em; subst c'; [reflexivity|].
  unfold meas_set, mem in Em. cbn [existsb] in Em. rewrite orb_false_r in Em.
  apply orb_false_iff in Em. destruct Em as [E1 E2].
  apply negb_true_iff in Hf. apply orb_false_iff in Hf. destruct Hf as [F1 F2].
  unfold is_ws. rewrite E2, F1, F2, E1. reflexivity.
Qed.

Lemma tag_set_stop x : is_stop_k x = true -> mem x tag_set = true.
Proof. unfold is_stop_k, tag_set, mem. cbn [existsb]. intros H. rewrite orb_false_r.
  destruct (x =? c_comma), (x =? c_space), (x =? c_eq); cbn in *; try reflexivity; discriminate. Qed.

Lemma mem_tag_set_stop x : mem x tag_set = is_stop_k x.
Proof. unfold is_stop_k, tag_set, mem. cbn [existsb]. rewrite orb_false_r.
  destruct (x =? c_comma), (x =? c_space), (x =? c_eq); reflexivity. Qed.

Lemma wf_tagkey_escape k : name_ok k = true -> wf_tagkey (spec_escape tag_set k) = true.
Proof.
  intros Hn. destruct k as [|c s]; [discriminate|].
  destruct (spec_escape_head tag_set c s) as [c' [s' [He [Hc' Hl]]]].
  assert (Hsafe : safe is_stop_k c' s' = true).
  { pose proof (spec_escape_safe tag_set is_stop_k (c :: s) 0 tag_set_stop eq_refl) as Hs.
    rewrite He in Hs. cbn [safe] in Hs. apply andb_true_iff in Hs. apply Hs. }
  rewrite He. cbn [wf_tagkey]. rewrite Hsafe, Hl, (name_ok_last c s Hn). cbn [negb andb]. rewrite !andb_true_r.
  rewrite mem_tag_set_stop in Hc'. destruct (is_stop_k c) eqn:Es; subst c'; [reflexivity|]. rewrite Es. reflexivity.
Qed.

Lemma wf_tagval_escape v : name_ok v = true -> wf_tagval (spec_escape tag_set v) = true.
Proof.
  intros Hn. destruct v as [|c s]; [discriminate|].
  destruct (spec_escape_head tag_set c s) as [c' [s' [He [Hc' Hl]]]].
  assert (Hsafe : safe is_stop_k c' s' = true).
  { pose proof (spec_escape_safe tag_set is_stop_k (c :: s) 0 tag_set_stop eq_refl) as Hs.
    rewrite He in Hs. cbn [safe] in Hs. apply andb_true_iff in Hs. apply Hs. }
  rewrite He. cbn [wf_tagval]. rewrite Hsafe, Hl, (name_ok_last c s Hn). cbn [negb andb]. rewrite !andb_true_r.
  rewrite mem_tag_set_stop in Hc'. destruct (is_stop_k c) eqn:Es; subst c'; [reflexivity|].
  unfold is_stop_k in Es. unfold is_term. apply orb_false_iff in Es. destruct Es as [Es _].
  rewrite orb_comm. rewrite Es. reflexivity.
Qed.

Lemma spec_escape_tag_inj a b : spec_escape tag_set a = spec_escape tag_set b -> a = b.
Proof.
  intros H. rewrite <- !escape_tag_spec in H.
  rewrite <- (escape_unescape_tag a), <- (escape_unescape_tag b), H. reflexivity.
Qed.

(* ---- Spec.sort_tags is the sort the scanner performs ---- *)
Lemma insert_tag_perm t l : Permutation (t :: l) (insert_tag t l).
Proof.
  induction l as [|u r IH]; cbn [insert_tag]; [apply Permutation_refl|].
  destruct (bytes_cmp (fst t) (fst u)); try apply Permutation_refl;
    (eapply perm_trans; [apply perm_swap|apply perm_skip, IH]).
Qed.

Lemma sort_tags_perm l : Permutation l (sort_tags l).
Proof.
  induction l as [|t r IH]; [constructor|]. unfold sort_tags in *. cbn [fold_right].
  eapply perm_trans; [apply perm_skip, IH|apply insert_tag_perm].
Qed.

Lemma insert_tag_sorted t l : asorted fst l -> asorted fst (insert_tag t l).
Proof.
  induction 1 as [| u | u v r Huv Hr IH]; cbn [insert_tag].
  - constructor.
  - destruct (bytes_cmp (fst t) (fst u)) eqn:E.
    + constructor; [rewrite bytes_cmp_antisym, E; discriminate|constructor].
    + constructor; [rewrite E; discriminate|constructor].
    + constructor; [rewrite bytes_cmp_antisym, E; discriminate|constructor].
  - destruct (bytes_cmp (fst t) (fst u)) eqn:E.
    + cbn [insert_tag] in IH. destruct (bytes_cmp (fst t) (fst v)) eqn:E2.
      * constructor; [exact Huv|exact IH].
      * constructor; [rewrite bytes_cmp_antisym, E; discriminate|exact IH].
      * constructor; [exact Huv|exact IH].
    + constructor; [rewrite E; discriminate|constructor; assumption].
    + cbn [insert_tag] in IH. destruct (bytes_cmp (fst t) (fst v)) eqn:E2.
      * constructor; [exact Huv|exact IH].
      * constructor; [rewrite bytes_cmp_antisym, E; discriminate|exact IH].
      * constructor; [exact Huv|exact IH].
Qed.

Lemma sort_tags_sorted l : asorted fst (sort_tags l).
Proof.
  induction l as [|t r IH]; [constructor|]. unfold sort_tags in *. cbn [fold_right].
  apply insert_tag_sorted. exact IH.
Qed.

Lemma nodup_keys_inj (l : list tag) : NoDup (map fst l) ->
  forall a b, In a l -> In b l -> fst a = fst b -> a = b.
Proof.
  induction l as [|x r IH]; intros Hnd a b Ha Hb Hk; [destruct Ha|].
  cbn [map] in Hnd. inversion Hnd as [|? ? Hn Hnd']; subst.
  destruct Ha as [->|Ha]; destruct Hb as [->|Hb]; auto.
  - exfalso. apply Hn. rewrite Hk. apply in_map. exact Hb.
  - exfalso. apply Hn. rewrite <- Hk. apply in_map. exact Ha.
Qed.

Lemma sort_tags_isort l l' : NoDup (map fst l) -> Permutation l l' -> sort_tags l = isort fst l'.
Proof.
  intros Hnd Hp.
  assert (Hnd' : NoDup (map fst l')) by (eapply nodup_map_perm; eassumption).
  apply (ssorted_perm_eq fst).
  - apply asorted_nodup_ssorted; [apply sort_tags_sorted|]. eapply nodup_map_perm; [apply sort_tags_perm|exact Hnd].
  - apply asorted_nodup_ssorted; [apply isort_sorted|]. eapply nodup_map_perm; [apply isort_perm|exact Hnd'].
  - eapply perm_trans; [apply Permutation_sym, sort_tags_perm|]. eapply perm_trans; [exact Hp|apply isort_perm].
  - intros a b Ha Hb. apply (nodup_keys_inj l Hnd); eapply Permutation_in; try (apply Permutation_sym, sort_tags_perm); assumption.
Qed.

Lemma render_tags_concat l : render_tags l = concat (map tag_bytes l).
Proof.
  induction l as [|t r IH]; [reflexivity|]. cbn [render_tags flat_map map concat]. fold (render_tags r).
  rewrite IH. unfold tag_bytes, tagtxt. lnorm. reflexivity.
Qed.

(* a well-formed abstract key: measurement and tag names usable, tag keys distinct *)
Definition akey_ok (m : bytes) (tags : list (bytes * bytes)) : bool :=
  meas_ok m && forallb (fun kv => name_ok (fst kv) && name_ok (snd kv)) tags.

(* text of the key as a client writes it, with the tags in the order [tags'] *)
Definition key_text (m : bytes) (tags' : list (bytes * bytes)) : bytes :=
  spec_escape meas_set m ++ render_tags (map esc_tag tags').

Theorem key_meaning p tags' post :
  akey_ok (a_meas p) (a_tags p) = true -> NoDup (map fst (a_tags p)) -> Permutation (a_tags p) tags' ->
  scan_key (key_text (a_meas p) tags' ++ c_space :: post) 0 =
  Ok (length (key_text (a_meas p) tags'), spec_key p).
Proof.
  unfold akey_ok. intros Hok Hnd Hp. apply andb_true_iff in Hok. destruct Hok as [Hm Ht].
  assert (Hwf : forallb wf_tag (map esc_tag tags') = true).
  { rewrite forallb_forall. intros t Hin. apply in_map_iff in Hin. destruct Hin as [kv [<- Hin]].
    rewrite forallb_forall in Ht. specialize (Ht kv ltac:(eapply Permutation_in; [apply Permutation_sym; exact Hp|exact Hin])).
    apply andb_true_iff in Ht. destruct Ht as [Hk Hv]. unfold wf_tag, esc_tag. cbn [fst snd].
    rewrite (wf_tagkey_escape _ Hk), (wf_tagval_escape _ Hv). reflexivity. }
  assert (Hnde : NoDup (map fst (map esc_tag (a_tags p)))).
  { rewrite map_map. cbn [esc_tag fst]. rewrite <- (map_map fst (spec_escape tag_set)).
    apply FinFun.Injective_map_NoDup; [|exact Hnd]. intros a b. apply spec_escape_tag_inj. }
  assert (Hpe : Permutation (map esc_tag (a_tags p)) (map esc_tag tags')) by (apply Permutation_map; exact Hp).
  unfold key_text. rewrite <- app_assoc.
  rewrite (scan_key_complete _ (map esc_tag tags') post (wf_meas_escape _ Hm) Hwf).
  2:{ eapply nodup_map_perm; eassumption. }
  f_equal. f_equal. unfold spec_key. f_equal.
  rewrite <- render_tags_concat. f_equal. symmetry. apply sort_tags_isort; assumption.
Qed.

(* the series key, hence its hash, does not depend on the order the tags were written in *)
Corollary key_text_order_irrelevant p t1 t2 post1 post2 :
  akey_ok (a_meas p) (a_tags p) = true -> NoDup (map fst (a_tags p)) ->
  Permutation (a_tags p) t1 -> Permutation (a_tags p) t2 ->
  exists i1 i2 key,
    scan_key (key_text (a_meas p) t1 ++ c_space :: post1) 0 = Ok (i1, key) /\
    scan_key (key_text (a_meas p) t2 ++ c_space :: post2) 0 = Ok (i2, key).
Proof.
  intros Hok Hnd H1 H2. eexists _, _, (spec_key p).
  split; apply key_meaning; assumption.
Qed.
