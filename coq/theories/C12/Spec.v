(* C12/Spec.v — what a line of line protocol means, independent of the scanner model:
   abstract points, their canonical key, the published FNV-64a, the precision table of the
   line-protocol documentation, and the executable checks applied to what the
   implementation was observed to do.  Small enough to read in minutes. *)
From Verif Require Export C12.Base.
Open Scope N_scope.

(* escaping = a backslash in front of every byte of [set] *)
Fixpoint spec_escape (set : list N) (l : bytes) : bytes :=
  match l with
  | [] => []
  | c :: r => if mem c set then c_bs :: c :: spec_escape set r else c :: spec_escape set r
  end.
Definition meas_set : list N := [c_comma; c_space].
Definition tag_set : list N := [c_comma; c_space; c_eq].

(* an abstract point: what the client wants to say *)
Record apoint := mk_apoint {
  a_meas : bytes;
  a_tags : list (bytes * bytes);
  a_fields : list (bytes * fvalue);       (* FFloat carries the float64 bits of the value *)
  a_time : option Z                        (* timestamp in units of the precision *)
}.

Definition esc_tag (kv : bytes * bytes) : bytes * bytes :=
  (spec_escape tag_set (fst kv), spec_escape tag_set (snd kv)).

(* tags ordered by their escaped key (insertion into a sorted list) *)
Fixpoint insert_tag (t : bytes * bytes) (l : list (bytes * bytes)) : list (bytes * bytes) :=
  match l with
  | [] => [t]
  | u :: r => match bytes_cmp (fst t) (fst u) with
              | Lt => t :: l
              | _ => u :: insert_tag t r
              end
  end.
Definition sort_tags (l : list (bytes * bytes)) : list (bytes * bytes) :=
  fold_right insert_tag [] l.

Definition tag_bytes (kv : bytes * bytes) : bytes := [c_comma] ++ fst kv ++ [c_eq] ++ snd kv.

(* the canonical series key *)
Definition spec_key (p : apoint) : bytes :=
  spec_escape meas_set (a_meas p) ++ concat (map tag_bytes (sort_tags (map esc_tag (a_tags p)))).

(* precision units, in nanoseconds (line protocol documentation) *)
Definition spec_mult (prec : bytes) : Z :=
  if bytes_eqb prec [117] then 1000%Z                       (* u  *)
  else if bytes_eqb prec [109; 115] then 1000000%Z          (* ms *)
  else if bytes_eqb prec [115] then 1000000000%Z            (* s  *)
  else if bytes_eqb prec [109] then 60000000000%Z           (* m  *)
  else if bytes_eqb prec [104] then 3600000000000%Z         (* h  *)
  else 1%Z.                                                 (* n and anything else *)

Definition spec_time (p : apoint) (prec : bytes) (default_ns : Z) : Z :=
  match a_time p with
  | Some t => (t * spec_mult prec)%Z
  | None => (default_ns - default_ns mod spec_mult prec)%Z
  end.

(* ---- timestamps at the requested precision ----
   The timestamp of a line is decimal text: an optional '-' and one or more digits.  Its value
   is that integer (any size, computed in Z: nothing wraps here); the instant it denotes is the
   value times the unit of the precision.  The server stores instants from MinNanoTime to
   MaxNanoTime (int64 nanoseconds, less the two lowest and the highest value, models/time.go);
   a line whose instant lies outside must be rejected, never stored as another instant. *)
Definition spec_min_nano_time : Z := (-9223372036854775806)%Z.
Definition spec_max_nano_time : Z := 9223372036854775806%Z.

Fixpoint spec_dec (acc : Z) (l : bytes) : option Z :=
  match l with
  | [] => Some acc
  | c :: r => if is_digit c then spec_dec (acc * 10 + Z.of_N (c - c_0))%Z r else None
  end.

Definition spec_ts_value (s : bytes) : option Z :=
  match s with
  | [] => None
  | c :: r =>
      if c =? c_minus
      then match r with [] => None | _ => option_map Z.opp (spec_dec 0 r) end
      else spec_dec 0 s
  end.

Definition spec_in_time_range (ns : Z) : bool :=
  ((spec_min_nano_time <=? ns) && (ns <=? spec_max_nano_time))%Z.

(* what must happen to timestamp text [s] at precision [prec]: [Some ns] = accepted and stored
   as exactly [ns] nanoseconds; [None] = rejected (not a decimal integer, or out of range) *)
Definition spec_ts_verdict (s prec : bytes) : option Z :=
  match spec_ts_value s with
  | Some t => let ns := (t * spec_mult prec)%Z in if spec_in_time_range ns then Some ns else None
  | None => None
  end.

(* the same for an abstract point: None = the line must be rejected *)
Definition spec_time_verdict (p : apoint) (prec : bytes) (default_ns : Z) : option Z :=
  match a_time p with
  | Some t => let ns := (t * spec_mult prec)%Z in if spec_in_time_range ns then Some ns else None
  | None => Some (spec_time p prec default_ns)
  end.

(* timestamp text that is one token for the line splitter and the scanner: non-empty, no
   whitespace the scanner skips (space, tab, NUL), no line break, no quote, no backslash *)
Definition ts_token (s : bytes) : bool :=
  match s with
  | [] => false
  | _ => forallb (fun c => negb (mem c [c_nul; c_tab; c_nl; 13; c_space; c_quote; c_bs])) s
  end.

(* the line used to observe one timestamp text: "m v=1 " followed by the text *)
Definition ts_line (s : bytes) : bytes := [109; c_space; 118; c_eq; 49; c_space] ++ s.

(* FNV-64a as published: offset basis 0xcbf29ce484222325, prime 0x100000001b3 *)
Definition spec_fnv64a (l : bytes) : N :=
  fold_left (fun h c => (N.lxor h c * 1099511628211) mod 18446744073709551616) l 14695981039346656037.

Fixpoint is_prefix_of (a b : bytes) : bool :=
  match a, b with
  | [], _ => true
  | x :: a', y :: b' => (x =? y) && is_prefix_of a' b'
  | _ :: _, [] => false
  end.
Definition is_suffix_of (a b : bytes) : bool := is_prefix_of (rev a) (rev b).

(* text form: key, space, fields, space, decimal nanoseconds *)
Definition spec_string_shape (key s : bytes) (nano : Z) : bool :=
  is_prefix_of (key ++ [c_space]) s && is_suffix_of ([c_space] ++ fmt_z nano) s.

(* a line that certainly is one record for the splitter: no newline and no double quote *)
Definition plain_line (l : bytes) : bool := negb (mem c_nl l) && negb (mem c_quote l).
