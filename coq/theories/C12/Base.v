(* C12/Base.v — Go-semantics primitives for the line-protocol model: outcome type with a
   distinguished [Crash] (Go panic), checked reads and slices, byte constants, byte-string
   comparison, exact decimal integer parsing/printing (strconv.ParseInt/ParseUint/FormatInt),
   64-bit wrap.  Definitions only. *)
From Coq Require Export List NArith ZArith Lia Bool.
From Verif Require Export Lib.Bytes.
Export ListNotations.
Open Scope N_scope.

Inductive res (A : Type) : Type :=
| Ok (a : A)
| Err (e : N)      (* an error value is returned (code only for debugging; never compared) *)
| Crash.           (* Go would panic here *)
Arguments Ok {A} a.
Arguments Err {A} e.
Arguments Crash {A}.

Definition bind {A B} (r : res A) (f : A -> res B) : res B :=
  match r with Ok a => f a | Err e => Err e | Crash => Crash end.
Notation "'let*' x ':=' r 'in' k" := (bind r (fun x => k))
  (at level 200, x pattern, r at level 100, k at level 200, right associativity).

Definition is_ok {A} (r : res A) : bool := match r with Ok _ => true | _ => false end.
Definition is_crash {A} (r : res A) : bool := match r with Crash => true | _ => false end.

(* out-of-fuel marker: every loop below is given fuel that provably suffices *)
Definition fuel_err : N := 99.

(* ---- byte constants ---- *)
Definition c_nul : N := 0.    Definition c_tab : N := 9.    Definition c_nl : N := 10.
Definition c_space : N := 32. Definition c_quote : N := 34. Definition c_hash : N := 35.
Definition c_plus : N := 43.  Definition c_comma : N := 44. Definition c_minus : N := 45.
Definition c_dot : N := 46.   Definition c_0 : N := 48.     Definition c_9 : N := 57.
Definition c_eq : N := 61.    Definition c_bs : N := 92.
Definition c_E : N := 69.     Definition c_F : N := 70.     Definition c_N : N := 78.
Definition c_T : N := 84.     Definition c_e : N := 101.    Definition c_f : N := 102.
Definition c_i : N := 105.    Definition c_n : N := 110.    Definition c_t : N := 116.
Definition c_u : N := 117.    Definition c_I : N := 73.

(* ---- checked reads (buf[i], buf[i-k], buf[a:b]) ---- *)
Definition get (buf : bytes) (i : nat) : option N := nth_error buf i.

Definition rd (buf : bytes) (i : nat) : res N :=
  match nth_error buf i with Some c => Ok c | None => Crash end.

(* buf[i-k] : a negative index panics *)
Definition rdm (buf : bytes) (i k : nat) : res N :=
  if (i <? k)%nat then Crash else rd buf (i - k).

(* buf[a:b] on a slice whose capacity equals its length *)
Definition slice (buf : bytes) (a b : nat) : res bytes :=
  if ((a <=? b) && (b <=? length buf))%nat then Ok (firstn (b - a) (skipn a buf)) else Crash.

(* buf[a:b-1] where b-1 is computed on Go ints *)
Definition slice_m1 (buf : bytes) (a b : nat) : res bytes :=
  match b with O => Crash | S b' => slice buf a b' end.

Definition rdi (idx : list nat) (j : nat) : res nat :=
  match nth_error idx j with Some v => Ok v | None => Crash end.

(* ---- bytes.Compare / bytes.Equal ---- *)
Fixpoint bytes_cmp (a b : bytes) : comparison :=
  match a, b with
  | [], [] => Eq
  | [], _ :: _ => Lt
  | _ :: _, [] => Gt
  | x :: a', y :: b' => match N.compare x y with Eq => bytes_cmp a' b' | c => c end
  end.

Fixpoint bytes_eqb (a b : bytes) : bool :=
  match a, b with
  | [], [] => true
  | x :: a', y :: b' => (x =? y) && bytes_eqb a' b'
  | _, _ => false
  end.

Definition mem (c : N) (l : list N) : bool := existsb (N.eqb c) l.

(* ---- int64 / uint64 ---- *)
Definition zwrap64 (z : Z) : Z := to_int64 (of_int64 z).
Definition min_int64 : Z := (-9223372036854775808)%Z.
Definition max_int64 : Z := 9223372036854775807%Z.
Definition max_uint64 : N := 18446744073709551615.

Definition is_digit (c : N) : bool := (c_0 <=? c) && (c <=? c_9).

(* strconv.ParseUint(s, 10, 64): digits only, in range *)
Fixpoint parse_digits (acc : N) (l : bytes) : option N :=
  match l with
  | [] => Some acc
  | c :: r => if is_digit c then parse_digits (acc * 10 + (c - c_0)) r else None
  end.

Definition parse_uint64 (s : bytes) : option N :=
  match s with
  | [] => None
  | _ => match parse_digits 0 s with
         | Some v => if v <=? max_uint64 then Some v else None
         | None => None
         end
  end.

(* strconv.ParseInt(s, 10, 64): optional sign, digits, in range *)
Definition parse_int64 (s : bytes) : option Z :=
  match s with
  | [] => None
  | c :: r =>
      let '(neg, ds) := if c =? c_minus then (true, r) else if c =? c_plus then (false, r) else (false, s) in
      match ds with
      | [] => None
      | _ => match parse_digits 0 ds with
             | Some v =>
                 if neg then (if v <=? 9223372036854775808 then Some (- Z.of_N v)%Z else None)
                 else (if v <=? 9223372036854775807 then Some (Z.of_N v) else None)
             | None => None
             end
      end
  end.

(* strconv.FormatInt(v, 10) / FormatUint *)
Fixpoint fmt_digits (fuel : nat) (v : N) (acc : bytes) : bytes :=
  match fuel with
  | O => acc
  | S f => let acc' := (c_0 + v mod 10) :: acc in
           if v <? 10 then acc' else fmt_digits f (v / 10) acc'
  end.
Definition fmt_n (v : N) : bytes := fmt_digits 25 v [].
Definition fmt_z (z : Z) : bytes :=
  if (z <? 0)%Z then c_minus :: fmt_n (Z.to_N (- z)) else fmt_n (Z.to_N z).

(* strconv.ParseBool *)
Definition parse_bool (s : bytes) : option bool :=
  if bytes_eqb s [49] || bytes_eqb s [c_t] || bytes_eqb s [c_T]
     || bytes_eqb s [84;82;85;69] || bytes_eqb s [116;114;117;101] || bytes_eqb s [84;114;117;101]
  then Some true
  else if bytes_eqb s [48] || bytes_eqb s [c_f] || bytes_eqb s [c_F]
     || bytes_eqb s [70;65;76;83;69] || bytes_eqb s [102;97;108;115;101] || bytes_eqb s [70;97;108;115;101]
  then Some false
  else None.

(* typed field value: int64, uint64, float64 (IEEE bits), bool, string; FEmpty = the
   iterator's "Empty" type (no value text) *)
Inductive fvalue :=
| FInt (z : Z) | FUint (n : N) | FFloat (bits : N) | FBool (b : bool) | FString (s : bytes)
| FEmpty.
