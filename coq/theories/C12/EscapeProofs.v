(* C12/EscapeProofs.v — every escape function is undone by its unescape function, for all byte
   strings; the sequential bytes.Replace form equals the one-pass specification. *)
From Verif Require Import C12.Base C12.Escape C12.Spec.
From VerifGen Require Import Consts.
From Coq Require Import ZifyBool ZifyNat ZifyN.
Open Scope N_scope.

Definition E (k : N) := replace1 k c_bs k.     (* insert a backslash before every k *)
Definition U (k : N) := replace2 c_bs k k.     (* drop a backslash that stands before k *)

Lemma mem_cons c x l : mem c (x :: l) = (c =? x) || mem c l.
Proof. reflexivity. Qed.

Lemma mem_app c a b : mem c (a ++ b) = mem c a || mem c b.
Proof. unfold mem. apply existsb_app. Qed.
Lemma mem_rev c l : mem c (rev l) = mem c l.
Proof.
  induction l as [|x r IH]; [reflexivity|].
  cbn [rev]. rewrite mem_app, IH, !mem_cons. cbn [mem existsb]. rewrite orb_false_r. apply orb_comm.
Qed.

Lemma replace1_notin k e0 e1 l : mem k l = false -> replace1 k e0 e1 l = l.
Proof.
  induction l as [|c r IH]; intros H; [reflexivity|].
  rewrite mem_cons in H. apply orb_false_iff in H. destruct H as [H1 H2].
  cbn [replace1]. rewrite N.eqb_sym, H1. f_equal. auto.
Qed.

(* induction two elements at a time *)
Lemma list_ind2 {A} (P : list A -> Prop) :
  P [] -> (forall a, P [a]) -> (forall a b r, P (b :: r) -> P r -> P (a :: b :: r)) ->
  forall l, P l.
Proof.
  intros H0 H1 H2 l.
  assert (H : P l /\ forall a, P (a :: l)).
  { induction l as [|b r [IH1 IH2]]; split; auto. }
  apply H.
Qed.

Lemma replace2_notin_k e0 k l : mem k l = false -> replace2 e0 k k l = l.
Proof.
  induction l as [| a | a b r IH1 IH2] using list_ind2; intros H; try reflexivity.
  cbn [replace2]. rewrite !mem_cons in H.
  destruct (k =? a) eqn:Ea; [discriminate|]. destruct (k =? b) eqn:Eb; [discriminate|].
  cbn [orb] in H. rewrite (N.eqb_sym b k), Eb, andb_false_r.
  f_equal. apply IH1. rewrite mem_cons, Eb. exact H.
Qed.

Lemma replace2_notin_e0 e0 e1 k l : mem e0 l = false -> replace2 e0 e1 k l = l.
Proof.
  induction l as [| a | a b r IH1 IH2] using list_ind2; intros H; try reflexivity.
  cbn [replace2]. rewrite mem_cons in H. apply orb_false_iff in H. destruct H as [Ha H].
  rewrite (N.eqb_sym a e0), Ha. cbn [andb]. f_equal. apply IH1. exact H.
Qed.

Lemma E_cons k c r : E k (c :: r) = if c =? k then c_bs :: k :: E k r else c :: E k r.
Proof. reflexivity. Qed.

Lemma U_E k l : k <> c_bs -> U k (E k l) = l.
Proof.
  intros Hk. induction l as [|c r IH]; [reflexivity|].
  rewrite E_cons. destruct (c =? k) eqn:Ec.
  - apply N.eqb_eq in Ec. subst c. unfold U. cbn [replace2].
    rewrite !N.eqb_refl. cbn [andb]. f_equal. exact IH.
  - destruct r as [|d r'].
    + reflexivity.
    + rewrite E_cons in *. unfold U in *.
      destruct (d =? k) eqn:Ed.
      * cbn [replace2] in *. destruct (c =? c_bs) eqn:Eb.
        { cbn [andb]. assert (c_bs =? k = false) by (apply N.eqb_neq; congruence).
          rewrite H. f_equal. exact IH. }
        { cbn [andb]. f_equal. exact IH. }
      * cbn [replace2] in *. rewrite Ed, andb_false_r. f_equal. exact IH.
Qed.

Lemma U_cons2 a x y r :
  U a (x :: y :: r) = if (x =? c_bs) && (y =? a) then a :: U a r else x :: U a (y :: r).
Proof. reflexivity. Qed.
Lemma U_one a x : U a [x] = [x].
Proof. reflexivity. Qed.

Lemma E_nonnil b d r : exists x xs, E b (d :: r) = x :: xs /\ (x = c_bs \/ (x = d /\ (d =? b) = false)).
Proof.
  rewrite E_cons. destruct (d =? b) eqn:Ed.
  - exists c_bs, (b :: E b r). auto.
  - exists d, (E b r). auto.
Qed.

(* dropping backslashes before a commutes with inserting backslashes before b *)
Lemma U_E_comm a b l : a <> b -> a <> c_bs -> b <> c_bs -> U a (E b l) = E b (U a l).
Proof.
  intros Hab Ha Hb.
  assert (Eab : a =? b = false) by (apply N.eqb_neq; assumption).
  assert (Eba : b =? a = false) by (apply N.eqb_neq; congruence).
  assert (Ebs_b : c_bs =? b = false) by (apply N.eqb_neq; congruence).
  assert (Eb_bs : b =? c_bs = false) by (apply N.eqb_neq; congruence).
  assert (Ebs_a : c_bs =? a = false) by (apply N.eqb_neq; congruence).
  induction l as [| c | c d r IH1 IH2] using list_ind2.
  - reflexivity.
  - rewrite U_one, E_cons. destruct (c =? b) eqn:Ec.
    + rewrite U_cons2, Eba, andb_false_r, U_one. reflexivity.
    + apply U_one.
  - (* c :: d :: r *)
    rewrite (U_cons2 a c d r).
    destruct ((c =? c_bs) && (d =? a)) eqn:Epair.
    + apply andb_true_iff in Epair. destruct Epair as [Ec Ed].
      apply N.eqb_eq in Ec, Ed. subst c d.
      rewrite (E_cons b c_bs), Ebs_b, (E_cons b a r), Eab.
      rewrite U_cons2, !N.eqb_refl. cbn [andb].
      rewrite (E_cons b a), Eab. f_equal. exact IH2.
    + rewrite (E_cons b c (d :: r)), (E_cons b c (U a (d :: r))).
      destruct (c =? b) eqn:Ec.
      * apply N.eqb_eq in Ec. subst c.
        rewrite U_cons2, Eba, andb_false_r.
        destruct (E_nonnil b d r) as [x [xs [EE _]]].
        rewrite EE, U_cons2, Eb_bs. cbn [andb]. rewrite <- EE, IH1. reflexivity.
      * destruct (E_nonnil b d r) as [x [xs [EE Hx]]].
        rewrite EE, U_cons2.
        assert (Hn : (c =? c_bs) && (x =? a) = false).
        { destruct Hx as [-> | [-> Hd]].
          - rewrite Ebs_a. apply andb_false_r.
          - exact Epair. }
        rewrite Hn, <- EE, IH1. reflexivity.
Qed.

(* ---- sequential form without the "does the byte occur" guards ---- *)
Definition esc_keys (ks : list N) (l : bytes) : bytes := fold_left (fun acc k => E k acc) ks l.
Definition unesc_keys (ks : list N) (l : bytes) : bytes := fold_left (fun acc k => U k acc) ks l.

Fixpoint keys_ok (ks : list N) : bool :=
  match ks with
  | [] => true
  | k :: r => negb (k =? c_bs) && negb (mem k r) && keys_ok r
  end.

Lemma U_esc_keys_comm a ks l :
  a <> c_bs -> mem a ks = false -> keys_ok ks = true -> U a (esc_keys ks l) = esc_keys ks (U a l).
Proof.
  intros Ha. revert l. induction ks as [|k r IH]; intros l Hm Hok; [reflexivity|].
  cbn [esc_keys fold_left]. fold (esc_keys r (E k l)). fold (esc_keys r (E k (U a l))).
  rewrite mem_cons in Hm. apply orb_false_iff in Hm. destruct Hm as [Hak Hm].
  cbn [keys_ok] in Hok. apply andb_true_iff in Hok. destruct Hok as [Hok1 Hok].
  apply andb_true_iff in Hok1. destruct Hok1 as [Hk _].
  rewrite IH by assumption. f_equal. apply U_E_comm.
  - apply N.eqb_neq. exact Hak.
  - exact Ha.
  - apply N.eqb_neq. destruct (k =? c_bs); [discriminate|reflexivity].
Qed.

Lemma unesc_esc_keys ks l : keys_ok ks = true -> unesc_keys ks (esc_keys ks l) = l.
Proof.
  revert l. induction ks as [|k r IH]; intros l Hok; [reflexivity|].
  cbn [keys_ok] in Hok. apply andb_true_iff in Hok. destruct Hok as [Hok1 Hok].
  apply andb_true_iff in Hok1. destruct Hok1 as [Hk Hnotin].
  assert (Hk' : k <> c_bs) by (apply N.eqb_neq; destruct (k =? c_bs); [discriminate|reflexivity]).
  cbn [esc_keys unesc_keys fold_left].
  fold (esc_keys r (E k l)). fold (unesc_keys r (U k (esc_keys r (E k l)))).
  rewrite U_esc_keys_comm; try assumption.
  - rewrite U_E by assumption. apply IH. exact Hok.
  - destruct (mem k r); [discriminate|reflexivity].
Qed.

(* the tables of the source have the shape (k, (`\`, k)) *)
Definition codes_ok (codes : list (N * (N * N))) : bool :=
  forallb (fun c => let '(k, (e0, e1)) := c in (e0 =? c_bs) && (e1 =? k)) codes
  && keys_ok (map fst codes).

Lemma escape_with_keys codes l :
  codes_ok codes = true -> escape_with codes l = esc_keys (map fst codes) l.
Proof.
  unfold codes_ok. intros H. apply andb_true_iff in H. destruct H as [H _].
  unfold escape_with. revert l. induction codes as [|[k [e0 e1]] r IH]; intros l; [reflexivity|].
  cbn [forallb] in H. apply andb_true_iff in H. destruct H as [Hc H].
  apply andb_true_iff in Hc. destruct Hc as [H0 H1]. apply N.eqb_eq in H0, H1. subst e0 e1.
  cbn [fold_left map fst esc_keys]. fold (esc_keys (map fst r) (E k l)).
  rewrite <- IH by exact H. f_equal.
  destruct (mem k l) eqn:Em; [reflexivity|]. unfold E. rewrite replace1_notin by exact Em. reflexivity.
Qed.

Lemma unesc_keys_no_bs ks l : mem c_bs l = false -> unesc_keys ks l = l.
Proof.
  intros H. induction ks as [|k r IH]; [reflexivity|].
  cbn [unesc_keys fold_left]. unfold U. rewrite replace2_notin_e0 by exact H. exact IH.
Qed.

Lemma unescape_with_keys codes l :
  codes_ok codes = true -> unescape_with codes l = unesc_keys (map fst codes) l.
Proof.
  unfold codes_ok. intros H. apply andb_true_iff in H. destruct H as [H _].
  unfold unescape_with. destruct (mem c_bs l) eqn:Eb; cbn [negb].
  2:{ symmetry. apply unesc_keys_no_bs. exact Eb. }
  clear Eb. revert l. induction codes as [|[k [e0 e1]] r IH]; intros l; [reflexivity|].
  cbn [forallb] in H. apply andb_true_iff in H. destruct H as [Hc H].
  apply andb_true_iff in Hc. destruct Hc as [H0 H1]. apply N.eqb_eq in H0, H1. subst e0 e1.
  cbn [fold_left map fst unesc_keys]. fold (unesc_keys (map fst r) (U k l)).
  rewrite <- IH by exact H. f_equal.
  destruct (mem k l) eqn:Em; [reflexivity|]. unfold U. rewrite replace2_notin_k by exact Em. reflexivity.
Qed.

Lemma escape_unescape_with codes l :
  codes_ok codes = true -> unescape_with codes (escape_with codes l) = l.
Proof.
  intros H. rewrite unescape_with_keys, escape_with_keys by exact H.
  apply unesc_esc_keys. unfold codes_ok in H. apply andb_true_iff in H. apply H.
Qed.

Lemma measurement_codes_ok : codes_ok c12_measurement_escape_codes = true.
Proof. reflexivity. Qed.
Lemma tag_codes_ok : codes_ok c12_tag_escape_codes = true.
Proof. reflexivity. Qed.

Lemma escape_unescape_measurement l : unescape_measurement (escape_measurement l) = l.
Proof. apply escape_unescape_with, measurement_codes_ok. Qed.
Lemma escape_unescape_tag l : unescape_tag (escape_tag l) = l.
Proof. apply escape_unescape_with, tag_codes_ok. Qed.

(* ---- the sequential form is the one-pass specification ---- *)
Lemma spec_escape_cons set c r :
  spec_escape set (c :: r) = if mem c set then c_bs :: c :: spec_escape set r else c :: spec_escape set r.
Proof. reflexivity. Qed.

Lemma spec_escape_E k ks l :
  k <> c_bs -> mem k ks = false -> mem c_bs ks = false ->
  spec_escape ks (E k l) = spec_escape (k :: ks) l.
Proof.
  intros Hk Hkn Hbs. induction l as [|c r IH]; [reflexivity|].
  rewrite E_cons, (spec_escape_cons (k :: ks)). rewrite mem_cons.
  destruct (c =? k) eqn:Ec; cbn [orb].
  - apply N.eqb_eq in Ec. subst c. rewrite !spec_escape_cons. rewrite Hbs, Hkn. f_equal. f_equal. exact IH.
  - rewrite spec_escape_cons. destruct (mem c ks); rewrite IH; reflexivity.
Qed.

Lemma spec_escape_nil l : spec_escape [] l = l.
Proof. induction l as [|c r IH]; [reflexivity|]. rewrite spec_escape_cons. cbn [mem existsb]. f_equal. exact IH. Qed.

Lemma spec_escape_ext s1 s2 l : (forall c, mem c s1 = mem c s2) -> spec_escape s1 l = spec_escape s2 l.
Proof.
  intros H. induction l as [|c r IH]; [reflexivity|]. rewrite !spec_escape_cons, H, IH. reflexivity.
Qed.

Lemma keys_ok_no_bs ks : keys_ok ks = true -> mem c_bs ks = false.
Proof.
  induction ks as [|k r IH]; [reflexivity|]. cbn [keys_ok]. intros H.
  apply andb_true_iff in H. destruct H as [H1 H]. apply andb_true_iff in H1. destruct H1 as [Hk _].
  rewrite mem_cons, IH by exact H. rewrite N.eqb_sym. destruct (k =? c_bs); [discriminate|reflexivity].
Qed.

Lemma esc_keys_spec ks l : keys_ok ks = true -> esc_keys ks l = spec_escape (rev ks) l.
Proof.
  revert l. induction ks as [|k r IH] using rev_ind; intros l Hok.
  - cbn. symmetry. apply spec_escape_nil.
  - unfold esc_keys. rewrite fold_left_app. cbn [fold_left]. fold (esc_keys r l).
    rewrite rev_app_distr. cbn [rev app].
    assert (Hr : keys_ok r = true /\ mem k r = false /\ k <> c_bs).
    { clear IH. induction r as [|x r IHr]; cbn [keys_ok app] in *.
      - apply andb_true_iff in Hok. destruct Hok as [H _]. apply andb_true_iff in H. destruct H as [H _].
        repeat split. apply N.eqb_neq. destruct (k =? c_bs); [discriminate|reflexivity].
      - apply andb_true_iff in Hok. destruct Hok as [H Hok]. apply andb_true_iff in H. destruct H as [Hx Hm].
        destruct (IHr Hok) as [A [B C]]. repeat split; try assumption.
        + rewrite Hx, A, andb_true_r. cbn [andb].
          destruct (mem x r) eqn:Em; [|reflexivity].
          exfalso. assert (mem x (r ++ [k]) = true).
          { unfold mem in *. rewrite existsb_app, Em. reflexivity. }
          rewrite H in Hm. discriminate.
        + rewrite mem_cons, B, orb_false_r.
          destruct (k =? x) eqn:Ek; [|reflexivity]. apply N.eqb_eq in Ek. subst x.
          exfalso. assert (mem k (r ++ [k]) = true).
          { unfold mem. rewrite existsb_app. cbn. rewrite N.eqb_refl. apply orb_true_r. }
          rewrite H in Hm. discriminate. }
    destruct Hr as [Hr1 [Hr2 Hr3]].
    rewrite IH by exact Hr1.
    assert (Hrev : forall c, mem c (rev r) = mem c r) by (intros c; apply mem_rev).
    (* E k after escaping the earlier keys = one pass over all *)
    transitivity (spec_escape (k :: rev r) l).
    2:{ reflexivity. }
    clear IH.
    (* E k (spec_escape (rev r) l) = spec_escape (k :: rev r) l *)
    assert (Hbs : mem c_bs (rev r) = false) by (rewrite Hrev; apply keys_ok_no_bs; exact Hr1).
    assert (Hkr : mem k (rev r) = false) by (rewrite Hrev; exact Hr2).
    induction l as [|c t IHt]; [reflexivity|].
    rewrite (spec_escape_cons (rev r)), (spec_escape_cons (k :: rev r)), mem_cons.
    destruct (mem c (rev r)) eqn:Ec.
    + rewrite orb_true_r. rewrite !E_cons.
      assert (c_bs =? k = false) by (apply N.eqb_neq; congruence). rewrite H.
      assert (c =? k = false).
      { destruct (c =? k) eqn:Eck; [|reflexivity]. apply N.eqb_eq in Eck. subst c. rewrite Hkr in Ec. discriminate. }
      rewrite H0. f_equal. f_equal. exact IHt.
    + rewrite orb_false_r. rewrite E_cons.
      destruct (c =? k) eqn:Eck; [apply N.eqb_eq in Eck; subst c|]; rewrite IHt; reflexivity.
Qed.

Lemma escape_with_spec codes l :
  codes_ok codes = true -> escape_with codes l = spec_escape (map fst codes) l.
Proof.
  intros H. rewrite escape_with_keys by exact H.
  unfold codes_ok in H. apply andb_true_iff in H. destruct H as [_ H].
  rewrite esc_keys_spec by exact H. apply spec_escape_ext.
  intros c. apply mem_rev.
Qed.

Lemma escape_measurement_spec l : escape_measurement l = spec_escape meas_set l.
Proof. apply (escape_with_spec c12_measurement_escape_codes l measurement_codes_ok). Qed.
Lemma escape_tag_spec l : escape_tag l = spec_escape tag_set l.
Proof. apply (escape_with_spec c12_tag_escape_codes l tag_codes_ok). Qed.

(* ---- escape.Bytes / escape.Unescape (field keys) ---- *)
Lemma escape_bytes_keys_spec ks l :
  keys_ok ks = true -> escape_bytes_keys ks l = spec_escape ks l.
Proof.
  intros H. change (escape_bytes_keys ks l) with (esc_keys ks l).
  rewrite esc_keys_spec by exact H. apply spec_escape_ext.
  intros c. apply mem_rev.
Qed.

Lemma unescape_chars_spec_escape chars l :
  mem c_bs chars = false -> unescape_chars chars (spec_escape chars l) = l.
Proof.
  intros Hbs. induction l as [|c r IH]; [reflexivity|].
  rewrite spec_escape_cons. destruct (mem c chars) eqn:Ec.
  - cbn [unescape_chars]. rewrite N.eqb_refl, Ec. cbn [andb]. f_equal. exact IH.
  - destruct r as [|d r'].
    + reflexivity.
    + rewrite spec_escape_cons in *. destruct (mem d chars) eqn:Ed.
      * cbn [unescape_chars] in *. rewrite Hbs, andb_false_r. f_equal. exact IH.
      * cbn [unescape_chars] in *. rewrite Ed, andb_false_r. f_equal. exact IH.
Qed.

Lemma escape_keys_chars_agree : forall c, mem c c12_escape_codes_keys = mem c c12_escape_chars.
Proof.
  intros c. unfold c12_escape_codes_keys, c12_escape_chars, mem. cbn [existsb].
  repeat (destruct (c =? _)); reflexivity.
Qed.

Lemma escape_unescape_bytes l : unescape_bytes (escape_bytes l) = l.
Proof.
  unfold unescape_bytes, escape_bytes.
  rewrite escape_bytes_keys_spec by reflexivity.
  rewrite (spec_escape_ext _ c12_escape_chars) by apply escape_keys_chars_agree.
  apply unescape_chars_spec_escape. reflexivity.
Qed.

(* the order in which the Go map is ranged over does not matter *)
Lemma escape_bytes_order_irrelevant ks1 ks2 l :
  keys_ok ks1 = true -> keys_ok ks2 = true -> (forall c, mem c ks1 = mem c ks2) ->
  escape_bytes_keys ks1 l = escape_bytes_keys ks2 l.
Proof.
  intros H1 H2 H. rewrite !escape_bytes_keys_spec by assumption. apply spec_escape_ext, H.
Qed.

(* the iterator's field key: unescaped whether or not IsEscaped said so *)
Lemma unescape_chars_not_escaped chars l : is_escaped_chars chars l = false -> unescape_chars chars l = l.
Proof.
  induction l as [| a | a b r IH1 IH2] using list_ind2; intros H; try reflexivity.
  cbn [is_escaped_chars] in H. apply orb_false_iff in H. destruct H as [Hp H].
  cbn [unescape_chars]. rewrite Hp. f_equal. apply IH1. exact H.
Qed.

Lemma iter_field_key_unescape k : iter_field_key k = unescape_bytes k.
Proof.
  unfold iter_field_key, is_escaped, unescape_bytes.
  destruct (is_escaped_chars c12_escape_chars k) eqn:E; [reflexivity|].
  symmetry. apply unescape_chars_not_escaped. exact E.
Qed.

Lemma field_key_roundtrip k : iter_field_key (escape_bytes k) = k.
Proof. rewrite iter_field_key_unescape. apply escape_unescape_bytes. Qed.

(* ---- string field values ---- *)
Lemma unescape_string_loop_escape l : unescape_string_loop (escape_string_field l) = l.
Proof.
  induction l as [|c r IH]; [reflexivity|].
  cbn [escape_string_field]. destruct ((c =? c_quote) || (c =? c_bs)) eqn:Ec.
  - cbn [unescape_string_loop]. rewrite N.eqb_refl. rewrite orb_comm in Ec. rewrite Ec. cbn [andb].
    f_equal. exact IH.
  - apply orb_false_iff in Ec. destruct Ec as [Eq Eb].
    destruct r as [|d r']; [reflexivity|].
    cbn [escape_string_field] in *. destruct ((d =? c_quote) || (d =? c_bs)).
    + cbn [unescape_string_loop] in *. rewrite Eb. cbn [andb]. f_equal. exact IH.
    + cbn [unescape_string_loop] in *. rewrite Eb. cbn [andb]. f_equal. exact IH.
Qed.

Lemma escape_string_no_bs l : mem c_bs (escape_string_field l) = false -> escape_string_field l = l.
Proof.
  induction l as [|c r IH]; [reflexivity|].
  cbn [escape_string_field]. destruct ((c =? c_quote) || (c =? c_bs)) eqn:Ec.
  - rewrite mem_cons, N.eqb_refl. discriminate.
  - rewrite mem_cons. intros H. apply orb_false_iff in H. f_equal. apply IH. apply H.
Qed.

Lemma escape_unescape_string_field l : unescape_string_field (escape_string_field l) = l.
Proof.
  unfold unescape_string_field. destruct (mem c_bs (escape_string_field l)) eqn:E; cbn [negb].
  - apply unescape_string_loop_escape.
  - apply escape_string_no_bs. exact E.
Qed.
