(* C12/Reprint.v — (1) the canonical printer (Print.v: Fields.MarshalBinary/appendField) produces
   field text the round-trip theorem applies to; (2) the point a well-formed line parses to,
   written back with String(), parses again to the same point. *)
From Verif Require Import C12.Base C12.Escape C12.Scan C12.Point C12.Spec C12.Print C12.ScanFacts C12.KeyFacts C12.OrderFacts
     C12.KeyComplete C12.LineProofs C12.EscapeProofs C12.TimeProofs C12.KeySort C12.KeyTheorem C12.SpecLink
     C12.FieldNum C12.FieldScan C12.FieldIter C12.FieldAsm C12.LineRound.
From VerifGen Require Import Consts.
From Coq Require Import ZifyBool ZifyNat ZifyN Permutation.
Open Scope N_scope.

Section Oracle.
Variable pf : bytes -> option N.       (* strconv.ParseFloat *)
Variable us : bool.                    (* uint64 support enabled *)
Variable ff : N -> bytes.              (* strconv.AppendFloat(bits, 'f', -1, 64) *)

(* a typed value the printer can write: integers in range, unsigned only with uint support, floats
   whose printed text is "[-]digits[.digits]" (what AppendFloat 'f' gives for finite values) and
   is read back by ParseFloat as the same bits *)
Definition value_ok (fv : fvalue) : Prop :=
  match fv with
  | FInt z => TimeProofs.in_int64 z
  | FUint n => us = true /\ n <= max_uint64
  | FFloat b => exists neg body, ff b = sign_txt neg ++ body /\ num_body false body = true /\ (0 < ndigits body)%nat /\
                                 pf (ff b) = Some b
  | FBool _ => True
  | FString _ => True
  | FEmpty => False
  end.

Lemma print_value_ok fv : value_ok fv -> val_text_ok pf us fv (print_value ff fv).
Proof.
  destruct fv as [z|n|b|b|s|]; cbn [value_ok val_text_ok print_value]; intros H.
  - split; [exact H|reflexivity].
  - destruct H as [H1 H2]. split; [exact H1|]. split; [exact H2|reflexivity].
  - destruct H as [neg [body [E [H1 [H2 H3]]]]]. exists neg, body. rewrite <- E. auto.
  - destruct b; cbn [bool_spellings In]; auto.
  - reflexivity.
  - exact H.
Qed.

Definition field_ok (a : bytes * fvalue) : Prop := name_ok (fst a) = true /\ value_ok (snd a).

Lemma print_fields_rel afs : Forall field_ok afs -> Forall2 (fld_rel pf us) afs (map (print_field ff) afs).
Proof.
  induction 1 as [|a r [Hn Hv] Hall IH]; cbn [map]; constructor; [|exact IH].
  unfold fld_rel, print_field. cbn [fst snd]. split; [reflexivity|]. split; [exact Hn|apply print_value_ok; exact Hv].
Qed.

(* the text of a whole point: key (tags in the order tags'), printed fields, optional timestamp *)
Definition print_point (p : apoint) (tags' : list (bytes * bytes)) : bytes :=
  key_text (a_meas p) tags' ++ c_space :: print_fields ff (a_fields p) ++ ts_suffix (a_time p).

Definition first_name_ok (afs : list (bytes * fvalue)) : Prop :=
  match afs with (c :: _, _) :: _ => ((c =? c_tab) || (c =? c_nul)) = false | _ => True end.

Definition sizes_ok (p : apoint) : Prop :=
  N.of_nat (length (spec_key p)) <= c12_max_key_length /\
  Forall (fun a => N.of_nat (length (spec_key p) + c12_field_key_sep_len + length (escape_bytes (fst a))) <= c12_max_key_length)
         (a_fields p).

Definition wf_point (p : apoint) (prec : bytes) : Prop :=
  akey_ok (a_meas p) (a_tags p) = true /\ NoDup (map fst (a_tags p)) /\
  a_fields p <> [] /\ Forall field_ok (a_fields p) /\ first_name_ok (a_fields p) /\
  sizes_ok p /\ time_ok (a_time p) prec.

Lemma print_fields_head afs : afs <> [] -> Forall field_ok afs -> first_name_ok afs ->
  match print_fields ff afs with c :: _ => is_ws c = false | [] => True end.
Proof.
  intros Hne Hall Hf. destruct afs as [|[name fv] r]; [congruence|].
  apply Forall_cons_iff in Hall. destruct Hall as [[Hn _] _]. cbn [fst] in Hn.
  destruct name as [|c s]; [discriminate|]. cbn [first_name_ok] in Hf.
  unfold print_fields. cbn [map]. unfold print_field at 1. cbn [fst snd]. rewrite render_fields_cons.
  pose proof (escape_bytes_head_ws c s Hf) as Hh.
  destruct (escape_bytes (c :: s)) as [|x xs] eqn:E; [|exact Hh].
  exfalso. pose proof (wf_fieldkey_escape (c :: s) Hn) as Hw. rewrite E in Hw. discriminate.
Qed.

(* print_parse_roundtrip *)
Theorem print_parse_roundtrip p tags' dflt prec :
  wf_point p prec -> Permutation (a_tags p) tags' ->
  parse_point pf us (print_point p tags') dflt prec =
    Ok (mk_point (spec_key p) (print_fields ff (a_fields p)) (line_time (a_time p) prec dflt)) /\
  point_fields pf 0 (mk_point (spec_key p) (print_fields ff (a_fields p)) (line_time (a_time p) prec dflt)) =
    Ok (a_fields p).
Proof.
  intros (Hok & Hnd & Hne & Hall & Hfirst & (Hklen & Hsz) & Htime) Hperm.
  unfold print_point, print_fields.
  apply (line_roundtrip pf us p tags' (map (print_field ff) (a_fields p)) dflt prec Hok Hnd Hperm Hklen Hne
           (print_fields_rel _ Hall) (print_fields_head _ Hne Hall Hfirst)); [|exact Htime].
  clear - Hsz. induction Hsz as [|a r Ha Hr IH]; cbn [map]; constructor; [|exact IH].
  unfold fld_size_ok, print_field. cbn [fst]. exact Ha.
Qed.

(* ---- the parsed point printed with String() parses to itself ---- *)
Lemma spec_key_is_key_text p : exists tags'', Permutation (a_tags p) tags'' /\ key_text (a_meas p) tags'' = spec_key p.
Proof.
  pose proof (sort_tags_perm (map esc_tag (a_tags p))) as Hp. apply Permutation_sym in Hp.
  destruct (Permutation_map_inv _ _ Hp) as [l3 [E Hp3]].
  exists l3. split; [exact Hp3|]. unfold key_text, spec_key. rewrite render_tags_concat, <- E. reflexivity.
Qed.

Lemma tm_not_zero ns : (- 9223372036854775808 <= ns)%Z -> tm_is_zero (tm_of_unix_nano ns) = false.
Proof.
  intros H. unfold tm_is_zero, tm_of_unix_nano. cbn [t_sec t_nsec].
  assert (ns / 1000000000 >= -9223372037)%Z by (apply Z.le_ge; apply Z.div_le_lower_bound; lia).
  unfold unix_to_internal. destruct (Z.eqb_spec (ns / 1000000000 + 62135596800) 0); [lia|reflexivity].
Qed.

Definition line_ns (t : option Z) (prec : bytes) (dflt : Z) : Z :=
  match t with Some ts => (ts * spec_mult prec)%Z | None => set_precision dflt prec end.

(* Every line that renders a well-formed point (tags in any order, each value in any accepted
   spelling, optional timestamp) is accepted, and String() of the parsed point parses again — at
   precision n, whatever the default time — to exactly the same point. *)
Theorem rendered_line_reprints_stable p tags' l dflt prec dflt' :
  akey_ok (a_meas p) (a_tags p) = true -> NoDup (map fst (a_tags p)) -> Permutation (a_tags p) tags' ->
  N.of_nat (length (spec_key p)) <= c12_max_key_length ->
  a_fields p <> [] -> Forall2 (fld_rel pf us) (a_fields p) l ->
  match render_fields l with c :: _ => is_ws c = false | [] => True end ->
  Forall (fld_size_ok (length (spec_key p))) l ->
  time_ok (a_time p) prec ->
  (c12_min_nano_time <= line_ns (a_time p) prec dflt <= c12_max_nano_time)%Z ->
  exists pt,
    parse_point pf us (key_text (a_meas p) tags' ++ c_space :: render_fields l ++ ts_suffix (a_time p)) dflt prec = Ok pt /\
    point_fields pf 0 pt = Ok (a_fields p) /\
    parse_point pf us (point_string pt) dflt' [110] = Ok pt.
Proof.
  intros Hok Hnd Hperm Hklen Hne Hrel Hws Hsz Htime Hns.
  destruct (line_roundtrip pf us p tags' l dflt prec Hok Hnd Hperm Hklen Hne Hrel Hws Hsz Htime) as [Hpp Hpf].
  eexists. split; [exact Hpp|]. split; [exact Hpf|].
  set (ns := line_ns (a_time p) prec dflt) in *.
  assert (Ht : line_time (a_time p) prec dflt = tm_of_unix_nano ns) by (unfold line_time, ns, line_ns; destruct (a_time p); reflexivity).
  rewrite Ht.
  assert (Hin : TimeProofs.in_int64 ns) by (unfold TimeProofs.in_int64, c12_min_nano_time, c12_max_nano_time in *; lia).
  unfold point_string. cbn [p_time p_key p_fields].
  rewrite (tm_not_zero ns) by (unfold c12_min_nano_time in Hns; lia).
  rewrite (unix_nano_roundtrip ns Hin).
  destruct (spec_key_is_key_text p) as [tags'' [Hperm'' Ekey]].
  set (p' := mk_apoint (a_meas p) (a_tags p) (a_fields p) (Some ns)).
  assert (Hline : spec_key p ++ [c_space] ++ render_fields l ++ [c_space] ++ fmt_z ns =
                  key_text (a_meas p') tags'' ++ c_space :: render_fields l ++ ts_suffix (a_time p')).
  { unfold p'. cbn [a_meas a_time ts_suffix]. rewrite Ekey. reflexivity. }
  rewrite Hline.
  assert (Htime' : time_ok (a_time p') [110]).
  { unfold p'. cbn [a_time time_ok]. change (spec_mult [110]) with 1%Z. rewrite Z.mul_1_r. split; [exact Hin|exact Hns]. }
  destruct (line_roundtrip pf us p' tags'' l dflt' [110] Hok Hnd Hperm'' Hklen Hne Hrel Hws Hsz Htime') as [Hpp' _].
  rewrite Hpp'. unfold p'. cbn [a_time line_time]. change (spec_mult [110]) with 1%Z. rewrite Z.mul_1_r. reflexivity.
Qed.

End Oracle.
