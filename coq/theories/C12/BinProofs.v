(* C12/BinProofs.v — the binary point form: no byte string crashes the decoders, accessors of a
   decoded point do not crash, MarshalBinary/NewPointFromBytes and the hinted-handoff framing
   round-trip. *)
From Verif Require Import C12.Base C12.Escape C12.Scan C12.Point C12.ScanFacts.
From VerifGen Require Import Consts.
From Coq Require Import ZifyBool ZifyNat ZifyN.
Open Scope N_scope.

(* ---- never Crash ---- *)
Lemma take_length {A} n (l a b : list A) : take n l = Some (a, b) -> length l = (n + length b)%nat.
Proof. intros H. apply take_some in H. destruct H as [-> <-]. apply app_length. Qed.

Lemma tm_unmarshal_nc b : nc (tm_unmarshal b).
Proof.
  unfold tm_unmarshal. destruct b as [|v r]; [apply nc_err|].
  destruct (negb ((v =? 1) || (v =? 2))); [apply nc_err|].
  destruct (negb (length (v :: r) =? (if (v =? 2)%N then 16 else 15))%nat) eqn:El; [apply nc_err|].
  apply negb_false_iff, Nat.eqb_eq in El.
  assert (Hl : (15 <= length (v :: r))%nat) by (destruct (v =? 2); lia).
  rewrite !slice_ok by lia. cbn [bind].
  destruct (v =? 2) eqn:E2.
  - destruct (rd_lt (v :: r) 15 ltac:(lia)) as [c [Hc _]]. rewrite Hc. apply nc_ok.
  - apply nc_ok.
Qed.

Lemma unmarshal_binary_nc b : nc (unmarshal_binary b).
Proof.
  unfold unmarshal_binary. destruct (take 4 b) as [[h1 b1]|]; [|apply nc_err].
  destruct (N.ltb_spec (N.of_nat (length b1)) (be_dec h1)); [apply nc_err|].
  rewrite !slice_ok by lia. cbn [bind].
  destruct (take 4 _) as [[h2 b3]|]; [|apply nc_err].
  destruct (N.ltb_spec (N.of_nat (length b3)) (be_dec h2)); [apply nc_err|].
  rewrite !slice_ok by lia. cbn [bind].
  apply nc_bind; [apply tm_unmarshal_nc|]. intros; apply nc_ok.
Qed.

Lemma rdm_last c r : exists l, rdm (c :: r) (length (c :: r)) 1 = Ok l.
Proof.
  destruct (rdm_lt (c :: r) (length (c :: r)) 1) as [l [Hl _]]; [cbn [length]; lia|cbn [length]; lia|].
  exists l. exact Hl.
Qed.

Section Oracle.
Variable pf : bytes -> option N.

Lemma field_value_check_nc v : nc (field_value pf true v).
Proof.
  unfold field_value. destruct v as [|c r]; [apply nc_ok|].
  destruct (c =? c_quote).
  { destruct (length (c :: r) <? 2)%nat; [apply nc_err|apply nc_ok]. }
  destruct (is_numeric_start c).
  - destruct (rdm_last c r) as [l Hl]. rewrite Hl. cbn [bind].
    destruct (l =? c_i); [destruct (parse_int64 _); [apply nc_ok|apply nc_err]|].
    destruct (l =? c_u); [destruct (parse_uint64 _); [apply nc_ok|apply nc_err]|].
    destruct (pf _); [apply nc_ok|apply nc_err].
  - destruct (parse_bool _); [apply nc_ok|apply nc_err].
Qed.

(* a value accepted by the NewPointFromBytes check can be read by Fields() *)
Lemma field_value_checked_nc v fv : field_value pf true v = Ok fv -> nc (field_value pf false v).
Proof.
  unfold field_value. destruct v as [|c r]; [intros; apply nc_ok|].
  destruct (c =? c_quote).
  { destruct (Nat.ltb_spec (length (c :: r)) 2); [discriminate|]. intros _.
    unfold string_value, slice_m1. cbn [length] in *.
    rewrite slice_ok by (cbn [length]; lia). apply nc_ok. }
  intros _.
  destruct (is_numeric_start c).
  - destruct (rdm_last c r) as [l Hl]. rewrite Hl. cbn [bind].
    destruct (l =? c_i); [destruct (parse_int64 _); [apply nc_ok|apply nc_err]|].
    destruct (l =? c_u); [destruct (parse_uint64 _); [apply nc_ok|apply nc_err]|].
    destruct (pf _); [apply nc_ok|apply nc_err].
  - destruct (parse_bool _); [apply nc_ok|apply nc_err].
Qed.

Lemma iter_fields_check_nc fuel slack fields start :
  (1 <= slack)%nat -> nc (iter_fields pf fuel slack true fields start).
Proof.
  intros Hs. revert start. induction fuel as [|f IH]; intros start; cbn [iter_fields]; [apply nc_err|].
  destruct (Nat.leb_spec (length fields) start); [apply nc_ok|].
  apply nc_bind; [apply scan_to_nc; lia|]. intros [e1 rawkey] Hk.
  apply scan_to_inv in Hk; [|lia]. destruct Hk as [Hb _].
  apply nc_bind; [apply scan_field_value_nc; lia|]. intros [e2 vb] Hv.
  destruct (iter_field_key rawkey); [apply IH|].
  apply nc_bind; [apply field_value_check_nc|]. intros fv _.
  apply nc_bind; [apply IH|]. intros; apply nc_ok.
Qed.

Lemma iter_fields_checked_nc fuel slack fields start l :
  (1 <= slack)%nat ->
  iter_fields pf fuel slack true fields start = Ok l ->
  nc (iter_fields pf fuel slack false fields start).
Proof.
  intros Hs. revert start l. induction fuel as [|f IH]; intros start l; cbn [iter_fields]; [intros; apply nc_err|].
  destruct (Nat.leb_spec (length fields) start); [intros; apply nc_ok|].
  intros H0. apply bind_ok_inv in H0. destruct H0 as [[e1 rawkey] [Hk H0]]. rewrite Hk. cbn [bind].
  apply bind_ok_inv in H0. destruct H0 as [[e2 vb] [Hv H0]]. rewrite Hv. cbn [bind].
  destruct (iter_field_key rawkey); [eapply IH; exact H0|].
  apply bind_ok_inv in H0. destruct H0 as [fv [Hfv H0]].
  apply bind_ok_inv in H0. destruct H0 as [rest [Hrest _]].
  apply nc_bind; [eapply field_value_checked_nc; exact Hfv|]. intros fv' _.
  apply nc_bind; [eapply IH; exact Hrest|]. intros; apply nc_ok.
Qed.

Lemma new_point_from_bytes_nc b : nc (new_point_from_bytes pf b).
Proof.
  unfold new_point_from_bytes. apply nc_bind; [apply unmarshal_binary_nc|]. intros p _.
  apply nc_bind; [apply iter_fields_check_nc; lia|]. intros l _.
  destruct l; [apply nc_err|apply nc_ok].
Qed.

(* Fields() of a point accepted by NewPointFromBytes does not crash *)
Lemma decoded_point_fields_nc b p :
  new_point_from_bytes pf b = Ok p -> nc (point_fields pf 15 p).
Proof.
  unfold new_point_from_bytes. intros H. apply bind_ok_inv in H. destruct H as [p' [Hp H]].
  apply bind_ok_inv in H. destruct H as [l [Hl H]].
  destruct l; [discriminate|]. inversion H; subst p'.
  unfold point_fields. apply nc_bind; [|intros; apply nc_ok].
  eapply iter_fields_checked_nc; [|exact Hl]. lia.
Qed.

Lemma unmarshal_points_nc bs : nc (unmarshal_points pf bs).
Proof.
  induction bs as [|b r IH]; cbn [unmarshal_points]; [apply nc_ok|].
  pose proof (new_point_from_bytes_nc b) as Hn.
  destruct (new_point_from_bytes pf b); [|exact IH|exfalso; apply Hn; reflexivity].
  apply nc_bind; [exact IH|]. intros; apply nc_ok.
Qed.

(* every point returned by Points() is a decoded point: never a nil entry *)
Lemma unmarshal_points_sound bs ps :
  unmarshal_points pf bs = Ok ps ->
  Forall (fun p => exists b, In b bs /\ new_point_from_bytes pf b = Ok p) ps.
Proof.
  revert ps. induction bs as [|b r IH]; cbn [unmarshal_points]; intros ps H.
  - inversion H. constructor.
  - destruct (new_point_from_bytes pf b) eqn:E.
    + apply bind_ok_inv in H. destruct H as [rest [Hr H]]. inversion H; subst.
      constructor; [exists b; split; [left; reflexivity|exact E]|].
      eapply Forall_impl; [|apply IH; exact Hr]. intros p [b' [Hin Hb']]. exists b'. split; [right|]; assumption.
    + eapply Forall_impl; [|apply IH; exact H]. intros p [b' [Hin Hb']]. exists b'. split; [right|]; assumption.
    + discriminate.
Qed.
End Oracle.

Lemma unmarshal_write_loop_nc fuel b acc : nc (unmarshal_write_loop fuel b acc).
Proof.
  revert b acc. induction fuel as [|f IH]; intros b acc; cbn [unmarshal_write_loop]; [apply nc_err|].
  destruct b as [|x b']; [apply nc_ok|].
  destruct (take 4 (x :: b')) as [[h b1]|]; [|apply nc_ok].
  destruct (N.ltb_spec (N.of_nat (length b1)) (be_dec h)); [apply nc_ok|].
  rewrite !slice_ok by lia. cbn [bind]. apply IH.
Qed.

Lemma unmarshal_write_nc b : nc (unmarshal_write b).
Proof.
  unfold unmarshal_write. destruct (take 8 b) as [[h b1]|]; [|apply nc_err].
  apply nc_bind; [apply unmarshal_write_loop_nc|]. intros; apply nc_ok.
Qed.

(* ---- round trip ---- *)
Lemma be_dec_enc4 n : n < 4294967296 -> be_dec (be_enc 4 n) = n.
Proof. intros H. apply be_dec_enc. exact H. Qed.

Lemma take_be_enc n v (rest : bytes) : take n (be_enc n v ++ rest) = Some (be_enc n v, rest).
Proof. rewrite <- (be_enc_length n v) at 1. apply take_app. Qed.

(* a time produced by the parser: UTC, seconds in int64, nanoseconds below 2^30 *)
Definition tm_wf (t : tm) : Prop :=
  t_utc t = true /\ (- Z.of_N two63 <= t_sec t < Z.of_N two63)%Z /\ (0 <= t_nsec t < 1073741824)%Z.

Lemma be_enc_slice_1_9 (a b c : bytes) x :
  length a = 8%nat -> slice (x :: a ++ b ++ c) 1 9 = Ok a.
Proof.
  intros Ha. change (x :: a ++ b ++ c) with ([x] ++ a ++ (b ++ c)).
  pose proof (slice_app_mid [x] a (b ++ c)) as H. cbn [length] in H. rewrite Ha in H. exact H.
Qed.

Lemma tm_unmarshal_marshal t : tm_wf t -> tm_unmarshal (tm_marshal t) = Ok t.
Proof.
  intros [Hu [Hs Hn]]. unfold tm_marshal.
  set (sb := be_enc 8 (of_int64 (t_sec t))). set (nb := be_enc 4 (Z.to_N (t_nsec t))).
  assert (Lsb : length sb = 8%nat) by apply be_enc_length.
  assert (Lnb : length nb = 4%nat) by apply be_enc_length.
  unfold tm_unmarshal. cbn [app]. cbn [N.eqb Pos.eqb orb negb].
  assert (Hlen : length (1 :: sb ++ nb ++ [255; 255]) = 15%nat).
  { cbn [length]. rewrite !app_length, Lsb, Lnb. reflexivity. }
  rewrite Hlen. cbn [Nat.eqb negb].
  rewrite (be_enc_slice_1_9 sb nb [255;255] 1 Lsb). cbn [bind].
  assert (S2 : slice (1 :: sb ++ nb ++ [255; 255]) 9 13 = Ok nb).
  { change (1 :: sb ++ nb ++ [255;255]) with ((1 :: sb) ++ nb ++ [255;255]).
    pose proof (slice_app_mid (1 :: sb) nb [255;255]) as H. cbn [length] in H. rewrite Lsb, Lnb in H. exact H. }
  rewrite S2. cbn [bind].
  assert (S3 : slice (1 :: sb ++ nb ++ [255; 255]) 13 15 = Ok [255;255]).
  { replace (1 :: sb ++ nb ++ [255;255]) with ((1 :: sb ++ nb) ++ [255;255] ++ []).
    2:{ cbn [app]. rewrite <- app_assoc. reflexivity. }
    pose proof (slice_app_mid (1 :: sb ++ nb) [255;255] []) as H. cbn [length] in H.
    rewrite app_length, Lsb, Lnb in H. exact H. }
  rewrite S3. cbn [bind].
  unfold nb, sb. rewrite be_dec_enc by (unfold two63 in *; cbn; lia).
  rewrite be_dec_enc by (apply of_int64_lt).
  destruct (N.ltb_spec (Z.to_N (t_nsec t)) 2147483648); [|lia].
  rewrite to_of_int64 by exact Hs.
  replace (be_dec [255;255]) with 65535 by reflexivity. cbn [N.ltb N.compare Pos.compare Pos.compare_cont].
  rewrite N.mod_small by (unfold two30; lia). rewrite Z2N.id by lia.
  destruct t as [s n u]. cbn [t_sec t_nsec t_utc] in *. subst u. reflexivity.
Qed.

Section Roundtrip.
Variable pf : bytes -> option N.

(* the field text passes the decode-time validation of NewPointFromBytes *)
Definition fields_valid (fields : bytes) : Prop :=
  exists x l, iter_fields pf (S (length fields)) 15 true fields 0 = Ok (x :: l).

Definition point_wf (p : point) : Prop :=
  N.of_nat (length (p_key p)) < 4294967296 /\ N.of_nat (length (p_fields p)) < 4294967296 /\
  tm_wf (p_time p) /\ fields_valid (p_fields p).

Lemma marshal_binary_ok p :
  point_wf p ->
  marshal_binary p = Ok (be_enc 4 (N.of_nat (length (p_key p))) ++ p_key p ++
                         be_enc 4 (N.of_nat (length (p_fields p))) ++ p_fields p ++ tm_marshal (p_time p)).
Proof.
  intros [_ [_ [[Hu _] [x [l Hv]]]]]. unfold marshal_binary.
  destruct (p_fields p) eqn:Ef.
  - cbn in Hv. discriminate.
  - rewrite Hu. reflexivity.
Qed.

Lemma unmarshal_marshal p b :
  point_wf p -> marshal_binary p = Ok b -> unmarshal_binary b = Ok p.
Proof.
  intros Hwf Hm. rewrite (marshal_binary_ok p Hwf) in Hm.
  match type of Hm with Ok ?x = _ => assert (Hb : b = x) by congruence end. subst b. clear Hm.
  destruct Hwf as [Hk [Hf [Ht _]]].
  unfold unmarshal_binary. rewrite take_be_enc.
  rewrite be_dec_enc4 by exact Hk. rewrite Nat2N.id.
  destruct (N.ltb_spec (N.of_nat (length (p_key p ++ be_enc 4 (N.of_nat (length (p_fields p))) ++ p_fields p ++ tm_marshal (p_time p))))
                       (N.of_nat (length (p_key p)))) as [Hlt|_].
  { rewrite app_length in Hlt. lia. }
  rewrite slice_prefix, slice_suffix. cbn [bind].
  rewrite take_be_enc. rewrite be_dec_enc4 by exact Hf. rewrite Nat2N.id.
  destruct (N.ltb_spec (N.of_nat (length (p_fields p ++ tm_marshal (p_time p)))) (N.of_nat (length (p_fields p)))) as [Hlt|_].
  { rewrite app_length in Hlt. lia. }
  rewrite slice_prefix, slice_suffix. cbn [bind].
  rewrite tm_unmarshal_marshal by exact Ht. cbn [bind]. destruct p; reflexivity.
Qed.

Theorem bin_roundtrip_valid p b :
  point_wf p -> marshal_binary p = Ok b -> new_point_from_bytes pf b = Ok p.
Proof.
  intros Hwf Hm. unfold new_point_from_bytes. rewrite (unmarshal_marshal p b Hwf Hm). cbn [bind].
  destruct Hwf as [_ [_ [_ [x [l Hv]]]]]. rewrite Hv. reflexivity.
Qed.
End Roundtrip.

(* ---- hinted-handoff framing ---- *)
Definition frames (pbs : list bytes) : bytes :=
  flat_map (fun pb => be_enc 4 (N.of_nat (length pb)) ++ pb) pbs.

Lemma unmarshal_write_loop_frames pbs : forall fuel acc,
  Forall (fun pb => N.of_nat (length pb) < 4294967296) pbs ->
  (length pbs < fuel)%nat ->
  unmarshal_write_loop fuel (frames pbs) acc = Ok (acc ++ pbs, true).
Proof.
  induction pbs as [|pb r IH]; intros fuel acc Hall Hf.
  - destruct fuel; [cbn in Hf; lia|]. cbn. rewrite app_nil_r. reflexivity.
  - destruct fuel as [|f]; [cbn in Hf; lia|]. inversion Hall as [|? ? Hpb Hr]; subst.
    cbn [frames flat_map]. fold (frames r). cbn [unmarshal_write_loop].
    destruct ((be_enc 4 (N.of_nat (length pb)) ++ pb) ++ frames r) eqn:E.
    { exfalso. apply (f_equal (@length N)) in E. rewrite !app_length, be_enc_length in E. cbn in E. lia. }
    rewrite <- E. rewrite <- app_assoc. rewrite take_be_enc. rewrite be_dec_enc4 by exact Hpb.
    destruct (N.ltb_spec (N.of_nat (length (pb ++ frames r))) (N.of_nat (length pb))) as [Hlt|_].
    { rewrite app_length in Hlt. lia. }
    rewrite Nat2N.id, slice_prefix, slice_suffix. cbn [bind].
    rewrite IH; [|exact Hr|cbn [length] in Hf; lia]. rewrite <- app_assoc. reflexivity.
Qed.

Theorem hh_frames_roundtrip shard pbs :
  shard < two64 ->
  Forall (fun pb => N.of_nat (length pb) < 4294967296) pbs ->
  unmarshal_write (be_enc 8 shard ++ frames pbs) = Ok (shard, pbs, true).
Proof.
  intros Hs Hall. unfold unmarshal_write. rewrite take_be_enc.
  assert (Hlen : (length pbs < S (length (frames pbs)))%nat).
  { clear. induction pbs as [|pb r IH]; cbn [frames flat_map length]; [lia|].
    fold (frames r). rewrite !app_length, be_enc_length. lia. }
  rewrite unmarshal_write_loop_frames by assumption. cbn [bind fst snd app].
  rewrite be_dec_enc by (rewrite <- two64_pow; exact Hs). reflexivity.
Qed.

Lemma marshal_write_points_frames pts pbs :
  Forall2 (fun p pb => marshal_binary p = Ok pb) pts pbs -> marshal_write_points pts = frames pbs.
Proof.
  induction 1 as [|p pb pts pbs Hp _ IH]; [reflexivity|].
  cbn [marshal_write_points frames flat_map]. fold (frames pbs). rewrite Hp, IH, <- app_assoc. reflexivity.
Qed.

Theorem hh_marshal_roundtrip shard pts pbs :
  shard < two64 ->
  Forall2 (fun p pb => marshal_binary p = Ok pb) pts pbs ->
  Forall (fun pb => N.of_nat (length pb) < 4294967296) pbs ->
  unmarshal_write (marshal_write shard pts) = Ok (shard, pbs, true).
Proof.
  intros Hs Hm Hall. unfold marshal_write. rewrite (marshal_write_points_frames pts pbs Hm).
  apply hh_frames_roundtrip; assumption.
Qed.
