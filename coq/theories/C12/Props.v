(* C12/Props.v — property theorems only: each is closed by [exact] of a lemma proved in the
   proof files and followed by Print Assumptions. *)
From Verif Require Import C12.Proofs.
From Verif Require Import C12.TimeExact C12.TimeLine C12.HHWProofs C12.Run.
From Verif Require Import C12.FieldNum C12.FieldScan C12.FieldIter C12.FieldAsm C12.LineRound C12.Reprint C12.PlainReq.
From VerifGen Require Import Consts.
From Coq Require Import Permutation Lia.
Open Scope N_scope.

(* ---- escape_unescape: every escape function is undone by its unescape function, for every
   byte string (tables re-read from the source) ---- *)
Theorem escape_unescape_measurement : forall l : bytes, unescape_measurement (escape_measurement l) = l.
Proof. exact EscapeProofs.escape_unescape_measurement. Qed.
Print Assumptions escape_unescape_measurement.

Theorem escape_unescape_tag : forall l : bytes, unescape_tag (escape_tag l) = l.
Proof. exact EscapeProofs.escape_unescape_tag. Qed.
Print Assumptions escape_unescape_tag.

(* field keys: escape.Bytes/String, then escape.Unescape / the iterator's AppendUnescaped *)
Theorem escape_unescape_field_key : forall l : bytes,
  unescape_bytes (escape_bytes l) = l /\ iter_field_key (escape_bytes l) = l.
Proof. intros l; split; [exact (EscapeProofs.escape_unescape_bytes l)|exact (field_key_roundtrip l)]. Qed.
Print Assumptions escape_unescape_field_key.

Theorem escape_unescape_string_field : forall l : bytes, unescape_string_field (escape_string_field l) = l.
Proof. exact EscapeProofs.escape_unescape_string_field. Qed.
Print Assumptions escape_unescape_string_field.

(* the sequential bytes.Replace passes of the source are the one-pass "backslash before every
   byte of the set" of the specification; the order Go ranges over escape.Codes is irrelevant *)
Theorem escape_is_one_pass : forall l : bytes,
  escape_measurement l = spec_escape meas_set l /\ escape_tag l = spec_escape tag_set l.
Proof. intros l; split; [exact (escape_measurement_spec l)|exact (escape_tag_spec l)]. Qed.
Print Assumptions escape_is_one_pass.

Theorem escape_bytes_map_order_irrelevant : forall ks1 ks2 l,
  keys_ok ks1 = true -> keys_ok ks2 = true -> (forall c, mem c ks1 = mem c ks2) ->
  escape_bytes_keys ks1 l = escape_bytes_keys ks2 l.
Proof. exact escape_bytes_order_irrelevant. Qed.
Print Assumptions escape_bytes_map_order_irrelevant.

(* ---- decoders_never_crash: for EVERY byte string (and every float oracle, default time,
   precision, uint flag) the model of the parser and of the binary decoders is not Crash ---- *)
Theorem parser_never_crashes :
  forall (parse_float : bytes -> option N) (uint_support : bool) (buf : bytes) (default_ns : Z) (prec : bytes),
  parse_points parse_float uint_support buf default_ns prec <> Crash.
Proof. exact parse_points_nc. Qed.
Print Assumptions parser_never_crashes.

Theorem decoders_never_crash :
  forall (parse_float : bytes -> option N) (b : bytes) (bs : list bytes),
  unmarshal_binary b <> Crash /\ new_point_from_bytes parse_float b <> Crash /\
  unmarshal_write b <> Crash /\ unmarshal_points parse_float bs <> Crash.
Proof.
  intros pf b bs. repeat split;
    [exact (unmarshal_binary_nc b)|exact (new_point_from_bytes_nc pf b)|exact (unmarshal_write_nc b)|
     exact (unmarshal_points_nc pf bs)].
Qed.
Print Assumptions decoders_never_crash.

(* Fields() of a point accepted by NewPointFromBytes does not crash, and Points() of a write
   request only contains decoded points (no nil entry) *)
Theorem decoded_points_are_usable :
  forall (parse_float : bytes -> option N) (b : bytes) (p : point) (bs : list bytes) (ps : list point),
  (new_point_from_bytes parse_float b = Ok p -> point_fields parse_float 15 p <> Crash) /\
  (unmarshal_points parse_float bs = Ok ps ->
   Forall (fun q => exists b', In b' bs /\ new_point_from_bytes parse_float b' = Ok q) ps).
Proof.
  intros pf b p bs ps. split; [exact (decoded_point_fields_nc pf b p)|exact (unmarshal_points_sound pf bs ps)].
Qed.
Print Assumptions decoded_points_are_usable.

(* ---- bin_roundtrip: a point with UTC time in range whose field text passes the decoder's own
   validation is reproduced exactly by NewPointFromBytes(MarshalBinary) ---- *)
Theorem bin_roundtrip :
  forall (parse_float : bytes -> option N) (p : point) (b : bytes),
  point_wf parse_float p -> marshal_binary p = Ok b -> new_point_from_bytes parse_float b = Ok p.
Proof. exact bin_roundtrip_valid. Qed.
Print Assumptions bin_roundtrip.

(* hinted-handoff framing: unmarshalWrite(marshalWrite(shard, points)) returns the binary points *)
Theorem hh_roundtrip :
  forall shard pts pbs, shard < two64 ->
  Forall2 (fun p pb => marshal_binary p = Ok pb) pts pbs ->
  Forall (fun pb => N.of_nat (length pb) < 4294967296) pbs ->
  unmarshal_write (marshal_write shard pts) = Ok (shard, pbs, true).
Proof. exact hh_marshal_roundtrip. Qed.
Print Assumptions hh_roundtrip.

(* ---- key_perm_invariant: whatever order the tags are written in, scanKey accepts the key text
   and returns the same key bytes (hence the same HashID) ---- *)
Theorem key_perm_invariant :
  forall m ts ts' post post',
  wf_meas m = true -> forallb wf_tag ts = true -> NoDup (map fst ts) -> Permutation ts ts' ->
  exists i i' key,
    scan_key (m ++ render_tags ts ++ c_space :: post) 0 = Ok (i, key) /\
    scan_key (m ++ render_tags ts' ++ c_space :: post') 0 = Ok (i', key).
Proof. exact KeyTheorem.key_perm_invariant. Qed.
Print Assumptions key_perm_invariant.

(* the key text of an abstract point (escaped as a client writes it, tags in any order) is
   accepted and means Spec.spec_key: escaped measurement, tags sorted by escaped key *)
Theorem key_means_what_it_says :
  forall p tags' post,
  akey_ok (a_meas p) (a_tags p) = true -> NoDup (map fst (a_tags p)) -> Permutation (a_tags p) tags' ->
  scan_key (key_text (a_meas p) tags' ++ c_space :: post) 0 =
  Ok (length (key_text (a_meas p) tags'), spec_key p).
Proof. exact key_meaning. Qed.
Print Assumptions key_means_what_it_says.

Theorem hash_is_fnv64a : forall p : point, hash_id p = spec_fnv64a (p_key p).
Proof. exact hash_id_spec. Qed.
Print Assumptions hash_is_fnv64a.

(* ---- bad_line_isolated: a body made of closed lines parses to the concatenation of the
   per-line results (a rejected line contributes exactly one error, a comment or blank line
   nothing); a line is closed when scanning it followed by a newline stops at that newline,
   which holds for EVERY line without newline and double quote, however malformed ---- *)
Theorem bad_line_isolated :
  forall (parse_float : bytes -> option N) (uint_support : bool) (ls : list bytes) (default_ns : Z) (prec : bytes),
  forallb line_closed ls = true ->
  parse_points parse_float uint_support (join_nl ls) default_ns prec = per_line parse_float uint_support ls default_ns prec.
Proof. exact closed_lines_isolated. Qed.
Print Assumptions bad_line_isolated.

Theorem closed_line_then_anything :
  forall (parse_float : bytes -> option N) (uint_support : bool) (l1 rest : bytes) (default_ns : Z) (prec : bytes),
  line_closed l1 = true ->
  parse_points parse_float uint_support (l1 ++ c_nl :: rest) default_ns prec =
  (let* a := process_block parse_float uint_support l1 default_ns prec in
   let* b := parse_points parse_float uint_support rest default_ns prec in
   Ok (a ++ b)).
Proof. exact closed_line_isolated. Qed.
Print Assumptions closed_line_then_anything.

Theorem plain_lines_are_closed :
  forall l : bytes, forallb (fun c => negb (c =? c_nl) && negb (c =? c_quote)) l = true -> line_closed l = true.
Proof. exact plain_line_closed. Qed.
Print Assumptions plain_lines_are_closed.

(* ---- precision scaling: SafeCalcTime returns timestamp * unit exactly (unit = the documented
   one) when that lies in [MinNanoTime, MaxNanoTime], and an error otherwise: no wrap-around;
   UnixNano() of the time is that product; decimal integer text parses back exactly ---- *)
Theorem precision_scaling_exact :
  forall (ts : Z) (prec : bytes), in_int64 ts ->
  safe_calc_time ts prec =
  if ((c12_min_nano_time <=? ts * spec_mult prec) && (ts * spec_mult prec <=? c12_max_nano_time))%Z
  then Ok (tm_of_unix_nano (ts * spec_mult prec)%Z) else Err 20.
Proof. exact safe_calc_time_spec. Qed.
Print Assumptions precision_scaling_exact.

Theorem unix_nano_of_parsed_time : forall ns : Z, in_int64 ns -> tm_unix_nano (tm_of_unix_nano ns) = ns.
Proof. exact unix_nano_roundtrip. Qed.
Print Assumptions unix_nano_of_parsed_time.

Theorem integer_text_roundtrip : forall z : Z, in_int64 z -> parse_int64 (fmt_z z) = Some z.
Proof. exact parse_int64_fmt_z. Qed.
Print Assumptions integer_text_roundtrip.

(* ---- print_parse_roundtrip.  An abstract point (Spec.apoint): measurement, tags, typed fields
   (int64 | uint64 | float64 bits | bool | string bytes), optional timestamp.  Its text
   (Reprint.print_point) is the key text with the tags in ANY order, a space, the field set as
   Fields.MarshalBinary/appendField print it (Print.v: name escaped by escape.String, '=', decimal
   + 'i' / decimal + 'u' / the AppendFloat text / true|false / '"' EscapeStringField '"', joined
   by ','), and " " + decimal timestamp when there is one.  Reprint.wf_point: names non-empty and
   not ending in a backslash, measurement and first field name not starting with tab/NUL (the
   scanner skips them), tag keys distinct, at least one field, integers in int64, unsigned only
   with uint support and <= MaxUint64, key sizes within MaxKeyLength, timestamp * unit within
   [MinNanoTime, MaxNanoTime]; a float field's printed text ff b has the shape [-]digits[.digits]
   and ParseFloat reads it back as b (the float text<->bits conversion is the oracle pair pf/ff:
   these two facts about strconv are hypotheses of wf_point, not proved).
   For EVERY such point and every tag order: parsePoint accepts the text; the point has the
   canonical key (tags sorted by escaped key), the field text as written, the exact instant; and
   Fields() returns exactly the typed fields: same names, same types, same values/bits, same order. *)
Theorem print_parse_roundtrip :
  forall (pf : bytes -> option N) (us : bool) (ff : N -> bytes) (p : apoint) (tags' : list (bytes * bytes))
         (dflt : Z) (prec : bytes),
  wf_point pf us ff p prec -> Permutation (a_tags p) tags' ->
  parse_point pf us (print_point ff p tags') dflt prec =
    Ok (mk_point (spec_key p) (print_fields ff (a_fields p)) (line_time (a_time p) prec dflt)) /\
  point_fields pf 0 (mk_point (spec_key p) (print_fields ff (a_fields p)) (line_time (a_time p) prec dflt)) =
    Ok (a_fields p).
Proof. exact Reprint.print_parse_roundtrip. Qed.
Print Assumptions print_parse_roundtrip.

(* the same for every accepted spelling of the values, not only the printed one: booleans written
   t T true True TRUE f F false False FALSE, floats written as any [-]digits-and-at-most-one-dot text
   with a digit (1. .5 -.5 -0 007) that ParseFloat reads as the bits (FieldIter.val_text_ok);
   l gives, per field, the escaped name and the value text *)
Theorem print_parse_roundtrip_any_spelling :
  forall (pf : bytes -> option N) (us : bool) (p : apoint) (tags' : list (bytes * bytes)) (l : list (bytes * bytes))
         (dflt : Z) (prec : bytes),
  akey_ok (a_meas p) (a_tags p) = true -> NoDup (map fst (a_tags p)) -> Permutation (a_tags p) tags' ->
  N.of_nat (length (spec_key p)) <= c12_max_key_length ->
  a_fields p <> [] -> Forall2 (fld_rel pf us) (a_fields p) l ->
  match render_fields l with c :: _ => is_ws c = false | [] => True end ->
  Forall (fld_size_ok (length (spec_key p))) l ->
  time_ok (a_time p) prec ->
  parse_point pf us (key_text (a_meas p) tags' ++ c_space :: render_fields l ++ ts_suffix (a_time p)) dflt prec =
    Ok (mk_point (spec_key p) (render_fields l) (line_time (a_time p) prec dflt)) /\
  point_fields pf 0 (mk_point (spec_key p) (render_fields l) (line_time (a_time p) prec dflt)) = Ok (a_fields p).
Proof. exact LineRound.line_roundtrip. Qed.
Print Assumptions print_parse_roundtrip_any_spelling.

(* the field set alone, after ANY prefix: scanFields consumes exactly the rendered field set (one
   '=' per field, one ',' between fields), walkFields' key-size pass succeeds, and the field
   iterator / Fields() on the stored text yields the typed fields *)
Theorem fields_roundtrip :
  forall (pf : bytes -> option N) (us : bool) (pre : bytes) (afs : list (bytes * fvalue)) (l : list (bytes * bytes))
         (rest : bytes) (keylen : nat),
  afs <> [] -> Forall2 (fld_rel pf us) afs l -> space_or_end rest ->
  match render_fields l with c :: _ => is_ws c = false | [] => True end ->
  Forall (fld_size_ok keylen) l ->
  scan_fields pf us (pre ++ c_space :: render_fields l ++ rest) (length pre) =
    Ok (length (pre ++ c_space :: render_fields l), render_fields l) /\
  walk_fields_keysize (S (length (render_fields l))) keylen (render_fields l) = Ok tt /\
  (forall key t, point_fields pf 0 (mk_point key (render_fields l) t) = Ok afs).
Proof. exact FieldAsm.fields_roundtrip. Qed.
Print Assumptions fields_roundtrip.

(* ---- accepted_line_reprints_stable, PARTIAL.  Proved: for every line that renders some well-formed
   point (tags in any order, values in any accepted spelling, optional timestamp at any precision)
   the parser accepts it, Fields() does not error, and String() of the parsed point parses again
   (precision n, any default time) to exactly the same point: same key, same field text, same time.
   MISSING: the statement for EVERY byte string the parser accepts.  Accepted lines outside the
   image above — redundant backslashes in names and strings ("a\b=1", "s=\"x\\y\""), adjacent
   quoted pieces ("s=\"x\"\"y\""), leading zeros / "-0i", exponent floats ("1e5"), extra
   whitespace — are covered only by the per-run check (reparse_ok computed on the real code for
   every accepted point, compared by check_case) and by parser_never_crashes /
   decoded_points_are_usable. ---- *)
Theorem accepted_line_reprints_stable_partial :
  forall (pf : bytes -> option N) (us : bool) (p : apoint) (tags' : list (bytes * bytes)) (l : list (bytes * bytes))
         (dflt : Z) (prec : bytes) (dflt' : Z),
  akey_ok (a_meas p) (a_tags p) = true -> NoDup (map fst (a_tags p)) -> Permutation (a_tags p) tags' ->
  N.of_nat (length (spec_key p)) <= c12_max_key_length ->
  a_fields p <> [] -> Forall2 (fld_rel pf us) (a_fields p) l ->
  match render_fields l with c :: _ => is_ws c = false | [] => True end ->
  Forall (fld_size_ok (length (spec_key p))) l ->
  time_ok (a_time p) prec ->
  (c12_min_nano_time <= line_ns (a_time p) prec dflt <= c12_max_nano_time)%Z ->
  exists pt,
    parse_point pf us (key_text (a_meas p) tags' ++ c_space :: render_fields l ++ ts_suffix (a_time p)) dflt prec = Ok pt /\
    point_fields pf 0 pt = Ok (a_fields p) /\
    parse_point pf us (point_string pt) dflt' [110] = Ok pt.
Proof. exact Reprint.rendered_line_reprints_stable. Qed.
Print Assumptions accepted_line_reprints_stable_partial.

(* the same at the level of the request (ParsePointsWithPrecision = scanLine + parsePoint), PARTIAL:
   proved for a printed point whose text has no newline, double quote or backslash (so: no string
   fields, no escaped bytes in names) and does not start with '#': sent as the whole request it
   yields exactly that one point and no error.  MISSING: lines with quoted strings / escapes, where
   scanLine's own quote tracking decides the block (bad_line_isolated covers closed lines; the
   per-run isolation_ok / meaning_ok checks cover the rest on the real code). *)
Theorem print_parse_roundtrip_request_partial :
  forall (pf : bytes -> option N) (us : bool) (ff : N -> bytes) (p : apoint) (tags' : list (bytes * bytes))
         (dflt : Z) (prec : bytes),
  wf_point pf us ff p prec -> Permutation (a_tags p) tags' ->
  forallb very_plain (print_point ff p tags') = true ->
  match print_point ff p tags' with c :: _ => (c =? c_hash) = false | [] => True end ->
  parse_points pf us (print_point ff p tags') dflt prec =
    Ok [LPoint (mk_point (spec_key p) (print_fields ff (a_fields p)) (line_time (a_time p) prec dflt))].
Proof. exact PlainReq.plain_request_roundtrip. Qed.
Print Assumptions print_parse_roundtrip_request_partial.

(* the value texts: what scanNumber / scanBoolean accept and the typed accessors return *)
Theorem value_text_roundtrip :
  forall (pf : bytes -> option N) (us : bool) (fv : fvalue) (txt : bytes),
  val_text_ok pf us fv txt -> vscan pf us txt /\ viter txt /\ field_value pf false txt = Ok fv.
Proof.
  intros pf us fv txt H. split; [exact (val_text_vscan pf us fv txt H)|].
  split; [exact (val_text_viter pf us fv txt H)|exact (val_text_field_value pf us fv txt H)].
Qed.
Print Assumptions value_text_roundtrip.

(* ---- timestamp_exact_or_rejected: the timestamp at the requested precision, with SafeCalcTime /
   safeSignedMult modelled on wrapping int64 (product taken mod 2^64, then the divide-back test
   and CheckTime).  Spec.spec_ts_verdict computes text_value * unit in Z (nothing wraps): Some ns
   when that lies in [MinNanoTime, MaxNanoTime], None otherwise (also for text that is not a
   decimal integer).
   (1) for EVERY token ts (no whitespace/quote/backslash) and every precision string the request
       "m v=1 <ts>" yields exactly one point at exactly that instant, or exactly one error; *)
Theorem timestamp_exact_or_rejected :
  forall (parse_float : bytes -> option N) (uint_support : bool) (ts : bytes) (default_ns : Z) (prec : bytes),
  ts_token ts = true ->
  parse_points parse_float uint_support (ts_line ts) default_ns prec =
  match spec_ts_verdict ts prec with
  | Some ns => Ok [LPoint (mk_point [109] [118; 61; 49] (tm_of_unix_nano ns))]
  | None => Ok [LErr]
  end.
Proof. exact ts_line_parse_points. Qed.
Print Assumptions timestamp_exact_or_rejected.

(* (2) for EVERY line: if parsePoint accepts it and scanTime had returned the non-empty token ts,
       the point carries exactly the instant ts denotes, and that instant is in range — hence a
       token whose exact product is out of range (or wraps into the range) is never accepted; *)
Theorem timestamp_exact_or_rejected_any_line :
  forall (parse_float : bytes -> option N) (uint_support : bool) (buf : bytes) (default_ns : Z) (prec : bytes)
         (pos : nat) (key : bytes) (pos2 : nat) (fields : bytes) (pos3 : nat) (ts : bytes) (p : point),
  scan_key buf 0 = Ok (pos, key) ->
  scan_fields parse_float uint_support buf pos = Ok (pos2, fields) ->
  scan_time buf pos2 = Ok (pos3, ts) -> ts <> [] ->
  parse_point parse_float uint_support buf default_ns prec = Ok p ->
  spec_ts_verdict ts prec = Some (tm_unix_nano (p_time p)) /\
  (spec_min_nano_time <= tm_unix_nano (p_time p) <= spec_max_nano_time)%Z.
Proof. exact parse_point_timestamp. Qed.
Print Assumptions timestamp_exact_or_rejected_any_line.

(* (3) on the token itself (every text scanTime lets through: optional '-' then digits, of any
       length): strconv.ParseInt + SafeCalcTime give the exact instant or an error. *)
Theorem timestamp_token_exact :
  forall (s prec : bytes), time_shape s = true ->
  match time_of_text s prec with
  | Ok t => spec_ts_verdict s prec = Some (tm_unix_nano t) /\
  (spec_min_nano_time <= tm_unix_nano t <= spec_max_nano_time)%Z
  | Err _ => spec_ts_verdict s prec = None
  | Crash => False
  end.
Proof. exact time_of_text_sound. Qed.
Print Assumptions timestamp_token_exact.

(* link to the executable spec of the CTime cases: the model's own result for "m v=1 <ts>", read
   as an observation, passes Run.ts_obs_ok for every token (given ParseFloat("1") = 1.0) *)
Theorem timestamp_model_meets_spec :
  forall (parse_float : bytes -> option N) (ts : bytes) (default_ns : Z) (prec : bytes),
  parse_float [49] = Some float_one_bits -> ts_token ts = true ->
  ts_obs_ok ts prec (model_pobs parse_float (parse_points parse_float false (ts_line ts) default_ns prec)) = true.
Proof. exact ts_line_model_meets_spec. Qed.
Print Assumptions timestamp_model_meets_spec.

(* ---- hinted_writes_exactly_once: concurrent NodeProcessor.WriteShard calls modelled as one
   marshalWrite block per call, appended in some order.  Whenever the queue holds, in ANY order,
   the blocks of the acknowledged batches plus those of some unacknowledged ones, every block
   decodes (unmarshalWrite then NewPointFromBytes) and the decoded batches are the acknowledged
   ones, each exactly once (Run.hw_spec_ok); and the model agrees with itself (Run.hw_agree). *)
Theorem hinted_writes_exactly_once :
  forall (shard : N) (bs : list (list (bytes * bytes * Z) * bool)),
  shard < two64 -> Forall (fun b => batch_ok (hw_batch b)) bs ->
  forall (blocks : list bytes) (extra rest : list (list point)),
  Permutation blocks (map (marshal_write shard) (hw_acked bs) ++ map (marshal_write shard) extra) ->
  Permutation (hw_unacked bs) (extra ++ rest) ->
  hw_spec_ok shard bs blocks true false = true /\
  (forallb hw_small (map hw_batch bs) = true -> hw_agree shard bs blocks true false = true).
Proof.
  intros shard bs Hs Hok blocks extra rest Hq Hu. split;
    [exact (hhw_model_meets_spec shard bs Hs Hok blocks extra rest Hq Hu)|
     exact (hhw_model_agrees shard bs blocks extra rest Hq Hu)].
Qed.
Print Assumptions hinted_writes_exactly_once.

(* ---- non-vacuity ---- *)
(* "-9223372036854776" at precision u: the exact product -9223372036854776000 is below MinNanoTime
   (its int64 wrap, 9223372036854775616, would be in range): rejected; one more is accepted *)
Example timestamp_nonvacuous :
  ts_token [45;57;50;50;51;51;55;50;48;51;54;56;53;52;55;55;54] = true /\
  spec_ts_verdict [45;57;50;50;51;51;55;50;48;51;54;56;53;52;55;55;54] [117] = None /\
  zwrap64 (-9223372036854776 * 1000)%Z = 9223372036854775616%Z /\
  parse_points (fun _ => None) false (ts_line [45;57;50;50;51;51;55;50;48;51;54;56;53;52;55;55;54]) 0%Z [117] = Ok [LErr] /\
  spec_ts_verdict [45;57;50;50;51;51;55;50;48;51;54;56;53;52;55;55;53] [117] = Some (-9223372036854775000)%Z /\
  spec_ts_verdict [53;49;50;52;48;57;54] [104] = None /\        (* 5124096 h: wraps to a small positive value *)
  spec_ts_verdict [48;48;55] [115] = Some 7000000000%Z /\ spec_ts_verdict [43;49] [110] = None.
Proof. vm_compute. repeat split; reflexivity. Qed.

(* the hypotheses of timestamp_exact_or_rejected_any_line hold of "cpu,b=2 v=1i 5" *)
Example timestamp_any_line_nonvacuous :
  let buf := [99;112;117;44;98;61;50;32;118;61;49;105;32;53] in
  scan_key buf 0 = Ok (7%nat, [99;112;117;44;98;61;50]) /\
  scan_fields (fun _ => None) false buf 7 = Ok (12%nat, [118;61;49;105]) /\
  scan_time buf 12 = Ok (14%nat, [53]).
Proof. vm_compute. repeat split; reflexivity. Qed.

(* two batches, queue order reversed: the premises of hinted_writes_exactly_once hold *)
Example hinted_writes_nonvacuous :
  let b1 := ([([97], [110;61;49;105], 5%Z)], true) in
  let b2 := ([([98], [110;61;50;105], 6%Z)], true) in
  hw_spec_ok 7 [b1; b2] [marshal_write 7 (hw_batch b2); marshal_write 7 (hw_batch b1)] true false = true /\
  hw_spec_ok 7 [b1; b2] [marshal_write 7 (hw_batch b1); marshal_write 7 (hw_batch b1)] true false = false.
Proof. vm_compute. split; reflexivity. Qed.

Example escape_nonvacuous :
  escape_tag [97; 44; 92; 32; 61] = [97; 92; 44; 92; 92; 32; 92; 61] /\
  unescape_tag [97; 92; 44; 92; 92; 32; 92; 61] = [97; 44; 92; 32; 61].
Proof. vm_compute. split; reflexivity. Qed.

(* "cpu,b=2,a=1 v=1i 5" at precision s: accepted, tags sorted, time scaled *)
Example parse_nonvacuous :
  match parse_points (fun _ => None) false [99;112;117;44;98;61;50;44;97;61;49;32;118;61;49;105;32;53] 0%Z [115] with
  | Ok [LPoint p] => p_key p = [99;112;117;44;97;61;49;44;98;61;50] /\ tm_unix_nano (p_time p) = 5000000000%Z
  | _ => False
  end.
Proof. vm_compute. split; reflexivity. Qed.

Example bin_roundtrip_nonvacuous :
  let p := mk_point [99;112;117] [118;61;49;105] (tm_of_unix_nano 5000000000) in
  match marshal_binary p with
  | Ok b => new_point_from_bytes (fun _ => None) b = Ok p
  | _ => False
  end.
Proof. vm_compute. reflexivity. Qed.

Example key_perm_nonvacuous :
  wf_meas [99;112;117] = true /\ forallb wf_tag [([98],[50]); ([97],[49])] = true /\
  NoDup (map fst [([98],[50]); ([97],[49])]).
Proof.
  split; [reflexivity|]. split; [reflexivity|]. cbn [map fst].
  constructor; [intros [H|[]]; discriminate|]. constructor; [intros []|constructor].
Qed.

(* "a b=1\" (malformed, ends in a backslash) then "c d=2": one error, then the second point *)
Example isolation_nonvacuous :
  line_closed [97;32;98;61;49;92] = true /\
  match parse_points (fun _ => None) false ([97;32;98;61;49;92] ++ c_nl :: [99;32;100;61;50;32;55]) 0%Z [110] with
  | Ok [LErr; LPoint p] => p_key p = [99]
  | _ => False
  end.
Proof. vm_compute. split; reflexivity. Qed.

Example precision_nonvacuous :
  safe_calc_time 2562047 [104] = Ok (tm_of_unix_nano 9223369200000000000) /\
  safe_calc_time 2562048 [104] = Err 20 /\ safe_calc_time 9223372036854775807 [115] = Err 20.
Proof. vm_compute. repeat split; reflexivity. Qed.

(* ---- non-vacuity of print_parse_roundtrip: a nasty point.
   cpu , tags b="2", a="1 x" (written unsorted) ;
   fields  a,b= c"  = string  q"\   ;  f = float -0.5 ;  i = MinInt64 ;  t = true ;  u = MaxUint64 ;
   x\ y = string ending in two backslashes ; timestamp -5 at precision s *)
Definition ex_bits : N := 13826050856027422720.      (* -0.5 *)
Definition ex_pf (s : bytes) : option N := if bytes_eqb s [45;48;46;53] then Some ex_bits else None.
Definition ex_ff (_ : N) : bytes := [45;48;46;53].
Definition ex_point : apoint :=
  mk_apoint [99;112;117] [([98],[50]); ([97],[49;32;120])]
    [([97;44;98;61;32;99;34], FString [113;34;92]); ([102], FFloat ex_bits); ([105], FInt (-9223372036854775808)%Z);
     ([116], FBool true); ([117], FUint 18446744073709551615); ([120;92;32;121], FString [92;92])]
    (Some (-5)%Z).

Example print_parse_nonvacuous_wf : wf_point ex_pf true ex_ff ex_point [115].
Proof.
  unfold wf_point. split; [reflexivity|]. split.
  { cbn [ex_point a_tags map fst]. constructor; [intros [H|[]]; discriminate|]. constructor; [intros []|constructor]. }
  split; [discriminate|]. split.
  { unfold ex_point. cbn [a_fields].
    repeat (apply Forall_cons; [split; [reflexivity|cbn [snd value_ok]]|]); try apply Forall_nil; try exact I.
    - exists true, [48;46;53]. repeat split; reflexivity || (cbn; lia).
    - unfold TimeProofs.in_int64. lia.
    - split; [reflexivity|vm_compute; discriminate]. }
  split; [reflexivity|]. split.
  { split; [vm_compute; discriminate|]. unfold ex_point. cbn [a_fields]. repeat constructor; vm_compute; discriminate. }
  unfold time_ok, ex_point. cbn [a_time]. split; [unfold TimeProofs.in_int64; lia|]. vm_compute. split; discriminate.
Qed.

(* and the theorem's conclusion, computed: the text, and what Fields() of the parsed point returns *)
Example print_parse_nonvacuous_run :
  let line := print_point ex_ff ex_point [([98],[50]); ([97],[49;32;120])] in
  match parse_point ex_pf true line 0%Z [115] with
  | Ok pt => p_key pt = [99;112;117;44;97;61;49;92;32;120;44;98;61;50] /\
             point_fields ex_pf 0 pt = Ok (a_fields ex_point) /\ tm_unix_nano (p_time pt) = (-5000000000)%Z /\
             parse_point ex_pf true (point_string pt) 77%Z [110] = Ok pt
  | _ => False
  end.
Proof. vm_compute. repeat split; reflexivity. Qed.

(* every accepted boolean spelling and dotted float forms mean the same value *)
Example spellings_nonvacuous :
  val_text_ok ex_pf true (FBool true) [84;114;117;101] /\ val_text_ok ex_pf true (FBool false) [70] /\
  val_text_ok (fun s => if bytes_eqb s [46;53] then Some 4602678819172646912 else None) false (FFloat 4602678819172646912) [46;53].
Proof.
  split; [cbn; auto|]. split; [cbn; auto|].
  exists false, [46;53]. repeat split; reflexivity || (cbn; lia).
Qed.

