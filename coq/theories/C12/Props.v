(* C12/Props.v — property theorems only: each is closed by [exact] of a lemma proved in the
   proof files and followed by Print Assumptions. *)
From Verif Require Import C12.Proofs.
From Verif Require Import C12.TimeExact C12.TimeLine C12.HHWProofs C12.Run.
From VerifGen Require Import Consts.
From Coq Require Import Permutation Lia.
Open Scope N_scope.

(* ---- escape_unescape: every escape function is undone by its unescape function, for every
   byte string (tables re-read from the source) ---- *)
Theorem escape_unescape_measurement : forall l : bytes, unescape_measurement (escape_measurement l) = l.
Proof. exact EscapeProofs.escape_unescape_measurement. Qed.
Print Assumptions escape_unescape_measurement.

Theorem escape_unescape_tag : forall l : bytes, unescape_tag (escape_tag l) = l.
Proof. exact EscapeProofs.escape_unescape_tag. Qed.
Print Assumptions escape_unescape_tag.

(* field keys: escape.Bytes/String, then escape.Unescape / the iterator's AppendUnescaped *)
Theorem escape_unescape_field_key : forall l : bytes,
  unescape_bytes (escape_bytes l) = l /\ iter_field_key (escape_bytes l) = l.
Proof. intros l; split; [exact (EscapeProofs.escape_unescape_bytes l)|exact (field_key_roundtrip l)]. Qed.
Print Assumptions escape_unescape_field_key.

Theorem escape_unescape_string_field : forall l : bytes, unescape_string_field (escape_string_field l) = l.
Proof. exact EscapeProofs.escape_unescape_string_field. Qed.
Print Assumptions escape_unescape_string_field.

(* the sequential bytes.Replace passes of the source are the one-pass "backslash before every
   byte of the set" of the specification; the order Go ranges over escape.Codes is irrelevant *)
Theorem escape_is_one_pass : forall l : bytes,
  escape_measurement l = spec_escape meas_set l /\ escape_tag l = spec_escape tag_set l.
Proof. intros l; split; [exact (escape_measurement_spec l)|exact (escape_tag_spec l)]. Qed.
Print Assumptions escape_is_one_pass.

Theorem escape_bytes_map_order_irrelevant : forall ks1 ks2 l,
  keys_ok ks1 = true -> keys_ok ks2 = true -> (forall c, mem c ks1 = mem c ks2) ->
  escape_bytes_keys ks1 l = escape_bytes_keys ks2 l.
Proof. exact escape_bytes_order_irrelevant. Qed.
Print Assumptions escape_bytes_map_order_irrelevant.

(* ---- decoders_never_crash: for EVERY byte string (and every float oracle, default time,
   precision, uint flag) the model of the parser and of the binary decoders is not Crash ---- *)
Theorem parser_never_crashes :
  forall (parse_float : bytes -> option N) (uint_support : bool) (buf : bytes) (default_ns : Z) (prec : bytes),
  parse_points parse_float uint_support buf default_ns prec <> Crash.
Proof. exact parse_points_nc. Qed.
Print Assumptions parser_never_crashes.

Theorem decoders_never_crash :
  forall (parse_float : bytes -> option N) (b : bytes) (bs : list bytes),
  unmarshal_binary b <> Crash /\ new_point_from_bytes parse_float b <> Crash /\
  unmarshal_write b <> Crash /\ unmarshal_points parse_float bs <> Crash.
Proof.
  intros pf b bs. repeat split;
    [exact (unmarshal_binary_nc b)|exact (new_point_from_bytes_nc pf b)|exact (unmarshal_write_nc b)|
     exact (unmarshal_points_nc pf bs)].
Qed.
Print Assumptions decoders_never_crash.

(* Fields() of a point accepted by NewPointFromBytes does not crash, and Points() of a write
   request only contains decoded points (no nil entry) *)
Theorem decoded_points_are_usable :
  forall (parse_float : bytes -> option N) (b : bytes) (p : point) (bs : list bytes) (ps : list point),
  (new_point_from_bytes parse_float b = Ok p -> point_fields parse_float 15 p <> Crash) /\
  (unmarshal_points parse_float bs = Ok ps ->
   Forall (fun q => exists b', In b' bs /\ new_point_from_bytes parse_float b' = Ok q) ps).
Proof.
  intros pf b p bs ps. split; [exact (decoded_point_fields_nc pf b p)|exact (unmarshal_points_sound pf bs ps)].
Qed.
Print Assumptions decoded_points_are_usable.

(* ---- bin_roundtrip: a point with UTC time in range whose field text passes the decoder's own
   validation is reproduced exactly by NewPointFromBytes(MarshalBinary) ---- *)
Theorem bin_roundtrip :
  forall (parse_float : bytes -> option N) (p : point) (b : bytes),
  point_wf parse_float p -> marshal_binary p = Ok b -> new_point_from_bytes parse_float b = Ok p.
Proof. exact bin_roundtrip_valid. Qed.
Print Assumptions bin_roundtrip.

(* hinted-handoff framing: unmarshalWrite(marshalWrite(shard, points)) returns the binary points *)
Theorem hh_roundtrip :
  forall shard pts pbs, shard < two64 ->
  Forall2 (fun p pb => marshal_binary p = Ok pb) pts pbs ->
  Forall (fun pb => N.of_nat (length pb) < 4294967296) pbs ->
  unmarshal_write (marshal_write shard pts) = Ok (shard, pbs, true).
Proof. exact hh_marshal_roundtrip. Qed.
Print Assumptions hh_roundtrip.

(* ---- key_perm_invariant: whatever order the tags are written in, scanKey accepts the key text
   and returns the same key bytes (hence the same HashID) ---- *)
Theorem key_perm_invariant :
  forall m ts ts' post post',
  wf_meas m = true -> forallb wf_tag ts = true -> NoDup (map fst ts) -> Permutation ts ts' ->
  exists i i' key,
    scan_key (m ++ render_tags ts ++ c_space :: post) 0 = Ok (i, key) /\
    scan_key (m ++ render_tags ts' ++ c_space :: post') 0 = Ok (i', key).
Proof. exact KeyTheorem.key_perm_invariant. Qed.
Print Assumptions key_perm_invariant.

(* the key text of an abstract point (escaped as a client writes it, tags in any order) is
   accepted and means Spec.spec_key: escaped measurement, tags sorted by escaped key *)
Theorem key_means_what_it_says :
  forall p tags' post,
  akey_ok (a_meas p) (a_tags p) = true -> NoDup (map fst (a_tags p)) -> Permutation (a_tags p) tags' ->
  scan_key (key_text (a_meas p) tags' ++ c_space :: post) 0 =
  Ok (length (key_text (a_meas p) tags'), spec_key p).
Proof. exact key_meaning. Qed.
Print Assumptions key_means_what_it_says.

Theorem hash_is_fnv64a : forall p : point, hash_id p = spec_fnv64a (p_key p).
Proof. exact hash_id_spec. Qed.
Print Assumptions hash_is_fnv64a.

(* ---- bad_line_isolated: a body made of closed lines parses to the concatenation of the
   per-line results (a rejected line contributes exactly one error, a comment or blank line
   nothing); a line is closed when scanning it followed by a newline stops at that newline,
   which holds for EVERY line without newline and double quote, however malformed ---- *)
Theorem bad_line_isolated :
  forall (parse_float : bytes -> option N) (uint_support : bool) (ls : list bytes) (default_ns : Z) (prec : bytes),
  forallb line_closed ls = true ->
  parse_points parse_float uint_support (join_nl ls) default_ns prec = per_line parse_float uint_support ls default_ns prec.
Proof. exact closed_lines_isolated. Qed.
Print Assumptions bad_line_isolated.

Theorem closed_line_then_anything :
  forall (parse_float : bytes -> option N) (uint_support : bool) (l1 rest : bytes) (default_ns : Z) (prec : bytes),
  line_closed l1 = true ->
  parse_points parse_float uint_support (l1 ++ c_nl :: rest) default_ns prec =
  (let* a := process_block parse_float uint_support l1 default_ns prec in
   let* b := parse_points parse_float uint_support rest default_ns prec in
   Ok (a ++ b)).
Proof. exact closed_line_isolated. Qed.
Print Assumptions closed_line_then_anything.

Theorem plain_lines_are_closed :
  forall l : bytes, forallb (fun c => negb (c =? c_nl) && negb (c =? c_quote)) l = true -> line_closed l = true.
Proof. exact plain_line_closed. Qed.
Print Assumptions plain_lines_are_closed.

(* ---- precision scaling: SafeCalcTime returns timestamp * unit exactly (unit = the documented
   one) when that lies in [MinNanoTime, MaxNanoTime], and an error otherwise: no wrap-around;
   UnixNano() of the time is that product; decimal integer text parses back exactly ---- *)
Theorem precision_scaling_exact :
  forall (ts : Z) (prec : bytes), in_int64 ts ->
  safe_calc_time ts prec =
  if ((c12_min_nano_time <=? ts * spec_mult prec) && (ts * spec_mult prec <=? c12_max_nano_time))%Z
  then Ok (tm_of_unix_nano (ts * spec_mult prec)%Z) else Err 20.
Proof. exact safe_calc_time_spec. Qed.
Print Assumptions precision_scaling_exact.

Theorem unix_nano_of_parsed_time : forall ns : Z, in_int64 ns -> tm_unix_nano (tm_of_unix_nano ns) = ns.
Proof. exact unix_nano_roundtrip. Qed.
Print Assumptions unix_nano_of_parsed_time.

Theorem integer_text_roundtrip : forall z : Z, in_int64 z -> parse_int64 (fmt_z z) = Some z.
Proof. exact parse_int64_fmt_z. Qed.
Print Assumptions integer_text_roundtrip.

(* ---- print_parse_roundtrip, the proved part: the key of a printed point parses to the canonical
   key for any tag order, its timestamp text parses to the exact nanosecond value, field names
   and string values survive their escape functions (escape_unescape_* above).  NOT proved:
   scanFields/walkFields/the field iterator on a rendered field set, hence the composition
   "parse (print p) = Ok (canon p)" for whole lines; that is checked on the real code per run
   (reparse_ok and meaning_ok in Run.v). ---- *)
Theorem print_parse_roundtrip_partial :
  forall p tags' post (ts : Z) (prec : bytes),
  akey_ok (a_meas p) (a_tags p) = true -> NoDup (map fst (a_tags p)) -> Permutation (a_tags p) tags' ->
  in_int64 ts ->
  (c12_min_nano_time <= ts * spec_mult prec <= c12_max_nano_time)%Z ->
  scan_key (key_text (a_meas p) tags' ++ c_space :: post) 0 = Ok (length (key_text (a_meas p) tags'), spec_key p) /\
  parse_int64 (fmt_z ts) = Some ts /\
  safe_calc_time ts prec = Ok (tm_of_unix_nano (ts * spec_mult prec)%Z) /\
  tm_unix_nano (tm_of_unix_nano (ts * spec_mult prec)%Z) = (ts * spec_mult prec)%Z.
Proof.
  intros p tags' post ts prec Hok Hnd Hp Hts Hr.
  split; [exact (key_meaning p tags' post Hok Hnd Hp)|].
  split; [exact (parse_int64_fmt_z ts Hts)|].
  split.
  - rewrite (safe_calc_time_spec ts prec Hts).
    destruct Hr as [H1 H2]. apply Z.leb_le in H1, H2. rewrite H1, H2. reflexivity.
  - apply unix_nano_roundtrip. unfold in_int64, c12_min_nano_time, c12_max_nano_time in *. lia.
Qed.
Print Assumptions print_parse_roundtrip_partial.

(* ---- timestamp_exact_or_rejected: the timestamp at the requested precision, with SafeCalcTime /
   safeSignedMult modelled on wrapping int64 (product taken mod 2^64, then the divide-back test
   and CheckTime).  Spec.spec_ts_verdict computes text_value * unit in Z (nothing wraps): Some ns
   when that lies in [MinNanoTime, MaxNanoTime], None otherwise (also for text that is not a
   decimal integer).
   (1) for EVERY token ts (no whitespace/quote/backslash) and every precision string the request
       "m v=1 <ts>" yields exactly one point at exactly that instant, or exactly one error; *)
Theorem timestamp_exact_or_rejected :
  forall (parse_float : bytes -> option N) (uint_support : bool) (ts : bytes) (default_ns : Z) (prec : bytes),
  ts_token ts = true ->
  parse_points parse_float uint_support (ts_line ts) default_ns prec =
  match spec_ts_verdict ts prec with
  | Some ns => Ok [LPoint (mk_point [109] [118; 61; 49] (tm_of_unix_nano ns))]
  | None => Ok [LErr]
  end.
Proof. exact ts_line_parse_points. Qed.
Print Assumptions timestamp_exact_or_rejected.

(* (2) for EVERY line: if parsePoint accepts it and scanTime had returned the non-empty token ts,
       the point carries exactly the instant ts denotes, and that instant is in range — hence a
       token whose exact product is out of range (or wraps into the range) is never accepted; *)
Theorem timestamp_exact_or_rejected_any_line :
  forall (parse_float : bytes -> option N) (uint_support : bool) (buf : bytes) (default_ns : Z) (prec : bytes)
         (pos : nat) (key : bytes) (pos2 : nat) (fields : bytes) (pos3 : nat) (ts : bytes) (p : point),
  scan_key buf 0 = Ok (pos, key) ->
  scan_fields parse_float uint_support buf pos = Ok (pos2, fields) ->
  scan_time buf pos2 = Ok (pos3, ts) -> ts <> [] ->
  parse_point parse_float uint_support buf default_ns prec = Ok p ->
  spec_ts_verdict ts prec = Some (tm_unix_nano (p_time p)) /\
  (spec_min_nano_time <= tm_unix_nano (p_time p) <= spec_max_nano_time)%Z.
Proof. exact parse_point_timestamp. Qed.
Print Assumptions timestamp_exact_or_rejected_any_line.

(* (3) on the token itself (every text scanTime lets through: optional '-' then digits, of any
       length): strconv.ParseInt + SafeCalcTime give the exact instant or an error. *)
Theorem timestamp_token_exact :
  forall (s prec : bytes), time_shape s = true ->
  match time_of_text s prec with
  | Ok t => spec_ts_verdict s prec = Some (tm_unix_nano t) /\
  (spec_min_nano_time <= tm_unix_nano t <= spec_max_nano_time)%Z
  | Err _ => spec_ts_verdict s prec = None
  | Crash => False
  end.
Proof. exact time_of_text_sound. Qed.
Print Assumptions timestamp_token_exact.

(* link to the executable spec of the CTime cases: the model's own result for "m v=1 <ts>", read
   as an observation, passes Run.ts_obs_ok for every token (given ParseFloat("1") = 1.0) *)
Theorem timestamp_model_meets_spec :
  forall (parse_float : bytes -> option N) (ts : bytes) (default_ns : Z) (prec : bytes),
  parse_float [49] = Some float_one_bits -> ts_token ts = true ->
  ts_obs_ok ts prec (model_pobs parse_float (parse_points parse_float false (ts_line ts) default_ns prec)) = true.
Proof. exact ts_line_model_meets_spec. Qed.
Print Assumptions timestamp_model_meets_spec.

(* ---- hinted_writes_exactly_once: concurrent NodeProcessor.WriteShard calls modelled as one
   marshalWrite block per call, appended in some order.  Whenever the queue holds, in ANY order,
   the blocks of the acknowledged batches plus those of some unacknowledged ones, every block
   decodes (unmarshalWrite then NewPointFromBytes) and the decoded batches are the acknowledged
   ones, each exactly once (Run.hw_spec_ok); and the model agrees with itself (Run.hw_agree). *)
Theorem hinted_writes_exactly_once :
  forall (shard : N) (bs : list (list (bytes * bytes * Z) * bool)),
  shard < two64 -> Forall (fun b => batch_ok (hw_batch b)) bs ->
  forall (blocks : list bytes) (extra rest : list (list point)),
  Permutation blocks (map (marshal_write shard) (hw_acked bs) ++ map (marshal_write shard) extra) ->
  Permutation (hw_unacked bs) (extra ++ rest) ->
  hw_spec_ok shard bs blocks true false = true /\
  (forallb hw_small (map hw_batch bs) = true -> hw_agree shard bs blocks true false = true).
Proof.
  intros shard bs Hs Hok blocks extra rest Hq Hu. split;
    [exact (hhw_model_meets_spec shard bs Hs Hok blocks extra rest Hq Hu)|
     exact (hhw_model_agrees shard bs blocks extra rest Hq Hu)].
Qed.
Print Assumptions hinted_writes_exactly_once.

(* ---- non-vacuity ---- *)
(* "-9223372036854776" at precision u: the exact product -9223372036854776000 is below MinNanoTime
   (its int64 wrap, 9223372036854775616, would be in range): rejected; one more is accepted *)
Example timestamp_nonvacuous :
  ts_token [45;57;50;50;51;51;55;50;48;51;54;56;53;52;55;55;54] = true /\
  spec_ts_verdict [45;57;50;50;51;51;55;50;48;51;54;56;53;52;55;55;54] [117] = None /\
  zwrap64 (-9223372036854776 * 1000)%Z = 9223372036854775616%Z /\
  parse_points (fun _ => None) false (ts_line [45;57;50;50;51;51;55;50;48;51;54;56;53;52;55;55;54]) 0%Z [117] = Ok [LErr] /\
  spec_ts_verdict [45;57;50;50;51;51;55;50;48;51;54;56;53;52;55;55;53] [117] = Some (-9223372036854775000)%Z /\
  spec_ts_verdict [53;49;50;52;48;57;54] [104] = None /\        (* 5124096 h: wraps to a small positive value *)
  spec_ts_verdict [48;48;55] [115] = Some 7000000000%Z /\ spec_ts_verdict [43;49] [110] = None.
Proof. vm_compute. repeat split; reflexivity. Qed.

(* the hypotheses of timestamp_exact_or_rejected_any_line hold of "cpu,b=2 v=1i 5" *)
Example timestamp_any_line_nonvacuous :
  let buf := [99;112;117;44;98;61;50;32;118;61;49;105;32;53] in
  scan_key buf 0 = Ok (7%nat, [99;112;117;44;98;61;50]) /\
  scan_fields (fun _ => None) false buf 7 = Ok (12%nat, [118;61;49;105]) /\
  scan_time buf 12 = Ok (14%nat, [53]).
Proof. vm_compute. repeat split; reflexivity. Qed.

(* two batches, queue order reversed: the premises of hinted_writes_exactly_once hold *)
Example hinted_writes_nonvacuous :
  let b1 := ([([97], [110;61;49;105], 5%Z)], true) in
  let b2 := ([([98], [110;61;50;105], 6%Z)], true) in
  hw_spec_ok 7 [b1; b2] [marshal_write 7 (hw_batch b2); marshal_write 7 (hw_batch b1)] true false = true /\
  hw_spec_ok 7 [b1; b2] [marshal_write 7 (hw_batch b1); marshal_write 7 (hw_batch b1)] true false = false.
Proof. vm_compute. split; reflexivity. Qed.

Example escape_nonvacuous :
  escape_tag [97; 44; 92; 32; 61] = [97; 92; 44; 92; 92; 32; 92; 61] /\
  unescape_tag [97; 92; 44; 92; 92; 32; 92; 61] = [97; 44; 92; 32; 61].
Proof. vm_compute. split; reflexivity. Qed.

(* "cpu,b=2,a=1 v=1i 5" at precision s: accepted, tags sorted, time scaled *)
Example parse_nonvacuous :
  match parse_points (fun _ => None) false [99;112;117;44;98;61;50;44;97;61;49;32;118;61;49;105;32;53] 0%Z [115] with
  | Ok [LPoint p] => p_key p = [99;112;117;44;97;61;49;44;98;61;50] /\ tm_unix_nano (p_time p) = 5000000000%Z
  | _ => False
  end.
Proof. vm_compute. split; reflexivity. Qed.

Example bin_roundtrip_nonvacuous :
  let p := mk_point [99;112;117] [118;61;49;105] (tm_of_unix_nano 5000000000) in
  match marshal_binary p with
  | Ok b => new_point_from_bytes (fun _ => None) b = Ok p
  | _ => False
  end.
Proof. vm_compute. reflexivity. Qed.

Example key_perm_nonvacuous :
  wf_meas [99;112;117] = true /\ forallb wf_tag [([98],[50]); ([97],[49])] = true /\
  NoDup (map fst [([98],[50]); ([97],[49])]).
Proof.
  split; [reflexivity|]. split; [reflexivity|]. cbn [map fst].
  constructor; [intros [H|[]]; discriminate|]. constructor; [intros []|constructor].
Qed.

(* "a b=1\" (malformed, ends in a backslash) then "c d=2": one error, then the second point *)
Example isolation_nonvacuous :
  line_closed [97;32;98;61;49;92] = true /\
  match parse_points (fun _ => None) false ([97;32;98;61;49;92] ++ c_nl :: [99;32;100;61;50;32;55]) 0%Z [110] with
  | Ok [LErr; LPoint p] => p_key p = [99]
  | _ => False
  end.
Proof. vm_compute. split; reflexivity. Qed.

Example precision_nonvacuous :
  safe_calc_time 2562047 [104] = Ok (tm_of_unix_nano 9223369200000000000) /\
  safe_calc_time 2562048 [104] = Err 20 /\ safe_calc_time 9223372036854775807 [115] = Err 20.
Proof. vm_compute. repeat split; reflexivity. Qed.
