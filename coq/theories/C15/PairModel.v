(* C15/PairModel.v — request/reply pairing on pooled client connections
   (coordinator/shard_writer.go WriteShardBinary, coordinator/meta_executor.go RPC methods,
   coordinator/pool.go pooledConn.Close / MarkUnusable).

   A connection is a FIFO byte stream in each direction and the data node answers the
   requests of one connection strictly in order.  So the reply frames a client can read
   from a connection are the replies to the requests it wrote on it, in that order: the
   model keeps, per client pool, the queue of requests written on the idle pooled
   connection whose reply frame has not been read yet.  A call writes its request
   (appends to the queue) and then either reads ONE reply frame (the head of the queue) or
   gives up (timeout, error): then its reply stays unread.  The client discipline is
       "a connection whose reply was not fully read is never reused"
   (MarkUnusable before the pooled connection is closed).  Definitions only. *)
From Verif Require Export Lib.Bytes.
Open Scope N_scope.

(* one call as the harness observed it *)
Record pcall := PC {
  pc_client : N;      (* which pool: 0 ShardWriter, 1 MetaExecutor *)
  pc_tok : N;         (* the token the request carries (distinct per call) *)
  pc_kind : N;        (* the node's scripted reply to THIS request: 1 success, 2 error reply,
                         3 complete frame with an undecodable body, 4 no complete reply frame *)
  pc_seen : bool;     (* the node received the request *)
  pc_reused : bool;   (* ... on the connection the previous request of this pool was sent on *)
  pc_cls : N;         (* what the caller got: 0 transport/local error (no reply frame read),
                         1 success reply, 2 error reply, 3 undecodable reply, 9 panic *)
  pc_rtok : N }.      (* the token named by what the caller got (0: none visible) *)

Definition reply := (N * N)%type.        (* (token of the request it answers, kind) *)
Definition pools := (list reply * list reply)%type.   (* unread replies of the idle connection, per pool *)

Definition get (st : pools) (cl : N) : list reply := if cl =? 0 then fst st else snd st.
Definition set (st : pools) (cl : N) (q : list reply) : pools :=
  if cl =? 0 then (q, snd st) else (fst st, q).

(* the caller read one complete reply frame *)
Definition got_frame (c : pcall) : bool := (1 <=? pc_cls c) && (pc_cls c <=? 3).

Definition is_nil {A} (l : list A) : bool := match l with [] => true | _ => false end.

(* one call: new pool state, the reply frame it read (if any), and whether the
   discipline was respected (the connection was reused only with nothing unread on it) *)
Definition step (st : pools) (c : pcall) : pools * option reply * bool :=
  if negb (pc_seen c) then (st, None, true)
  else
    let cl := pc_client c in
    let q0 := if pc_reused c then get st cl else [] in
    let disc := negb (pc_reused c) || is_nil (get st cl) in
    let q1 := q0 ++ [(pc_tok c, pc_kind c)] in
    if got_frame c then
      match q1 with
      | h :: t => (set st cl t, Some h, disc)
      | [] => (set st cl [], None, disc)
      end
    else (set st cl q1, None, disc).

Fixpoint run (st : pools) (cs : list pcall) : list (option reply) * bool :=
  match cs with
  | [] => ([], true)
  | c :: r =>
      let '(st', d, ok) := step st c in
      let (ds, oks) := run st' r in
      (d :: ds, ok && oks)
  end.

Definition run0 (cs : list pcall) := run ([], []) cs.

(* is what the caller got the reply frame [r]?  (a success reply of WriteShard /
   ExecuteStatement shows no token) *)
Definition matches (c : pcall) (r : reply) : bool :=
  (pc_cls c =? snd r) && ((pc_rtok c =? 0) || (pc_rtok c =? fst r)) && negb (snd r =? 4).

(* executable spec: the caller is handed the reply to ITS request, or an error that is
   no node's reply *)
Definition call_ok (c : pcall) : bool :=
  (pc_cls c =? 0) || (got_frame c && matches c (pc_tok c, pc_kind c)).
