(* C15/WrapProofs.v — (1) every schema regenerated from data.pb.go is well formed, hence every
   request / response body of the inter-node protocol round-trips and never crashes the decoder
   (instances of the generic theorems of ProtoProofs.v); (2) the rpc.go wrappers of Wrap.v are
   lossless on top of that. *)
From Verif Require Import Lib.Bytes Lib.Varint C15.PointModel C15.PointProofs C15.Proto C15.ProtoProofs C15.ProtoTable C15.Wrap.
From VerifGen Require Import Consts.
From Coq Require Import ZifyBool ZifyNat ZifyN.
Open Scope N_scope.

(* the table IS the finite domain: checked by computation on every run *)
Lemma rpc_schemas_wf : all_wf = true.
Proof. vm_compute. reflexivity. Qed.

Lemma rpc_table_sane :
  names_distinct (map fst c15_rpc_messages) = true /\ c15_pb_matches_proto = true /\
  forallb (fun p : N * N * N * N => let '(c, r, ri, si) := p in
             (r =? c + 1) && (match ri with 0 => true | _ => match schema_by_index ri with Some _ => true | None => false end end)
                          && (match si with 0 => true | _ => match schema_by_index si with Some _ => true | None => false end end))
          c15_rpc_pairs = true.
Proof. vm_compute. repeat split; reflexivity. Qed.

Lemma schema_by_name_wf name s : schema_by_name name = Some s -> wf_schema rpc_depth s = true.
Proof.
  unfold schema_by_name. intros H.
  destruct (find (fun p => name_eqb (fst p) name) rpc_schemas) as [[n [s'|]]|] eqn:F; try discriminate H.
  inversion H; subst s'. apply find_some in F. destruct F as [Hin _].
  pose proof rpc_schemas_wf as W. unfold all_wf in W. rewrite forallb_forall in W.
  exact (W _ Hin).
Qed.

Lemma schema_by_index_wf idx s : schema_by_index idx = Some s -> wf_schema rpc_depth s = true.
Proof.
  unfold schema_by_index. intros H. destruct (idx =? 0); [discriminate H|].
  destruct (nth_error rpc_schemas (N.to_nat (idx - 1))) as [[n [s'|]]|] eqn:F; try discriminate H.
  inversion H; subst s'. apply nth_error_In in F.
  pose proof rpc_schemas_wf as W. unfold all_wf in W. rewrite forallb_forall in W.
  exact (W _ F).
Qed.

Theorem rpc_message_roundtrip_lemma name s m :
  schema_by_name name = Some s -> wf_msg rpc_depth s m = true ->
  decode rpc_depth s (encode rpc_depth s m) = ROk m /\ complete rpc_depth s m = true.
Proof.
  intros Hs Hm. split; [apply decode_encode; [exact (schema_by_name_wf _ _ Hs)|exact Hm]|apply complete_of_wf; exact Hm].
Qed.

Theorem rpc_body_roundtrip_lemma code s m :
  request_schema code = Some s \/ response_schema code = Some s ->
  wf_msg rpc_depth s m = true ->
  decode rpc_depth s (encode rpc_depth s m) = ROk m.
Proof.
  intros Hs Hm. apply decode_encode; [|exact Hm].
  destruct Hs as [Hs|Hs]; [unfold request_schema in Hs|unfold response_schema in Hs];
  destruct (find _ c15_rpc_pairs) as [[[[c r] ri] si]|]; try discriminate Hs; exact (schema_by_index_wf _ _ Hs).
Qed.

(* ================= wrappers ================= *)

Lemma ws_schema_wf : wf_schema rpc_depth ws_schema = true. Proof. reflexivity. Qed.
Lemma es_schema_wf : wf_schema rpc_depth es_schema = true. Proof. reflexivity. Qed.
Lemma ci_schema_wf : wf_schema rpc_depth ci_schema = true. Proof. reflexivity. Qed.
Lemma cir_schema_wf : wf_schema rpc_depth cir_schema = true. Proof. reflexivity. Qed.

Definition oshort (o : option bytes) : bool := match o with Some s => short_b s | None => true end.
Definition dflt (o : option bytes) : bytes := match o with Some s => s | None => [] end.

Lemma forallb_map_vbytes wfs encs f l :
  forallb (wf_elem wfs encs (mkField f LRep (TScalar KBytes))) (map VBytes l) = forallb short_b l.
Proof. induction l as [|x l IH]; [reflexivity|]. cbn [map forallb]. rewrite IH. reflexivity. Qed.

Lemma forallb_map_vnum wfs encs f l :
  forallb (wf_elem wfs encs (mkField f LRep (TScalar KUint64))) (map VNum l) = forallb (fun n => n <? two64) l.
Proof. induction l as [|x l IH]; [reflexivity|]. cbn [map forallb]. rewrite IH. reflexivity. Qed.

Lemma oslot_wf wfs encs f o lab : lab = LOpt \/ (lab = LReq /\ o <> None) ->
  wf_slot wfs encs (mkField f lab (TScalar KBytes)) (oslot o) = oshort o.
Proof.
  intros [->|[-> Hn]]; destruct o as [s|]; try contradiction; unfold wf_slot, oslot, oshort; cbn [forallb flab length wf_elem fty];
    rewrite ?andb_true_r; reflexivity.
Qed.

Lemma bytes_of_map l : bytes_of (map VBytes l) = l.
Proof. induction l as [|x l IH]; [reflexivity|]. cbn [map bytes_of flat_map app] in *. unfold bytes_of in IH. rewrite IH. reflexivity. Qed.

Lemma nums_of_map l : nums_of (map VNum l) = l.
Proof. induction l as [|x l IH]; [reflexivity|]. cbn [map nums_of flat_map app] in *. unfold nums_of in IH. rewrite IH. reflexivity. Qed.

Lemma ws_wf w id :
  ws_id w = Some id -> id < two64 -> forallb short_b (ws_points w) = true ->
  oshort (ws_db w) = true -> oshort (ws_rp w) = true ->
  wf_msg rpc_depth ws_schema (ws_to_msg w) = true.
Proof.
  intros Hid Hlt Hp Hd Hr. destruct w as [i db rp ps]. cbn [ws_id ws_db ws_rp ws_points] in *. subst i.
  unfold rpc_depth, ws_to_msg, ws_schema. cbn [wf_msg fst snd wf_slots nslot ws_id ws_db ws_rp ws_points].
  rewrite !oslot_wf by (left; reflexivity). rewrite Hd, Hr.
  unfold wf_slot at 2. cbn [flab]. rewrite forallb_map_vbytes, Hp.
  unfold wf_slot. cbn [forallb flab fty wf_elem length in_range_b Nat.eqb].
  apply N.ltb_lt in Hlt. rewrite Hlt. reflexivity.
Qed.

Section WriteShard.
  (* the binary point codec of models (C12) enters by hypothesis only *)
  Variable P : Type.
  Variable marshal_point : P -> bytes.
  Variable parse_point : bytes -> option P.
  Hypothesis parse_marshal : forall p, parse_point (marshal_point p) = Some p.

  Lemma filter_map_parse ps : filter_map parse_point (map marshal_point ps) = ps.
  Proof. induction ps as [|p ps IH]; [reflexivity|]. cbn [map filter_map]. rewrite parse_marshal, IH. reflexivity. Qed.

  (* SetShardID / SetDatabase / SetRetentionPolicy / AddPoints, MarshalBinary, UnmarshalBinary on a
     fresh value, then the getters and Points(): everything comes back *)
  Theorem write_shard_request_lossless_lemma id db rp (ps : list P) :
    let w := mkWs (Some id) db rp (map marshal_point ps) in
    id < two64 -> forallb short_b (map marshal_point ps) = true -> oshort db = true -> oshort rp = true ->
    exists m', decode rpc_depth ws_schema (encode rpc_depth ws_schema (ws_to_msg w)) = ROk m' /\
               complete rpc_depth ws_schema (ws_to_msg w) = true /\
               ws_getters m' = (id, dflt db, dflt rp, map marshal_point ps) /\
               filter_map parse_point (snd (ws_getters m')) = ps.
  Proof.
    intros w Hid Hp Hd Hr.
    assert (W : wf_msg rpc_depth ws_schema (ws_to_msg w) = true) by (apply (ws_wf w id); try assumption; reflexivity).
    exists (ws_to_msg w). split; [apply decode_encode; [exact ws_schema_wf|exact W]|].
    split; [apply complete_of_wf; exact W|].
    assert (G : ws_getters (ws_to_msg w) = (id, dflt db, dflt rp, map marshal_point ps)).
    { unfold ws_getters, ws_to_msg, slot, w. cbn [fst nth ws_id ws_db ws_rp ws_points nslot get_num].
      rewrite bytes_of_map. destruct db, rp; reflexivity. }
    split; [exact G|]. rewrite G. cbn [snd]. apply filter_map_parse.
  Qed.
End WriteShard.

Theorem execute_statement_request_lossless_lemma stmt db :
  short_b stmt = true -> short_b db = true ->
  let m := es_to_msg (Some stmt) (Some db) in
  decode rpc_depth es_schema (encode rpc_depth es_schema m) = ROk m /\ es_getters m = (stmt, db).
Proof.
  intros Hs Hd m. split; [|reflexivity].
  apply decode_encode; [exact es_schema_wf|].
  unfold rpc_depth, m, es_to_msg, es_schema. cbn [wf_msg fst snd wf_slots].
  rewrite !oslot_wf by (right; split; [reflexivity|discriminate]). cbn [oshort]. rewrite Hs, Hd. reflexivity.
Qed.

Section CreateIterator.
  (* the codecs of influxql.Measurement, query.IteratorOptions and tracing.SpanContext enter by
     hypothesis only *)
  Variables (M O S : Type).
  Variables (enc_m : M -> bytes) (dec_m : bytes -> option M).
  Variables (enc_o : O -> bytes) (dec_o : bytes -> option O).
  Variables (enc_s : S -> bytes) (dec_s : bytes -> option S).
  Hypothesis Hm : forall x, dec_m (enc_m x) = Some x.
  Hypothesis Ho : forall x, dec_o (enc_o x) = Some x.
  Hypothesis Hs : forall x, dec_s (enc_s x) = Some x.

  Theorem create_iterator_request_lossless_lemma ids (mm : M) (oo : O) (ss : S) :
    forallb (fun n => n <? two64) ids = true ->
    short_b (enc_m mm) = true -> short_b (enc_o oo) = true -> short_b (enc_s ss) = true ->
    let m := ci_to_msg ids (Some (enc_m mm)) (Some (enc_o oo)) (Some (enc_s ss)) in
    decode rpc_depth ci_schema (encode rpc_depth ci_schema m) = ROk m /\
    (let '(i, a, b, c) := ci_getters m in (i, dec_m a, dec_o b, dec_s c)) = (ids, Some mm, Some oo, Some ss).
  Proof.
    intros Hi H1 H2 H3 m. split.
    - apply decode_encode; [exact ci_schema_wf|].
      unfold rpc_depth, m, ci_to_msg, ci_schema. cbn [wf_msg fst snd wf_slots].
      rewrite !oslot_wf by (first [left; reflexivity | right; split; [reflexivity|discriminate]]).
      cbn [oshort]. rewrite H1, H2, H3.
      unfold wf_slot. cbn [flab]. rewrite forallb_map_vnum, Hi. reflexivity.
    - unfold ci_getters, m, ci_to_msg, slot. cbn [fst nth oslot get_bytes]. rewrite nums_of_map, Hm, Ho, Hs. reflexivity.
  Qed.
End CreateIterator.

(* Err, Type (a DataType that fits an int32) and both statistics come back *)
Theorem create_iterator_response_lossless_lemma err typ64 series points :
  oshort err = true -> sext32 (typ64 mod two32) = typ64 -> series < two64 -> points < two64 ->
  let m := cir_to_msg err typ64 series points in
  decode rpc_depth cir_schema (encode rpc_depth cir_schema m) = ROk m /\
  cir_getters m = (err, typ64, series, points).
Proof.
  intros He Ht Hse Hpo m. split.
  - apply decode_encode; [exact cir_schema_wf|].
    unfold rpc_depth, m, cir_to_msg, cir_schema. cbn [wf_msg fst snd wf_slots].
    rewrite oslot_wf by (left; reflexivity). rewrite He.
    assert (Hmod : typ64 mod two32 <? two32 = true) by (apply N.ltb_lt; apply N.mod_lt; discriminate).
    apply N.ltb_lt in Hse. apply N.ltb_lt in Hpo.
    unfold wf_slot. cbn [forallb flab fty wf_elem length in_range_b Nat.eqb Nat.leb].
    rewrite Hmod. cbn [andb].
    cbn [wf_msg fst snd wf_slots stats_schema]. unfold wf_slot. cbn [forallb flab fty wf_elem length in_range_b Nat.leb].
    rewrite Hse, Hpo. cbn [andb].
    (* the nested body is a few bytes long *)
    unfold short_b, blen. rewrite ?andb_true_r.
    apply N.ltb_lt. cbn [encode enc_fields fst snd stats_schema enc_slot flab fty flat_map enc_elem fnum wire_of num_payload vint].
    rewrite !app_length. unfold pb_tag.
    pose proof (put_uvarint_length series). pose proof (put_uvarint_length points).
    pose proof (put_uvarint_length (1 * 8 + 0)). pose proof (put_uvarint_length (2 * 8 + 0)).
    cbn [length]. unfold two64. lia.
  - unfold cir_getters, m, cir_to_msg, slot. cbn [fst nth get_num]. rewrite Ht. destruct err; reflexivity.
Qed.
