(* C15/PointProofs.v — proofs about the streamed point frame model (PointModel.v). *)
From Verif Require Import Lib.Bytes Lib.Varint C15.PointModel.
From VerifGen Require Import Consts.
From Coq Require Import ZifyBool ZifyNat ZifyN.
Open Scope N_scope.

(* ================= generic facts ================= *)

Lemma uvarint_go_shorter : forall buf i sh x v r,
  uvarint_go i sh x buf = Some (v, r) -> (length r < length buf)%nat.
Proof.
  induction buf as [|b buf IH]; intros i sh x v r H; cbn [uvarint_go] in H; [discriminate|].
  destruct (Nat.eqb i 10); [discriminate|].
  destruct (b <? 128).
  - destruct (Nat.eqb i 9 && (1 <? b))%bool; [discriminate|].
    inversion H; subst. cbn [length]. lia.
  - apply IH in H. cbn [length]. lia.
Qed.

Lemma uvarint_shorter b v r : uvarint b = Some (v, r) -> (length r < length b)%nat.
Proof. apply uvarint_go_shorter. Qed.

Lemma take_checked_ok n b :
  (N.of_nat (length b) <? n) = false -> exists a r, take_checked n b = ROk (a, r) /\ b = a ++ r /\ length a = N.to_nat n.
Proof.
  intros H. unfold take_checked.
  destruct (take (N.to_nat n) b) as [[a r]|] eqn:E.
  - apply take_some in E. destruct E as [-> Hl]. exists a, r. auto.
  - apply take_none in E. lia.
Qed.

Lemma take_checked_app a r : take_checked (N.of_nat (length a)) (a ++ r) = ROk (a, r).
Proof. unfold take_checked. rewrite Nat2N.id, take_app. reflexivity. Qed.

Lemma le64_enc_length v : length (le64_enc v) = 8%nat.
Proof. unfold le64_enc. rewrite rev_length. apply be_enc_length. Qed.

Lemma le64_dec_enc v : v < two64 -> le64_dec (le64_enc v) = v.
Proof.
  intros H. unfold le64_dec, le64_enc. rewrite rev_involutive.
  apply be_dec_enc. rewrite <- two64_pow. exact H.
Qed.

Lemma put_uvarint_nonempty v : put_uvarint v <> [].
Proof. apply put_uvarint_fuel_nonempty. Qed.

(* ================= never a crash: the length checks guard every slice ================= *)

Lemma skip_group_no_crash : forall fuel depth b, skip_group fuel depth b <> RCrash.
Proof.
  induction fuel as [|f IH]; intros depth b; cbn [skip_group]; [discriminate|].
  destruct (uvarint b) as [[x b1]|]; [|discriminate].
  destruct (x mod 8 =? 0).
  { destruct (uvarint b1) as [[y b2]|]; [apply IH|discriminate]. }
  destruct (x mod 8 =? 5).
  { destruct (N.of_nat (length b1) <? 4) eqn:E; [discriminate|].
    destruct (take_checked_ok 4 b1 E) as (a & r & -> & _ & _). apply IH. }
  destruct (x mod 8 =? 1).
  { destruct (N.of_nat (length b1) <? 8) eqn:E; [discriminate|].
    destruct (take_checked_ok 8 b1 E) as (a & r & -> & _ & _). apply IH. }
  destruct (x mod 8 =? 2).
  { destruct (uvarint b1) as [[m b2]|]; [|discriminate].
    destruct (N.of_nat (length b2) <? m) eqn:E; [discriminate|].
    destruct (take_checked_ok m b2 E) as (a & r & -> & _ & _). apply IH. }
  destruct (x mod 8 =? 3); [apply IH|].
  destruct (x mod 8 =? 4); [|discriminate].
  destruct depth; [discriminate|apply IH].
Qed.

Lemma read_wval_no_crash wire b : read_wval wire b <> RCrash.
Proof.
  unfold read_wval.
  destruct (wire =? 0).
  { destruct (uvarint b) as [[x r]|]; discriminate. }
  destruct (wire =? 1).
  { destruct (N.of_nat (length b) <? 8) eqn:E; [discriminate|].
    destruct (take_checked_ok 8 b E) as (a & r & -> & _ & _). discriminate. }
  destruct (wire =? 2).
  { destruct (uvarint b) as [[m r]|]; [|discriminate].
    destruct (N.of_nat (length r) <? m) eqn:E; [discriminate|].
    destruct (take_checked_ok m r E) as (a & r' & -> & _ & _). discriminate. }
  destruct (wire =? 3).
  { pose proof (skip_group_no_crash (S (length b)) 0 b) as NC.
    destruct (skip_group (S (length b)) 0 b); [discriminate|discriminate|contradiction]. }
  destruct (wire =? 5); [|discriminate].
  destruct (N.of_nat (length b) <? 4) eqn:E; [discriminate|].
  destruct (take_checked_ok 4 b E) as (a & r & -> & _ & _). discriminate.
Qed.

Lemma msg_loop_no_crash A (apply : A -> N -> wval -> res A) :
  (forall a f v, apply a f v <> RCrash) ->
  forall fuel acc b, msg_loop A apply fuel acc b <> RCrash.
Proof.
  intros Happ. induction fuel as [|f IH]; intros acc b; cbn [msg_loop]; [discriminate|].
  destruct b as [|b0 b']; [discriminate|].
  destruct (uvarint (b0 :: b')) as [[x b1]|]; [|discriminate].
  destruct (x / 8 =? 0); [discriminate|].
  pose proof (read_wval_no_crash (x mod 8) b1) as NC.
  destruct (read_wval (x mod 8) b1) as [[v b2]| |]; [|discriminate|contradiction].
  pose proof (Happ acc (x / 8) v) as NA.
  destruct (apply acc (x / 8) v); [apply IH|discriminate|contradiction].
Qed.

Lemma apply_aux_no_crash a f v : apply_aux a f v <> RCrash.
Proof. unfold apply_aux. discriminate. Qed.

Lemma parse_aux_no_crash b : parse_aux b <> RCrash.
Proof.
  unfold parse_aux, parse_msg.
  pose proof (msg_loop_no_crash _ apply_aux apply_aux_no_crash (S (length b)) aux_init b) as NC.
  destruct (msg_loop aux_acc apply_aux (S (length b)) aux_init b) as [a| |]; [|discriminate|contradiction].
  destruct (a_dt a); discriminate.
Qed.

Lemma apply_point_no_crash c f v : apply_point c f v <> RCrash.
Proof.
  pose proof (fun s => parse_aux_no_crash s) as PA.
  assert (PS : forall s, parse_msg apply_stats tt s <> RCrash).
  { intros s. apply msg_loop_no_crash. intros; discriminate. }
  unfold apply_point.
  destruct f as [|p]; [discriminate|].
  (* decide the field number by its binary digits; every arm is ROk or a nested parse *)
  destruct v as [x|bs|bs|bs|];
  repeat (match goal with
          | |- context [match ?p with xI _ => _ | xO _ => _ | xH => _ end] => destruct p
          end);
  try discriminate;
  try (specialize (PA bs); destruct (parse_aux bs); [discriminate|discriminate|contradiction]);
  try (specialize (PS bs); destruct (parse_msg apply_stats tt bs); [discriminate|discriminate|contradiction]).
Qed.

Lemma decode_body_no_crash t body : decode_body t body <> RCrash.
Proof.
  unfold decode_body, parse_msg.
  pose proof (msg_loop_no_crash _ apply_point apply_point_no_crash (S (length body)) acc_init body) as NC.
  destruct (msg_loop pt_acc apply_point (S (length body)) acc_init body) as [c| |]; [|discriminate|contradiction].
  destruct (negb (required_present c)); [discriminate|].
  destruct (c_stats c); [discriminate|].
  destruct (c_trace c); discriminate.
Qed.

Lemma read_stream_no_crash trace_ok t : forall fuel s, snd (read_stream trace_ok t fuel s) <> SCrash.
Proof.
  induction fuel as [|f IH]; intros s; cbn [read_stream]; [cbn; discriminate|].
  destruct s as [|s0 s']; [cbn; discriminate|].
  destruct (take 4 (s0 :: s')) as [[hdr rest]|]; [|cbn; discriminate].
  assert (H : forall body rest',
    snd (match decode_body t body with
         | RErr => ([], SErr)
         | RCrash => ([], SCrash)
         | ROk FStats => read_stream trace_ok t f rest'
         | ROk (FTrace d) => if trace_ok d then read_stream trace_ok t f rest' else ([], SErr)
         | ROk (FPoint p) => let (ps, e) := read_stream trace_ok t f rest' in (p :: ps, e)
         end) <> SCrash).
  { intros body rest'. pose proof (decode_body_no_crash t body) as NC.
    destruct (decode_body t body) as [[p| |d]| |]; [| | |cbn; discriminate|contradiction].
    - specialize (IH rest'). destruct (read_stream trace_ok t f rest'). exact IH.
    - apply IH.
    - destruct (trace_ok d); [apply IH|cbn; discriminate]. }
  destruct (be_dec hdr =? 0); [apply H|].
  destruct rest as [|r0 rest']; [cbn; discriminate|].
  destruct (N.of_nat (length (r0 :: rest')) <? be_dec hdr) eqn:E; [cbn; discriminate|].
  destruct (take_checked_ok _ _ E) as (a & r & -> & _ & _). apply H.
Qed.

(* ================= fuel: more than the number of bytes never matters ================= *)

Lemma skip_group_shorter : forall fuel depth b r, skip_group fuel depth b = ROk r -> (length r <= length b)%nat.
Proof.
  induction fuel as [|f IH]; intros depth b r H; cbn [skip_group] in H; [discriminate|].
  destruct (uvarint b) as [[x b1]|] eqn:U; [|discriminate].
  apply uvarint_shorter in U.
  destruct (x mod 8 =? 0).
  { destruct (uvarint b1) as [[y b2]|] eqn:U2; [|discriminate].
    apply uvarint_shorter in U2. apply IH in H. lia. }
  destruct (x mod 8 =? 5).
  { destruct (N.of_nat (length b1) <? 4) eqn:E; [discriminate|].
    destruct (take_checked_ok 4 b1 E) as (a & r' & Et & -> & _). rewrite Et in H.
    apply IH in H. rewrite app_length in U. lia. }
  destruct (x mod 8 =? 1).
  { destruct (N.of_nat (length b1) <? 8) eqn:E; [discriminate|].
    destruct (take_checked_ok 8 b1 E) as (a & r' & Et & -> & _). rewrite Et in H.
    apply IH in H. rewrite app_length in U. lia. }
  destruct (x mod 8 =? 2).
  { destruct (uvarint b1) as [[m b2]|] eqn:U2; [|discriminate].
    apply uvarint_shorter in U2.
    destruct (N.of_nat (length b2) <? m) eqn:E; [discriminate|].
    destruct (take_checked_ok m b2 E) as (a & r' & Et & -> & _). rewrite Et in H.
    apply IH in H. rewrite app_length in U2. lia. }
  destruct (x mod 8 =? 3); [apply IH in H; lia|].
  destruct (x mod 8 =? 4); [|discriminate].
  destruct depth; [inversion H; subst; lia|apply IH in H; lia].
Qed.

Lemma read_wval_shorter wire b v r : read_wval wire b = ROk (v, r) -> (length r <= length b)%nat.
Proof.
  unfold read_wval. intros H.
  destruct (wire =? 0).
  { destruct (uvarint b) as [[x r']|] eqn:U; [|discriminate]. inversion H; subst.
    apply uvarint_shorter in U. lia. }
  destruct (wire =? 1).
  { destruct (N.of_nat (length b) <? 8) eqn:E; [discriminate|].
    destruct (take_checked_ok 8 b E) as (a & r' & Et & -> & _). rewrite Et in H.
    inversion H; subst. rewrite app_length. lia. }
  destruct (wire =? 2).
  { destruct (uvarint b) as [[m r']|] eqn:U; [|discriminate]. apply uvarint_shorter in U.
    destruct (N.of_nat (length r') <? m) eqn:E; [discriminate|].
    destruct (take_checked_ok m r' E) as (a & r'' & Et & -> & _). rewrite Et in H.
    inversion H; subst. rewrite app_length in U. lia. }
  destruct (wire =? 3).
  { destruct (skip_group (S (length b)) 0 b) as [r'| |] eqn:SG; [|discriminate|discriminate].
    inversion H; subst. apply skip_group_shorter in SG. exact SG. }
  destruct (wire =? 5); [|discriminate].
  destruct (N.of_nat (length b) <? 4) eqn:E; [discriminate|].
  destruct (take_checked_ok 4 b E) as (a & r' & Et & -> & _). rewrite Et in H.
  inversion H; subst. rewrite app_length. lia.
Qed.

Lemma msg_loop_fuel A (apply : A -> N -> wval -> res A) : forall f1 f2 acc b,
  (length b < f1)%nat -> (length b < f2)%nat -> msg_loop A apply f1 acc b = msg_loop A apply f2 acc b.
Proof.
  induction f1 as [|f1 IH]; intros f2 acc b H1 H2; [lia|].
  destruct f2 as [|f2]; [lia|].
  cbn [msg_loop]. destruct b as [|b0 b']; [reflexivity|].
  destruct (uvarint (b0 :: b')) as [[x b1]|] eqn:U; [|reflexivity].
  apply uvarint_shorter in U.
  destruct (x / 8 =? 0); [reflexivity|].
  destruct (read_wval (x mod 8) b1) as [[v b2]| |] eqn:R; [|reflexivity|reflexivity].
  apply read_wval_shorter in R.
  destruct (apply acc (x / 8) v); [|reflexivity|reflexivity].
  apply IH; lia.
Qed.

Lemma msg_loop_S A (apply : A -> N -> wval -> res A) f acc b :
  msg_loop A apply (S f) acc b =
  match b with
  | [] => ROk acc
  | _ => match uvarint b with
         | None => RErr
         | Some (x, b1) =>
           if x / 8 =? 0 then RErr else
           match read_wval (x mod 8) b1 with
           | RErr => RErr
           | RCrash => RCrash
           | ROk (v, b2) => match apply acc (x / 8) v with
                            | ROk acc' => msg_loop A apply f acc' b2
                            | RErr => RErr
                            | RCrash => RCrash
                            end
           end
         end
  end.
Proof. reflexivity. Qed.

(* fuel-free unfolding of parse_msg *)
Lemma parse_msg_unfold A (apply : A -> N -> wval -> res A) acc b :
  parse_msg apply acc b =
  match b with
  | [] => ROk acc
  | _ => match uvarint b with
         | None => RErr
         | Some (x, b1) =>
           if x / 8 =? 0 then RErr else
           match read_wval (x mod 8) b1 with
           | RErr => RErr
           | RCrash => RCrash
           | ROk (v, b2) => match apply acc (x / 8) v with
                            | ROk acc' => parse_msg apply acc' b2
                            | RErr => RErr
                            | RCrash => RCrash
                            end
           end
         end
  end.
Proof.
  unfold parse_msg. rewrite msg_loop_S. destruct b as [|b0 b']; [reflexivity|].
  destruct (uvarint (b0 :: b')) as [[x b1]|] eqn:U; [|reflexivity].
  apply uvarint_shorter in U.
  destruct (x / 8 =? 0); [reflexivity|].
  destruct (read_wval (x mod 8) b1) as [[v b2]| |] eqn:R; [|reflexivity|reflexivity].
  apply read_wval_shorter in R.
  destruct (apply acc (x / 8) v); [|reflexivity|reflexivity].
  apply msg_loop_fuel; cbn [length] in *; lia.
Qed.

(* ================= one field at a time ================= *)

Definition small_field (f : N) : Prop := 0 < f /\ f < 1152921504606846976.   (* a real field number, < 2^60 *)

Lemma tag_decode f w rest :
  small_field f -> w < 8 ->
  uvarint (pb_tag f w ++ rest) = Some (f * 8 + w, rest) /\ (f * 8 + w) mod 8 = w /\ (f * 8 + w) / 8 = f.
Proof.
  unfold small_field. intros [_ Hf] Hw. unfold pb_tag. split; [|split].
  - apply uvarint_put_uvarint. unfold two64. lia.
  - rewrite N.add_comm, N.mod_add by lia. apply N.mod_small; lia.
  - rewrite N.add_comm, N.div_add by lia. rewrite N.div_small by lia. lia.
Qed.

Lemma parse_step A (apply : A -> N -> wval -> res A) acc f w payload rest v :
  small_field f -> w < 8 ->
  read_wval w (payload ++ rest) = ROk (v, rest) ->
  parse_msg apply acc (pb_tag f w ++ payload ++ rest) =
  match apply acc f v with
  | ROk acc' => parse_msg apply acc' rest
  | RErr => RErr
  | RCrash => RCrash
  end.
Proof.
  intros Hf Hw HR. rewrite parse_msg_unfold.
  destruct (tag_decode f w (payload ++ rest) Hf Hw) as (U & Hm & Hd).
  destruct (pb_tag f w ++ payload ++ rest) as [|b0 b'] eqn:E.
  { exfalso. unfold pb_tag in E. apply app_eq_nil in E. destruct E as [E _].
    exact (put_uvarint_nonempty _ E). }
  rewrite U, Hm, Hd, HR.
  destruct (N.eqb_spec f 0) as [Z|_]; [destruct Hf as [Hf _]; lia|]. reflexivity.
Qed.

Lemma read_wval_varint v rest : v < two64 -> read_wval 0 (put_uvarint v ++ rest) = ROk (WVar v, rest).
Proof. intros H. unfold read_wval. cbn [N.eqb]. rewrite uvarint_put_uvarint by exact H. reflexivity. Qed.

Lemma read_wval_fixed64 v rest : read_wval 1 (le64_enc v ++ rest) = ROk (WF64 (le64_enc v), rest).
Proof.
  unfold read_wval. cbn [N.eqb Pos.eqb].
  rewrite app_length, le64_enc_length.
  destruct (N.ltb_spec (N.of_nat (8 + length rest)) 8) as [H|_]; [lia|].
  pose proof (take_checked_app (le64_enc v) rest) as T. rewrite le64_enc_length in T.
  change (N.of_nat 8) with 8 in T. rewrite T. reflexivity.
Qed.

Lemma read_wval_bytes s rest :
  N.of_nat (length s) < two64 ->
  read_wval 2 (put_uvarint (N.of_nat (length s)) ++ s ++ rest) = ROk (WBytes s, rest).
Proof.
  intros H. unfold read_wval. cbn [N.eqb Pos.eqb].
  rewrite uvarint_put_uvarint by exact H. rewrite app_length.
  destruct (N.ltb_spec (N.of_nat (length s + length rest)) (N.of_nat (length s))) as [H'|_]; [lia|].
  rewrite take_checked_app. reflexivity.
Qed.

Lemma step_varint A (apply : A -> N -> wval -> res A) acc f v rest :
  small_field f -> v < two64 ->
  parse_msg apply acc (pb_varint_field f v ++ rest) =
  match apply acc f (WVar v) with ROk acc' => parse_msg apply acc' rest | RErr => RErr | RCrash => RCrash end.
Proof.
  intros Hf Hv. unfold pb_varint_field. rewrite <- app_assoc.
  apply parse_step; [exact Hf|reflexivity|apply read_wval_varint; exact Hv].
Qed.

Lemma step_fixed64 A (apply : A -> N -> wval -> res A) acc f v rest :
  small_field f ->
  parse_msg apply acc (pb_fixed64_field f v ++ rest) =
  match apply acc f (WF64 (le64_enc v)) with ROk acc' => parse_msg apply acc' rest | RErr => RErr | RCrash => RCrash end.
Proof.
  intros Hf. unfold pb_fixed64_field. rewrite <- app_assoc.
  apply parse_step; [exact Hf|reflexivity|apply read_wval_fixed64].
Qed.

Lemma step_bytes A (apply : A -> N -> wval -> res A) acc f s rest :
  small_field f -> N.of_nat (length s) < two64 ->
  parse_msg apply acc (pb_bytes_field f s ++ rest) =
  match apply acc f (WBytes s) with ROk acc' => parse_msg apply acc' rest | RErr => RErr | RCrash => RCrash end.
Proof.
  intros Hf Hs. unfold pb_bytes_field. rewrite <- app_assoc.
  apply parse_step; [exact Hf|reflexivity|rewrite <- app_assoc; apply read_wval_bytes; exact Hs].
Qed.

Lemma parse_msg_nil A (apply : A -> N -> wval -> res A) acc : parse_msg apply acc [] = ROk acc.
Proof. reflexivity. Qed.

Ltac small := unfold small_field; split; reflexivity.

(* ================= Aux ================= *)

Definition short (s : bytes) : Prop := N.of_nat (length s) < two64.

Definition wf_aux (a : auxv) : Prop :=
  match a with
  | AFloat v | AInteger v | AUnsigned v => v < two64
  | AString s => short s
  | AOther => False
  | _ => True
  end.

(* the Aux message a well-formed value is read back as *)
Definition aux_acc_of (a : auxv) : aux_acc :=
  match a with
  | AFloat v => mkAux (Some dt_float) (Some v) None None None None
  | AFloatNil => mkAux (Some dt_float) None None None None None
  | AInteger v => mkAux (Some dt_integer) None (Some v) None None None
  | AIntegerNil => mkAux (Some dt_integer) None None None None None
  | AUnsigned v => mkAux (Some dt_unsigned) None None None None (Some v)
  | AUnsignedNil => mkAux (Some dt_unsigned) None None None None None
  | AString s => mkAux (Some dt_string) None None (Some s) None None
  | AStringNil => mkAux (Some dt_string) None None None None None
  | ABoolean b => mkAux (Some dt_boolean) None None None (Some b) None
  | ABooleanNil => mkAux (Some dt_boolean) None None None None None
  | AUnknown | AOther => mkAux (Some dt_unknown) None None None None None
  end.

Lemma parse_aux_encode a : wf_aux a -> parse_aux (encode_aux a) = ROk (aux_acc_of a).
Proof.
  intros W. unfold parse_aux, encode_aux.
  destruct a as [v| |v| |v| |s| |b| | |]; cbn [wf_aux] in W; try contradiction;
  cbn [aux_dt aux_acc_of];
  rewrite step_varint by (try small; reflexivity); cbn [apply_aux].
  - rewrite <- (app_nil_r (pb_fixed64_field 2 v)).
    rewrite step_fixed64 by small. cbn [apply_aux]. rewrite parse_msg_nil. cbn [a_dt].
    rewrite le64_dec_enc by exact W. reflexivity.
  - reflexivity.
  - rewrite <- (app_nil_r (pb_varint_field 3 v)).
    rewrite step_varint by (try small; exact W). cbn [apply_aux]. reflexivity.
  - reflexivity.
  - rewrite <- (app_nil_r (pb_varint_field 6 v)).
    rewrite step_varint by (try small; exact W). cbn [apply_aux]. reflexivity.
  - reflexivity.
  - rewrite <- (app_nil_r (pb_bytes_field 4 s)).
    rewrite step_bytes by (try small; exact W). cbn [apply_aux]. reflexivity.
  - reflexivity.
  - rewrite <- (app_nil_r (pb_varint_field 5 (pb_bool b))).
    rewrite step_varint by (try small; destruct b; reflexivity). cbn [apply_aux].
    rewrite parse_msg_nil. destruct b; reflexivity.
  - reflexivity.
  - reflexivity.
Qed.

Lemma decode_aux_of a : wf_aux a -> decode_aux (aux_acc_of a) = a.
Proof. destruct a; cbn; try reflexivity; contradiction. Qed.

(* ================= Tags.ID() ================= *)

Definition no_nul (s : bytes) : Prop := Forall (fun b => b <> 0) s.

Lemma split0_no_nul s : no_nul s -> split0 s = [s].
Proof.
  induction 1 as [|b s Hb Hs IH]; [reflexivity|].
  cbn [split0]. destruct (N.eqb_spec b 0) as [E|_]; [contradiction|]. rewrite IH. reflexivity.
Qed.

Lemma split0_app x s : no_nul x -> split0 (x ++ 0 :: s) = x :: split0 s.
Proof.
  induction 1 as [|b x Hb Hx IH]; [reflexivity|].
  cbn [app split0]. destruct (N.eqb_spec b 0) as [E|_]; [contradiction|]. rewrite IH. reflexivity.
Qed.

Lemma split0_join0 l : l <> [] -> Forall no_nul l -> split0 (join0 l) = l.
Proof.
  induction l as [|x l IH]; intros Hne HF; [contradiction|].
  inversion HF as [|? ? Hx Hl]; subst.
  destruct l as [|y l]; [cbn [join0]; apply split0_no_nul; exact Hx|].
  change (join0 (x :: y :: l)) with (x ++ 0 :: join0 (y :: l)).
  rewrite split0_app by exact Hx. rewrite IH; [reflexivity|discriminate|exact Hl].
Qed.

Definition wf_kvs (kvs : list (bytes * bytes)) : Prop :=
  Forall (fun kv => no_nul (fst kv) /\ no_nul (snd kv)) kvs.

Lemma odd_double n : Nat.odd (n + n) = false.
Proof.
  replace (n + n)%nat with (2 * n)%nat by lia.
  rewrite Nat.odd_mul. reflexivity.
Qed.

Lemma div2_double' n : Nat.div2 (n + n) = n.
Proof. replace (n + n)%nat with (2 * n)%nat by lia. apply Nat.div2_double. Qed.

Lemma combine_fst_snd {A B} (l : list (A * B)) : combine (map fst l) (map snd l) = l.
Proof. induction l as [|[a b] l IH]; cbn; [reflexivity|rewrite IH; reflexivity]. Qed.

Lemma decode_encode_tags kvs : kvs <> [] -> wf_kvs kvs -> decode_tags (encode_tags kvs) = kvs.
Proof.
  intros Hne W. unfold decode_tags, encode_tags.
  destruct kvs as [|kv kvs]; [contradiction|].
  set (l := kv :: kvs) in *.
  assert (HF : Forall no_nul (map fst l ++ map snd l)).
  { apply Forall_app. split; apply Forall_map; eapply Forall_impl; try exact W; cbn; intros a H; tauto. }
  assert (Hn : map fst l ++ map snd l <> []) by (subst l; discriminate).
  rewrite split0_join0 by assumption. cbv zeta.
  assert (La : length (map fst l ++ map snd l) = (length l + length l)%nat)
    by (rewrite app_length, !map_length; reflexivity).
  rewrite La, odd_double. cbv iota. rewrite La, div2_double'.
  rewrite <- (map_length fst l) at 1. rewrite firstn_app, Nat.sub_diag, firstn_all, firstn_O, app_nil_r.
  rewrite <- (map_length fst l) at 1. rewrite skipn_app, Nat.sub_diag, skipn_all, skipn_O. cbn [app].
  apply combine_fst_snd.
Qed.

Lemma new_tags_id_encode kvs : wf_kvs kvs -> new_tags_id (encode_tags kvs) = encode_tags kvs.
Proof.
  intros W. destruct kvs as [|kv kvs]; [reflexivity|].
  unfold new_tags_id. rewrite decode_encode_tags by (try discriminate; exact W). reflexivity.
Qed.

(* ================= Point ================= *)

Definition wf_value (t : ptype) (v : pvalue) : Prop :=
  match t, v with
  | TFloat, VFloat x | TInteger, VInteger x | TUnsigned, VUnsigned x => x < two64
  | TString, VString s => short s
  | TBoolean, VBoolean _ => True
  | _, _ => False
  end.

(* a point as the query engine produces it: 64-bit values, a uint32 aggregate count, a
   Tags.ID() that newTagsID maps to itself (the empty id, or the id of a non-empty tag map
   — see [new_tags_id_encode]), aux values of the ten typed kinds or the untyped nil *)
Definition wf_point (t : ptype) (p : point) : Prop :=
  short (p_name p) /\ short (p_tags p) /\ new_tags_id (p_tags p) = p_tags p /\
  p_time p < two64 /\ p_aggr p < two32 /\ Forall wf_aux (p_aux p) /\
  Forall (fun a => short (encode_aux a)) (p_aux p) /\ wf_value t (p_value p).

Definition with_aux (c : pt_acc) (l : list aux_acc) : pt_acc :=
  mkAcc (c_name c) (c_tags c) (c_time c) (c_nil c) l (c_aggr c) (c_float c) (c_int c) (c_str c) (c_bool c) (c_uns c) (c_stats c) (c_trace c).

Lemma with_aux_same c : with_aux c (c_aux c) = c.
Proof. destruct c; reflexivity. Qed.

Lemma parse_aux_list l : forall c rest,
  Forall wf_aux l -> Forall (fun a => short (encode_aux a)) l ->
  parse_msg apply_point c (encode_aux_list l ++ rest) =
  parse_msg apply_point (with_aux c (c_aux c ++ map aux_acc_of l)) rest.
Proof.
  induction l as [|a l IH]; intros c rest W S.
  - cbn [encode_aux_list flat_map map app]. rewrite app_nil_r, with_aux_same. reflexivity.
  - inversion W as [|? ? Wa Wl]; subst. inversion S as [|? ? Sa Sl]; subst.
    unfold encode_aux_list in *. cbn [flat_map]. rewrite <- app_assoc.
    rewrite step_bytes by (try small; exact Sa).
    cbn [apply_point]. rewrite parse_aux_encode by exact Wa.
    rewrite IH by assumption. unfold with_aux. cbn [c_aux c_name c_tags c_time c_nil c_aggr c_float c_int c_str c_bool c_uns c_stats c_trace].
    cbn [map]. rewrite <- app_assoc. reflexivity.
Qed.

Lemma map_decode_aux_of l : Forall wf_aux l -> map decode_aux (map aux_acc_of l) = l.
Proof.
  induction 1 as [|a l Wa Wl IH]; [reflexivity|].
  cbn [map]. rewrite decode_aux_of by exact Wa. rewrite IH. reflexivity.
Qed.

Lemma pb_bool_lt b : pb_bool b < two64.
Proof. destruct b; reflexivity. Qed.

Lemma negb_pb_bool b : negb (pb_bool b =? 0) = b.
Proof. destruct b; reflexivity. Qed.

Lemma two32_mod x : x < two32 -> x mod two32 = x.
Proof. intros H. apply N.mod_small. exact H. Qed.

Ltac fin_point :=
  rewrite parse_msg_nil; unfold required_present, build_point, opt_default;
  cbn [c_name c_tags c_time c_nil c_aux c_aggr c_float c_int c_str c_bool c_uns c_stats c_trace negb].

Theorem decode_encode_point_body t p :
  wf_point t p -> decode_body t (encode_point_body p) = ROk (FPoint p).
Proof.
  intros (Hn & Ht & Hid & Htime & Haggr & Waux & Saux & Wv).
  unfold decode_body, encode_point_body.
  rewrite <- ?app_assoc.
  rewrite step_bytes by (try small; exact Hn). cbn [apply_point].
  rewrite step_bytes by (try small; exact Ht). cbn [apply_point].
  rewrite step_varint by (try small; exact Htime). cbn [apply_point].
  rewrite step_varint by (try small; apply pb_bool_lt). cbn [apply_point].
  rewrite parse_aux_list by assumption. unfold with_aux.
  cbn [c_aux c_name c_tags c_time c_nil c_aggr c_float c_int c_str c_bool c_uns c_stats c_trace acc_init app].
  assert (Haggr64 : p_aggr p < two64) by (unfold two32, two64 in *; lia).
  rewrite step_varint by (try small; exact Haggr64). cbn [apply_point].
  destruct p as [name tags time nl aux aggr value].
  cbn [p_name p_tags p_time p_nil p_aux p_aggr p_value] in *.
  destruct t, value as [x|x|x|s|b]; cbn [wf_value] in Wv; try contradiction; cbn [encode_value].
  - rewrite <- (app_nil_r (pb_fixed64_field 7 x)).
    rewrite step_fixed64 by small. cbn [apply_point]. fin_point.
    rewrite negb_pb_bool, Hid, map_decode_aux_of, two32_mod, le64_dec_enc by assumption. reflexivity.
  - rewrite <- (app_nil_r (pb_varint_field 8 x)).
    rewrite step_varint by (try small; exact Wv). cbn [apply_point]. fin_point.
    rewrite negb_pb_bool, Hid, map_decode_aux_of, two32_mod by assumption. reflexivity.
  - rewrite <- (app_nil_r (pb_varint_field 12 x)).
    rewrite step_varint by (try small; exact Wv). cbn [apply_point]. fin_point.
    rewrite negb_pb_bool, Hid, map_decode_aux_of, two32_mod by assumption. reflexivity.
  - rewrite <- (app_nil_r (pb_bytes_field 9 s)).
    rewrite step_bytes by (try small; exact Wv). cbn [apply_point]. fin_point.
    rewrite negb_pb_bool, Hid, map_decode_aux_of, two32_mod by assumption. reflexivity.
  - rewrite <- (app_nil_r (pb_varint_field 10 (pb_bool b))).
    rewrite step_varint by (try small; apply pb_bool_lt). cbn [apply_point]. fin_point.
    rewrite !negb_pb_bool, Hid, map_decode_aux_of, two32_mod by assumption. reflexivity.
Qed.

(* ================= frames and the reader loop ================= *)

Lemma read_stream_S trace_ok t f s :
  read_stream trace_ok t (S f) s =
  match s with
  | [] => ([], SEof)
  | _ =>
    match take 4 s with
    | None => ([], SErr)
    | Some (hdr, rest) =>
      let sz := be_dec hdr in
      let handle (body rest' : bytes) :=
        match decode_body t body with
        | RErr => ([], SErr)
        | RCrash => ([], SCrash)
        | ROk FStats => read_stream trace_ok t f rest'
        | ROk (FTrace d) => if trace_ok d then read_stream trace_ok t f rest' else ([], SErr)
        | ROk (FPoint p) => let (ps, e) := read_stream trace_ok t f rest' in (p :: ps, e)
        end in
      if sz =? 0 then handle [] rest
      else match rest with
           | [] => ([], SEof)
           | _ =>
             if N.of_nat (length rest) <? sz then ([], SErr)
             else match take_checked sz rest with
                  | ROk (body, rest') => handle body rest'
                  | RErr => ([], SErr)
                  | RCrash => ([], SCrash)
                  end
           end
    end
  end.
Proof. reflexivity. Qed.

Lemma read_stream_fuel trace_ok t : forall f1 f2 s,
  (length s < f1)%nat -> (length s < f2)%nat -> read_stream trace_ok t f1 s = read_stream trace_ok t f2 s.
Proof.
  induction f1 as [|f1 IH]; intros f2 s H1 H2; [lia|].
  destruct f2 as [|f2]; [lia|].
  rewrite !read_stream_S. destruct s as [|s0 s']; [reflexivity|].
  destruct (take 4 (s0 :: s')) as [[hdr rest]|] eqn:T; [|reflexivity].
  apply take_some in T. destruct T as [T Hl]. cbv zeta.
  assert (Lr : (length rest < f1 /\ length rest < f2)%nat).
  { rewrite T, app_length in H1, H2. lia. }
  assert (HH : forall body rest', (length rest' <= length rest)%nat ->
    match decode_body t body with
    | RErr => ([], SErr)
    | RCrash => ([], SCrash)
    | ROk FStats => read_stream trace_ok t f1 rest'
    | ROk (FTrace d) => if trace_ok d then read_stream trace_ok t f1 rest' else ([], SErr)
    | ROk (FPoint p) => let (ps, e) := read_stream trace_ok t f1 rest' in (p :: ps, e)
    end =
    match decode_body t body with
    | RErr => ([], SErr)
    | RCrash => ([], SCrash)
    | ROk FStats => read_stream trace_ok t f2 rest'
    | ROk (FTrace d) => if trace_ok d then read_stream trace_ok t f2 rest' else ([], SErr)
    | ROk (FPoint p) => let (ps, e) := read_stream trace_ok t f2 rest' in (p :: ps, e)
    end).
  { intros body rest' Hle.
    rewrite (IH f2 rest') by lia. reflexivity. }
  destruct (be_dec hdr =? 0); [apply HH; lia|].
  destruct rest as [|r0 rest0]; [reflexivity|].
  destruct (N.of_nat (length (r0 :: rest0)) <? be_dec hdr) eqn:E; [reflexivity|].
  destruct (take_checked_ok _ _ E) as (a & r & Et & Eq & _). rewrite Et.
  apply HH. rewrite Eq, app_length. lia.
Qed.

Definition frame_ok (body : bytes) : Prop := body <> [] /\ N.of_nat (length body) < two32.

(* reading one frame, then the rest: the fuel-free step of the reader loop *)
Lemma read_frame_step trace_ok t body rest :
  frame_ok body ->
  read_frames_of trace_ok t (frame body ++ rest) =
  match decode_body t body with
  | RErr => ([], SErr)
  | RCrash => ([], SCrash)
  | ROk FStats => read_frames_of trace_ok t rest
  | ROk (FTrace d) => if trace_ok d then read_frames_of trace_ok t rest else ([], SErr)
  | ROk (FPoint p) => let (ps, e) := read_frames_of trace_ok t rest in (p :: ps, e)
  end.
Proof.
  intros [Hne Hlen]. unfold read_frames_of, frame. rewrite read_stream_S.
  rewrite <- app_assoc.
  set (hdr := be_enc 4 (N.of_nat (length body))).
  assert (Lh : length hdr = 4%nat) by apply be_enc_length.
  destruct (hdr ++ body ++ rest) as [|s0 s'] eqn:E.
  { exfalso. destruct hdr; [discriminate Lh|discriminate E]. }
  rewrite <- E. clear s0 s' E.
  pose proof (take_app hdr (body ++ rest)) as T. rewrite Lh in T. rewrite T. clear T. cbv zeta.
  assert (Hd : be_dec hdr = N.of_nat (length body)).
  { subst hdr. apply be_dec_enc. change (256 ^ N.of_nat 4) with two32. exact Hlen. }
  rewrite Hd.
  destruct (N.eqb_spec (N.of_nat (length body)) 0) as [Z|_].
  { exfalso. destruct body; [contradiction|cbn [length] in Z; lia]. }
  destruct (body ++ rest) as [|b0 b'] eqn:E.
  { exfalso. apply app_eq_nil in E. destruct E; contradiction. }
  rewrite <- E. clear b0 b' E.
  rewrite app_length.
  destruct (N.ltb_spec (N.of_nat (length body + length rest)) (N.of_nat (length body))) as [H|_]; [lia|].
  rewrite take_checked_app.
  assert (F : read_stream trace_ok t (length (hdr ++ body ++ rest)) rest = read_stream trace_ok t (S (length rest)) rest).
  { apply read_stream_fuel; rewrite ?app_length, ?Lh; lia. }
  rewrite F. reflexivity.
Qed.

Lemma put_uvarint_fuel_length f v : (length (put_uvarint_fuel f v) <= f)%nat.
Proof.
  revert v; induction f as [|f IH]; intros v; [cbn; lia|].
  cbn [put_uvarint_fuel]. destruct (v <? 128); cbn [length]; [lia|]. specialize (IH (v / 128)). lia.
Qed.

Lemma put_uvarint_length v : (length (put_uvarint v) <= 10)%nat.
Proof. apply put_uvarint_fuel_length. Qed.

Lemma header_fields_step rest :
  parse_msg apply_point acc_init (header_fields ++ rest) =
  parse_msg apply_point
    (mkAcc (Some []) (Some []) (Some 0) (Some false) [] None None None None None None false []) rest.
Proof.
  unfold header_fields. rewrite <- !app_assoc.
  rewrite step_bytes by (try small; reflexivity). cbn [apply_point].
  rewrite step_bytes by (try small; reflexivity). cbn [apply_point].
  rewrite step_varint by (try small; reflexivity). cbn [apply_point].
  rewrite step_varint by (try small; reflexivity). cbn [apply_point].
  reflexivity.
Qed.

Lemma decode_stats_body t a b : a < two64 -> b < two64 -> decode_body t (encode_stats_body a b) = ROk FStats.
Proof.
  intros Ha Hb. unfold decode_body, encode_stats_body.
  rewrite header_fields_step.
  set (inner := pb_varint_field 1 a ++ pb_varint_field 2 b).
  assert (Hin : N.of_nat (length inner) < two64).
  { subst inner. unfold pb_varint_field, pb_tag. rewrite !app_length.
    pose proof (put_uvarint_length a). pose proof (put_uvarint_length b).
    pose proof (put_uvarint_length (1 * 8 + 0)). pose proof (put_uvarint_length (2 * 8 + 0)).
    unfold two64. lia. }
  rewrite <- (app_nil_r (pb_bytes_field 11 inner)).
  rewrite step_bytes by (try small; exact Hin). cbn [apply_point].
  assert (Hp : parse_msg apply_stats tt inner = ROk tt).
  { subst inner. rewrite <- (app_nil_r (pb_varint_field 1 a ++ pb_varint_field 2 b)), <- app_assoc.
    rewrite step_varint by (try small; exact Ha). cbn [apply_stats].
    rewrite step_varint by (try small; exact Hb). reflexivity. }
  rewrite Hp. rewrite parse_msg_nil. reflexivity.
Qed.

Lemma decode_trace_body t d : d <> [] -> short d -> decode_body t (encode_trace_body d) = ROk (FTrace d).
Proof.
  intros Hne Hs. unfold decode_body, encode_trace_body.
  rewrite header_fields_step.
  rewrite <- (app_nil_r (pb_bytes_field 13 d)).
  rewrite step_bytes by (try small; exact Hs). cbn [apply_point].
  rewrite parse_msg_nil. unfold required_present. cbn [c_name c_tags c_time c_nil negb c_stats c_trace].
  destruct d; [contradiction|reflexivity].
Qed.

Definition item_body (i : item) : bytes :=
  match i with
  | IPoint p => encode_point_body p
  | IStats a b => encode_stats_body a b
  | ITrace d => encode_trace_body d
  end.

(* what the encoder side may put on the wire: well-formed points of the stream's type,
   stats frames, non-empty trace frames the reader's context accepts; each frame body
   shorter than 2^32 (the length prefix is a uint32) *)
Definition wf_item (trace_ok : bytes -> bool) (t : ptype) (i : item) : Prop :=
  N.of_nat (length (item_body i)) < two32 /\
  match i with
  | IPoint p => wf_point t p
  | IStats a b => a < two64 /\ b < two64
  | ITrace d => d <> [] /\ short d /\ trace_ok d = true
  end.

Lemma item_body_nonempty i : item_body i <> [].
Proof.
  destruct i as [p|a b|d]; cbn [item_body];
  unfold encode_point_body, encode_stats_body, encode_trace_body, header_fields, pb_bytes_field, pb_tag;
  intros E; apply app_eq_nil in E; destruct E as [E _];
  apply app_eq_nil in E; destruct E as [E _];
  try (apply app_eq_nil in E; destruct E as [E _]);
  exact (put_uvarint_nonempty _ E).
Qed.

Lemma encode_item_frame i : encode_item i = frame (item_body i).
Proof. destruct i; reflexivity. Qed.

Theorem stream_roundtrip trace_ok t items :
  Forall (wf_item trace_ok t) items ->
  read_frames_of trace_ok t (encode_items items) = (points_of items, SEof).
Proof.
  induction 1 as [|i items [Hlen Wi] _ IH]; [reflexivity|].
  unfold encode_items, points_of in *. cbn [flat_map].
  rewrite encode_item_frame.
  rewrite read_frame_step by (split; [apply item_body_nonempty|exact Hlen]).
  destruct i as [p|a b|d]; cbn [item_body].
  - rewrite (decode_encode_point_body t p Wi). rewrite IH. reflexivity.
  - destruct Wi as [Ha Hb]. rewrite decode_stats_body by assumption. rewrite IH. reflexivity.
  - destruct Wi as (Hne & Hs & Hok). rewrite decode_trace_body by assumption. rewrite Hok, IH. reflexivity.
Qed.

Corollary pointframe_roundtrip_lemma trace_ok t p :
  wf_point t p -> N.of_nat (length (encode_point_body p)) < two32 ->
  read_frames_of trace_ok t (frame (encode_point_body p)) = ([p], SEof).
Proof.
  intros W L.
  pose proof (stream_roundtrip trace_ok t [IPoint p]) as H.
  unfold encode_items in H. cbn [flat_map encode_item points_of] in H. rewrite app_nil_r in H.
  apply H. constructor; [split; assumption|constructor].
Qed.

Lemma points_of_map_ipoint ps : points_of (map IPoint ps) = ps.
Proof. induction ps as [|p ps IH]; [reflexivity|]. unfold points_of in *. cbn [map flat_map app]. rewrite IH. reflexivity. Qed.

Lemma points_of_app a b : points_of (a ++ b) = points_of a ++ points_of b.
Proof. unfold points_of. apply flat_map_app. Qed.

(* IteratorEncoder.EncodeIterator (+ EncodeTrace) read back by the reader iterator *)
Corollary iterator_roundtrip_lemma trace_ok t ps sn pn trace :
  Forall (wf_item trace_ok t) (encode_iterator ps sn pn trace) ->
  read_frames_of trace_ok t (encode_items (encode_iterator ps sn pn trace)) = (ps, SEof).
Proof.
  intros W. rewrite (stream_roundtrip trace_ok t _ W). f_equal.
  unfold encode_iterator. cbn [points_of flat_map app].
  change (flat_map (fun i : item => match i with IPoint p => [p] | _ => [] end)) with points_of.
  rewrite !points_of_app, points_of_map_ipoint.
  destruct trace; cbn; rewrite app_nil_r; reflexivity.
Qed.

(* ================= the executable spec of Run.v is met by the model ================= *)

Theorem never_crash_lemma trace_ok t s : snd (read_frames_of trace_ok t s) <> SCrash.
Proof. apply read_stream_no_crash. Qed.

(* the protobuf layout the model hard-codes is the one genconsts re-read *)
Lemma field_tables_checked :
  (c15_pb_point_fields, c15_pb_aux_fields, c15_pb_stats_fields, c15_pb_proto3_or_packed)
  = (modelled_point_fields, modelled_aux_fields, modelled_stats_fields, false).
Proof. exact field_tables_as_modelled. Qed.
