(* C15/Proto.v — a GENERIC, executable, byte-exact model of how gogo/protobuf v1.3.2 (table
   driven: proto/table_marshal.go, proto/table_unmarshal.go) writes and reads ANY proto2
   message described by a schema, used for every message of coordinator/internal/data.proto
   (the request / response bodies of coordinator/rpc.go).

     schema   = list of fields in wire-tag order (marshalInfo.fields after sort.Sort(byTag));
                a field = number, label (optional | required | repeated | repeated packed),
                type (scalar kind | nested message schema)
     value    = VNum (bit pattern) | VBytes | VMsg slots unrecognized ;  one slot per field:
                the list of the field's elements ([] = nil pointer / nil slice, [v] = set)
     encode   = marshalInfo.marshal: fields in order, nil skipped, required nil -> error
                remembered and marshaling goes on, XXX_unrecognized appended
     dec/decode = unmarshalInfo.unmarshal: tag loop, tag 0 illegal, typed unmarshaler when the
                wire type is the field's (or a packed block for a repeated number), otherwise
                and for unknown numbers skipField + kept in XXX_unrecognized, last one wins
                for optional scalars, append for repeated, MERGE for a repeated occurrence of
                a nested message, RequiredNotSetError remembered (parsing goes on)

   The varint / tag / length / skip machinery is PointModel.v's (read_wval, skip_group,
   take_checked: a slice beyond the buffer would be RCrash).  Nested messages recurse on a
   depth index d (a schema "fits" d when its nesting is at most d).  Definitions only. *)
From Verif Require Export Lib.Bytes Lib.Varint C15.PointModel.
Open Scope N_scope.

(* ---------- schemas ---------- *)

Inductive skind :=
| KUint64 | KInt64 | KUint32 | KInt32 | KBool | KEnum    (* wire type 0 *)
| KSint32 | KSint64                                       (* wire type 0, zig-zag *)
| KFixed64                                                (* fixed64 / sfixed64 / double *)
| KFixed32                                                (* fixed32 / sfixed32 / float *)
| KBytes.                                                 (* bytes / string (proto2: no UTF-8 check) *)

Inductive label := LOpt | LReq | LRep | LRepPacked.

Inductive ftype := TScalar (k : skind) | TMsg (fs : list field)
with field := mkField (f_num : N) (f_lab : label) (f_ty : ftype).

Definition schema := list field.

Definition fnum (f : field) : N := match f with mkField n _ _ => n end.
Definition flab (f : field) : label := match f with mkField _ l _ => l end.
Definition fty (f : field) : ftype := match f with mkField _ _ t => t end.

Definition is_rep (l : label) : bool := match l with LRep | LRepPacked => true | _ => false end.
Definition is_req (l : label) : bool := match l with LReq => true | _ => false end.

Definition wire_of (k : skind) : N :=
  match k with KFixed64 => 1 | KFixed32 => 5 | KBytes => 2 | _ => 0 end.

Definition numeric (k : skind) : bool := match k with KBytes => false | _ => true end.

(* ---------- values ---------- *)

Inductive value :=
| VNum (n : N)           (* the 64-bit (32-bit for the 32-bit kinds) pattern; bool as 0 / 1 *)
| VBytes (b : bytes)
| VMsg (slots : list (list value)) (unrec : bytes).

Definition msgv : Type := (list (list value) * bytes)%type.

Definition empty_msg (fs : schema) : msgv := (map (fun _ => @nil value) fs, []).

(* ---------- scalars ---------- *)

Definition two31 : N := 2147483648.

(* uint64(v) for an int32 v: sign extension *)
Definition sext32 (n : N) : N := if n <? two31 then n else n + (two64 - two32).

(* 32-bit zig-zag: uint64((uint32(v) << 1) ^ uint32(v >> 31)) *)
Definition zz_enc32 (n : N) : N := if n <? two31 then 2 * n else 2 * (two32 - n) - 1.
(* int32(x>>1) ^ int32(x)<<31>>31 *)
Definition zz_dec32 (x : N) : N :=
  if N.even x then (x / 2) mod two32 else two32 - 1 - (x / 2) mod two32.

(* the uint64 handed to appendVarint for a value of a wire-type-0 kind *)
Definition vint (k : skind) (n : N) : N :=
  match k with
  | KInt32 | KEnum => sext32 n
  | KSint32 => zz_enc32 n
  | KSint64 => zz_enc64 n
  | _ => n
  end.

(* the stored value for a decoded varint x *)
Definition norm (k : skind) (x : N) : N :=
  match k with
  | KUint32 | KInt32 | KEnum => x mod two32
  | KBool => if x =? 0 then 0 else 1
  | KSint32 => zz_dec32 x
  | KSint64 => zz_dec64 x
  | _ => x
  end.

Definition in_range (k : skind) (n : N) : Prop :=
  match k with
  | KUint32 | KInt32 | KEnum | KSint32 | KFixed32 => n < two32
  | KBool => n < 2
  | _ => n < two64
  end.

Definition in_range_b (k : skind) (n : N) : bool :=
  match k with
  | KUint32 | KInt32 | KEnum | KSint32 | KFixed32 => n <? two32
  | KBool => n <? 2
  | _ => n <? two64
  end.

Definition le32_enc (v : N) : bytes := rev (be_enc 4 v).
Definition le32_dec (l : bytes) : N := be_dec (rev l).

(* the bytes after the tag for one number of kind k (k numeric) *)
Definition num_payload (k : skind) (n : N) : bytes :=
  match k with
  | KFixed64 => le64_enc n
  | KFixed32 => le32_enc n
  | _ => put_uvarint (vint k n)
  end.

(* ---------- marshal ---------- *)

Definition blen (b : bytes) : N := N.of_nat (length b).

Section EncLevel.
  (* marshaling of a nested message: schema, slots, unrecognized *)
  Variable enc_sub : schema -> msgv -> bytes.

  (* one element of a field: tag and payload (non-packed) *)
  Definition enc_elem (f : field) (v : value) : bytes :=
    match fty f, v with
    | TScalar KBytes, VBytes s => pb_tag (fnum f) 2 ++ put_uvarint (blen s) ++ s
    | TScalar KBytes, _ => []
    | TScalar k, VNum n => pb_tag (fnum f) (wire_of k) ++ num_payload k n
    | TMsg sub, VMsg sl u =>
        let body := enc_sub sub (sl, u) in
        pb_tag (fnum f) 2 ++ put_uvarint (blen body) ++ body
    | _, _ => []          (* a value of another type than the field's: excluded by wf_slot;
                             Go's static types make it unrepresentable *)
    end.

  Definition packed_payload (k : skind) (sl : list value) : bytes :=
    flat_map (fun v => match v with VNum n => num_payload k n | _ => [] end) sl.

  (* all elements of one field *)
  Definition enc_slot (f : field) (sl : list value) : bytes :=
    match flab f, fty f with
    | LRepPacked, TScalar k =>
        match sl with
        | [] => []
        | _ => let body := packed_payload k sl in
               pb_tag (fnum f) 2 ++ put_uvarint (blen body) ++ body
        end
    | _, _ => flat_map (enc_elem f) sl
    end.

  Fixpoint enc_fields (fs : schema) (slots : list (list value)) : bytes :=
    match fs, slots with
    | f :: fs', sl :: slots' => enc_slot f sl ++ enc_fields fs' slots'
    | _, _ => []
    end.
End EncLevel.

(* proto.Marshal's bytes ("a complete marshaling" even when a required field is nil) *)
Fixpoint encode (d : nat) (fs : schema) (m : msgv) : bytes :=
  match d with
  | O => []
  | S d' => enc_fields (encode d') fs (fst m) ++ snd m
  end.

(* does proto.Marshal return nil error: every required field set, in nested messages too *)
Section CompleteLevel.
  Variable complete_sub : schema -> msgv -> bool.
  Definition complete_elem (f : field) (v : value) : bool :=
    match fty f, v with
    | TMsg sub, VMsg sl u => complete_sub sub (sl, u)
    | _, _ => true
    end.
  Fixpoint complete_fields (fs : schema) (slots : list (list value)) : bool :=
    match fs, slots with
    | f :: fs', sl :: slots' =>
        (if is_req (flab f) then match sl with [] => false | _ => true end else true)
        && forallb (complete_elem f) sl && complete_fields fs' slots'
    | _, _ => true
    end.
End CompleteLevel.

Fixpoint complete (d : nat) (fs : schema) (m : msgv) : bool :=
  match d with
  | O => true
  | S d' => complete_fields (complete d') fs (fst m)
  end.

(* ---------- unmarshal ---------- *)

Record dstate := mkSt {
  st_slots : list (list value);
  st_unrec : bytes;
  st_seen : list N;        (* numbers of the required fields decoded so far (reqMask) *)
  st_later : bool }.       (* errLater: a RequiredNotSetError of a nested message *)

(* the field with number [num] and its current slot *)
Fixpoint lookup (fs : schema) (slots : list (list value)) (num : N) : option (field * list value) :=
  match fs, slots with
  | f :: fs', sl :: slots' => if fnum f =? num then Some (f, sl) else lookup fs' slots' num
  | _, _ => None
  end.

Fixpoint set_slot (fs : schema) (slots : list (list value)) (num : N) (new : list value) : list (list value) :=
  match fs, slots with
  | f :: fs', sl :: slots' => if fnum f =? num then new :: slots' else sl :: set_slot fs' slots' num new
  | _, _ => slots
  end.

(* does the field's unmarshaler take wire type w (otherwise errInternalBadWireType: the
   fragment is treated as an unknown field) *)
Definition accepts (f : field) (w : N) : bool :=
  match fty f with
  | TScalar k => (w =? wire_of k) || (is_rep (flab f) && numeric k && (w =? 2))
  | TMsg _ => w =? 2
  end.

(* a packed block: numbers until the block is used up; a number cut short is an error *)
Fixpoint unpack (k : skind) (fuel : nat) (b : bytes) : res (list value) :=
  match fuel with
  | O => RErr
  | S f =>
    match b with
    | [] => ROk []
    | _ =>
      match read_wval (wire_of k) b with
      | RErr => RErr
      | RCrash => RCrash
      | ROk (wv, r) =>
        let v := match wv with
                 | WVar x => VNum (norm k x)
                 | WF64 bs => VNum (le64_dec bs)
                 | WF32 bs => VNum (le32_dec bs)
                 | _ => VNum 0
                 end in
        match unpack k f r with
        | ROk l => ROk (v :: l)
        | RErr => RErr
        | RCrash => RCrash
        end
      end
    end
  end.

Inductive conv_res := CvOk (new : list value) (later : bool) | CvErr | CvCrash.

Section DecLevel.
  (* unmarshaling of a nested message INTO an existing one: (message, RequiredNotSet?) *)
  Variable dec_sub : schema -> msgv -> bytes -> res (msgv * bool).

  (* the typed unmarshaler of field f applied to the value wv just read; cur = the slot *)
  Definition conv (f : field) (cur : list value) (wv : wval) : conv_res :=
    let put (v : value) := CvOk (if is_rep (flab f) then cur ++ [v] else [v]) false in
    match fty f, wv with
    | TScalar KBytes, WBytes s => put (VBytes s)
    | TScalar KBytes, _ => CvErr
    | TScalar KFixed64, WF64 bs => put (VNum (le64_dec bs))
    | TScalar KFixed32, WF32 bs => put (VNum (le32_dec bs))
    | TScalar k, WVar x => put (VNum (norm k x))
    | TScalar k, WBytes body =>             (* packed block of a repeated number *)
        match unpack k (S (length body)) body with
        | ROk l => CvOk (cur ++ l) false
        | RErr => CvErr
        | RCrash => CvCrash
        end
    | TMsg sub, WBytes body =>
        let init := if is_rep (flab f) then empty_msg sub
                    else match cur with
                         | VMsg sl u :: _ => (sl, u)       (* merge into the existing message *)
                         | _ => empty_msg sub
                         end in
        match dec_sub sub init body with
        | ROk (m, later) =>
            CvOk (if is_rep (flab f) then cur ++ [VMsg (fst m) (snd m)] else [VMsg (fst m) (snd m)]) later
        | RErr => CvErr
        | RCrash => CvCrash
        end
    | _, _ => CvErr       (* unreachable: [accepts] admitted the wire type *)
    end.

  (* b0[:len(b0)-len(b)]: what skipField stepped over *)
  Definition consumed (b0 b : bytes) : bytes := firstn (length b0 - length b) b0.

  (* an unknown field number, or a known one with a wire type its unmarshaler refuses:
     skipField, and the fragment (tag re-encoded) is kept in XXX_unrecognized *)
  Definition dec_unknown (k : dstate -> bytes -> res dstate) (st : dstate) (x : N) (b1 : bytes) : res dstate :=
    match read_wval (x mod 8) b1 with
    | RErr => RErr
    | RCrash => RCrash
    | ROk (_, b2) =>
        k (mkSt (st_slots st) (st_unrec st ++ put_uvarint x ++ consumed b1 b2)
                (st_seen st) (st_later st)) b2
    end.

  (* one iteration of the tag loop; [k] continues with the rest of the buffer *)
  Definition dec_step (k : dstate -> bytes -> res dstate) (fs : schema) (st : dstate) (b : bytes) : res dstate :=
    match b with
    | [] => ROk st
    | _ =>
      match uvarint b with
      | None => RErr
      | Some (x, b1) =>
        let num := x / 8 in
        let w := x mod 8 in
        if num =? 0 then RErr else           (* "illegal tag 0" *)
        match lookup fs (st_slots st) num with
        | None => dec_unknown k st x b1
        | Some (f, cur) =>
          if negb (accepts f w) then dec_unknown k st x b1 else
          match read_wval w b1 with
          | RErr => RErr
          | RCrash => RCrash
          | ROk (wv, b2) =>
            match conv f cur wv with
            | CvErr => RErr
            | CvCrash => RCrash
            | CvOk new later =>
                k (mkSt (set_slot fs (st_slots st) num new) (st_unrec st)
                        (if is_req (flab f) then num :: st_seen st else st_seen st)
                        (st_later st || later)) b2
            end
          end
        end
      end
    end.

  (* every iteration consumes at least the tag byte: fuel = S (length b) always suffices *)
  Fixpoint dec_loop (fuel : nat) (fs : schema) (st : dstate) (b : bytes) : res dstate :=
    match fuel with
    | O => RErr
    | S fu => dec_step (dec_loop fu fs) fs st b
    end.
End DecLevel.

Definition req_ok (fs : schema) (seen : list N) : bool :=
  forallb (fun f => negb (is_req (flab f)) || existsb (N.eqb (fnum f)) seen) fs.

(* unmarshalInfo.unmarshal(m, b): the filled message and whether a RequiredNotSetError
   is returned *)
Fixpoint dec (d : nat) (fs : schema) (init : msgv) (b : bytes) : res (msgv * bool) :=
  match d with
  | O => RErr              (* a schema nested deeper than d: excluded by [fits] *)
  | S d' =>
    match dec_loop (dec d') (S (length b)) fs (mkSt (fst init) (snd init) [] false) b with
    | ROk st => ROk ((st_slots st, st_unrec st), st_later st || negb (req_ok fs (st_seen st)))
    | RErr => RErr
    | RCrash => RCrash
    end
  end.

(* proto.Unmarshal(b, &pb): Reset, then unmarshal; any error fails the caller *)
Definition decode (d : nat) (fs : schema) (b : bytes) : res msgv :=
  match dec d fs (empty_msg fs) b with
  | ROk (m, false) => ROk m
  | ROk (_, true) => RErr
  | RErr => RErr
  | RCrash => RCrash
  end.

(* ---------- well-formedness ---------- *)

(* field numbers strictly increasing (the marshal order) and below 2^29 *)
Fixpoint nums_ok (prev : N) (fs : schema) : bool :=
  match fs with
  | [] => true
  | f :: r => (prev <? fnum f) && (fnum f <? 536870912) && nums_ok (fnum f) r
  end.

Definition label_ok (f : field) : bool :=
  match flab f, fty f with
  | LRepPacked, TScalar k => numeric k
  | LRepPacked, TMsg _ => false
  | _, _ => true
  end.

(* nesting depth at most d, every level well formed *)
Fixpoint wf_schema (d : nat) (fs : schema) : bool :=
  match d with
  | O => false
  | S d' => nums_ok 0 fs && forallb label_ok fs &&
            forallb (fun f => match fty f with TMsg sub => wf_schema d' sub | _ => true end) fs
  end.

Definition short_b (s : bytes) : bool := blen s <? two64.

Section WfLevel.
  Variable wf_sub : schema -> msgv -> bool.
  Variable enc_sub : schema -> msgv -> bytes.
  Definition wf_elem (f : field) (v : value) : bool :=
    match fty f, v with
    | TScalar KBytes, VBytes s => short_b s
    | TScalar KBytes, _ => false
    | TScalar k, VNum n => in_range_b k n
    | TMsg sub, VMsg sl u => wf_sub sub (sl, u) && short_b (enc_sub sub (sl, u))
    | _, _ => false
    end.
  Definition wf_slot (f : field) (sl : list value) : bool :=
    forallb (wf_elem f) sl &&
    match flab f with
    | LOpt => (length sl <=? 1)%nat
    | LReq => (length sl =? 1)%nat
    | LRep => true
    | LRepPacked => match fty f with TScalar k => short_b (packed_payload k sl) | _ => false end
    end.
  Fixpoint wf_slots (fs : schema) (slots : list (list value)) : bool :=
    match fs, slots with
    | [], [] => true
    | f :: fs', sl :: slots' => wf_slot f sl && wf_slots fs' slots'
    | _, _ => false
    end.
End WfLevel.

(* a message value a sender can build and marshal without error: one slot per field,
   numbers in the range of their kind, optional fields at most once and required fields
   exactly once, nested messages well formed, no unrecognized bytes, every length < 2^64 *)
Fixpoint wf_msg (d : nat) (fs : schema) (m : msgv) : bool :=
  match d with
  | O => false
  | S d' => wf_slots (wf_msg d') (encode d') fs (fst m) && match snd m with [] => true | _ => false end
  end.

(* ---------- size of a decoded value (for the allocation bound) ---------- *)

Section SizeLevel.
  Variable size_sub : list (list value) -> bytes -> nat.
  Definition vsize_elem (v : value) : nat :=
    match v with
    | VNum _ => 1
    | VBytes s => 1 + length s
    | VMsg sl u => 1 + size_sub sl u
    end.
  Definition slots_size (slots : list (list value)) : nat :=
    fold_right (fun sl acc => fold_right (fun v a => vsize_elem v + a) 0 sl + acc)%nat 0%nat slots.
End SizeLevel.

(* number of elements + number of payload bytes held by a message value, to depth d *)
Fixpoint msize (d : nat) (slots : list (list value)) (u : bytes) : nat :=
  match d with
  | O => 0
  | S d' => slots_size (msize d') slots + length u
  end.
