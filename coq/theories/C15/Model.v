(* C15/Model.v — executable model of the inter-node TLV framing
   (coordinator/service.go: ReadType, ReadLV, ReadTLV, WriteTLV, WriteLV) and of the
   dispatch loop of Service.handleConn.  Definitions only; proofs live in Proofs.v. *)
From Verif Require Export Lib.Bytes.
From VerifGen Require Import Consts.
Open Scope N_scope.

(* ---------- ReadLV ---------- *)

(* outcome of one framing read.  [LvCrash] is Go's panic in make([]byte, sz) with sz<0.
   [alloc] is the size handed to make() (0 when no allocation happens). *)
Inductive lv_out :=
| LvOk (payload rest : bytes) (alloc : Z)
| LvErr (rest : bytes) (alloc : Z)     (* error returned; rest = unread bytes *)
| LvCrash.

(* binary.Read(r, BigEndian, &sz) = io.ReadFull of 8 bytes: a short read consumes
   everything that was there. *)
Definition read_lv_with (neg_check : bool) (max : Z) (s : bytes) : lv_out :=
  match take 8 s with
  | None => LvErr [] 0
  | Some (hdr, rest) =>
      let sz := to_int64 (be_dec hdr) in
      if (sz >=? max)%Z then LvErr rest 0
      else if (sz <? 0)%Z then (if neg_check then LvErr rest 0 else LvCrash)
      else if (Z.of_nat (length rest) <? sz)%Z then LvErr [] sz   (* short payload: all consumed *)
      else match take (Z.to_nat sz) rest with
           | Some (p, rest') => LvOk p rest' sz
           | None => LvErr [] sz
           end
  end.

(* ReadLV as repaired by the "fix:" commit (negative sizes are rejected before make);
   [read_lv_with false] is the pinned-tree behaviour, kept for the refutation lemma. *)
Definition read_lv (s : bytes) : lv_out := read_lv_with true max_message_size s.

Inductive tlv_out :=
| TlvOk (typ : N) (payload rest : bytes)
| TlvErr
| TlvCrash.

Definition read_tlv (s : bytes) : tlv_out :=
  match s with
  | [] => TlvErr
  | t :: s1 => match read_lv s1 with
               | LvOk p r _ => TlvOk t p r
               | LvErr _ _ => TlvErr
               | LvCrash => TlvCrash
               end
  end.

Definition write_lv (buf : bytes) : bytes := be_enc 8 (N.of_nat (length buf)) ++ buf.
Definition write_tlv (typ : N) (buf : bytes) : bytes := typ :: write_lv buf.

(* ---------- dispatch loop of handleConn ---------- *)

(* How handleConn treats a message type (table regenerated from the switch):
   DInline  : handleConn itself calls ReadLV; on error it returns (no reply), otherwise
              replies with type+1 and continues.
   DProcCont: process*(conn) does DecodeLV; always one reply of type+1; loop continues.
   DProcRet : same but handleConn returns afterwards.
   DNoLVCont/DNoLVRet: the process function reads no length-value (one reply).
   DRawRet  : DecodeLV, then a raw byte stream (no TLV reply frames) or, on error, a
              silent close; handleConn returns. *)
Definition lookup_dispatch (t : N) : option dispatch_kind :=
  match find (fun e => N.eqb (fst e) t) dispatch_table with
  | Some e => Some (snd e)
  | None => None
  end.

Inductive event :=
| EReply (typ : N) (lv_ok : bool)   (* a reply frame of this type was written *)
| ERaw                              (* a raw (unframed) byte stream may follow; connection ends *)
| ECrash.

(* fuel = number of bytes + 1 is always enough: every iteration consumes >= 1 byte *)
Fixpoint serve (fuel : nat) (s : bytes) : list event :=
  match fuel with
  | O => []
  | S f =>
    match s with
    | [] => []                                   (* EOF on type byte: return *)
    | t :: s1 =>
      match lookup_dispatch t with
      | None => serve f s1                       (* unknown type: warn, continue *)
      | Some DInline =>
          match read_lv s1 with
          | LvOk _ r _ => EReply (t + 1) true :: serve f r
          | LvErr _ _ => []
          | LvCrash => [ECrash]
          end
      | Some DProcCont =>
          match read_lv s1 with
          | LvOk _ r _ => EReply (t + 1) true :: serve f r
          | LvErr r _ => EReply (t + 1) false :: serve f r
          | LvCrash => [ECrash]
          end
      | Some DProcRet =>
          match read_lv s1 with
          | LvOk _ _ _ => [EReply (t + 1) true]
          | LvErr _ _ => [EReply (t + 1) false]
          | LvCrash => [ECrash]
          end
      | Some DNoLVCont => EReply (t + 1) true :: serve f s1
      | Some DNoLVRet => [EReply (t + 1) true]
      | Some DRawRet =>
          match read_lv s1 with
          | LvOk _ _ _ => [ERaw]
          | LvErr _ _ => []
          | LvCrash => [ECrash]
          end
      end
    end
  end.

Definition serve_stream (s : bytes) : list event := serve (S (length s)) s.

Definition no_crash (evs : list event) : bool :=
  forallb (fun e => match e with ECrash => false | _ => true end) evs.
