(* C15/PointModel.v — executable, byte-exact model of the streamed query point frames:
     query/point.go        encodeTags / decodeTags / newTagsID, encodeAux / decodeAux
     query/point.gen.go    encode<T>Point / decode<T>Point, <T>PointEncoder / <T>PointDecoder
                           (4-byte big-endian length prefix, stats / trace frames skipped)
     query/iterator.gen.go <t>ReaderIterator.Next (io.EOF ends the stream)
     query/iterator.go     IteratorEncoder.encodeStats / EncodeTrace frames
   and of the protobuf wire format of the messages Point / Aux / IteratorStats of
   query/internal/internal.proto as gogo/protobuf v1.3 (table-driven, proto2) writes and
   reads it: fields in field-number order, varint / fixed64 / length-delimited, optional
   presence, unknown fields and wrong wire types skipped, groups, required-field check.
   Field numbers, wire kinds and labels are re-read from internal.pb.go by genconsts.
   Definitions only; proofs live in PointProofs.v. *)
From Verif Require Export Lib.Bytes Lib.Varint.
From VerifGen Require Import Consts.
Open Scope N_scope.

Definition two32 : N := 4294967296.

(* the model below hard-codes the field layout; this definition stops compiling
   (reflexivity fails in PointProofs.field_tables_as_modelled) when the generated
   tables change *)
Definition modelled_point_fields : list (N * N * N) :=
  (* (field number, wire type, label: 0 optional, 1 required, 2 repeated) *)
  [ (1, 2, 1); (2, 2, 1); (3, 0, 1); (4, 0, 1); (5, 2, 2); (6, 0, 0); (7, 1, 0); (8, 0, 0);
    (9, 2, 0); (10, 0, 0); (12, 0, 0); (11, 2, 0); (13, 2, 0) ].
Definition modelled_aux_fields : list (N * N * N) :=
  [ (1, 0, 1); (2, 1, 0); (3, 0, 0); (4, 2, 0); (5, 0, 0); (6, 0, 0) ].
Definition modelled_stats_fields : list (N * N * N) := [ (1, 0, 0); (2, 0, 0) ].

(* influxql.DataType codes used by encodeAux / decodeAux (checked against the working
   tree by the harness case CPtConsts on every run) *)
Definition dt_unknown : N := 0.
Definition dt_float : N := 1.
Definition dt_integer : N := 2.
Definition dt_string : N := 3.
Definition dt_boolean : N := 4.
Definition dt_unsigned : N := 9.

(* ---------- values ---------- *)

(* int64 / uint64 / float64 values are carried as their 64-bit pattern (N < 2^64) *)
Inductive auxv :=
| AFloat (bits : N) | AFloatNil
| AInteger (v : N) | AIntegerNil
| AUnsigned (v : N) | AUnsignedNil
| AString (s : bytes) | AStringNil
| ABoolean (b : bool) | ABooleanNil
| AUnknown            (* untyped nil *)
| AOther.             (* any other Go value: encodeAux's default arm *)

Inductive ptype := TFloat | TInteger | TUnsigned | TString | TBoolean.

Inductive pvalue :=
| VFloat (bits : N) | VInteger (v : N) | VUnsigned (v : N) | VString (s : bytes) | VBoolean (b : bool).

Record point := mkPoint {
  p_name : bytes;
  p_tags : bytes;        (* Tags.ID() *)
  p_time : N;
  p_nil : bool;
  p_aux : list auxv;
  p_aggr : N;            (* uint32 *)
  p_value : pvalue }.

(* ---------- Tags.ID(): encodeTags / decodeTags ---------- *)

Fixpoint join0 (l : list bytes) : bytes :=
  match l with
  | [] => []
  | [x] => x
  | x :: r => x ++ 0 :: join0 r
  end.

(* kvs = the map in sorted key order (sort.Strings(keys)) *)
Definition encode_tags (kvs : list (bytes * bytes)) : bytes :=
  match kvs with
  | [] => []
  | _ => join0 (map fst kvs ++ map snd kvs)
  end.

(* bytes.Split(id, {0}) *)
Fixpoint split0 (s : bytes) : list bytes :=
  match s with
  | [] => [[]]
  | b :: r => if b =? 0 then [] :: split0 r
              else match split0 r with
                   | x :: xs => (b :: x) :: xs
                   | [] => [[b]]
                   end
  end.

(* the segment pairs in index order; the Go map keeps the last value of a repeated key *)
Definition decode_tags (id : bytes) : list (bytes * bytes) :=
  let a := split0 id in
  let a := if Nat.odd (length a) then removelast a else a in
  let mid := Nat.div2 (length a) in
  combine (firstn mid a) (skipn mid a).

(* newTagsID: an id that decodes to no pair gives the zero Tags *)
Definition new_tags_id (id : bytes) : bytes :=
  match decode_tags id with [] => [] | _ => id end.

(* ---------- protobuf writer ---------- *)

Definition le64_enc (v : N) : bytes := rev (be_enc 8 v).
Definition le64_dec (l : bytes) : N := be_dec (rev l).

Definition pb_tag (field wire : N) : bytes := put_uvarint (field * 8 + wire).
Definition pb_varint_field (field v : N) : bytes := pb_tag field 0 ++ put_uvarint v.
Definition pb_fixed64_field (field v : N) : bytes := pb_tag field 1 ++ le64_enc v.
Definition pb_bytes_field (field : N) (s : bytes) : bytes :=
  pb_tag field 2 ++ put_uvarint (N.of_nat (length s)) ++ s.
Definition pb_bool (b : bool) : N := if b then 1 else 0.

Definition aux_dt (a : auxv) : N :=
  match a with
  | AFloat _ | AFloatNil => dt_float
  | AInteger _ | AIntegerNil => dt_integer
  | AUnsigned _ | AUnsignedNil => dt_unsigned
  | AString _ | AStringNil => dt_string
  | ABoolean _ | ABooleanNil => dt_boolean
  | AUnknown | AOther => dt_unknown
  end.

(* body of one internal.Aux message *)
Definition encode_aux (a : auxv) : bytes :=
  pb_varint_field 1 (aux_dt a) ++
  match a with
  | AFloat bits => pb_fixed64_field 2 bits
  | AInteger v => pb_varint_field 3 v
  | AString s => pb_bytes_field 4 s
  | ABoolean b => pb_varint_field 5 (pb_bool b)
  | AUnsigned v => pb_varint_field 6 v
  | _ => []
  end.

Definition encode_value (v : pvalue) : bytes :=
  match v with
  | VFloat b => pb_fixed64_field 7 b
  | VInteger x => pb_varint_field 8 x
  | VString s => pb_bytes_field 9 s
  | VBoolean b => pb_varint_field 10 (pb_bool b)
  | VUnsigned x => pb_varint_field 12 x
  end.

Definition encode_aux_list (l : list auxv) : bytes :=
  flat_map (fun a => pb_bytes_field 5 (encode_aux a)) l.

(* proto.Marshal(encode<T>Point(p)) *)
Definition encode_point_body (p : point) : bytes :=
  pb_bytes_field 1 (p_name p) ++ pb_bytes_field 2 (p_tags p) ++
  pb_varint_field 3 (p_time p) ++ pb_varint_field 4 (pb_bool (p_nil p)) ++
  encode_aux_list (p_aux p) ++
  pb_varint_field 6 (p_aggr p) ++
  encode_value (p_value p).

Definition header_fields : bytes :=
  pb_bytes_field 1 [] ++ pb_bytes_field 2 [] ++ pb_varint_field 3 0 ++ pb_varint_field 4 0.

(* IteratorEncoder.encodeStats *)
Definition encode_stats_body (series_n point_n : N) : bytes :=
  header_fields ++ pb_bytes_field 11 (pb_varint_field 1 series_n ++ pb_varint_field 2 point_n).

(* IteratorEncoder.EncodeTrace (data = trace.MarshalBinary(), non-empty) *)
Definition encode_trace_body (data : bytes) : bytes :=
  header_fields ++ pb_bytes_field 13 data.

(* binary.Write(w, BigEndian, uint32(len(buf))); w.Write(buf) *)
Definition frame (body : bytes) : bytes := be_enc 4 (N.of_nat (length body)) ++ body.

(* ---------- protobuf reader (gogo table_unmarshal) ---------- *)

Inductive res (A : Type) := ROk (a : A) | RErr | RCrash.
Arguments ROk {A} a.
Arguments RErr {A}.
Arguments RCrash {A}.

(* b[:n] after the code checked n <= len(b): a failing slice would be a Go panic *)
Definition take_checked (n : N) (b : bytes) : res (bytes * bytes) :=
  match take (N.to_nat n) b with
  | Some pr => ROk pr
  | None => RCrash
  end.

(* findEndGroup: skip to just after the matching EndGroup tag. depth = nesting - 1. *)
Fixpoint skip_group (fuel : nat) (depth : nat) (b : bytes) : res bytes :=
  match fuel with
  | O => RErr
  | S f =>
    match uvarint b with
    | None => RErr
    | Some (x, b1) =>
      let w := x mod 8 in
      if w =? 0 then
        match uvarint b1 with None => RErr | Some (_, b2) => skip_group f depth b2 end
      else if w =? 5 then
        if N.of_nat (length b1) <? 4 then RErr
        else match take_checked 4 b1 with ROk (_, b2) => skip_group f depth b2 | RErr => RErr | RCrash => RCrash end
      else if w =? 1 then
        if N.of_nat (length b1) <? 8 then RErr
        else match take_checked 8 b1 with ROk (_, b2) => skip_group f depth b2 | RErr => RErr | RCrash => RCrash end
      else if w =? 2 then
        match uvarint b1 with
        | None => RErr
        | Some (m, b2) =>
            if N.of_nat (length b2) <? m then RErr
            else match take_checked m b2 with ROk (_, b3) => skip_group f depth b3 | RErr => RErr | RCrash => RCrash end
        end
      else if w =? 3 then skip_group f (S depth) b1
      else if w =? 4 then
        match depth with O => ROk b1 | S d => skip_group f d b1 end
      else RErr
    end
  end.

Inductive wval :=
| WVar (x : N) | WF64 (bs : bytes) | WBytes (bs : bytes) | WF32 (bs : bytes) | WGroup.

(* the value that follows a tag of wire type [wire]: what the typed unmarshaler of a
   known field reads when the wire type is the field's, and what skipField skips
   otherwise (same length checks in both) *)
Definition read_wval (wire : N) (b : bytes) : res (wval * bytes) :=
  if wire =? 0 then
    match uvarint b with None => RErr | Some (x, r) => ROk (WVar x, r) end
  else if wire =? 1 then
    if N.of_nat (length b) <? 8 then RErr
    else match take_checked 8 b with ROk (v, r) => ROk (WF64 v, r) | RErr => RErr | RCrash => RCrash end
  else if wire =? 2 then
    match uvarint b with
    | None => RErr
    | Some (m, r) =>
        if N.of_nat (length r) <? m then RErr
        else match take_checked m r with ROk (v, r') => ROk (WBytes v, r') | RErr => RErr | RCrash => RCrash end
    end
  else if wire =? 3 then
    match skip_group (S (length b)) 0 b with ROk r => ROk (WGroup, r) | RErr => RErr | RCrash => RCrash end
  else if wire =? 5 then
    if N.of_nat (length b) <? 4 then RErr
    else match take_checked 4 b with ROk (v, r) => ROk (WF32 v, r) | RErr => RErr | RCrash => RCrash end
  else RErr.

Section Message.
  Variable A : Type.
  (* effect of one (field, value) on the message being built; a nested message may fail *)
  Variable apply : A -> N -> wval -> res A.

  (* unmarshalInfo.unmarshal: every iteration consumes at least the tag byte, so
     fuel = S (length b) always suffices *)
  Fixpoint msg_loop (fuel : nat) (acc : A) (b : bytes) : res A :=
    match fuel with
    | O => RErr
    | S f =>
      match b with
      | [] => ROk acc
      | _ =>
        match uvarint b with
        | None => RErr
        | Some (x, b1) =>
          (* every message type registers field number 0 with an unmarshaler that fails:
             "illegal tag 0" (computeUnmarshalInfo) *)
          if x / 8 =? 0 then RErr else
          match read_wval (x mod 8) b1 with
          | RErr => RErr
          | RCrash => RCrash
          | ROk (v, b2) =>
            match apply acc (x / 8) v with
            | ROk acc' => msg_loop f acc' b2
            | RErr => RErr
            | RCrash => RCrash
            end
          end
        end
      end
    end.
End Message.

Definition parse_msg {A} (apply : A -> N -> wval -> res A) (init : A) (b : bytes) : res A :=
  msg_loop A apply (S (length b)) init b.

(* --- IteratorStats: only presence and well-formedness matter --- *)
Definition apply_stats (u : unit) (field : N) (v : wval) : res unit := ROk u.

(* --- Aux --- *)
Record aux_acc := mkAux {
  a_dt : option N;       (* int32 as its low 32 bits *)
  a_f : option N; a_i : option N; a_s : option bytes; a_b : option bool; a_u : option N }.

Definition aux_init : aux_acc := mkAux None None None None None None.

Definition apply_aux (a : aux_acc) (field : N) (v : wval) : res aux_acc :=
  ROk match field, v with
      | 1, WVar x => mkAux (Some (x mod two32)) (a_f a) (a_i a) (a_s a) (a_b a) (a_u a)
      | 2, WF64 bs => mkAux (a_dt a) (Some (le64_dec bs)) (a_i a) (a_s a) (a_b a) (a_u a)
      | 3, WVar x => mkAux (a_dt a) (a_f a) (Some x) (a_s a) (a_b a) (a_u a)
      | 4, WBytes s => mkAux (a_dt a) (a_f a) (a_i a) (Some s) (a_b a) (a_u a)
      | 5, WVar x => mkAux (a_dt a) (a_f a) (a_i a) (a_s a) (Some (negb (x =? 0))) (a_u a)
      | 6, WVar x => mkAux (a_dt a) (a_f a) (a_i a) (a_s a) (a_b a) (Some x)
      | _, _ => a
      end.

(* a missing required DataType is a RequiredNotSetError: the element is still appended
   and parsing goes on, but Unmarshal returns the error in the end and the decoder
   drops the frame — observably the same as failing here *)
Definition parse_aux (b : bytes) : res aux_acc :=
  match parse_msg apply_aux aux_init b with
  | ROk a => match a_dt a with Some _ => ROk a | None => RErr end
  | RErr => RErr
  | RCrash => RCrash
  end.

(* decodeAux, one element *)
Definition decode_aux (a : aux_acc) : auxv :=
  let dt := match a_dt a with Some d => d | None => 0 end in
  if dt =? dt_float then match a_f a with Some v => AFloat v | None => AFloatNil end
  else if dt =? dt_integer then match a_i a with Some v => AInteger v | None => AIntegerNil end
  else if dt =? dt_unsigned then match a_u a with Some v => AUnsigned v | None => AUnsignedNil end
  else if dt =? dt_string then match a_s a with Some v => AString v | None => AStringNil end
  else if dt =? dt_boolean then match a_b a with Some v => ABoolean v | None => ABooleanNil end
  else AUnknown.

(* --- Point --- *)
Record pt_acc := mkAcc {
  c_name : option bytes; c_tags : option bytes; c_time : option N; c_nil : option bool;
  c_aux : list aux_acc; c_aggr : option N;
  c_float : option N; c_int : option N; c_str : option bytes; c_bool : option bool; c_uns : option N;
  c_stats : bool; c_trace : bytes }.

Definition acc_init : pt_acc :=
  mkAcc None None None None [] None None None None None None false [].

Definition apply_point (c : pt_acc) (field : N) (v : wval) : res pt_acc :=
  match field, v with
  | 1, WBytes s => ROk (mkAcc (Some s) (c_tags c) (c_time c) (c_nil c) (c_aux c) (c_aggr c) (c_float c) (c_int c) (c_str c) (c_bool c) (c_uns c) (c_stats c) (c_trace c))
  | 2, WBytes s => ROk (mkAcc (c_name c) (Some s) (c_time c) (c_nil c) (c_aux c) (c_aggr c) (c_float c) (c_int c) (c_str c) (c_bool c) (c_uns c) (c_stats c) (c_trace c))
  | 3, WVar x => ROk (mkAcc (c_name c) (c_tags c) (Some x) (c_nil c) (c_aux c) (c_aggr c) (c_float c) (c_int c) (c_str c) (c_bool c) (c_uns c) (c_stats c) (c_trace c))
  | 4, WVar x => ROk (mkAcc (c_name c) (c_tags c) (c_time c) (Some (negb (x =? 0))) (c_aux c) (c_aggr c) (c_float c) (c_int c) (c_str c) (c_bool c) (c_uns c) (c_stats c) (c_trace c))
  | 5, WBytes s =>
      match parse_aux s with
      | ROk a => ROk (mkAcc (c_name c) (c_tags c) (c_time c) (c_nil c) (c_aux c ++ [a]) (c_aggr c) (c_float c) (c_int c) (c_str c) (c_bool c) (c_uns c) (c_stats c) (c_trace c))
      | RErr => RErr
      | RCrash => RCrash
      end
  | 6, WVar x => ROk (mkAcc (c_name c) (c_tags c) (c_time c) (c_nil c) (c_aux c) (Some (x mod two32)) (c_float c) (c_int c) (c_str c) (c_bool c) (c_uns c) (c_stats c) (c_trace c))
  | 7, WF64 bs => ROk (mkAcc (c_name c) (c_tags c) (c_time c) (c_nil c) (c_aux c) (c_aggr c) (Some (le64_dec bs)) (c_int c) (c_str c) (c_bool c) (c_uns c) (c_stats c) (c_trace c))
  | 8, WVar x => ROk (mkAcc (c_name c) (c_tags c) (c_time c) (c_nil c) (c_aux c) (c_aggr c) (c_float c) (Some x) (c_str c) (c_bool c) (c_uns c) (c_stats c) (c_trace c))
  | 9, WBytes s => ROk (mkAcc (c_name c) (c_tags c) (c_time c) (c_nil c) (c_aux c) (c_aggr c) (c_float c) (c_int c) (Some s) (c_bool c) (c_uns c) (c_stats c) (c_trace c))
  | 10, WVar x => ROk (mkAcc (c_name c) (c_tags c) (c_time c) (c_nil c) (c_aux c) (c_aggr c) (c_float c) (c_int c) (c_str c) (Some (negb (x =? 0))) (c_uns c) (c_stats c) (c_trace c))
  | 12, WVar x => ROk (mkAcc (c_name c) (c_tags c) (c_time c) (c_nil c) (c_aux c) (c_aggr c) (c_float c) (c_int c) (c_str c) (c_bool c) (Some x) (c_stats c) (c_trace c))
  | 11, WBytes s =>
      match parse_msg apply_stats tt s with
      | ROk _ => ROk (mkAcc (c_name c) (c_tags c) (c_time c) (c_nil c) (c_aux c) (c_aggr c) (c_float c) (c_int c) (c_str c) (c_bool c) (c_uns c) true (c_trace c))
      | RErr => RErr
      | RCrash => RCrash
      end
  | 13, WBytes s => ROk (mkAcc (c_name c) (c_tags c) (c_time c) (c_nil c) (c_aux c) (c_aggr c) (c_float c) (c_int c) (c_str c) (c_bool c) (c_uns c) (c_stats c) s)
  | _, _ => ROk c       (* unknown field, or known field with another wire type: skipped *)
  end.

Definition opt_default {A} (d : A) (o : option A) : A := match o with Some x => x | None => d end.

(* decode<T>Point *)
Definition build_point (t : ptype) (c : pt_acc) : point :=
  mkPoint (opt_default [] (c_name c)) (new_tags_id (opt_default [] (c_tags c)))
          (opt_default 0 (c_time c)) (opt_default false (c_nil c))
          (map decode_aux (c_aux c)) (opt_default 0 (c_aggr c))
          match t with
          | TFloat => VFloat (opt_default 0 (c_float c))
          | TInteger => VInteger (opt_default 0 (c_int c))
          | TUnsigned => VUnsigned (opt_default 0 (c_uns c))
          | TString => VString (opt_default [] (c_str c))
          | TBoolean => VBoolean (opt_default false (c_bool c))
          end.

Inductive frame_out := FPoint (p : point) | FStats | FTrace (data : bytes).

Definition required_present (c : pt_acc) : bool :=
  match c_name c, c_tags c, c_time c, c_nil c with
  | Some _, Some _, Some _, Some _ => true
  | _, _, _, _ => false
  end.

(* proto.Unmarshal(buf, &pb) and the dispatch of Decode<T>Point on its result *)
Definition decode_body (t : ptype) (body : bytes) : res frame_out :=
  match parse_msg apply_point acc_init body with
  | RErr => RErr
  | RCrash => RCrash
  | ROk c =>
      if negb (required_present c) then RErr
      else if c_stats c then ROk FStats
      else match c_trace c with
           | _ :: _ => ROk (FTrace (c_trace c))
           | [] => ROk (FPoint (build_point t c))
           end
  end.

(* ---------- the frame stream: <t>ReaderIterator.Next until nil or error ---------- *)

Inductive stream_end := SEof | SErr | SCrash.

(* trace_ok: does decodeIteratorTrace accept the bytes (always, when the context carries
   no trace to merge into) *)
Fixpoint read_stream (trace_ok : bytes -> bool) (t : ptype) (fuel : nat) (s : bytes)
  : list point * stream_end :=
  match fuel with
  | O => ([], SErr)
  | S f =>
    match s with
    | [] => ([], SEof)                        (* io.EOF on the length: end of stream *)
    | _ =>
      match take 4 s with
      | None => ([], SErr)                    (* 1..3 bytes: io.ErrUnexpectedEOF *)
      | Some (hdr, rest) =>
        let sz := be_dec hdr in
        let handle (body rest' : bytes) :=
          match decode_body t body with
          | RErr => ([], SErr)
          | RCrash => ([], SCrash)
          | ROk FStats => read_stream trace_ok t f rest'
          | ROk (FTrace d) => if trace_ok d then read_stream trace_ok t f rest' else ([], SErr)
          | ROk (FPoint p) => let (ps, e) := read_stream trace_ok t f rest' in (p :: ps, e)
          end in
        if sz =? 0 then handle [] rest        (* ReadFull into an empty buffer succeeds *)
        else match rest with
             | [] => ([], SEof)               (* ReadFull read nothing: io.EOF, taken as end *)
             | _ =>
               if N.of_nat (length rest) <? sz then ([], SErr)
               else match take_checked sz rest with
                    | ROk (body, rest') => handle body rest'
                    | RErr => ([], SErr)
                    | RCrash => ([], SCrash)
                    end
             end
      end
    end
  end.

Definition read_frames_of (trace_ok : bytes -> bool) (t : ptype) (s : bytes) :=
  read_stream trace_ok t (S (length s)) s.

(* ---------- the encoder side of a stream ---------- *)

Inductive item := IPoint (p : point) | IStats (series_n point_n : N) | ITrace (data : bytes).

Definition encode_item (i : item) : bytes :=
  match i with
  | IPoint p => frame (encode_point_body p)
  | IStats a b => frame (encode_stats_body a b)
  | ITrace d => frame (encode_trace_body d)
  end.

Definition encode_items (l : list item) : bytes := flat_map encode_item l.

Definition points_of (l : list item) : list point :=
  flat_map (fun i => match i with IPoint p => [p] | _ => [] end) l.

(* IteratorEncoder.EncodeIterator (no timer tick) then, optionally, EncodeTrace *)
Definition encode_iterator (ps : list point) (series_n point_n : N) (trace : bytes) : list item :=
  IStats series_n point_n :: map IPoint ps ++ [IStats series_n point_n] ++
  match trace with [] => [] | _ => [ITrace trace] end.

(* the hard-coded layout above IS the layout of the working tree's generated code:
   this definition stops type-checking when genconsts reads different tables *)
Definition field_tables_as_modelled :
  (c15_pb_point_fields, c15_pb_aux_fields, c15_pb_stats_fields, c15_pb_proto3_or_packed)
  = (modelled_point_fields, modelled_aux_fields, modelled_stats_fields, false) := eq_refl.
