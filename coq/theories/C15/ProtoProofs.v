(* C15/ProtoProofs.v — proofs about the generic protobuf message model (Proto.v):
   round trip for EVERY well-formed schema and message value (nested messages included),
   and for EVERY byte string: Ok or Err, never a crash, nothing stored that is larger
   than the input. *)
From Verif Require Import Lib.Bytes Lib.Varint C15.PointModel C15.PointProofs C15.Proto.
From Coq Require Import ZifyBool ZifyNat ZifyN.
Open Scope N_scope.

(* ================= scalars ================= *)

Lemma two_consts : two31 = 2147483648 /\ two32 = 4294967296 /\ two64 = 18446744073709551616.
Proof. repeat split. Qed.

Lemma sext32_lt n : n < two32 -> sext32 n < two64.
Proof. unfold sext32, two31, two32, two64. intros H. destruct (N.ltb_spec n 2147483648); lia. Qed.

Lemma sext32_mod n : n < two32 -> sext32 n mod two32 = n.
Proof.
  unfold sext32, two31, two32, two64. intros H.
  destruct (N.ltb_spec n 2147483648) as [L|G].
  - apply N.mod_small. lia.
  - replace (n + (18446744073709551616 - 4294967296)) with (n + 4294967295 * 4294967296) by lia.
    rewrite N.mod_add by lia. apply N.mod_small. lia.
Qed.

Lemma zz_enc32_lt n : n < two32 -> zz_enc32 n < two64.
Proof. unfold zz_enc32, two31, two32, two64. intros H. destruct (N.ltb_spec n 2147483648); lia. Qed.

Lemma zz_dec_enc32 n : n < two32 -> zz_dec32 (zz_enc32 n) = n.
Proof.
  unfold zz_enc32, zz_dec32, two31, two32. intros H.
  destruct (N.ltb_spec n 2147483648) as [L|G].
  - rewrite N.even_mul. cbn [N.even orb]. rewrite N.mul_comm, N.div_mul by lia.
    apply N.mod_small. lia.
  - replace (2 * (4294967296 - n) - 1) with (1 + 2 * (4294967296 - n - 1)) by lia.
    rewrite N.even_add_mul_2. cbn [N.even].
    replace ((1 + 2 * (4294967296 - n - 1)) / 2) with (4294967296 - n - 1)
      by (apply N.div_unique with (r := 1); lia).
    rewrite N.mod_small by lia. lia.
Qed.

Lemma vint_lt k n : in_range k n -> wire_of k = 0 -> vint k n < two64.
Proof.
  destruct k; cbn [in_range wire_of vint]; intros H W; try discriminate W;
  try exact H; try (apply sext32_lt; exact H); try (apply zz_enc32_lt; exact H);
  try (apply zz_enc64_lt; exact H); unfold two32, two64 in *; lia.
Qed.

Lemma norm_vint k n : in_range k n -> wire_of k = 0 -> norm k (vint k n) = n.
Proof.
  destruct k; cbn [in_range wire_of vint norm]; intros H W; try discriminate W; try reflexivity.
  - apply N.mod_small. exact H.
  - apply sext32_mod. exact H.
  - destruct (N.eqb_spec n 0); lia.
  - apply sext32_mod. exact H.
  - apply zz_dec_enc32. exact H.
  - apply zz_dec_enc64. exact H.
Qed.

Lemma in_range_b_spec k n : in_range_b k n = true -> in_range k n.
Proof. destruct k; cbn [in_range_b in_range]; intros H; apply N.ltb_lt; exact H. Qed.

Lemma le32_enc_length v : length (le32_enc v) = 4%nat.
Proof. unfold le32_enc. rewrite rev_length. apply be_enc_length. Qed.

Lemma le32_dec_enc v : v < two32 -> le32_dec (le32_enc v) = v.
Proof.
  intros H. unfold le32_dec, le32_enc. rewrite rev_involutive.
  apply be_dec_enc. exact H.
Qed.

Lemma read_wval_fixed32 v rest : read_wval 5 (le32_enc v ++ rest) = ROk (WF32 (le32_enc v), rest).
Proof.
  unfold read_wval. cbn [N.eqb Pos.eqb].
  rewrite app_length, le32_enc_length.
  destruct (N.ltb_spec (N.of_nat (4 + length rest)) 4) as [H|_]; [lia|].
  pose proof (take_checked_app (le32_enc v) rest) as T. rewrite le32_enc_length in T.
  change (N.of_nat 4) with 4 in T. rewrite T. reflexivity.
Qed.

(* ================= lookup / set_slot ================= *)

Lemma set_slot_same fs : forall slots num f cur,
  lookup fs slots num = Some (f, cur) -> set_slot fs slots num cur = slots.
Proof.
  induction fs as [|g fs IH]; intros slots num f cur H; destruct slots as [|sl slots]; cbn [lookup set_slot] in *;
    try discriminate.
  destruct (fnum g =? num); [inversion H; reflexivity|]. rewrite (IH _ _ _ _ H). reflexivity.
Qed.

Lemma lookup_set_slot fs : forall slots num f cur new,
  lookup fs slots num = Some (f, cur) -> lookup fs (set_slot fs slots num new) num = Some (f, new).
Proof.
  induction fs as [|g fs IH]; intros slots num f cur new H; destruct slots as [|sl slots]; cbn [lookup set_slot] in *;
    try discriminate.
  destruct (fnum g =? num) eqn:E; cbn [lookup]; rewrite ?E; [inversion H; reflexivity|].
  apply (IH _ _ _ _ _ H).
Qed.

Lemma set_set_slot fs : forall slots num a b,
  set_slot fs (set_slot fs slots num a) num b = set_slot fs slots num b.
Proof.
  induction fs as [|g fs IH]; intros slots num a b; destruct slots as [|sl slots]; cbn [set_slot]; try reflexivity.
  destruct (fnum g =? num) eqn:E; cbn [set_slot]; rewrite ?E; [reflexivity|]. rewrite IH. reflexivity.
Qed.

Lemma lookup_app pre : forall psl f suf sl rest,
  length pre = length psl -> Forall (fun g => fnum g <> fnum f) pre ->
  lookup (pre ++ f :: suf) (psl ++ sl :: rest) (fnum f) = Some (f, sl).
Proof.
  induction pre as [|g pre IH]; intros psl f suf sl rest L F; destruct psl as [|p psl]; try discriminate L.
  - cbn [app lookup]. rewrite N.eqb_refl. reflexivity.
  - inversion F as [|? ? Hg Hpre]; subst. cbn [app lookup].
    destruct (N.eqb_spec (fnum g) (fnum f)) as [E|_]; [contradiction|].
    apply IH; [cbn [length] in L; lia|exact Hpre].
Qed.

Lemma set_slot_app pre : forall psl f suf sl rest new,
  length pre = length psl -> Forall (fun g => fnum g <> fnum f) pre ->
  set_slot (pre ++ f :: suf) (psl ++ sl :: rest) (fnum f) new = psl ++ new :: rest.
Proof.
  induction pre as [|g pre IH]; intros psl f suf sl rest new L F; destruct psl as [|p psl]; try discriminate L.
  - cbn [app set_slot]. rewrite N.eqb_refl. reflexivity.
  - inversion F as [|? ? Hg Hpre]; subst. cbn [app set_slot].
    destruct (N.eqb_spec (fnum g) (fnum f)) as [E|_]; [contradiction|].
    rewrite IH; [reflexivity|cbn [length] in L; lia|exact Hpre].
Qed.

Lemma nums_ok_gt : forall l p, nums_ok p l = true -> Forall (fun g => p < fnum g) l.
Proof.
  induction l as [|g l IH]; intros p H; [constructor|].
  cbn [nums_ok] in H. apply andb_true_iff in H. destruct H as [H H3].
  apply andb_true_iff in H. destruct H as [H1 H2]. apply N.ltb_lt in H1.
  constructor; [exact H1|].
  eapply Forall_impl; [|apply (IH _ H3)]. cbn. intros a Ha. lia.
Qed.

Lemma nums_ok_app_lt : forall pre p f suf,
  nums_ok p (pre ++ f :: suf) = true -> Forall (fun g => fnum g <> fnum f) pre.
Proof.
  induction pre as [|g pre IH]; intros p f suf H; [constructor|].
  cbn [app nums_ok] in H. apply andb_true_iff in H. destruct H as [H H3].
  constructor; [|apply (IH _ _ _ H3)].
  apply nums_ok_gt in H3. apply Forall_app in H3. destruct H3 as [_ H3].
  inversion H3; subst. lia.
Qed.

Lemma nums_ok_small : forall l p, nums_ok p l = true -> Forall (fun g => small_field (fnum g)) l.
Proof.
  induction l as [|g l IH]; intros p H; [constructor|].
  cbn [nums_ok] in H. apply andb_true_iff in H. destruct H as [H H3].
  apply andb_true_iff in H. destruct H as [H1 H2]. apply N.ltb_lt in H1. apply N.ltb_lt in H2.
  constructor; [unfold small_field; lia|apply (IH _ H3)].
Qed.

(* ================= the tag loop: fuel ================= *)

Definition dec_run (dec_sub : schema -> msgv -> bytes -> res (msgv * bool)) (fs : schema) (st : dstate) (b : bytes) :=
  dec_loop dec_sub (S (length b)) fs st b.

(* dec_step calls its continuation only on a strictly shorter buffer *)
Lemma dec_step_ext dec_sub k1 k2 fs st b :
  (forall st' b', (length b' < length b)%nat -> k1 st' b' = k2 st' b') ->
  dec_step dec_sub k1 fs st b = dec_step dec_sub k2 fs st b.
Proof.
  intros K. unfold dec_step. destruct b as [|b0 b']; [reflexivity|].
  destruct (uvarint (b0 :: b')) as [[x b1]|] eqn:U; [|reflexivity].
  apply uvarint_shorter in U.
  destruct (x / 8 =? 0); [reflexivity|].
  assert (UK : dec_unknown k1 st x b1 = dec_unknown k2 st x b1).
  { unfold dec_unknown. destruct (read_wval (x mod 8) b1) as [[v b2]| |] eqn:R; [|reflexivity|reflexivity].
    apply read_wval_shorter in R. apply K. lia. }
  destruct (lookup fs (st_slots st) (x / 8)) as [[f cur]|]; [|exact UK].
  destruct (negb (accepts f (x mod 8))); [exact UK|].
  destruct (read_wval (x mod 8) b1) as [[wv b2]| |] eqn:R; [|reflexivity|reflexivity].
  apply read_wval_shorter in R.
  destruct (conv dec_sub f cur wv); [|reflexivity|reflexivity].
  apply K. lia.
Qed.

Lemma dec_loop_fuel dec_sub fs : forall f1 f2 st b,
  (length b < f1)%nat -> (length b < f2)%nat ->
  dec_loop dec_sub f1 fs st b = dec_loop dec_sub f2 fs st b.
Proof.
  induction f1 as [|f1 IH]; intros f2 st b H1 H2; [lia|].
  destruct f2 as [|f2]; [lia|]. cbn [dec_loop].
  apply dec_step_ext. intros st' b' L. apply IH; lia.
Qed.

Lemma dec_run_unfold dec_sub fs st b :
  dec_run dec_sub fs st b = dec_step dec_sub (dec_run dec_sub fs) fs st b.
Proof.
  unfold dec_run.
  change (dec_loop dec_sub (S (length b)) fs st b) with (dec_step dec_sub (dec_loop dec_sub (length b) fs) fs st b).
  apply dec_step_ext.
  intros st' b' L. apply dec_loop_fuel; lia.
Qed.

Lemma dec_run_nil dec_sub fs st : dec_run dec_sub fs st [] = ROk st.
Proof. reflexivity. Qed.

(* ================= one known field element ================= *)

Lemma dec_step_known dec_sub fs st f cur w payload rest wv new later :
  small_field (fnum f) -> w < 8 ->
  lookup fs (st_slots st) (fnum f) = Some (f, cur) ->
  accepts f w = true ->
  read_wval w (payload ++ rest) = ROk (wv, rest) ->
  conv dec_sub f cur wv = CvOk new later ->
  dec_run dec_sub fs st (pb_tag (fnum f) w ++ payload ++ rest) =
  dec_run dec_sub fs (mkSt (set_slot fs (st_slots st) (fnum f) new) (st_unrec st)
                           (if is_req (flab f) then fnum f :: st_seen st else st_seen st)
                           (st_later st || later)) rest.
Proof.
  intros Hf Hw HL HA HR HC. rewrite dec_run_unfold. unfold dec_step.
  destruct (tag_decode (fnum f) w (payload ++ rest) Hf Hw) as (U & Hm & Hd).
  destruct (pb_tag (fnum f) w ++ payload ++ rest) as [|b0 b'] eqn:E.
  { exfalso. unfold pb_tag in E. apply app_eq_nil in E. destruct E as [E _].
    exact (put_uvarint_nonempty _ E). }
  rewrite U. cbv zeta. rewrite Hm, Hd.
  destruct (N.eqb_spec (fnum f) 0) as [Z|_]; [destruct Hf as [Hf _]; lia|].
  rewrite HL, HA. cbn [negb]. rewrite HR, HC. reflexivity.
Qed.

(* ================= one level of the round trip ================= *)

Section Level.
  Variable dec_sub : schema -> msgv -> bytes -> res (msgv * bool).
  Variable enc_sub : schema -> msgv -> bytes.
  Variable wf_sub : schema -> msgv -> bool.
  Variable sub_ok : schema -> bool.
  Hypothesis Hsub : forall sub m, sub_ok sub = true -> wf_sub sub m = true ->
    dec_sub sub (empty_msg sub) (enc_sub sub m) = ROk (m, false).

  Definition elem_ok (f : field) : Prop :=
    match fty f with TMsg sub => sub_ok sub = true | _ => True end.

  Definition seen_upd (f : field) (seen : list N) : list N :=
    if is_req (flab f) then fnum f :: seen else seen.

  Definition put_elem (f : field) (cur : list value) (v : value) : list value :=
    if is_rep (flab f) then cur ++ [v] else [v].

  Lemma elem_step fs st f cur v rest :
    small_field (fnum f) ->
    lookup fs (st_slots st) (fnum f) = Some (f, cur) ->
    (is_rep (flab f) = true \/ cur = []) ->
    elem_ok f -> wf_elem wf_sub enc_sub f v = true ->
    dec_run dec_sub fs st (enc_elem enc_sub f v ++ rest) =
    dec_run dec_sub fs (mkSt (set_slot fs (st_slots st) (fnum f) (put_elem f cur v)) (st_unrec st)
                             (seen_upd f (st_seen st)) (st_later st)) rest.
  Proof.
    intros Hf HL Hcur Hok Hwf.
    destruct f as [num lab ty]. unfold elem_ok, wf_elem, enc_elem, put_elem, seen_upd in *.
    cbn [fnum flab fty] in *.
    destruct ty as [k|sub].
    - destruct v as [n|s|sl u].
      + (* a number *)
        destruct k; try discriminate Hwf; apply in_range_b_spec in Hwf;
          cbn [wire_of num_payload]; rewrite <- app_assoc.
        all: try (match goal with |- context [put_uvarint (vint ?K ?n0)] =>
          eapply eq_trans;
          [ apply (dec_step_known dec_sub fs st (mkField num lab (TScalar K)) cur 0 (put_uvarint (vint K n0)) rest
                     (WVar (vint K n0)) (if is_rep lab then cur ++ [VNum n0] else [VNum n0]) false);
            [ assumption | reflexivity | assumption | reflexivity
            | apply read_wval_varint; apply vint_lt; [assumption|reflexivity]
            | unfold conv; cbn [fty flab]; rewrite norm_vint by (assumption || reflexivity); reflexivity ]
          | cbn [fnum flab]; rewrite orb_false_r; reflexivity ] end).
        * (* fixed64 *)
          eapply eq_trans;
          [ apply (dec_step_known dec_sub fs st (mkField num lab (TScalar KFixed64)) cur 1 (le64_enc n) rest
                     (WF64 (le64_enc n)) (if is_rep lab then cur ++ [VNum n] else [VNum n]) false);
            [ assumption | reflexivity | assumption | reflexivity
            | apply read_wval_fixed64
            | unfold conv; cbn [fty flab]; rewrite le64_dec_enc by exact Hwf; reflexivity ]
          | cbn [fnum flab]; rewrite orb_false_r; reflexivity ].
        * (* fixed32 *)
          eapply eq_trans;
          [ apply (dec_step_known dec_sub fs st (mkField num lab (TScalar KFixed32)) cur 5 (le32_enc n) rest
                     (WF32 (le32_enc n)) (if is_rep lab then cur ++ [VNum n] else [VNum n]) false);
            [ assumption | reflexivity | assumption | reflexivity
            | apply read_wval_fixed32
            | unfold conv; cbn [fty flab]; rewrite le32_dec_enc by exact Hwf; reflexivity ]
          | cbn [fnum flab]; rewrite orb_false_r; reflexivity ].
      + (* bytes *)
        destruct k; try discriminate Hwf.
        unfold short_b, blen in Hwf. apply N.ltb_lt in Hwf.
        rewrite <- app_assoc.
        eapply eq_trans;
        [ apply (dec_step_known dec_sub fs st (mkField num lab (TScalar KBytes)) cur 2
                   (put_uvarint (blen s) ++ s) rest (WBytes s) (if is_rep lab then cur ++ [VBytes s] else [VBytes s]) false);
          [ assumption | reflexivity | assumption | reflexivity
          | rewrite <- app_assoc; apply read_wval_bytes; exact Hwf
          | reflexivity ]
        | cbn [fnum flab]; rewrite orb_false_r; reflexivity ].
      + destruct k; discriminate Hwf.
    - destruct v as [n|s|sl u]; try discriminate Hwf.
      apply andb_true_iff in Hwf. destruct Hwf as [Hw Hs].
      unfold short_b, blen in Hs. apply N.ltb_lt in Hs.
      cbv zeta. rewrite <- app_assoc.
      set (body := enc_sub sub (sl, u)) in *.
      eapply eq_trans;
      [ apply (dec_step_known dec_sub fs st (mkField num lab (TMsg sub)) cur 2
                 (put_uvarint (blen body) ++ body) rest (WBytes body)
                 (if is_rep lab then cur ++ [VMsg sl u] else [VMsg sl u]) false);
        [ assumption | reflexivity | assumption | reflexivity
        | rewrite <- app_assoc; apply read_wval_bytes; exact Hs
        | ]
      | cbn [fnum flab]; rewrite orb_false_r; reflexivity ].
      unfold conv. cbn [fty flab].
      assert (Hi : (if is_rep lab then empty_msg sub
                    else match cur with VMsg sl0 u0 :: _ => (sl0, u0) | _ => empty_msg sub end) = empty_msg sub).
      { destruct Hcur as [R|C]; [rewrite R; reflexivity|]. subst cur. destruct (is_rep lab); reflexivity. }
      rewrite Hi. subst body. rewrite (Hsub sub (sl, u) Hok Hw). reflexivity.
  Qed.

  (* the elements of a repeated (non-packed) field, appended one by one *)
  Lemma rep_step fs f : forall sl st cur rest,
    small_field (fnum f) -> is_rep (flab f) = true -> elem_ok f ->
    lookup fs (st_slots st) (fnum f) = Some (f, cur) ->
    forallb (wf_elem wf_sub enc_sub f) sl = true ->
    dec_run dec_sub fs st (flat_map (enc_elem enc_sub f) sl ++ rest) =
    dec_run dec_sub fs (mkSt (set_slot fs (st_slots st) (fnum f) (cur ++ sl)) (st_unrec st)
                             (st_seen st) (st_later st)) rest.
  Proof.
    induction sl as [|v sl IH]; intros st cur rest Hf Hrep Hok HL Hwf.
    - cbn [flat_map app]. rewrite app_nil_r. rewrite (set_slot_same _ _ _ _ _ HL). destruct st; reflexivity.
    - cbn [forallb] in Hwf. apply andb_true_iff in Hwf. destruct Hwf as [Hv Hsl].
      cbn [flat_map]. rewrite <- app_assoc.
      rewrite (elem_step fs st f cur v _ Hf HL (or_introl Hrep) Hok Hv).
      unfold put_elem, seen_upd. rewrite Hrep.
      assert (Hnr : is_req (flab f) = false) by (destruct (flab f); try reflexivity; discriminate Hrep).
      rewrite Hnr.
      rewrite (IH _ (cur ++ [v])); try assumption.
      + cbn [st_slots st_unrec st_seen st_later]. rewrite set_set_slot, <- app_assoc. reflexivity.
      + cbn [st_slots]. apply (lookup_set_slot _ _ _ _ _ _ HL).
  Qed.

  Lemma unpack_S_ne k f b : b <> [] ->
    unpack k (S f) b =
    match read_wval (wire_of k) b with
    | RErr => RErr
    | RCrash => RCrash
    | ROk (wv, r) =>
      let v := match wv with
               | WVar x => VNum (norm k x)
               | WF64 bs => VNum (le64_dec bs)
               | WF32 bs => VNum (le32_dec bs)
               | _ => VNum 0
               end in
      match unpack k f r with
      | ROk l => ROk (v :: l)
      | RErr => RErr
      | RCrash => RCrash
      end
    end.
  Proof. intros H. destruct b; [contradiction|reflexivity]. Qed.

  Lemma unpack_payload k : forall sl fuel,
    wire_of k <> 2 ->
    forallb (fun v => match v with VNum n => in_range_b k n | _ => false end) sl = true ->
    (length (packed_payload k sl) < fuel)%nat ->
    unpack k fuel (packed_payload k sl) = ROk sl.
  Proof.
    induction sl as [|v sl IH]; intros fuel Hk Hwf Hfuel.
    - destruct fuel; [cbn in Hfuel; lia|reflexivity].
    - cbn [forallb] in Hwf. apply andb_true_iff in Hwf. destruct Hwf as [Hv Hsl].
      destruct v as [n| |]; try discriminate Hv. apply in_range_b_spec in Hv.
      unfold packed_payload in *. cbn [flat_map] in *.
      destruct fuel as [|fuel]; [lia|].
      assert (Hne : num_payload k n <> []).
      { destruct k; cbn [num_payload]; try apply put_uvarint_nonempty;
        intros E; apply (f_equal (@length N)) in E; rewrite ?le64_enc_length, ?le32_enc_length in E; discriminate E. }
      rewrite unpack_S_ne by (intros E; apply app_eq_nil in E; destruct E; contradiction).
      assert (R : exists wv, read_wval (wire_of k) (num_payload k n ++ flat_map (fun v => match v with VNum n0 => num_payload k n0 | _ => [] end) sl)
                     = ROk (wv, flat_map (fun v => match v with VNum n0 => num_payload k n0 | _ => [] end) sl) /\
                  match wv with WVar x => VNum (norm k x) | WF64 bs => VNum (le64_dec bs) | WF32 bs => VNum (le32_dec bs) | _ => VNum 0 end = VNum n).
      { destruct (N.eq_dec (wire_of k) 0) as [W0|W0].
        - exists (WVar (vint k n)). split.
          + assert (Hp : num_payload k n = put_uvarint (vint k n)) by (destruct k; try reflexivity; discriminate W0).
            rewrite Hp, W0. apply read_wval_varint. apply vint_lt; assumption.
          + rewrite norm_vint by assumption. reflexivity.
        - destruct k; try (exfalso; apply W0; reflexivity); try (exfalso; apply Hk; reflexivity).
          + exists (WF64 (le64_enc n)). split; [apply read_wval_fixed64|]. rewrite le64_dec_enc by exact Hv. reflexivity.
          + exists (WF32 (le32_enc n)). split; [apply read_wval_fixed32|]. rewrite le32_dec_enc by exact Hv. reflexivity. }
      destruct R as (wv & R1 & R2). rewrite R1. cbv zeta. rewrite R2.
      rewrite IH; [reflexivity|exact Hk|exact Hsl|].
      rewrite app_length in Hfuel.
      assert (0 < length (num_payload k n))%nat by (destruct (num_payload k n); [contradiction|cbn; lia]). lia.
  Qed.

  (* all elements of one field, starting from the empty slot *)
  Lemma slot_step fs st f sl rest :
    small_field (fnum f) -> label_ok f = true -> elem_ok f ->
    lookup fs (st_slots st) (fnum f) = Some (f, []) ->
    wf_slot wf_sub enc_sub f sl = true ->
    dec_run dec_sub fs st (enc_slot enc_sub f sl ++ rest) =
    dec_run dec_sub fs (mkSt (set_slot fs (st_slots st) (fnum f) sl) (st_unrec st)
                             (seen_upd f (st_seen st)) (st_later st)) rest.
  Proof.
    intros Hf Hlab Hok HL Hwf. unfold wf_slot in Hwf. apply andb_true_iff in Hwf. destruct Hwf as [Hel Hcnt].
    unfold enc_slot, seen_upd.
    destruct (flab f) eqn:EL.
    - (* optional *)
      destruct sl as [|v [|v2 sl]]; try discriminate Hcnt.
      + cbn [flat_map app is_req]. rewrite (set_slot_same _ _ _ _ _ HL). destruct st; reflexivity.
      + cbn [forallb] in Hel. apply andb_true_iff in Hel. destruct Hel as [Hv _].
        cbn [flat_map]. rewrite app_nil_r.
        rewrite (elem_step fs st f [] v rest Hf HL (or_intror eq_refl) Hok Hv).
        unfold put_elem, seen_upd. rewrite EL. reflexivity.
    - (* required *)
      destruct sl as [|v [|v2 sl]]; try discriminate Hcnt.
      cbn [forallb] in Hel. apply andb_true_iff in Hel. destruct Hel as [Hv _].
      cbn [flat_map]. rewrite app_nil_r.
      rewrite (elem_step fs st f [] v rest Hf HL (or_intror eq_refl) Hok Hv).
      unfold put_elem, seen_upd. rewrite EL. reflexivity.
    - (* repeated *)
      assert (Hrep : is_rep (flab f) = true) by (rewrite EL; reflexivity).
      assert (E : match fty f with TScalar _ => flat_map (enc_elem enc_sub f) sl | TMsg _ => flat_map (enc_elem enc_sub f) sl end
                  = flat_map (enc_elem enc_sub f) sl) by (destruct (fty f); reflexivity).
      cbn [is_req].
      replace (match fty f with TScalar _ | _ => flat_map (enc_elem enc_sub f) sl end) with (flat_map (enc_elem enc_sub f) sl)
        by (destruct (fty f); reflexivity).
      rewrite (rep_step fs f sl st [] rest Hf Hrep Hok HL Hel). reflexivity.
    - (* repeated, packed *)
      cbn [is_req].
      unfold label_ok in Hlab. rewrite EL in Hlab.
      destruct (fty f) as [k|sub] eqn:ET; [|discriminate Hlab].
      destruct sl as [|v0 sl0] eqn:ES.
      + cbn [app]. rewrite (set_slot_same _ _ _ _ _ HL). destruct st; reflexivity.
      + rewrite <- ES in *.
        unfold short_b, blen in Hcnt. apply N.ltb_lt in Hcnt.
        assert (Hk2 : wire_of k <> 2) by (destruct k; try discriminate; discriminate Hlab).
        assert (Hnums : forallb (fun v => match v with VNum n => in_range_b k n | _ => false end) sl = true).
        { apply forallb_forall. intros v Hin. rewrite forallb_forall in Hel. specialize (Hel v Hin).
          unfold wf_elem in Hel. rewrite ET in Hel. destruct v as [n|s|sl' u'].
          - destruct k; try exact Hel; discriminate Hlab.
          - destruct k; try discriminate Hel; discriminate Hlab.
          - destruct k; try discriminate Hel; discriminate Hlab. }
        set (body := packed_payload k sl) in *.
        assert (Hacc : accepts f 2 = true).
        { unfold accepts. rewrite ET, EL. cbn [is_rep]. rewrite Hlab. cbn. apply orb_true_r. }
        assert (Hsl : sl <> []) by (rewrite ES; discriminate).
        replace (match sl with [] => [] | _ :: _ => pb_tag (fnum f) 2 ++ put_uvarint (blen body) ++ body end)
          with (pb_tag (fnum f) 2 ++ put_uvarint (blen body) ++ body) by (destruct sl; [contradiction|reflexivity]).
        rewrite <- app_assoc.
        eapply eq_trans;
        [ apply (dec_step_known dec_sub fs st f [] 2 (put_uvarint (blen body) ++ body) rest (WBytes body) sl false);
          [ assumption | reflexivity | assumption | assumption
          | rewrite <- app_assoc; apply read_wval_bytes; exact Hcnt
          | ]
        | rewrite EL; cbn [is_req]; rewrite orb_false_r; reflexivity ].
        unfold conv. rewrite ET.
        assert (U : unpack k (S (length body)) body = ROk sl) by (apply unpack_payload; [exact Hk2|exact Hnums|unfold body; lia]).
        destruct k; try (exfalso; apply Hk2; reflexivity); rewrite U; reflexivity.
  Qed.

  Definition seen_all (suf : schema) (seen : list N) : list N :=
    fold_left (fun s f => seen_upd f s) suf seen.

  (* the fields of a message, in order *)
  Lemma fields_step : forall suf sls pre psl u seen later rest,
    length pre = length psl ->
    nums_ok 0 (pre ++ suf) = true ->
    Forall (fun f => label_ok f = true /\ elem_ok f) suf ->
    wf_slots wf_sub enc_sub suf sls = true ->
    dec_run dec_sub (pre ++ suf) (mkSt (psl ++ map (fun _ => []) suf) u seen later)
            (enc_fields enc_sub suf sls ++ rest) =
    dec_run dec_sub (pre ++ suf) (mkSt (psl ++ sls) u (seen_all suf seen) later) rest.
  Proof.
    induction suf as [|f suf IH]; intros sls pre psl u seen later rest HL Hn HF Hwf.
    - destruct sls; [|discriminate Hwf]. reflexivity.
    - destruct sls as [|sl sls]; [discriminate Hwf|].
      cbn [wf_slots] in Hwf. apply andb_true_iff in Hwf. destruct Hwf as [Hsl Hsls].
      inversion HF as [|? ? [Hlab Hok] HF']; subst.
      cbn [enc_fields map]. rewrite <- app_assoc.
      pose proof (nums_ok_app_lt _ _ _ _ Hn) as Hdist.
      pose proof (nums_ok_small _ _ Hn) as Hsmall. apply Forall_app in Hsmall. destruct Hsmall as [_ Hsmall].
      inversion Hsmall as [|? ? Hf _]; subst.
      rewrite (slot_step (pre ++ f :: suf) _ f sl _ Hf Hlab Hok); [| |exact Hsl].
      + cbn [st_slots st_unrec st_seen st_later].
        rewrite (set_slot_app pre psl f suf [] _ sl HL Hdist).
        replace (pre ++ f :: suf) with ((pre ++ [f]) ++ suf) by (rewrite <- app_assoc; reflexivity).
        replace (psl ++ sl :: map (fun _ => []) suf) with ((psl ++ [sl]) ++ map (fun _ => []) suf) by (rewrite <- app_assoc; reflexivity).
        rewrite (IH sls (pre ++ [f]) (psl ++ [sl])); try assumption.
        * rewrite <- !app_assoc. reflexivity.
        * rewrite !app_length. cbn [length]. lia.
        * rewrite <- app_assoc. exact Hn.
      + cbn [st_slots]. apply lookup_app; assumption.
  Qed.

  Lemma seen_all_keeps suf : forall seen x, In x seen -> In x (seen_all suf seen).
  Proof.
    induction suf as [|f suf IH]; intros seen x H; [exact H|].
    cbn [seen_all fold_left]. apply IH. unfold seen_upd. destruct (is_req (flab f)); [right|]; exact H.
  Qed.

  Lemma seen_all_req suf : forall seen f, In f suf -> is_req (flab f) = true -> In (fnum f) (seen_all suf seen).
  Proof.
    induction suf as [|g suf IH]; intros seen f Hin Hreq; [contradiction|].
    cbn [seen_all fold_left]. destruct Hin as [->|Hin].
    - apply seen_all_keeps. unfold seen_upd. rewrite Hreq. left. reflexivity.
    - apply IH; assumption.
  Qed.

  Lemma req_ok_seen_all fs : req_ok fs (seen_all fs []) = true.
  Proof.
    unfold req_ok. apply forallb_forall. intros f Hin.
    destruct (is_req (flab f)) eqn:R; [|reflexivity]. cbn [negb orb].
    apply existsb_exists. exists (fnum f). split; [apply seen_all_req; assumption|apply N.eqb_refl].
  Qed.

  (* one level: the message body is read back, no required field reported missing *)
  Lemma level_roundtrip fs sls :
    nums_ok 0 fs = true ->
    Forall (fun f => label_ok f = true /\ elem_ok f) fs ->
    wf_slots wf_sub enc_sub fs sls = true ->
    dec_loop dec_sub (S (length (enc_fields enc_sub fs sls ++ []))) fs (mkSt (fst (empty_msg fs)) (snd (empty_msg fs)) [] false)
             (enc_fields enc_sub fs sls ++ []) =
    ROk (mkSt sls [] (seen_all fs []) false).
  Proof.
    intros Hn HF Hwf.
    pose proof (fields_step fs sls [] [] [] [] false [] eq_refl Hn HF Hwf) as H.
    cbn [app] in H. unfold dec_run in H. unfold empty_msg. cbn [fst snd]. exact H.
  Qed.
End Level.

(* ================= the generic round trip ================= *)

Lemma wf_schema_S d fs : wf_schema (S d) fs = true ->
  nums_ok 0 fs = true /\ Forall (fun f => label_ok f = true /\ elem_ok (wf_schema d) f) fs.
Proof.
  cbn [wf_schema]. intros H. apply andb_true_iff in H. destruct H as [H H3].
  apply andb_true_iff in H. destruct H as [H1 H2]. split; [exact H1|].
  apply Forall_forall. intros f Hin.
  rewrite forallb_forall in H2, H3. split; [apply H2; exact Hin|].
  specialize (H3 f Hin). unfold elem_ok. destruct (fty f); [exact I|exact H3].
Qed.

Theorem dec_encode : forall d fs m,
  wf_schema d fs = true -> wf_msg d fs m = true ->
  dec d fs (empty_msg fs) (encode d fs m) = ROk (m, false).
Proof.
  induction d as [|d IH]; intros fs m Hs Hm; [discriminate Hs|].
  destruct m as [sls u]. cbn [wf_msg fst snd] in Hm. apply andb_true_iff in Hm. destruct Hm as [Hsl Hu].
  destruct u; [|discriminate Hu].
  destruct (wf_schema_S d fs Hs) as [Hn HF].
  cbn [dec encode fst snd].
  rewrite (level_roundtrip (dec d) (encode d) (wf_msg d) (wf_schema d) IH fs sls Hn HF Hsl).
  cbn [st_slots st_unrec st_later st_seen]. rewrite req_ok_seen_all. reflexivity.
Qed.

Theorem decode_encode : forall d fs m,
  wf_schema d fs = true -> wf_msg d fs m = true -> decode d fs (encode d fs m) = ROk m.
Proof. intros d fs m Hs Hm. unfold decode. rewrite dec_encode by assumption. reflexivity. Qed.

(* a well-formed message marshals without error *)
Lemma complete_of_wf : forall d fs m, wf_msg d fs m = true -> complete d fs m = true.
Proof.
  induction d as [|d IH]; intros fs m H; [reflexivity|].
  destruct m as [sls u]. cbn [wf_msg complete fst snd] in *. apply andb_true_iff in H. destruct H as [H _].
  revert sls H. induction fs as [|f fs IHf]; intros sls H; destruct sls as [|sl sls]; cbn [wf_slots complete_fields] in *;
    try reflexivity; try discriminate H.
  apply andb_true_iff in H. destruct H as [Hs Hr]. unfold wf_slot in Hs. apply andb_true_iff in Hs. destruct Hs as [He Hc].
  rewrite (IHf _ Hr), andb_true_r. apply andb_true_iff. split.
  - destruct (flab f); cbn [is_req]; try reflexivity. destruct sl; [discriminate Hc|reflexivity].
  - apply forallb_forall. intros v Hin. rewrite forallb_forall in He. specialize (He v Hin).
    unfold wf_elem in He. unfold complete_elem. destruct (fty f) as [k|sub]; [reflexivity|].
    destruct v as [n|s|sl' u']; try reflexivity. apply andb_true_iff in He. destruct He as [He _]. apply IH. exact He.
Qed.

(* ================= never a crash ================= *)

Lemma unpack_no_crash k : forall fuel b, unpack k fuel b <> RCrash.
Proof.
  induction fuel as [|f IH]; intros b; cbn [unpack]; [discriminate|].
  destruct b as [|b0 b']; [discriminate|].
  pose proof (read_wval_no_crash (wire_of k) (b0 :: b')) as NC.
  destruct (read_wval (wire_of k) (b0 :: b')) as [[wv r]| |]; [|discriminate|contradiction].
  cbv zeta. specialize (IH r). destruct (unpack k f r); [discriminate|discriminate|contradiction].
Qed.

Lemma conv_no_crash dec_sub :
  (forall s i b, dec_sub s i b <> RCrash) -> forall f cur wv, conv dec_sub f cur wv <> CvCrash.
Proof.
  intros Hs f cur wv. unfold conv.
  destruct (fty f) as [k|sub].
  - destruct k, wv; try discriminate;
    match goal with |- context [unpack ?K ?F ?B] =>
      pose proof (unpack_no_crash K F B) as NC; destruct (unpack K F B); [discriminate|discriminate|contradiction] end.
  - destruct wv; try discriminate.
    match goal with |- context [dec_sub ?S ?I ?B] =>
      pose proof (Hs S I B) as NC; destruct (dec_sub S I B) as [[m l]| |]; [discriminate|discriminate|contradiction] end.
Qed.

Lemma dec_loop_no_crash dec_sub :
  (forall s i b, dec_sub s i b <> RCrash) ->
  forall fuel fs st b, dec_loop dec_sub fuel fs st b <> RCrash.
Proof.
  intros Hs. induction fuel as [|fu IH]; intros fs st b; cbn [dec_loop]; [discriminate|].
  unfold dec_step. destruct b as [|b0 b']; [discriminate|].
  destruct (uvarint (b0 :: b')) as [[x b1]|]; [|discriminate].
  destruct (x / 8 =? 0); [discriminate|].
  pose proof (read_wval_no_crash (x mod 8) b1) as NC.
  destruct (lookup fs (st_slots st) (x / 8)) as [[f cur]|].
  - destruct (negb (accepts f (x mod 8))).
    + unfold dec_unknown. destruct (read_wval (x mod 8) b1) as [[v b2]| |]; [apply IH|discriminate|contradiction].
    + destruct (read_wval (x mod 8) b1) as [[v b2]| |]; [|discriminate|contradiction].
      pose proof (conv_no_crash dec_sub Hs f cur v) as CC.
      destruct (conv dec_sub f cur v); [apply IH|discriminate|contradiction].
  - unfold dec_unknown. destruct (read_wval (x mod 8) b1) as [[v b2]| |]; [apply IH|discriminate|contradiction].
Qed.

Theorem dec_no_crash : forall d fs init b, dec d fs init b <> RCrash.
Proof.
  induction d as [|d IH]; intros fs init b; cbn [dec]; [discriminate|].
  pose proof (dec_loop_no_crash (dec d) IH (S (length b)) fs (mkSt (fst init) (snd init) [] false) b) as NC.
  destruct (dec_loop (dec d) (S (length b)) fs (mkSt (fst init) (snd init) [] false) b); [discriminate|discriminate|contradiction].
Qed.

Theorem decode_no_crash : forall d fs b, decode d fs b <> RCrash.
Proof.
  intros d fs b. unfold decode. pose proof (dec_no_crash d fs (empty_msg fs) b) as NC.
  destruct (dec d fs (empty_msg fs) b) as [[m [|]]| |]; [discriminate|discriminate|discriminate|contradiction].
Qed.
