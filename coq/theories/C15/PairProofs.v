(* C15/PairProofs.v — proofs about the pooled request/reply pairing model. *)
From Verif Require Import Lib.Bytes C15.PairModel.
From Coq Require Import ZifyBool ZifyNat ZifyN.
Open Scope N_scope.

Definition own (c : pcall) : reply := (pc_tok c, pc_kind c).

(* under the discipline a call that reads a frame reads the reply to its own request *)
Lemma step_own st c :
  snd (step st c) = true -> forall r, snd (fst (step st c)) = Some r -> r = own c.
Proof.
  unfold step. destruct (pc_seen c); cbn [negb]; [|cbn; discriminate].
  cbv zeta. intros D r H.
  assert (Q : (if pc_reused c then get st (pc_client c) else []) = []).
  { destruct (pc_reused c); [|reflexivity].
    destruct (got_frame c);
    [destruct ((get st (pc_client c)) ++ [(pc_tok c, pc_kind c)]) as [|h t] eqn:E|];
    cbn [snd fst negb orb] in D; destruct (get st (pc_client c)); try reflexivity; discriminate D. }
  rewrite Q in *. cbn [app] in *.
  destruct (got_frame c); cbn [fst snd] in H; [|discriminate].
  inversion H. reflexivity.
Qed.

Fixpoint zip_ok (cs : list pcall) (ds : list (option reply)) : Prop :=
  match cs, ds with
  | c :: cs', d :: ds' => (forall r, d = Some r -> r = own c) /\ zip_ok cs' ds'
  | [], [] => True
  | _, _ => False
  end.

Lemma run_pairing : forall cs st, snd (run st cs) = true -> zip_ok cs (fst (run st cs)).
Proof.
  induction cs as [|c cs IH]; intros st H; [exact I|].
  cbn [run] in *.
  destruct (step st c) as [[st' d] ok] eqn:E.
  destruct (run st' cs) as [ds oks] eqn:R.
  cbn [fst snd] in *. apply andb_true_iff in H. destruct H as [Hok Hoks].
  split.
  - intros r Hd. pose proof (step_own st c) as S. rewrite E in S. cbn [fst snd] in S.
    apply S; [exact Hok|exact Hd].
  - specialize (IH st'). rewrite R in IH. apply IH. exact Hoks.
Qed.

(* without the discipline: the reply to a request that timed out is handed to the next *)
Definition leaky_trace : list pcall :=
  [ PC 0 1 1 true false 0 0      (* request 1: reply late, caller times out, connection kept *)
  ; PC 0 2 2 true true 1 0 ].    (* request 2 on the same connection: reads reply 1 (success) *)

Lemma leaky_trace_mispairs :
  snd (run0 leaky_trace) = false /\ nth 1 (fst (run0 leaky_trace)) None = Some (1, 1) /\
  forallb call_ok leaky_trace = false.
Proof. vm_compute. repeat split; reflexivity. Qed.

(* the executable spec holds of whatever the model delivers under the discipline: a
   caller that is handed exactly the frame the model delivers is handed its own reply *)
Lemma delivered_is_call_ok c st :
  snd (step st c) = true ->
  (pc_cls c =? 0) = true \/
  (forall r, snd (fst (step st c)) = Some r -> got_frame c = true -> matches c r = true -> call_ok c = true).
Proof.
  intros D. right. intros r H G M.
  rewrite (step_own st c D r H) in M. unfold call_ok, own in *. rewrite G, M. apply orb_true_r.
Qed.
