(* C15/Props.v — property theorems only: each is closed by [exact] of a lemma proved in
   Proofs.v and followed by Print Assumptions. *)
From Verif Require Import Lib.Bytes C15.Model C15.Proofs C15.PointModel C15.PointProofs C15.PairModel C15.PairProofs
  C15.Proto C15.ProtoProofs C15.ProtoTable C15.Wrap C15.WrapProofs.
From VerifGen Require Import Consts.

(* No byte stream makes ReadLV panic, and the frame buffer it allocates is always
   smaller than MaxMessageSize (regenerated from the source). *)
Theorem readlv_never_crash_bounded_alloc :
  forall s : bytes, read_lv s <> LvCrash /\
                    (0 <= lv_alloc (read_lv s) < max_message_size)%Z.
Proof. intros s; split; [exact (read_lv_no_crash s) | exact (read_lv_alloc_bound s)]. Qed.
Print Assumptions readlv_never_crash_bounded_alloc.

(* An accepted frame is exactly the framed payload; nothing is invented or lost. *)
Theorem readlv_ok_is_framed_payload :
  forall s p r a, read_lv s = LvOk p r a ->
  exists hdr, s = hdr ++ p ++ r /\ length hdr = 8%nat /\
              a = to_int64 (be_dec hdr) /\ a = Z.of_nat (length p) /\ (a < max_message_size)%Z.
Proof. exact read_lv_ok_inv. Qed.
Print Assumptions readlv_ok_is_framed_payload.

Theorem tlv_roundtrip :
  forall typ buf rest, (Z.of_nat (length buf) < max_message_size)%Z ->
  read_tlv (write_tlv typ buf ++ rest) = TlvOk typ buf rest.
Proof. exact Proofs.tlv_roundtrip. Qed.
Print Assumptions tlv_roundtrip.

Theorem frame_stream_roundtrip :
  forall fs, Forall (fun f => (Z.of_nat (length (snd f)) < max_message_size)%Z) fs ->
  read_frames (S (length fs)) (write_frames fs) = Some fs.
Proof. exact frames_roundtrip. Qed.
Print Assumptions frame_stream_roundtrip.

(* For every byte stream the dispatch loop of handleConn (table regenerated from the
   source) ends without a panic in the framing layer. *)
Theorem serve_never_crash :
  forall s : bytes, no_crash (serve_stream s) = true.
Proof. intros s. exact (serve_no_crash _ s). Qed.
Print Assumptions serve_never_crash.

Theorem serve_fuel_independent :
  forall f s, (length s < f)%nat -> serve f s = serve_stream s.
Proof. intros f s H. apply serve_fuel_enough; [exact H | unfold lt; apply le_n]. Qed.
Print Assumptions serve_fuel_independent.

(* the defect repaired by the fix: commit, kept as a checked refutation of the
   unrepaired ReadLV *)
Theorem readlv_unpatched_refuted :
  exists s, read_lv_with false max_message_size s = LvCrash.
Proof. exact read_lv_unpatched_crashes. Qed.
Print Assumptions readlv_unpatched_refuted.

(* ---------- streamed query points (PointModel.v) ---------- *)
Open Scope N_scope.

(* Tags.ID(): a non-empty tag map whose keys and values contain no NUL byte is read back
   from its id, and newTagsID keeps the id *)
Theorem tags_id_roundtrip :
  forall kvs : list (bytes * bytes), kvs <> [] -> wf_kvs kvs ->
  decode_tags (encode_tags kvs) = kvs /\ new_tags_id (encode_tags kvs) = encode_tags kvs.
Proof.
  intros kvs Hne W. split; [exact (decode_encode_tags kvs Hne W) | exact (new_tags_id_encode kvs W)].
Qed.
Print Assumptions tags_id_roundtrip.

(* every auxiliary value — each typed value, each typed nil marker, the untyped nil —
   is read back as itself; in particular AString [] is not AStringNil *)
Theorem aux_roundtrip :
  forall a : auxv, wf_aux a ->
  parse_aux (encode_aux a) = ROk (aux_acc_of a) /\ decode_aux (aux_acc_of a) = a.
Proof. intros a W. split; [exact (parse_aux_encode a W) | exact (decode_aux_of a W)]. Qed.
Print Assumptions aux_roundtrip.

(* for EVERY well-formed point of each of the five value types (any name bytes, any
   Tags.ID() that newTagsID keeps, any time, nil flag, any aux list, any aggregate count):
   the protobuf body decodes to the point, and the framed point read by the reader loop
   gives exactly that point and a clean end of stream *)
Theorem pointframe_roundtrip :
  forall (trace_ok : bytes -> bool) (t : ptype) (p : point),
  wf_point t p -> N.of_nat (length (encode_point_body p)) < two32 ->
  decode_body t (encode_point_body p) = ROk (FPoint p) /\
  read_frames_of trace_ok t (frame (encode_point_body p)) = ([p], SEof).
Proof.
  intros trace_ok t p W L.
  split; [exact (decode_encode_point_body t p W) | exact (pointframe_roundtrip_lemma trace_ok t p W L)].
Qed.
Print Assumptions pointframe_roundtrip.

(* a stream of frames (points, stats frames, trace frames) decodes to the same sequence
   of points; stats and trace frames are skipped; the stream ends cleanly *)
Theorem pointstream_roundtrip :
  forall (trace_ok : bytes -> bool) (t : ptype) (items : list item),
  Forall (wf_item trace_ok t) items ->
  read_frames_of trace_ok t (encode_items items) = (points_of items, SEof).
Proof. exact stream_roundtrip. Qed.
Print Assumptions pointstream_roundtrip.

(* what IteratorEncoder writes (stats, the points, stats, optional trace) is read back as
   exactly the points *)
Theorem iterator_stream_roundtrip :
  forall (trace_ok : bytes -> bool) (t : ptype) (ps : list point) (sn pn : N) (trace : bytes),
  Forall (wf_item trace_ok t) (encode_iterator ps sn pn trace) ->
  read_frames_of trace_ok t (encode_items (encode_iterator ps sn pn trace)) = (ps, SEof).
Proof. exact iterator_roundtrip_lemma. Qed.
Print Assumptions iterator_stream_roundtrip.

(* for EVERY byte string the frame reader and the message decoder end in Ok or Err:
   every slice the decoder takes is guarded by a length check *)
Theorem point_decode_never_crash :
  forall (trace_ok : bytes -> bool) (t : ptype) (s : bytes),
  snd (read_frames_of trace_ok t s) <> SCrash /\ decode_body t s <> RCrash.
Proof.
  intros trace_ok t s. split; [exact (never_crash_lemma trace_ok t s) | exact (decode_body_no_crash t s)].
Qed.
Print Assumptions point_decode_never_crash.

(* the reader loop does not depend on the fuel once it exceeds the input length *)
Theorem read_stream_fuel_independent :
  forall trace_ok t f s, (length s < f)%nat -> read_stream trace_ok t f s = read_frames_of trace_ok t s.
Proof. intros trace_ok t f s H. apply read_stream_fuel; [exact H | unfold lt; apply le_n]. Qed.
Print Assumptions read_stream_fuel_independent.

(* ---------- request/reply pairing on pooled connections (PairModel.v) ---------- *)

(* for EVERY sequence of calls (any mix of the two client pools, any tokens, any scripted
   replies, any outcome of each call — reply read, timeout, error —, any pool state): if the
   client keeps the discipline "a connection whose reply was not fully read is never
   reused", every reply frame a call reads is the reply to that call's own request *)
Theorem pooled_reply_pairing :
  forall (cs : list pcall) (st : pools),
  snd (run st cs) = true -> zip_ok cs (fst (run st cs)).
Proof. exact run_pairing. Qed.
Print Assumptions pooled_reply_pairing.

(* without the discipline the pairing fails: after a timed-out request whose connection is
   kept, the next caller on that connection is handed the previous request's reply *)
Theorem pooled_reply_pairing_without_discipline_refuted :
  exists cs : list pcall,
  snd (run0 cs) = false /\ nth 1 (fst (run0 cs)) None = Some (1, 1) /\ forallb call_ok cs = false.
Proof. exists leaky_trace. exact leaky_trace_mispairs. Qed.
Print Assumptions pooled_reply_pairing_without_discipline_refuted.

Example pairing_nonvacuous :
  let cs := [PC 0 1 1 true false 0 0; PC 0 2 2 true false 2 2; PC 0 3 1 true true 1 0; PC 1 4 3 true false 3 0] in
  snd (run0 cs) = true /\ fst (run0 cs) = [None; Some (2, 2); Some (3, 1); Some (4, 3)] /\ forallb call_ok cs = true.
Proof. vm_compute. repeat split; reflexivity. Qed.

(* non-vacuity *)
Definition example_point : point :=
  mkPoint [99;112;117] (encode_tags [([104;111;115;116], [97]); ([114], [])]) 18446744073709551615 true
          [AString []; AStringNil; AFloat 4609434218613702656; AFloatNil; AInteger 18446744073709551615;
           AIntegerNil; AUnsigned 0; AUnsignedNil; ABoolean false; ABooleanNil; AUnknown]
          4294967295 (VFloat 9221120237041090561).

Example example_point_wf :
  wf_point TFloat example_point /\
  N.of_nat (length (encode_point_body example_point)) < two32.
Proof.
  split; [|vm_compute; reflexivity].
  unfold wf_point.
  split; [vm_compute; reflexivity|].
  split; [vm_compute; reflexivity|].
  split; [vm_compute; reflexivity|].
  split; [vm_compute; reflexivity|].
  split; [vm_compute; reflexivity|].
  split.
  { unfold example_point. cbn [p_aux].
    repeat (apply Forall_cons; [vm_compute; first [reflexivity | exact I]|]). apply Forall_nil. }
  split.
  { unfold example_point. cbn [p_aux].
    repeat (apply Forall_cons; [vm_compute; reflexivity|]). apply Forall_nil. }
  vm_compute. reflexivity.
Qed.

Example example_point_roundtrip :
  read_frames_of (fun _ => true) TFloat (frame (encode_point_body example_point)) = ([example_point], SEof).
Proof. vm_compute. reflexivity. Qed.

Example empty_string_aux_is_not_nil :
  encode_aux (AString []) <> encode_aux AStringNil /\
  (exists a, parse_aux (encode_aux (AString [])) = ROk a /\ decode_aux a = AString []) /\
  (exists a, parse_aux (encode_aux AStringNil) = ROk a /\ decode_aux a = AStringNil).
Proof.
  split; [vm_compute; discriminate|].
  split; eexists; split; vm_compute; reflexivity.
Qed.

Example example_stream_roundtrip :
  let items := [IStats 1 2; IPoint example_point; IStats 1 3; ITrace [1;2;3]] in
  Forall (wf_item (fun _ => true) TFloat) items /\
  read_frames_of (fun _ => true) TFloat (encode_items items) = ([example_point], SEof).
Proof.
  cbv zeta. split; [|vm_compute; reflexivity].
  apply Forall_cons; [split; [vm_compute; reflexivity|split; vm_compute; reflexivity]|].
  apply Forall_cons; [split; [vm_compute; reflexivity|exact (proj1 example_point_wf)]|].
  apply Forall_cons; [split; [vm_compute; reflexivity|split; vm_compute; reflexivity]|].
  apply Forall_cons; [|apply Forall_nil].
  split; [vm_compute; reflexivity|].
  split; [discriminate|]. split; [vm_compute; reflexivity|reflexivity].
Qed.

(* a malformed frame is an error, not a crash: missing required field; truncated varint *)
Example malformed_frames_are_errors :
  read_frames_of (fun _ => true) TFloat [0;0;0;2;8;1] = ([], SErr) /\
  read_frames_of (fun _ => true) TFloat [0;0;0;1;255] = ([], SErr) /\
  read_frames_of (fun _ => true) TFloat [0;0;1] = ([], SErr) /\
  read_frames_of (fun _ => true) TFloat [0;0;0;9;1] = ([], SErr) /\
  (* field number 0: "illegal tag 0" *)
  decode_body TFloat [10;0;18;0;24;0;32;0;0;11] = RErr.
Proof. vm_compute. repeat split; reflexivity. Qed.

Example tlv_roundtrip_nonvacuous :
  read_tlv (write_tlv 21 [1;2;3]%N ++ [9]%N) = TlvOk 21%N [1;2;3]%N [9]%N.
Proof. vm_compute. reflexivity. Qed.


(* ---------- request / response bodies: the generic protobuf model (Proto.v) ---------- *)

(* For EVERY schema that is well formed to nesting depth d (field numbers strictly increasing
   and below 2^29, packed only on numbers, nested schemas well formed) and EVERY message value
   well formed for it (one slot per field, numbers in range, optional at most once, required
   exactly once, nested messages well formed, every length below 2^64):
   Unmarshal(Marshal(m)) = m, and Marshal reports no missing required field. *)
Theorem proto_generic_roundtrip :
  forall (d : nat) (s : schema) (m : msgv),
  wf_schema d s = true -> wf_msg d s m = true ->
  decode d s (encode d s m) = ROk m /\ complete d s m = true.
Proof. intros d s m Hs Hm. split; [exact (decode_encode d s m Hs Hm)|exact (complete_of_wf d s m Hm)]. Qed.
Print Assumptions proto_generic_roundtrip.

(* For EVERY schema (well formed or not), EVERY initial message and EVERY byte string the
   unmarshaler returns a message or an error: no slice is ever taken beyond the buffer. *)
Theorem proto_decode_never_crashes :
  forall (d : nat) (s : schema) (b : bytes), decode d s b <> RCrash.
Proof. exact decode_no_crash. Qed.
Print Assumptions proto_decode_never_crashes.

(* Every schema regenerated from data.pb.go in this run is well formed, so each message of
   the inter-node protocol (looked up by name, or as the request / response body of a
   message-type code of service.go) round-trips and its decoder cannot crash. *)
Theorem rpc_message_roundtrip :
  forall name s m, schema_by_name name = Some s -> wf_msg rpc_depth s m = true ->
  decode rpc_depth s (encode rpc_depth s m) = ROk m /\ complete rpc_depth s m = true.
Proof. exact rpc_message_roundtrip_lemma. Qed.
Print Assumptions rpc_message_roundtrip.

Theorem rpc_body_roundtrip :
  forall code s m, request_schema code = Some s \/ response_schema code = Some s ->
  wf_msg rpc_depth s m = true -> decode rpc_depth s (encode rpc_depth s m) = ROk m.
Proof. exact rpc_body_roundtrip_lemma. Qed.
Print Assumptions rpc_body_roundtrip.

Theorem rpc_tables_well_formed :
  all_wf = true /\ names_distinct (map fst c15_rpc_messages) = true /\ c15_pb_matches_proto = true.
Proof. split; [exact rpc_schemas_wf|]. destruct rpc_table_sane as (A & B & _). split; assumption. Qed.
Print Assumptions rpc_tables_well_formed.

(* rpc.go wrappers.  The codecs of the opaque payloads are hypotheses (section variables). *)
Theorem write_shard_request_lossless :
  forall (P : Type) (marshal_point : P -> bytes) (parse_point : bytes -> option P),
  (forall p, parse_point (marshal_point p) = Some p) ->
  forall id db rp (ps : list P),
  let w := mkWs (Some id) db rp (map marshal_point ps) in
  (id < two64)%N -> forallb short_b (map marshal_point ps) = true -> oshort db = true -> oshort rp = true ->
  exists m', decode rpc_depth ws_schema (encode rpc_depth ws_schema (ws_to_msg w)) = ROk m' /\
             complete rpc_depth ws_schema (ws_to_msg w) = true /\
             ws_getters m' = (id, dflt db, dflt rp, map marshal_point ps) /\
             filter_map parse_point (snd (ws_getters m')) = ps.
Proof. exact write_shard_request_lossless_lemma. Qed.
Print Assumptions write_shard_request_lossless.

Theorem execute_statement_request_lossless :
  forall stmt db, short_b stmt = true -> short_b db = true ->
  let m := es_to_msg (Some stmt) (Some db) in
  decode rpc_depth es_schema (encode rpc_depth es_schema m) = ROk m /\ es_getters m = (stmt, db).
Proof. exact execute_statement_request_lossless_lemma. Qed.
Print Assumptions execute_statement_request_lossless.

Theorem create_iterator_request_lossless :
  forall (M O S : Type) (enc_m : M -> bytes) (dec_m : bytes -> option M)
         (enc_o : O -> bytes) (dec_o : bytes -> option O) (enc_s : S -> bytes) (dec_s : bytes -> option S),
  (forall x, dec_m (enc_m x) = Some x) -> (forall x, dec_o (enc_o x) = Some x) -> (forall x, dec_s (enc_s x) = Some x) ->
  forall ids mm oo ss,
  forallb (fun n => (n <? two64)%N) ids = true ->
  short_b (enc_m mm) = true -> short_b (enc_o oo) = true -> short_b (enc_s ss) = true ->
  let m := ci_to_msg ids (Some (enc_m mm)) (Some (enc_o oo)) (Some (enc_s ss)) in
  decode rpc_depth ci_schema (encode rpc_depth ci_schema m) = ROk m /\
  (let '(i, a, b, c) := ci_getters m in (i, dec_m a, dec_o b, dec_s c)) = (ids, Some mm, Some oo, Some ss).
Proof. exact create_iterator_request_lossless_lemma. Qed.
Print Assumptions create_iterator_request_lossless.

Theorem create_iterator_response_lossless :
  forall err typ64 series points,
  oshort err = true -> sext32 (typ64 mod two32) = typ64 -> (series < two64)%N -> (points < two64)%N ->
  let m := cir_to_msg err typ64 series points in
  decode rpc_depth cir_schema (encode rpc_depth cir_schema m) = ROk m /\
  cir_getters m = (err, typ64, series, points).
Proof. exact create_iterator_response_lossless_lemma. Qed.
Print Assumptions create_iterator_response_lossless.

(* non-vacuity: a nested, repeated, partly unset message; malformed bytes are errors *)
Example proto_roundtrip_nonvacuous :
  let m : msgv := ([[VBytes [101]]; [VNum 4294967295]; [VMsg [[VNum 18446744073709551615]; []] []]], []) in
  wf_schema rpc_depth cir_schema = true /\ wf_msg rpc_depth cir_schema m = true /\
  decode rpc_depth cir_schema (encode rpc_depth cir_schema m) = ROk m.
Proof. vm_compute. repeat split; reflexivity. Qed.

Example proto_malformed_is_error :
  decode rpc_depth ws_schema [] = RErr /\                      (* required ShardID missing *)
  decode rpc_depth ws_schema [8; 1; 18; 5; 65] = RErr /\       (* length beyond the buffer *)
  decode rpc_depth ws_schema [8; 1; 0; 0] = RErr /\            (* illegal tag 0 *)
  decode rpc_depth ws_schema [8; 1; 18; 255; 255; 255; 255; 255; 255; 255; 255; 255; 1] = RErr /\  (* length 2^64-1 *)
  decode rpc_depth ws_schema [8; 1; 21; 1; 2; 3; 4] = ROk ([[VNum 1]; []; []; []], [21; 1; 2; 3; 4]) /\ (* wrong wire type: kept as unknown *)
  decode rpc_depth cir_schema [16; 1; 26; 2; 8; 5; 26; 2; 16; 6] =
    ROk ([[]; [VNum 1]; [VMsg [[VNum 5]; [VNum 6]] []]], []).   (* a repeated nested message is merged *)
Proof. vm_compute. repeat split; reflexivity. Qed.
