(* C15/Props.v — property theorems only: each is closed by [exact] of a lemma proved in
   Proofs.v and followed by Print Assumptions. *)
From Verif Require Import Lib.Bytes C15.Model C15.Proofs.
From VerifGen Require Import Consts.

(* No byte stream makes ReadLV panic, and the frame buffer it allocates is always
   smaller than MaxMessageSize (regenerated from the source). *)
Theorem readlv_never_crash_bounded_alloc :
  forall s : bytes, read_lv s <> LvCrash /\
                    (0 <= lv_alloc (read_lv s) < max_message_size)%Z.
Proof. intros s; split; [exact (read_lv_no_crash s) | exact (read_lv_alloc_bound s)]. Qed.
Print Assumptions readlv_never_crash_bounded_alloc.

(* An accepted frame is exactly the framed payload; nothing is invented or lost. *)
Theorem readlv_ok_is_framed_payload :
  forall s p r a, read_lv s = LvOk p r a ->
  exists hdr, s = hdr ++ p ++ r /\ length hdr = 8%nat /\
              a = to_int64 (be_dec hdr) /\ a = Z.of_nat (length p) /\ (a < max_message_size)%Z.
Proof. exact read_lv_ok_inv. Qed.
Print Assumptions readlv_ok_is_framed_payload.

Theorem tlv_roundtrip :
  forall typ buf rest, (Z.of_nat (length buf) < max_message_size)%Z ->
  read_tlv (write_tlv typ buf ++ rest) = TlvOk typ buf rest.
Proof. exact Proofs.tlv_roundtrip. Qed.
Print Assumptions tlv_roundtrip.

Theorem frame_stream_roundtrip :
  forall fs, Forall (fun f => (Z.of_nat (length (snd f)) < max_message_size)%Z) fs ->
  read_frames (S (length fs)) (write_frames fs) = Some fs.
Proof. exact frames_roundtrip. Qed.
Print Assumptions frame_stream_roundtrip.

(* For every byte stream the dispatch loop of handleConn (table regenerated from the
   source) ends without a panic in the framing layer. *)
Theorem serve_never_crash :
  forall s : bytes, no_crash (serve_stream s) = true.
Proof. intros s. exact (serve_no_crash _ s). Qed.
Print Assumptions serve_never_crash.

Theorem serve_fuel_independent :
  forall f s, (length s < f)%nat -> serve f s = serve_stream s.
Proof. intros f s H. apply serve_fuel_enough; [exact H | unfold lt; apply le_n]. Qed.
Print Assumptions serve_fuel_independent.

(* the defect repaired by the fix: commit, kept as a checked refutation of the
   unrepaired ReadLV *)
Theorem readlv_unpatched_refuted :
  exists s, read_lv_with false max_message_size s = LvCrash.
Proof. exact read_lv_unpatched_crashes. Qed.
Print Assumptions readlv_unpatched_refuted.

(* non-vacuity *)
Example tlv_roundtrip_nonvacuous :
  read_tlv (write_tlv 21 [1;2;3]%N ++ [9]%N) = TlvOk 21%N [1;2;3]%N [9]%N.
Proof. vm_compute. reflexivity. Qed.
