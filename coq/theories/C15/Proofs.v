(* C15/Proofs.v — proofs about the TLV framing model. *)
From Verif Require Import Lib.Bytes C15.Model.
From VerifGen Require Import Consts.
From Coq Require Import ZifyBool ZifyNat ZifyN.
Open Scope N_scope.

(* ---- ReadLV never crashes and never allocates >= MaxMessageSize ---- *)

Definition lv_alloc (o : lv_out) : Z :=
  match o with LvOk _ _ a => a | LvErr _ a => a | LvCrash => 0%Z end.

Lemma read_lv_with_true_no_crash max s : read_lv_with true max s <> LvCrash.
Proof.
  unfold read_lv_with. destruct (take 8 s) as [[hdr rest]|]; [|discriminate].
  destruct (_ >=? _)%Z; [discriminate|].
  destruct (_ <? 0)%Z; [discriminate|].
  destruct (_ <? _)%Z; [discriminate|].
  destruct (take _ rest) as [[p r]|]; discriminate.
Qed.

Lemma read_lv_with_alloc_bound b max s :
  (0 < max)%Z -> (0 <= lv_alloc (read_lv_with b max s) < max)%Z.
Proof.
  intros Hm. unfold read_lv_with. destruct (take 8 s) as [[hdr rest]|]; [|cbn; lia].
  destruct (Z.geb_spec (to_int64 (be_dec hdr)) max) as [H1|H1]; [cbn; lia|].
  destruct (Z.ltb_spec (to_int64 (be_dec hdr)) 0) as [H2|H2].
  { destruct b; cbn; lia. }
  destruct (_ <? _)%Z; [cbn; lia|].
  destruct (take _ rest) as [[p r]|]; cbn; lia.
Qed.

Lemma read_lv_no_crash s : read_lv s <> LvCrash.
Proof. apply read_lv_with_true_no_crash. Qed.

Lemma max_message_size_pos : (0 < max_message_size)%Z.
Proof. reflexivity. Qed.

Lemma read_lv_alloc_bound s : (0 <= lv_alloc (read_lv s) < max_message_size)%Z.
Proof. apply read_lv_with_alloc_bound, max_message_size_pos. Qed.

(* payload returned is exactly the sz bytes after the header, and stream is conserved *)
Lemma read_lv_ok_inv s p r a :
  read_lv s = LvOk p r a ->
  exists hdr, s = hdr ++ p ++ r /\ length hdr = 8%nat /\
              a = to_int64 (be_dec hdr) /\ a = Z.of_nat (length p) /\ (a < max_message_size)%Z.
Proof.
  unfold read_lv, read_lv_with. intros H.
  destruct (take 8 s) as [[hdr rest]|] eqn:E1; [|discriminate].
  destruct (Z.geb_spec (to_int64 (be_dec hdr)) max_message_size) as [H1|H1]; [discriminate|].
  destruct (Z.ltb_spec (to_int64 (be_dec hdr)) 0) as [H2|H2]; [discriminate|].
  destruct (_ <? _)%Z; [discriminate|].
  destruct (take _ rest) as [[p' r']|] eqn:E2; [|discriminate].
  inversion H; subst; clear H.
  apply take_some in E1. destruct E1 as [-> Hl].
  apply take_some in E2. destruct E2 as [-> Hl2].
  exists hdr. repeat split; auto. lia.
Qed.

(* the pinned tree (no negative check) could be crashed: witness = length -1 *)
Lemma read_lv_unpatched_crashes :
  exists s, read_lv_with false max_message_size s = LvCrash.
Proof. exists [255;255;255;255;255;255;255;255]. vm_compute. reflexivity. Qed.

(* ---- TLV round trip ---- *)

Lemma write_lv_read_lv buf rest :
  (Z.of_nat (length buf) < max_message_size)%Z ->
  read_lv (write_lv buf ++ rest) = LvOk buf rest (Z.of_nat (length buf)).
Proof.
  intros Hlen. unfold read_lv, read_lv_with, write_lv.
  rewrite <- app_assoc.
  pose proof (take_app (be_enc 8 (N.of_nat (length buf))) (buf ++ rest)) as T.
  rewrite be_enc_length in T. rewrite T. clear T.
  assert (Hm : max_message_size = 1073741824%Z) by reflexivity.
  assert (Hsmall : N.of_nat (length buf) < 256 ^ N.of_nat 8).
  { change (256 ^ N.of_nat 8) with 18446744073709551616. lia. }
  rewrite be_dec_enc by assumption.
  assert (Hi : to_int64 (N.of_nat (length buf)) = Z.of_nat (length buf)).
  { unfold to_int64, two63. destruct (N.ltb_spec (N.of_nat (length buf)) 9223372036854775808); lia. }
  rewrite Hi.
  destruct (Z.geb_spec (Z.of_nat (length buf)) max_message_size); [lia|].
  destruct (Z.ltb_spec (Z.of_nat (length buf)) 0); [lia|].
  rewrite app_length.
  destruct (Z.ltb_spec (Z.of_nat (length buf + length rest)) (Z.of_nat (length buf))); [lia|].
  rewrite Nat2Z.id. rewrite take_app. reflexivity.
Qed.

Lemma tlv_roundtrip typ buf rest :
  (Z.of_nat (length buf) < max_message_size)%Z ->
  read_tlv (write_tlv typ buf ++ rest) = TlvOk typ buf rest.
Proof.
  intros H. unfold read_tlv, write_tlv. cbn [app].
  rewrite write_lv_read_lv by assumption. reflexivity.
Qed.

(* a stream of frames decodes to the same sequence *)
Fixpoint write_frames (fs : list (N * bytes)) : bytes :=
  match fs with
  | [] => []
  | (t, b) :: r => write_tlv t b ++ write_frames r
  end.

Fixpoint read_frames (fuel : nat) (s : bytes) : option (list (N * bytes)) :=
  match fuel with
  | O => None
  | S f => match s with
           | [] => Some []
           | _ => match read_tlv s with
                  | TlvOk t p r => match read_frames f r with
                                   | Some l => Some ((t, p) :: l)
                                   | None => None
                                   end
                  | _ => None
                  end
           end
  end.

Lemma read_frames_cons f t b rest :
  (Z.of_nat (length b) < max_message_size)%Z ->
  read_frames (S f) (write_tlv t b ++ rest) =
  match read_frames f rest with Some l => Some ((t, b) :: l) | None => None end.
Proof.
  intros H. pose proof (tlv_roundtrip t b rest H) as R.
  unfold write_tlv in *. cbn [app] in *. cbn [read_frames]. rewrite R. reflexivity.
Qed.

Lemma frames_roundtrip fs :
  Forall (fun f => (Z.of_nat (length (snd f)) < max_message_size)%Z) fs ->
  read_frames (S (length fs)) (write_frames fs) = Some fs.
Proof.
  induction fs as [|[t b] fs IH]; intros H; [reflexivity|].
  inversion H as [|? ? Hb Hfs]; subst. cbn [snd] in Hb.
  cbn [write_frames length]. rewrite read_frames_cons by assumption.
  rewrite IH by assumption. reflexivity.
Qed.

(* ---- the dispatch loop never crashes, on any byte stream ---- *)

Lemma serve_no_crash fuel s : no_crash (serve fuel s) = true.
Proof.
  revert s; induction fuel as [|f IH]; intros s; [reflexivity|].
  cbn [serve]. destruct s as [|t s1]; [reflexivity|].
  destruct (lookup_dispatch t) as [[| | | | |]|]; [| | |cbn; apply IH|reflexivity| |apply IH].
  - pose proof (read_lv_no_crash s1) as NC.
    destruct (read_lv s1); [cbn; apply IH|reflexivity|contradiction].
  - pose proof (read_lv_no_crash s1) as NC.
    destruct (read_lv s1); [cbn; apply IH|cbn; apply IH|contradiction].
  - pose proof (read_lv_no_crash s1) as NC.
    destruct (read_lv s1); [reflexivity|reflexivity|contradiction].
  - pose proof (read_lv_no_crash s1) as NC.
    destruct (read_lv s1); [reflexivity|reflexivity|contradiction].
Qed.

(* fuel sufficiency: more fuel than bytes never changes the result *)
Lemma read_lv_rest_le s :
  match read_lv s with
  | LvOk _ r _ => (length r <= length s)%nat
  | LvErr r _ => (length r <= length s)%nat
  | LvCrash => True
  end.
Proof.
  unfold read_lv, read_lv_with.
  destruct (take 8 s) as [[hdr rest]|] eqn:E1; [|cbn; lia].
  apply take_some in E1. destruct E1 as [-> Hl]. rewrite app_length.
  destruct (_ >=? _)%Z; [lia|].
  destruct (_ <? 0)%Z; [lia|].
  destruct (_ <? _)%Z; [cbn; lia|].
  destruct (take _ rest) as [[p r]|] eqn:E2; [|cbn; lia].
  apply take_some in E2. destruct E2 as [-> _]. rewrite app_length. lia.
Qed.

Lemma serve_fuel_enough : forall f1 f2 s,
  (length s < f1)%nat -> (length s < f2)%nat -> serve f1 s = serve f2 s.
Proof.
  induction f1 as [|f1 IH]; intros f2 s H1 H2; [lia|].
  destruct f2 as [|f2]; [lia|].
  cbn [serve]. destruct s as [|t s1]; [reflexivity|]. cbn [length] in *.
  pose proof (read_lv_rest_le s1) as R.
  destruct (lookup_dispatch t) as [[| | | | |]|].
  - destruct (read_lv s1); try reflexivity. f_equal. apply IH; lia.
  - destruct (read_lv s1); try reflexivity; f_equal; apply IH; lia.
  - reflexivity.
  - f_equal. apply IH; lia.
  - reflexivity.
  - reflexivity.
  - apply IH; lia.
Qed.
