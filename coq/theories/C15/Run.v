(* C15/Run.v — correspondence cases: the harness records what the implementation did
   on an input; [check_case] compares with the model and evaluates the property
   (executable spec) on the implementation's observation.
   result code: 0 = agree and property holds on the observation
                1 = model and implementation differ, property still holds on the observation
                2 = they differ and the property fails on the implementation's observation
                3 = they agree and the property fails (model mirrors a defect) *)
From Verif Require Import Lib.Bytes C15.Model.
From VerifGen Require Import Consts.
Open Scope N_scope.

Definition code (agree spec_ok : bool) : N :=
  match agree, spec_ok with
  | true, true => 0 | false, true => 1 | false, false => 2 | true, false => 3
  end.

Fixpoint list_eqb {A} (eqb : A -> A -> bool) (a b : list A) : bool :=
  match a, b with
  | [], [] => true
  | x :: a', y :: b' => eqb x y && list_eqb eqb a' b'
  | _, _ => false
  end.

Fixpoint is_prefix (a b : list N) : bool :=
  match a, b with
  | [], _ => true
  | x :: a', y :: b' => N.eqb x y && is_prefix a' b'
  | _ :: _, [] => false
  end.

Inductive case :=
(* ReadLV on stream s: impl outcome class (0 ok, 1 error, 2 panic), payload length when ok,
   number of bytes left unread, and whether the call allocated >= MaxMessageSize bytes *)
| CLv (s : bytes) (cls : N) (payload : bytes) (unread : N) (alloc_ge_max : bool)
(* WriteTLV(typ, buf) bytes produced by impl, and whether impl's ReadTLV gave (typ, buf) back *)
| CWr (typ : N) (buf : bytes) (impl_bytes : bytes) (impl_roundtrip : bool)
(* handleConn fed stream s: reply frame types seen, trailing garbage after the last
   parsable reply frame, panicked *)
| CServe (s : bytes) (reply_types : list N) (panicked : bool).

Definition model_reply_types (evs : list event) : list N :=
  flat_map (fun e => match e with EReply t _ => [t] | ECrash => [] end) evs.

Definition last_is_ret (s : bytes) (evs : list event) : bool :=
  (* replies of DProcRet arms may be followed by a stream; allow extra frames then *)
  match rev evs with
  | EReply t _ :: _ => match lookup_dispatch (t - 1) with Some DProcRet => true | Some DNoLVRet => true | _ => false end
  | _ => false
  end.

Definition check_case (c : case) : N :=
  match c with
  | CLv s cls payload unread big =>
      let m := read_lv s in
      let agree :=
        match m with
        | LvOk p r _ => N.eqb cls 0 && list_eqb N.eqb p payload && N.eqb (N.of_nat (length r)) unread
        | LvErr r _ => N.eqb cls 1 && N.eqb (N.of_nat (length r)) unread
        | LvCrash => N.eqb cls 2
        end in
      code (agree && negb big) (negb (N.eqb cls 2) && negb big)
  | CWr typ buf ib rt =>
      code (list_eqb N.eqb (write_tlv typ buf) ib) rt
  | CServe s rts panicked =>
      let evs := serve_stream s in
      let mt := model_reply_types evs in
      let agree := negb panicked && is_prefix mt rts &&
                   (Nat.eqb (length mt) (length rts) || last_is_ret s evs) in
      code agree (negb panicked)
  end.
