(* C15/Run.v — correspondence cases: the harness records what the implementation did
   on an input; [check_case] compares with the model and evaluates the property
   (executable spec) on the implementation's observation.
   result code: 0 = agree and property holds on the observation
                1 = model and implementation differ, property still holds on the observation
                2 = they differ and the property fails on the implementation's observation
                3 = they agree and the property fails (model mirrors a defect) *)
From Verif Require Export Lib.Bytes C15.Model C15.PointModel C15.PairModel C15.Proto C15.ProtoTable C15.Wrap.
From VerifGen Require Import Consts.
Open Scope N_scope.

Definition code (agree spec_ok : bool) : N :=
  match agree, spec_ok with
  | true, true => 0 | false, true => 1 | false, false => 2 | true, false => 3
  end.

Fixpoint list_eqb {A} (eqb : A -> A -> bool) (a b : list A) : bool :=
  match a, b with
  | [], [] => true
  | x :: a', y :: b' => eqb x y && list_eqb eqb a' b'
  | _, _ => false
  end.

Fixpoint is_prefix (a b : list N) : bool :=
  match a, b with
  | [], _ => true
  | x :: a', y :: b' => N.eqb x y && is_prefix a' b'
  | _ :: _, [] => false
  end.

Definition bytes_eqb : bytes -> bytes -> bool := list_eqb N.eqb.

Definition auxv_eqb (a b : auxv) : bool :=
  match a, b with
  | AFloat x, AFloat y | AInteger x, AInteger y | AUnsigned x, AUnsigned y => N.eqb x y
  | AString x, AString y => bytes_eqb x y
  | ABoolean x, ABoolean y => Bool.eqb x y
  | AFloatNil, AFloatNil | AIntegerNil, AIntegerNil | AUnsignedNil, AUnsignedNil
  | AStringNil, AStringNil | ABooleanNil, ABooleanNil | AUnknown, AUnknown | AOther, AOther => true
  | _, _ => false
  end.

Definition pvalue_eqb (a b : pvalue) : bool :=
  match a, b with
  | VFloat x, VFloat y | VInteger x, VInteger y | VUnsigned x, VUnsigned y => N.eqb x y
  | VString x, VString y => bytes_eqb x y
  | VBoolean x, VBoolean y => Bool.eqb x y
  | _, _ => false
  end.

Definition point_eqb (a b : point) : bool :=
  bytes_eqb (p_name a) (p_name b) && bytes_eqb (p_tags a) (p_tags b) && N.eqb (p_time a) (p_time b) &&
  Bool.eqb (p_nil a) (p_nil b) && list_eqb auxv_eqb (p_aux a) (p_aux b) && N.eqb (p_aggr a) (p_aggr b) &&
  pvalue_eqb (p_value a) (p_value b).

Definition kv_eqb (a b : bytes * bytes) : bool := bytes_eqb (fst a) (fst b) && bytes_eqb (snd a) (snd b).

(* the Go map behind decodeTags, as the harness reports it: distinct keys (last value
   wins) in sorted key order *)
Fixpoint bytes_cmp (a b : bytes) : comparison :=
  match a, b with
  | [], [] => Eq
  | [], _ => Lt
  | _, [] => Gt
  | x :: a', y :: b' => match N.compare x y with Eq => bytes_cmp a' b' | c => c end
  end.

Fixpoint kv_insert (k v : bytes) (l : list (bytes * bytes)) : list (bytes * bytes) :=
  match l with
  | [] => [(k, v)]
  | (k', v') :: r => match bytes_cmp k k' with
                     | Lt => (k, v) :: l
                     | Eq => (k, v) :: r
                     | Gt => (k', v') :: kv_insert k v r
                     end
  end.

Definition canon_kvs (l : list (bytes * bytes)) : list (bytes * bytes) :=
  fold_left (fun acc kv => kv_insert (fst kv) (snd kv) acc) l [].

Inductive case :=
(* ReadLV on stream s: impl outcome class (0 ok, 1 error, 2 panic), payload length when ok,
   number of bytes left unread, and whether the call allocated >= MaxMessageSize bytes *)
| CLv (s : bytes) (cls : N) (payload : bytes) (unread : N) (alloc_ge_max : bool)
(* WriteTLV(typ, buf) bytes produced by impl, and whether impl's ReadTLV gave (typ, buf) back *)
| CWr (typ : N) (buf : bytes) (impl_bytes : bytes) (impl_roundtrip : bool)
(* handleConn fed stream s (random bytes, or well-formed request envelopes with invalid /
   edge contents): reply frame types seen; panicked = handleConn or a request handler
   panicked (also when the listener recovered it) *)
| CServe (s : bytes) (reply_types : list N) (panicked : bool)
(* one point of type t (tags kvs, p_tags p = the real Tags.ID()): frame written by the real
   <T>PointEncoder; real Decode<T>Point on it: class 0 ok / 1 error / 2 panic / 3 = the
   encoder failed; decoded tag map and point *)
| CPoint (t : ptype) (kvs : list (bytes * bytes)) (p : point) (real_bytes : bytes)
         (cls : N) (dkvs : list (bytes * bytes)) (d : point)
(* points through the real IteratorEncoder (stats sn/pn, optional trace frame): encoder
   class, bytes written; real NewReaderIterator(...).Next until nil/error: class (0 clean
   end, 1 error, 2 panic) and the points returned *)
| CStream (t : ptype) (ps : list point) (sn pn : N) (trace : bytes) (ticking : bool) (enc_cls : N) (real_bytes : bytes)
          (cls : N) (dps : list point)
(* arbitrary bytes through the real NewReaderIterator *)
| CRaw (t : ptype) (s : bytes) (cls : N) (dps : list point)
(* Unmarshal(Marshal(v)) = v for a request/response value of rpc.go (differential only:
   there is no model of these messages) *)
| CRpc (name : bytes) (ok : bool)
(* influxql.DataType codes of the working tree: Unknown Float Integer String Boolean Unsigned *)
| CPtConsts (vals : list N)
(* a sequence of calls of the real ShardWriter / MetaExecutor clients over their real
   connection pool against a scripted node (late, error, undecodable, missing replies) *)
| CPair (calls : list pcall)
(* a well-formed request that makes the node's STORE panic (storage-layer fault), then a healthy
   request on a new connection: did the panic escape handleConn (= the data node process dies),
   did the listener count it, was the next request served *)
| CRecover (escaped counted next_served : bool)
(* a value m of the data.proto message [name] (built by reflection over the real struct):
   bytes and error flag of the real proto.Marshal; class (0 ok / 1 error / 2 panic) and value of
   the real proto.Unmarshal of those bytes *)
| CPbEnc (name : bytes) (m : msgv) (real_bytes : bytes) (real_err : bool) (cls : N) (dm : msgv)
(* arbitrary / mutated / truncated bytes through the real proto.Unmarshal into message [name]:
   class, decoded value (unknown fields included), its real re-marshaling and error flag *)
| CPbDec (name : bytes) (b : bytes) (cls : N) (dm : msgv) (remarshal : bytes) (re_err : bool)
(* the field tables of the registered message types as the binary's reflection sees them *)
| CPbSchema (r : reflected)
(* rpc.go wrappers: see Wrap.v *)
| CWrap (w : wrap_case).

Definition model_reply_types (evs : list event) : list N :=
  flat_map (fun e => match e with EReply t _ => [t] | _ => [] end) evs.

Definition last_is_ret (s : bytes) (evs : list event) : bool :=
  (* replies of DProcRet arms may be followed by a stream; allow extra frames then *)
  match rev evs with
  | EReply t _ :: _ => match lookup_dispatch (t - 1) with Some DProcRet => true | Some DNoLVRet => true | _ => false end
  | ERaw :: _ => true
  | _ => false
  end.

(* remove every frame whose body is [target]; an ill-formed tail is kept as it is *)
Fixpoint drop_frames (target : bytes) (fuel : nat) (s : bytes) : bytes :=
  match fuel with
  | O => s
  | S f =>
    match take 4 s with
    | None => s
    | Some (hdr, rest) =>
      if N.of_nat (length rest) <? be_dec hdr then s else
      match take (N.to_nat (be_dec hdr)) rest with
      | None => s
      | Some (body, rest') =>
          if bytes_eqb body target then drop_frames target f rest'
          else hdr ++ body ++ drop_frames target f rest'
      end
    end
  end.

Definition end_class (e : stream_end) : N := match e with SEof => 0 | SErr => 1 | SCrash => 2 end.

(* the harness decodes with context.Background(): decodeIteratorTrace accepts any bytes *)
Definition model_read (t : ptype) (s : bytes) : list point * stream_end :=
  read_frames_of (fun _ => true) t s.

Definition check_case (c : case) : N :=
  match c with
  | CLv s cls payload unread big =>
      let m := read_lv s in
      let agree :=
        match m with
        | LvOk p r _ => N.eqb cls 0 && list_eqb N.eqb p payload && N.eqb (N.of_nat (length r)) unread
        | LvErr r _ => N.eqb cls 1 && N.eqb (N.of_nat (length r)) unread
        | LvCrash => N.eqb cls 2
        end in
      code (agree && negb big) (negb (N.eqb cls 2) && negb big)
  | CWr typ buf ib rt =>
      code (list_eqb N.eqb (write_tlv typ buf) ib) rt
  | CServe s rts panicked =>
      let evs := serve_stream s in
      let mt := model_reply_types evs in
      let agree := negb panicked && is_prefix mt rts &&
                   (Nat.eqb (length mt) (length rts) || last_is_ret s evs) in
      code agree (negb panicked)
  | CPoint t kvs p rb cls dkvs d =>
      let agree_enc := bytes_eqb (encode_tags kvs) (p_tags p) &&
                       bytes_eqb (frame (encode_point_body p)) rb in
      let '(mps, e) := model_read t rb in
      let agree_dec :=
        match mps with
        | m :: _ => N.eqb cls 0 && point_eqb m d &&
                    list_eqb kv_eqb (canon_kvs (decode_tags (p_tags m))) dkvs
        | [] => N.eqb cls (match e with SCrash => 2 | _ => 1 end)
        end in
      let spec_ok := N.eqb cls 0 && point_eqb d p && list_eqb kv_eqb dkvs kvs in
      code (agree_enc && agree_dec) spec_ok
  | CStream t ps sn pn trace ticking enc_cls rb cls dps =>
      (* ticking: a slow source and a 1 ms stats interval put an unpredictable number of
         stats frames between the points: compare after dropping the stats frames *)
      let strip := drop_frames (encode_stats_body sn pn) (S (length rb)) in
      let agree_enc := N.eqb enc_cls 0 &&
        (if ticking then bytes_eqb (strip (encode_items (encode_iterator ps sn pn trace))) (strip rb)
         else bytes_eqb (encode_items (encode_iterator ps sn pn trace)) rb) in
      let '(mps, e) := model_read t rb in
      let agree_dec := N.eqb cls (end_class e) && list_eqb point_eqb mps dps in
      let spec_ok := N.eqb enc_cls 0 && N.eqb cls 0 && list_eqb point_eqb dps ps in
      code (agree_enc && agree_dec) spec_ok
  | CRaw t s cls dps =>
      let '(mps, e) := model_read t s in
      code (N.eqb cls (end_class e) && list_eqb point_eqb mps dps) (negb (N.eqb cls 2))
  | CRpc _ ok => code true ok
  | CPair calls =>
      (* model: FIFO connections; what each call that read a frame must have read, and
         whether the client kept the discipline "never reuse a connection with an unread reply" *)
      let '(ds, disc) := run0 calls in
      let agree_frames :=
        (fix chk (cs : list pcall) (ds : list (option reply)) : bool :=
           match cs, ds with
           | c :: cs', d :: ds' =>
               (if got_frame c then match d with Some r => matches c r | None => false end else true)
               && chk cs' ds'
           | [], [] => true
           | _, _ => false
           end) calls ds in
      code (agree_frames && disc) (forallb call_ok calls)
  | CPtConsts vals =>
      code (list_eqb N.eqb vals [dt_unknown; dt_float; dt_integer; dt_string; dt_boolean; dt_unsigned]) true
  | CRecover escaped counted next_served =>
      (* model of handleConn: a handler panic is recovered by the connection's goroutine, counted,
         the connection is dropped; the listener goes on serving *)
      code (negb escaped && counted && next_served) (negb escaped && next_served)
  | CPbEnc name m rb rerr cls dm =>
      match schema_by_name name with
      | None => code false true          (* the harness names a message the regenerated table lacks *)
      | Some s =>
        let agree_enc := bytes_eqb (encode rpc_depth s m) rb &&
                         Bool.eqb (complete rpc_depth s m) (negb rerr) in
        let agree_dec := match decode rpc_depth s rb with
                         | ROk x => N.eqb cls 0 && msgv_eqb rpc_depth x dm
                         | RErr => N.eqb cls 1
                         | RCrash => N.eqb cls 2
                         end in
        (* lossless: what the sender could marshal is what the receiver gets *)
        let spec_ok := negb (N.eqb cls 2) && (rerr || (N.eqb cls 0 && msgv_eqb rpc_depth dm m)) in
        code (agree_enc && agree_dec) spec_ok
      end
  | CPbDec name b cls dm re reerr =>
      match schema_by_name name with
      | None => code false true
      | Some s =>
        let agree := match decode rpc_depth s b with
                     | ROk x => N.eqb cls 0 && msgv_eqb rpc_depth x dm &&
                                bytes_eqb (encode rpc_depth s x) re &&
                                Bool.eqb (complete rpc_depth s x) (negb reerr)
                     | RErr => N.eqb cls 1
                     | RCrash => N.eqb cls 2
                     end in
        (* never a panic; what is kept of the input is no larger than the input *)
        let spec_ok := negb (N.eqb cls 2) &&
                       (negb (N.eqb cls 0) || (msize rpc_depth (fst dm) (snd dm) <=? length b)%nat) in
        code agree spec_ok
      end
  | CPbSchema r =>
      code (table_matches r && c15_pb_matches_proto && all_wf &&
            names_distinct (map fst c15_rpc_messages)) true
  | CWrap w => let '(a, sp) := check_wrap w in code a sp
  end.
