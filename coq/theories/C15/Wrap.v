(* C15/Wrap.v — the wrappers of coordinator/rpc.go that add meaning on top of the generated
   structs, for WriteShardRequest, ExecuteStatementRequest, CreateIteratorRequest and
   CreateIteratorResponse: which pb fields the setters / MarshalBinary fill (x_to_msg) and
   what the getters / UnmarshalBinary read back (x_of_msg).  The bodies travel through the
   generic model (Proto.v) under the schema regenerated from data.pb.go; the hand-written
   layouts below stop type-checking when the regenerated schemas differ.
   Opaque payloads (binary points of models.Point.MarshalBinary, influxql.Measurement /
   query.IteratorOptions / tracing.SpanContext MarshalBinary) are byte strings here: their
   own codecs enter the theorems of WrapProofs.v as hypotheses only.  Definitions only. *)
From Verif Require Export Lib.Bytes C15.Proto C15.ProtoTable.
From VerifGen Require Import Consts.
Open Scope N_scope.

Definition str (s : list N) : list N := s.

Definition n_WriteShardRequest : list N := [87;114;105;116;101;83;104;97;114;100;82;101;113;117;101;115;116].
Definition n_ExecuteStatementRequest : list N :=
  [69;120;101;99;117;116;101;83;116;97;116;101;109;101;110;116;82;101;113;117;101;115;116].
Definition n_CreateIteratorRequest : list N :=
  [67;114;101;97;116;101;73;116;101;114;97;116;111;114;82;101;113;117;101;115;116].
Definition n_CreateIteratorResponse : list N :=
  [67;114;101;97;116;101;73;116;101;114;97;116;111;114;82;101;115;112;111;110;115;101].

Definition ws_schema : schema :=
  [ mkField 1 LReq (TScalar KUint64); mkField 2 LRep (TScalar KBytes);
    mkField 3 LOpt (TScalar KBytes); mkField 4 LOpt (TScalar KBytes) ].
Definition es_schema : schema := [ mkField 1 LReq (TScalar KBytes); mkField 2 LReq (TScalar KBytes) ].
Definition ci_schema : schema :=
  [ mkField 1 LRep (TScalar KUint64); mkField 2 LReq (TScalar KBytes);
    mkField 3 LReq (TScalar KBytes); mkField 4 LOpt (TScalar KBytes) ].
Definition stats_schema : schema := [ mkField 1 LOpt (TScalar KInt64); mkField 2 LOpt (TScalar KInt64) ].
Definition cir_schema : schema :=
  [ mkField 1 LOpt (TScalar KBytes); mkField 2 LReq (TScalar KInt32); mkField 3 LOpt (TMsg stats_schema) ].

(* the layouts above ARE the regenerated ones *)
Definition wrapper_schemas_as_modelled :
  (schema_by_name n_WriteShardRequest, schema_by_name n_ExecuteStatementRequest,
   schema_by_name n_CreateIteratorRequest, schema_by_name n_CreateIteratorResponse)
  = (Some ws_schema, Some es_schema, Some ci_schema, Some cir_schema) := eq_refl.

Definition oslot (o : option bytes) : list value := match o with Some s => [VBytes s] | None => [] end.
Definition nslot (o : option N) : list value := match o with Some n => [VNum n] | None => [] end.

Definition get_bytes (sl : list value) : bytes := match sl with VBytes s :: _ => s | _ => [] end.   (* GetX() *)
Definition get_obytes (sl : list value) : option bytes := match sl with VBytes s :: _ => Some s | _ => None end.
Definition get_num (sl : list value) : N := match sl with VNum n :: _ => n | _ => 0 end.
Definition bytes_of (sl : list value) : list bytes :=
  flat_map (fun v => match v with VBytes s => [s] | _ => [] end) sl.
Definition nums_of (sl : list value) : list N :=
  flat_map (fun v => match v with VNum n => [n] | _ => [] end) sl.
Definition slot (m : msgv) (i : nat) : list value := nth i (fst m) [].

(* ---- WriteShardRequest: SetShardID / SetDatabase / SetRetentionPolicy / SetBinaryPoints
   (or AddPoints: one MarshalBinary blob per point) ---- *)
Record ws := mkWs { ws_id : option N; ws_db : option bytes; ws_rp : option bytes; ws_points : list bytes }.

Definition ws_to_msg (w : ws) : msgv :=
  ([nslot (ws_id w); map VBytes (ws_points w); oslot (ws_db w); oslot (ws_rp w)], []).

(* ShardID(), Database(), RetentionPolicy(), pb.GetPoints() *)
Definition ws_getters (m : msgv) : N * bytes * bytes * list bytes :=
  (get_num (slot m 0), get_bytes (slot m 2), get_bytes (slot m 3), bytes_of (slot m 1)).

(* unmarshalPoints: a blob NewPointFromBytes rejects is logged and dropped *)
Fixpoint filter_map {A B} (f : A -> option B) (l : list A) : list B :=
  match l with
  | [] => []
  | x :: r => match f x with Some y => y :: filter_map f r | None => filter_map f r end
  end.

(* ---- ExecuteStatementRequest: SetStatement / SetDatabase ---- *)
Definition es_to_msg (stmt db : option bytes) : msgv := ([oslot stmt; oslot db], []).
Definition es_getters (m : msgv) : bytes * bytes := (get_bytes (slot m 0), get_bytes (slot m 1)).

(* ---- CreateIteratorRequest.MarshalBinary: ShardIDs, and the three sub-encodings (a nil
   result of a sub-encoder leaves the field nil) ---- *)
Definition ci_to_msg (ids : list N) (mbuf obuf sbuf : option bytes) : msgv :=
  ([map VNum ids; oslot mbuf; oslot obuf; oslot sbuf], []).
(* UnmarshalBinary: pb.GetShardIDs(), then the sub-decoders on GetMeasurement() / GetOpt() /
   GetSpanContext() (nil reads as empty) *)
Definition ci_getters (m : msgv) : list N * bytes * bytes * bytes :=
  (nums_of (slot m 0), get_bytes (slot m 1), get_bytes (slot m 2), get_bytes (slot m 3)).

(* ---- CreateIteratorResponse: Err only when non-nil, Type = int32(r.Type), Stats always ---- *)
Definition cir_to_msg (err : option bytes) (typ64 series points : N) : msgv :=
  ([oslot err; [VNum (typ64 mod two32)]; [VMsg [[VNum series]; [VNum points]] []]], []).
(* Err, influxql.DataType(pb.GetType()) (sign extension), Stats when present *)
Definition cir_getters (m : msgv) : option bytes * N * N * N :=
  (get_obytes (slot m 0), sext32 (get_num (slot m 1)),
   match slot m 2 with VMsg sl _ :: _ => get_num (nth 0 sl []) | _ => 0 end,
   match slot m 2 with VMsg sl _ :: _ => get_num (nth 1 sl []) | _ => 0 end).

(* ---------- correspondence cases ---------- *)

Inductive wrap_case :=
(* inputs given to the real setters; MarshalBinary bytes / error; a fresh value's UnmarshalBinary
   class and getters; which blobs the real NewPointFromBytes accepts; how many points Points()
   returns and whether they are the accepted input points *)
| WWriteShard (w : ws) (rb : bytes) (rerr : bool) (cls : N)
              (g_id : N) (g_db g_rp : bytes) (accepted : list bool) (npoints : N) (points_same : bool)
| WExecStmt (stmt db : option bytes) (rb : bytes) (rerr : bool) (cls : N) (g_stmt g_db : bytes)
(* the three blobs are what the real sub-encoders returned for the wrapper value; acc_* = does the
   real sub-decoder accept the blob; same = decoded wrapper value equals the original (canonical
   forms compared by the harness) *)
| WCreateIt (ids : list N) (mbuf obuf sbuf : option bytes) (rb : bytes) (rerr : bool) (cls : N)
            (acc_m acc_o acc_s : bool) (g_ids : list N) (same : bool)
| WCreateItResp (err : option bytes) (typ64 series points : N) (rb : bytes) (rerr : bool) (cls : N)
                (g_err : option bytes) (g_typ g_series g_points : N).

Definition beqb : bytes -> bytes -> bool := leqb N.eqb.
Definition obeqb (a b : option bytes) : bool :=
  match a, b with Some x, Some y => beqb x y | None, None => true | _, _ => false end.

Definition count_true (l : list bool) : N := N.of_nat (length (filter (fun b => b) l)).

(* (agree, spec_ok) *)
Definition check_wrap (c : wrap_case) : bool * bool :=
  match c with
  | WWriteShard w rb rerr cls g_id g_db g_rp accepted npoints same =>
      let m := ws_to_msg w in
      let agree_enc := beqb (encode rpc_depth ws_schema m) rb && Bool.eqb (complete rpc_depth ws_schema m) (negb rerr) in
      let agree_dec :=
        match decode rpc_depth ws_schema rb with
        | ROk x => let '(i, d, r, ps) := ws_getters x in
                   N.eqb cls 0 && N.eqb i g_id && beqb d g_db && beqb r g_rp &&
                   Nat.eqb (length ps) (length accepted) && N.eqb (count_true accepted) npoints
        | RErr => N.eqb cls 1
        | RCrash => N.eqb cls 2
        end in
      let dflt (o : option bytes) := match o with Some s => s | None => [] end in
      let spec_ok := negb (N.eqb cls 2) &&
        (rerr || (N.eqb cls 0 && N.eqb g_id (match ws_id w with Some i => i | None => 0 end) &&
                  beqb g_db (dflt (ws_db w)) && beqb g_rp (dflt (ws_rp w)) &&
                  Nat.eqb (length accepted) (length (ws_points w)) && same)) in
      (agree_enc && agree_dec, spec_ok)
  | WExecStmt stmt db rb rerr cls g_stmt g_db =>
      let m := es_to_msg stmt db in
      let agree_enc := beqb (encode rpc_depth es_schema m) rb && Bool.eqb (complete rpc_depth es_schema m) (negb rerr) in
      let agree_dec :=
        match decode rpc_depth es_schema rb with
        | ROk x => let '(s, d) := es_getters x in N.eqb cls 0 && beqb s g_stmt && beqb d g_db
        | RErr => N.eqb cls 1
        | RCrash => N.eqb cls 2
        end in
      let dflt (o : option bytes) := match o with Some s => s | None => [] end in
      (agree_enc && agree_dec,
       negb (N.eqb cls 2) && (rerr || (N.eqb cls 0 && beqb g_stmt (dflt stmt) && beqb g_db (dflt db))))
  | WCreateIt ids mbuf obuf sbuf rb rerr cls am ao asp g_ids same =>
      let m := ci_to_msg ids mbuf obuf sbuf in
      let agree_enc := beqb (encode rpc_depth ci_schema m) rb && Bool.eqb (complete rpc_depth ci_schema m) (negb rerr) in
      let agree_dec :=
        match decode rpc_depth ci_schema rb with
        | ROk x => let '(i, _, _, _) := ci_getters x in
                   if am && ao && asp then N.eqb cls 0 && leqb N.eqb i g_ids else N.eqb cls 1
        | RErr => N.eqb cls 1
        | RCrash => N.eqb cls 2
        end in
      (agree_enc && agree_dec,
       negb (N.eqb cls 2) && (rerr || negb (am && ao && asp) || (N.eqb cls 0 && leqb N.eqb g_ids ids && same)))
  | WCreateItResp err typ64 series points rb rerr cls g_err g_typ g_series g_points =>
      let m := cir_to_msg err typ64 series points in
      let agree_enc := beqb (encode rpc_depth cir_schema m) rb && Bool.eqb (complete rpc_depth cir_schema m) (negb rerr) in
      let agree_dec :=
        match decode rpc_depth cir_schema rb with
        | ROk x => let '(e, t, s, p) := cir_getters x in
                   N.eqb cls 0 && obeqb e g_err && N.eqb t g_typ && N.eqb s g_series && N.eqb p g_points
        | RErr => N.eqb cls 1
        | RCrash => N.eqb cls 2
        end in
      (* the DataType travels as int32: lossless for the values that fit *)
      let fits := N.eqb (sext32 (typ64 mod two32)) typ64 in
      (agree_enc && agree_dec,
       negb (N.eqb cls 2) && (rerr || (N.eqb cls 0 && obeqb g_err err && (negb fits || N.eqb g_typ typ64) &&
                                       N.eqb g_series series && N.eqb g_points points)))
  end.
