(* C15/ProtoTable.v — the schemas of EVERY message of coordinator/internal/data.pb.go, built from
   the raw table genconsts re-reads from the struct tags on every run (c15_rpc_messages), and the
   table message-type code -> request / response body (c15_rpc_pairs, from service.go + rpc.go).
   Definitions only. *)
From Verif Require Export Lib.Bytes C15.Proto.
From VerifGen Require Import Consts.
Open Scope N_scope.

Definition kind_of_code (c : N) : option skind :=
  match c with
  | 0 => Some KUint64 | 1 => Some KInt64 | 2 => Some KUint32 | 3 => Some KInt32 | 4 => Some KBool
  | 5 => Some KEnum | 6 => Some KSint32 | 7 => Some KSint64 | 8 => Some KFixed64 | 9 => Some KFixed32
  | 10 => Some KBytes | _ => None
  end.

Definition label_of_code (c : N) : option label :=
  match c with 0 => Some LOpt | 1 => Some LReq | 2 => Some LRep | 3 => Some LRepPacked | _ => None end.

Definition raw_msg : Type := (list N * list (N * N * N * N))%type.

Fixpoint all_some {A} (l : list (option A)) : option (list A) :=
  match l with
  | [] => Some []
  | Some x :: r => match all_some r with Some r' => Some (x :: r') | None => None end
  | None :: _ => None
  end.

(* the schema of the message with 1-based index idx; nesting deeper than d gives None *)
Fixpoint build_schema (d : nat) (tbl : list raw_msg) (idx : N) : option schema :=
  match d with
  | O => None
  | S d' =>
    if idx =? 0 then None else
    match nth_error tbl (N.to_nat (idx - 1)) with
    | None => None
    | Some (_, rows) =>
      all_some (map (fun row : N * N * N * N =>
        let '(num, kind, lab, sub) := row in
        match label_of_code lab with
        | None => None
        | Some l =>
          if kind =? 11 then
            match build_schema d' tbl sub with
            | Some s => Some (mkField num l (TMsg s))
            | None => None
            end
          else match kind_of_code kind with
               | Some k => Some (mkField num l (TScalar k))
               | None => None
               end
        end) rows)
    end
  end.

(* nesting bound used for every message of the table (checked, per run, to suffice) *)
Definition rpc_depth : nat := 4.

Fixpoint number_from {A} (i : N) (l : list A) : list (N * A) :=
  match l with [] => [] | x :: r => (i, x) :: number_from (i + 1) r end.

Definition rpc_schemas : list (list N * option schema) :=
  map (fun p : N * raw_msg => (fst (snd p), build_schema rpc_depth c15_rpc_messages (fst p)))
      (number_from 1 c15_rpc_messages).

Fixpoint name_eqb (a b : list N) : bool :=
  match a, b with
  | [], [] => true
  | x :: a', y :: b' => N.eqb x y && name_eqb a' b'
  | _, _ => false
  end.

Definition schema_by_name (name : list N) : option schema :=
  match find (fun p => name_eqb (fst p) name) rpc_schemas with
  | Some (_, Some s) => Some s
  | _ => None
  end.

Definition schema_by_index (idx : N) : option schema :=
  if idx =? 0 then None else
  match nth_error rpc_schemas (N.to_nat (idx - 1)) with
  | Some (_, Some s) => Some s
  | _ => None
  end.

(* request / response body schema of a request type code *)
Definition request_schema (code : N) : option schema :=
  match find (fun p : N * N * N * N => let '(c, _, _, _) := p in c =? code) c15_rpc_pairs with
  | Some (_, _, ri, _) => schema_by_index ri
  | None => None
  end.
Definition response_schema (code : N) : option schema :=
  match find (fun p : N * N * N * N => let '(c, _, _, _) := p in c =? code) c15_rpc_pairs with
  | Some (_, _, _, si) => schema_by_index si
  | None => None
  end.

Definition all_wf : bool :=
  forallb (fun p : list N * option schema =>
             match snd p with Some s => wf_schema rpc_depth s | None => false end) rpc_schemas.

(* the table names each message once *)
Fixpoint names_distinct (l : list (list N)) : bool :=
  match l with
  | [] => true
  | x :: r => negb (existsb (name_eqb x) r) && names_distinct r
  end.

(* ---------- equality of message values, to depth d ---------- *)

Fixpoint leqb {A B} (eqb : A -> B -> bool) (a : list A) (b : list B) : bool :=
  match a, b with
  | [], [] => true
  | x :: a', y :: b' => eqb x y && leqb eqb a' b'
  | _, _ => false
  end.

Section EqLevel.
  Variable eq_sub : msgv -> msgv -> bool.
  Definition value_eqb_l (a b : value) : bool :=
    match a, b with
    | VNum x, VNum y => N.eqb x y
    | VBytes x, VBytes y => leqb N.eqb x y
    | VMsg s u, VMsg s' u' => eq_sub (s, u) (s', u')
    | _, _ => false
    end.
End EqLevel.

Fixpoint msgv_eqb (d : nat) (a b : msgv) : bool :=
  match d with
  | O => false
  | S d' => leqb (leqb (value_eqb_l (msgv_eqb d'))) (fst a) (fst b) && leqb N.eqb (snd a) (snd b)
  end.

(* the reflected field table the harness reports: (name, [(number, kind, label, sub name)]) *)
Definition reflected : Type := list (list N * list (N * N * N * list N)).

Definition sub_name (sub : N) : list N :=
  if sub =? 0 then [] else
  match nth_error c15_rpc_messages (N.to_nat (sub - 1)) with Some (n, _) => n | None => [255] end.

Definition row_eqb (a : N * N * N * N) (b : N * N * N * list N) : bool :=
  let '(n, k, l, s) := a in let '(n', k', l', s') := b in
  N.eqb n n' && N.eqb k k' && N.eqb l l' && name_eqb (sub_name s) s'.

Definition table_matches (r : reflected) : bool :=
  leqb (fun (a : raw_msg) (b : list N * list (N * N * N * list N)) =>
          name_eqb (fst a) (fst b) && leqb row_eqb (snd a) (snd b)) c15_rpc_messages r.
