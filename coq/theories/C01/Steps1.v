(* C01/Steps1.v — invariant preservation: Write, WalSync, RollSegment. *)
From Verif Require Import Shard.Engine C01.Kv C01.Facts C01.Dinv C01.Inv.
Open Scope Z_scope.
Local Arguments exclude_range : simpl never.
Local Arguments key_eqb : simpl never.

Lemma is_up_ph s : is_up s = true -> ph (sv s) = Up.
Proof. unfold is_up. destruct (ph (sv s)); congruence. Qed.

Lemma no_pend_eq s : no_pend s = true -> pend (sv s) = PNone.
Proof. unfold no_pend. destruct (pend (sv s)); congruence. Qed.

Lemma d_idle_eq s : d_idle s = true -> dstage (sv s) = DIdle.
Proof. unfold d_idle. destruct (dstage (sv s)); congruence. Qed.

Lemma c_idle_eq s : c_idle s = true -> cstage (sv s) = CIdle.
Proof. unfold c_idle. destruct (cstage (sv s)); congruence. Qed.

Lemma Dinv_ext es fs eff (mb mb' : key -> Z -> bool) :
  (forall k t, mb k t = mb' k t) -> Dinv es fs eff mb -> Dinv es fs eff mb'.
Proof. intros H. apply Dinv_mb. intros k t Hk. rewrite <- H. assumption. Qed.

Lemma split_wal_nonempty s Wsn Wh : Split s Wsn Wh -> w_open (sv s) = true -> wal (sd s) <> [].
Proof.
  intros Sp Ho. rewrite (sp_wal _ _ _ Sp). pose proof (sp_open _ _ _ Sp Ho) as H.
  destruct Wh; [contradiction|]. destruct Wsn; discriminate.
Qed.

Lemma sync_all_full s : sync_ok s -> Forall seg_full (update_last sync_seg (wal (sd s))).
Proof.
  unfold sync_ok. intros H. destruct (wal (sd s)) as [|a l] eqn:Ew; [constructor|].
  assert (Hne : a :: l <> []) by discriminate. destruct (exists_last Hne) as [l' [x Ex]]. rewrite Ex in *.
  rewrite rev_snoc in H. destruct H as [H _]. rewrite update_last_snoc. apply Forall_app. split.
  - rewrite <- (rev_involutive l'). apply Forall_rev. assumption.
  - constructor; [reflexivity|constructor].
Qed.

(* ---------- Write ---------- *)

Definition write_listed (pts : list (key * tv)) (l : list key) : list key :=
  fold_left (fun acc p => add_key (series_of (fst p)) acc) pts l.

Lemma do_write_eq s pts :
  w_gap (sv s) = 0%N ->
  do_step repaired s (Write pts) =
  {| sd := {| wal := wal_append (w_open (sv s)) (w_id (sv s)) (EWrite pts) (wal (sd s));
              files := files (sd s); tmps := tmps (sd s) |};
     sv := v_pend (PWrite pts)
             (v_writer true (if w_open (sv s) then w_id (sv s) else (w_id (sv s) + 1)%N) 0%N true
                (v_listed (write_listed pts (listed (sv s))) (v_hot (kv_write pts (hot (sv s))) (sv s))));
     g_hist := g_hist s |}.
Proof.
  intros Hg. unfold do_step, append_entry, wal_append, write_listed. sim.
  destruct (w_open (sv s)) eqn:Eo; sim.
  - rewrite Hg. reflexivity.
  - unfold new_segment. sim. rewrite Eo. sim. rewrite update_last_snoc. reflexivity.
Qed.

Lemma Qpt_write esn eh fs eff mb pts k t :
  Qpt esn eh fs eff mb k t -> Qpt esn (eh ++ [EWrite pts]) fs (eff ++ [GWrite pts]) mb k t.
Proof.
  intros HQ a Ha. rewrite evs_snoc, last_ev_snoc, glww_snoc. cbn [ept gapply].
  destruct (lookup_last t (batch_values k pts)) as [x|]; [left; discriminate|].
  apply HQ. assumption.
Qed.

Lemma inv_write s pts :
  Inv s -> ph (sv s) = Up -> pend (sv s) = PNone -> dstage (sv s) = DIdle ->
  Inv (do_step repaired s (Write pts)).
Proof.
  intros I Hup Hp Hd. pose proof (i_up _ I Hup) as V. destruct (u_split _ V) as [Wsn [Wh Sp]].
  pose proof (u_gap _ V) as Hg. rewrite (do_write_eq s pts Hg).
  set (e := EWrite pts).
  assert (Hne : w_open (sv s) = true -> wal (sd s) <> []) by (apply (split_wal_nonempty _ _ _ Sp)).
  assert (HE : wal_entries (wal_append (w_open (sv s)) (w_id (sv s)) e (wal (sd s))) = E s ++ [e]).
  { apply wal_append_entries; [assumption|apply (u_clean _ V)]. }
  assert (Heff : eff_now s = effective s) by (apply eff_now_nopend; assumption).
  constructor.
  - (* i_dur *)
    unfold E, eff_now, pending_ops. sim. rewrite HE. rewrite (effective_eq s) by reflexivity.
    apply (Dinv_ext _ _ _ (mb_now s)); [apply mb_now_eq; reflexivity|].
    apply Dinv_write. rewrite <- Heff. apply (i_dur _ I).
  - (* i_pw *)
    sim. intros pts' Hpts. inversion Hpts; subst pts'. split; [assumption|]. exists (E s). unfold E. sim. split; [exact HE|].
    apply (Dinv_ext _ _ _ (mb_now s)); [apply mb_now_eq; reflexivity|].
    rewrite (effective_eq s) by reflexivity. rewrite <- Heff. apply (i_dur _ I).
  - (* i_dwal *) sim. intros ss lo hi dk H. rewrite Hd in H. discriminate.
  - (* i_pd *) sim. discriminate.
  - (* i_sync *)
    unfold sync_ok, pend_entry. sim.
    destruct (wal_append_last (w_open (sv s)) (w_id (sv s)) e (wal (sd s)) Hne (sync_ok_all_full _ (i_sync _ I) Hp))
      as [sg [r [its [Hr [Hfull [Hi Hs]]]]]].
    rewrite Hr. split; [assumption|]. exists its. auto.
  - (* i_down *) sim. intros H. contradiction.
  - (* i_up *)
    intros _. destruct V. constructor; sim; auto.
    + apply kv_wf_write. assumption.
    + apply wal_append_clean. assumption.
    + exists Wsn, (wal_append (w_open (sv s)) (w_id (sv s)) e Wh). destruct Sp. constructor; sim; auto.
      * rewrite sp_wal. apply wal_append_split. assumption.
      * intros _. apply wal_append_nonempty. assumption.
      * discriminate.
      * rewrite wal_append_entries.
        -- rewrite replay_app. cbn [replay fold_left apply_entry e]. apply kv_equiv_write. assumption.
        -- assumption.
        -- rewrite sp_wal in u_clean. apply Forall_app in u_clean. tauto.
      * intros Hst k t. rewrite wal_append_entries.
        -- unfold eff_now, pending_ops. sim. rewrite (effective_eq s) by reflexivity.
           specialize (sp_q Hst k t). rewrite Heff in sp_q.
           apply (Qpt_write _ _ _ _ _ pts) in sp_q. intros a Ha.
           destruct (sp_q a Ha) as [H|[H|[H|H]]]; auto.
        -- assumption.
        -- rewrite sp_wal in u_clean. apply Forall_app in u_clean. tauto.
Qed.

(* ---------- syncing the last segment ---------- *)

Lemma sync_split Wsn Wh :
  exists Wsn' Wh', update_last sync_seg (Wsn ++ Wh) = Wsn' ++ Wh' /\
    seg_ids Wsn' = seg_ids Wsn /\ wal_entries Wsn' = wal_entries Wsn /\ wal_entries Wh' = wal_entries Wh /\
    (Wh <> [] -> Wh' <> []) /\
    (forall l sg, Wh = l ++ [sg] -> sg_items sg = [] -> exists l' sg', Wh' = l' ++ [sg'] /\ sg_items sg' = []).
Proof.
  destruct Wh as [|x r].
  - exists (update_last sync_seg Wsn), []. rewrite !app_nil_r. repeat split; auto.
    + apply seg_ids_update_last. reflexivity.
    + apply wal_entries_sync.
    + intros l sg H. destruct l; discriminate.
  - assert (Hne : x :: r <> []) by discriminate.
    exists Wsn, (update_last sync_seg (x :: r)). repeat split; auto.
    + apply update_last_app. assumption.
    + apply wal_entries_sync.
    + intros _. destruct (exists_last Hne) as [l [y ->]]. rewrite update_last_snoc. destruct l; discriminate.
    + intros l sg H Hi. rewrite H, update_last_snoc. exists l, (sync_seg sg). auto.
Qed.

Lemma clean_sync w : Forall seg_clean w -> Forall seg_clean (update_last sync_seg w).
Proof. apply Forall_update_last. intros x H. exact H. Qed.

Lemma rev_update_last_sync w sg r :
  rev (update_last sync_seg w) = sg :: r -> sg_synced sg = length (sg_items sg).
Proof.
  destruct w as [|a l]; [discriminate|].
  assert (Hne : a :: l <> []) by discriminate. destruct (exists_last Hne) as [l' [x ->]].
  rewrite update_last_snoc, rev_snoc. intros H. inversion H. reflexivity.
Qed.

(* ---------- WalSync ---------- *)

Lemma inv_walsync s :
  Inv s -> ph (sv s) = Up -> pend (sv s) <> PNone -> Inv (do_step repaired s WalSync).
Proof.
  intros I Hup Hp. pose proof (i_up _ I Hup) as V. destruct (u_split _ V) as [Wsn [Wh Sp]].
  unfold do_step. unfold sync_wal.
  destruct (sync_split Wsn Wh) as [Wsn' [Wh' [Hw [Hids [Hes [Heh [Hne Hemp]]]]]]].
  rewrite <- (sp_wal _ _ _ Sp) in Hw.
  destruct (pend (sv s)) as [|pts|] eqn:Ep; [contradiction| |].
  - (* the write is acknowledged *)
    assert (Hd : forall ss lo hi dk, dstage (sv s) <> DWal ss lo hi dk).
    { intros ss lo hi dk H. destruct (i_dwal _ I _ _ _ _ H) as [H1 _]. congruence. }
    assert (Heff : eff_now (add_hist KAck (GWrite pts) (upd (v_pend PNone) (set_wal (update_last sync_seg (wal (sd s))) s))) = eff_now s).
    { unfold eff_now, pending_ops. rewrite effective_add. sim. rewrite Ep. rewrite (effective_eq s) by reflexivity. rewrite app_nil_r. reflexivity. }
    assert (Hmb : forall k t, mb_now s k t = mb_now (add_hist KAck (GWrite pts) (upd (v_pend PNone) (set_wal (update_last sync_seg (wal (sd s))) s))) k t).
    { intros k t. unfold mb_now. rewrite maybe_deleted_add. rewrite orb_false_r. reflexivity. }
    constructor.
    + rewrite Heff. apply (Dinv_ext _ _ _ (mb_now s)); [exact Hmb|]. unfold E. sim. rewrite wal_entries_sync. apply (i_dur _ I).
    + sim. discriminate.
    + sim. intros ss lo hi dk H. exfalso. apply (Hd _ _ _ _ H).
    + sim. discriminate.
    + apply sync_ok_of_full; [|reflexivity]. sim. apply sync_all_full. apply (i_sync _ I).
    + sim. intros H. contradiction.
    + intros _. destruct V. constructor; sim; auto.
      * apply clean_sync. assumption.
      * exists Wsn', Wh'. destruct Sp. constructor; sim; auto.
        -- congruence.
        -- intros Ho Hn. destruct (sp_empty Ho Hn) as [l [sg [H1 H2]]]. apply (Hemp _ _ H1 H2).
        -- rewrite Heh. assumption.
        -- intros Hs. rewrite Hes. auto.
        -- intros Hst k t. rewrite Hes, Heh, Heff. intros a Ha. destruct (sp_q Hst k t a Ha) as [H|[H|[H|H]]]; auto.
           right; right; left. rewrite <- Hmb. assumption.
  - (* the delete's WAL entry is durable *)
    destruct (i_pd _ I Ep) as [ss [lo [hi [dk Hd]]]]. rewrite Hd.
    assert (Heff : eff_now (upd (v_dstage (DIndexing ss lo hi dk)) (upd (v_pend PNone) (set_wal (update_last sync_seg (wal (sd s))) s))) = eff_now s).
    { unfold eff_now, pending_ops. sim. rewrite Ep. rewrite (effective_eq s) by reflexivity. reflexivity. }
    assert (Hmb : forall k t, mb_now s k t = mb_now (upd (v_dstage (DIndexing ss lo hi dk)) (upd (v_pend PNone) (set_wal (update_last sync_seg (wal (sd s))) s))) k t).
    { intros k t. unfold mb_now, inflight, maybe_deleted. sim. rewrite Hd. reflexivity. }
    constructor.
    + rewrite Heff. apply (Dinv_ext _ _ _ (mb_now s)); [exact Hmb|]. unfold E. sim. rewrite wal_entries_sync. apply (i_dur _ I).
    + sim. discriminate.
    + sim. discriminate.
    + sim. discriminate.
    + apply sync_ok_of_full; [|reflexivity]. sim. apply sync_all_full. apply (i_sync _ I).
    + sim. intros H. contradiction.
    + intros _. destruct V. constructor; sim; auto.
      * apply clean_sync. assumption.
      * exists Wsn', Wh'. destruct Sp. constructor; sim; auto.
        -- congruence.
        -- intros Ho Hn. destruct (sp_empty Ho Hn) as [l [sg [H1 H2]]]. apply (Hemp _ _ H1 H2).
        -- rewrite Heh. assumption.
        -- intros Hs. rewrite Hes. auto.
        -- intros Hst k t. rewrite Hes, Heh, Heff. intros a Ha. destruct (sp_q Hst k t a Ha) as [H|[H|[H|H]]]; auto.
           right; right; left. rewrite <- Hmb. assumption.
      * intros Hc. specialize (u_c2 Hc). congruence.
Qed.
