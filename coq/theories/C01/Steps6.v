(* C01/Steps6.v — invariant preservation: Crash and the recovery steps; then every step. *)
From Verif Require Import Shard.Engine C01.Kv C01.Facts C01.Dinv C01.Inv C01.Steps1 C01.Steps2 C01.Steps3 C01.Steps4 C01.Steps5.
From Coq Require Import ZifyBool ZifyN ZifyNat.
Open Scope Z_scope.
Local Arguments exclude_range : simpl never.
Local Arguments key_eqb : simpl never.

(* ---------- what a crash leaves of the WAL ---------- *)

Definition cut_wal (keep : nat) (torn : N) (w : list segment) : list segment := update_last (cut_seg keep torn) w.

Lemma cut_seg_full keep torn sg : seg_full (cut_seg keep torn sg).
Proof. reflexivity. Qed.

Lemma cut_wal_full s keep torn : sync_ok s -> Forall seg_full (cut_wal keep torn (wal (sd s))).
Proof.
  unfold sync_ok, cut_wal. intros H. destruct (wal (sd s)) as [|a l] eqn:Ew; [constructor|].
  assert (Hne : a :: l <> []) by discriminate. destruct (exists_last Hne) as [l' [x Ex]]. rewrite Ex in *.
  rewrite rev_snoc in H. destruct H as [H _]. rewrite update_last_snoc. apply Forall_app. split.
  - rewrite <- (rev_involutive l'). apply Forall_rev. assumption.
  - constructor; [apply cut_seg_full|constructor].
Qed.

Lemma cut_seg_full_items keep torn sg : seg_full sg -> sg_items (cut_seg keep torn sg) = sg_items sg.
Proof.
  unfold seg_full, cut_seg. intros H. cbn [sg_items]. rewrite H.
  rewrite firstn_all2 by lia. rewrite skipn_all2 by lia. apply app_nil_r.
Qed.

Lemma pend_entry_cases s :
  Inv s ->
  (pend (sv s) = PNone /\ pend_entry s = None) \/
  (exists pts, pend (sv s) = PWrite pts /\ dstage (sv s) = DIdle /\ pend_entry s = Some (EWrite pts)) \/
  (exists ss lo hi dk, pend (sv s) = PDelete /\ dstage (sv s) = DWal ss lo hi dk /\ pend_entry s = Some (EDelRange dk lo hi)).
Proof.
  intros I. unfold pend_entry. destruct (pend (sv s)) as [|pts|] eqn:Ep.
  - left. auto.
  - right. left. exists pts. destruct (i_pw _ I pts Ep) as [Hd _]. auto.
  - right. right. destruct (i_pd _ I Ep) as [ss [lo [hi [dk Hd]]]]. rewrite Hd. eauto 8.
Qed.

Lemma cut_entries_none s keep torn :
  sync_ok s -> pend_entry s = None ->
  wal_entries (cut_wal keep torn (wal (sd s))) = E s /\ pending_unsynced s = [].
Proof.
  unfold sync_ok, cut_wal, E, pending_unsynced. intros H Hp. rewrite Hp in H.
  destruct (wal (sd s)) as [|a l] eqn:Ew; [auto|].
  assert (Hne : a :: l <> []) by discriminate. destruct (exists_last Hne) as [l' [x Ex]]. rewrite Ex in *.
  rewrite rev_snoc in *. destruct H as [_ [_ Hf]]. split.
  - rewrite update_last_snoc, !wal_entries_snoc_seg. rewrite cut_seg_full_items by assumption. reflexivity.
  - unfold seg_full in Hf. rewrite Hf. apply skipn_all.
Qed.

Lemma cut_entries_some s keep torn e :
  sync_ok s -> Forall seg_clean (wal (sd s)) -> pend_entry s = Some e ->
  exists es0, E s = es0 ++ [e] /\ pending_unsynced s = [IEntry e] /\
              wal_entries (cut_wal keep torn (wal (sd s))) = match keep with O => es0 | S _ => E s end.
Proof.
  unfold sync_ok, cut_wal, E, pending_unsynced. intros H Hc Hp. rewrite Hp in H.
  destruct (wal (sd s)) as [|a l] eqn:Ew; [cbn [rev] in H; unfold pend_entry in Hp; rewrite H in Hp; discriminate|].
  assert (Hne : a :: l <> []) by discriminate. destruct (exists_last Hne) as [l' [x Ex]]. rewrite Ex in *.
  rewrite rev_snoc in *. destruct H as [_ [its [Hi Hs]]].
  apply Forall_app in Hc. destruct Hc as [_ Hc]. inversion Hc as [|? ? Hx _]; subst. unfold seg_clean in Hx.
  rewrite Hi in Hx. rewrite forallb_app in Hx. apply andb_true_iff in Hx. destruct Hx as [Hits _].
  exists (wal_entries l' ++ good_prefix its). rewrite update_last_snoc, !wal_entries_snoc_seg.
  rewrite Hi, Hs. rewrite good_prefix_app_entry by assumption. split; [apply app_assoc|]. split.
  - rewrite skipn_app, skipn_all, Nat.sub_diag. reflexivity.
  - unfold cut_seg. cbn [sg_items sg_synced]. rewrite Hi, Hs. destruct keep as [|keep].
    + rewrite Nat.add_0_r. rewrite firstn_app, firstn_all, Nat.sub_diag. cbn [firstn]. rewrite app_nil_r.
      rewrite skipn_app, skipn_all, Nat.sub_diag. cbn [skipn app].
      f_equal. destruct (N.eqb torn 0); [rewrite app_nil_r; reflexivity|].
      rewrite (clean_is_entries its Hits). rewrite good_prefix_entries_junk, good_prefix_entries. reflexivity.
    + rewrite firstn_all2 by (rewrite app_length; cbn; lia). rewrite skipn_all2 by (rewrite app_length; cbn; lia).
      rewrite app_nil_r. rewrite good_prefix_app_entry by assumption. reflexivity.
Qed.

(* ---------- Crash ---------- *)

Lemma quiescent_vol0 : quiescent vol0.
Proof. unfold quiescent, vol0. cbn. repeat split; auto; discriminate. Qed.

Lemma crash_inv_of s s' keep torn :
  sync_ok s ->
  sd s' = {| wal := cut_wal keep torn (wal (sd s)); files := files (sd s); tmps := tmps (sd s) |} ->
  sv s' = vol0 ->
  Dinv (wal_entries (cut_wal keep torn (wal (sd s)))) (files (sd s)) (effective s') (maybe_deleted s') ->
  Inv s'.
Proof.
  intros Hs Hd Hv HD. constructor.
  - unfold E, eff_now, pending_ops. rewrite Hd, Hv. cbn [wal files pend vol0]. rewrite app_nil_r.
    apply (Dinv_ext _ _ _ (maybe_deleted s')); [|exact HD].
    intros k t. unfold mb_now, inflight. rewrite Hv. cbn [dstage vol0]. rewrite orb_false_r. reflexivity.
  - rewrite Hv. cbn [pend vol0]. discriminate.
  - rewrite Hv. cbn [dstage vol0]. discriminate.
  - rewrite Hv. cbn [pend vol0]. discriminate.
  - apply sync_ok_of_full; [|rewrite Hv; reflexivity]. rewrite Hd. cbn [wal]. apply cut_wal_full. assumption.
  - intros _. rewrite Hv. split; [apply quiescent_vol0|]. cbn [w_open vol0]. discriminate.
  - rewrite Hv. cbn [ph vol0]. discriminate.
Qed.

Lemma maybe_deleted_eq s s' : g_hist s' = g_hist s -> forall k t, maybe_deleted s' k t = maybe_deleted s k t.
Proof. intros H k t. unfold maybe_deleted. rewrite H. reflexivity. Qed.

Lemma inv_crash s keep torn :
  Inv s -> (keep <= length (pending_unsynced s))%nat -> Inv (do_step repaired s (Crash keep torn)).
Proof.
  intros I Hk. pose proof (i_sync _ I) as Hs. pose proof (i_dur _ I) as HD.
  unfold do_step. fold (cut_wal keep torn (wal (sd s))).
  set (s1 := {| sd := {| wal := cut_wal keep torn (wal (sd s)); files := files (sd s); tmps := tmps (sd s) |};
                sv := vol0; g_hist := g_hist s |}).
  assert (Hclean : ph (sv s) = Up -> Forall seg_clean (wal (sd s))) by (intros H; apply (u_clean _ (i_up _ I H))).
  assert (Hmbs : forall k t, mb_now s k t = maybe_deleted s k t || inflight s k t) by reflexivity.
  destruct (pend_entry_cases s I) as [[Hp He]|[[pts [Hp [Hd He]]]|[ss [lo [hi [dk [Hp [Hd He]]]]]]]].
  - (* nothing pending on the WAL: the log is left as it is *)
    destruct (cut_entries_none s keep torn Hs He) as [HE Hpu]. rewrite Hp.
    rewrite (eff_now_nopend s Hp) in HD.
    destruct (dstage (sv s)) as [|ss lo hi todo|ss lo hi dk|ss lo hi dk] eqn:Ed.
    + apply (crash_inv_of s _ keep torn); try reflexivity; try assumption. rewrite HE.
      apply (Dinv_ext _ _ _ (mb_now s)); [|exact HD]. intros k t. rewrite Hmbs. unfold inflight. rewrite Ed. apply orb_false_r.
    + apply (crash_inv_of s _ keep torn); try reflexivity; try assumption. rewrite HE.
      rewrite effective_add. cbn [app]. rewrite app_nil_r. rewrite (effective_eq s s1) by reflexivity.
      apply (Dinv_ext _ _ _ (mb_now s)); [|exact HD]. intros k t. rewrite maybe_deleted_add.
      rewrite (maybe_deleted_eq s s1) by reflexivity. rewrite Hmbs. unfold inflight. rewrite Ed. reflexivity.
    + exfalso. destruct (i_dwal _ I _ _ _ _ Ed) as [H _]. congruence.
    + apply (crash_inv_of s _ keep torn); try reflexivity; try assumption. rewrite HE.
      rewrite effective_add. rewrite (effective_eq s s1) by reflexivity.
      apply (Dinv_delete_done _ _ _ (mb_now s)); [|exact HD]. intros k t H.
      rewrite maybe_deleted_add, orb_false_r. rewrite (maybe_deleted_eq s s1) by reflexivity.
      rewrite Hmbs in H. unfold inflight in H. rewrite Ed in H. apply orb_true_iff in H. destruct H as [H|H]; [left|right]; exact H.
  - (* a write whose entry is not synced: it survives iff the whole frame is kept *)
    assert (Hup : ph (sv s) = Up).
    { destruct (ph (sv s)) eqn:Eph; try reflexivity; exfalso;
        (assert (Hq : ph (sv s) <> Up) by congruence); destruct (i_down _ I Hq) as [Hq' _]; unfold quiescent in Hq'; rewrite Hp in Hq'; destruct Hq' as (_ & _ & _ & _ & _ & _ & X & _); discriminate. }
    destruct (cut_entries_some s keep torn _ Hs (Hclean Hup) He) as [es0 [HE0 [Hpu HE]]].
    rewrite Hp, Hpu. destruct (i_pw _ I pts Hp) as [_ [es0' [HE0' HD0]]].
    assert (es0' = es0) by (rewrite HE0 in HE0'; apply app_inj_tail in HE0'; destruct HE0' as [X _]; symmetry; exact X). subst es0'.
    destruct keep as [|keep]; cbn [firstn existsb is_entry orb].
    + apply (crash_inv_of s _ 0 torn); try reflexivity; try assumption. rewrite HE.
      apply (Dinv_ext _ _ _ (mb_now s)); [|exact HD0]. intros k t. rewrite Hmbs. unfold inflight. rewrite Hd. apply orb_false_r.
    + apply (crash_inv_of s _ (S keep) torn); try reflexivity; try assumption. rewrite HE.
      rewrite effective_add. rewrite (effective_eq s s1) by reflexivity.
      assert (Hen : eff_now s = effective s ++ [GWrite pts]) by (unfold eff_now, pending_ops; rewrite Hp; reflexivity).
      rewrite <- Hen. apply (Dinv_ext _ _ _ (mb_now s)); [|exact HD]. intros k t.
      rewrite maybe_deleted_add, orb_false_r. rewrite (maybe_deleted_eq s s1) by reflexivity.
      rewrite Hmbs. unfold inflight. rewrite Hd. apply orb_false_r.
  - (* a delete whose WAL entry is not synced *)
    assert (Hup : ph (sv s) = Up).
    { destruct (ph (sv s)) eqn:Eph; try reflexivity; exfalso;
        (assert (Hq : ph (sv s) <> Up) by congruence); destruct (i_down _ I Hq) as [Hq' _]; unfold quiescent in Hq'; rewrite Hp in Hq'; destruct Hq' as (_ & _ & _ & _ & _ & _ & X & _); discriminate. }
    destruct (cut_entries_some s keep torn _ Hs (Hclean Hup) He) as [es0 [HE0 [Hpu HE]]].
    rewrite Hp, Hd, Hpu. destruct (i_dwal _ I _ _ _ _ Hd) as [_ [Hdk _]].
    assert (Hen : eff_now s = effective s) by (unfold eff_now, pending_ops; rewrite Hp; apply app_nil_r).
    rewrite Hen in HD.
    assert (Hnop : forall k t, ept k t (EDelRange dk lo hi) = PNop \/ mb_now s k t = true).
    { intros k t. cbn [ept]. destruct (kmem k dk) eqn:Ek; [|left; reflexivity].
      destruct (in_rng lo hi t) eqn:Er; [|left; reflexivity]. right.
      rewrite Hmbs. unfold inflight. rewrite Hd, (Hdk k Ek), Er. apply orb_true_r. }
    destruct keep as [|keep]; cbn [firstn existsb is_entry orb].
    + apply (crash_inv_of s _ 0 torn); try reflexivity; try assumption. rewrite HE.
      rewrite effective_add. cbn [app]. rewrite app_nil_r. rewrite (effective_eq s s1) by reflexivity.
      apply (Dinv_ext _ _ _ (mb_now s)).
      * intros k t. rewrite maybe_deleted_add. rewrite (maybe_deleted_eq s s1) by reflexivity.
        rewrite Hmbs. unfold inflight. rewrite Hd. reflexivity.
      * apply (Dinv_drop_nop _ _ _ _ (EDelRange dk lo hi)); [exact Hnop|]. rewrite <- HE0. exact HD.
    + apply (crash_inv_of s _ (S keep) torn); try reflexivity; try assumption. rewrite HE.
      rewrite effective_add. rewrite (effective_eq s s1) by reflexivity.
      apply (Dinv_delete_done _ _ _ (mb_now s)); [|exact HD]. intros k t H.
      rewrite maybe_deleted_add, orb_false_r. rewrite (maybe_deleted_eq s s1) by reflexivity.
      rewrite Hmbs in H. unfold inflight in H. rewrite Hd in H. apply orb_true_iff in H. destruct H as [H|H]; [left|right]; exact H.
Qed.

(* ---------- recovery steps ---------- *)

Lemma ph_not_up_quiescent s : Inv s -> ph (sv s) <> Up -> quiescent (sv s) /\ (w_open (sv s) = true -> wal (sd s) <> []).
Proof. intros I H. apply (i_down _ I H). Qed.

Lemma inv_down_frame s s' :
  Inv s -> ph (sv s) <> Up -> ph (sv s') <> Up ->
  wal_entries (wal (sd s')) = E s -> files (sd s') = files (sd s) -> g_hist s' = g_hist s ->
  Forall seg_full (wal (sd s')) ->
  quiescent (sv s') -> (w_open (sv s') = true -> wal (sd s') <> []) ->
  Inv s'.
Proof.
  intros I Hph Hph' HE Hf Hg Hfull Hq Hw.
  destruct (ph_not_up_quiescent s I Hph) as [Q _].
  assert (Hp : pend (sv s) = PNone) by (unfold quiescent in Q; tauto).
  assert (Hd : dstage (sv s) = DIdle) by (unfold quiescent in Q; tauto).
  assert (Hp' : pend (sv s') = PNone) by (unfold quiescent in Hq; tauto).
  assert (Hd' : dstage (sv s') = DIdle) by (unfold quiescent in Hq; tauto).
  constructor.
  - unfold E. rewrite HE, Hf. rewrite (eff_now_eq s s') by congruence.
    apply (Dinv_ext _ _ _ (mb_now s)); [apply mb_now_eq; congruence|]. apply (i_dur _ I).
  - intros pts H. congruence.
  - intros ss lo hi dk H. congruence.
  - intros H. congruence.
  - apply sync_ok_of_full; assumption.
  - intros _. auto.
  - intros H. contradiction.
Qed.

Lemma inv_opencleanup s : Inv s -> ph (sv s) = Down -> Inv (do_step repaired s OpenCleanup).
Proof.
  intros I Hph. assert (Hn : ph (sv s) <> Up) by congruence.
  destruct (ph_not_up_quiescent s I Hn) as [Q Hw].
  assert (Hp : pend (sv s) = PNone) by (unfold quiescent in Q; tauto).
  unfold do_step. apply (inv_down_frame s); sim; auto; try discriminate.
  apply sync_ok_all_full; [apply (i_sync _ I)|assumption].
Qed.

Lemma inv_openfiles s : Inv s -> ph (sv s) = O2 -> Inv (do_step repaired s OpenFiles).
Proof.
  intros I Hph. assert (Hn : ph (sv s) <> Up) by congruence.
  destruct (ph_not_up_quiescent s I Hn) as [Q Hw].
  assert (Hp : pend (sv s) = PNone) by (unfold quiescent in Q; tauto).
  unfold do_step. apply (inv_down_frame s); sim; auto; try discriminate.
  apply sync_ok_all_full; [apply (i_sync _ I)|assumption].
Qed.

Lemma inv_openwal s : Inv s -> ph (sv s) = O1 -> Inv (do_step repaired s OpenWAL).
Proof.
  intros I Hph. assert (Hn : ph (sv s) <> Up) by congruence.
  destruct (ph_not_up_quiescent s I Hn) as [Q Hw].
  assert (Hp : pend (sv s) = PNone) by (unfold quiescent in Q; tauto).
  pose proof (sync_ok_all_full _ (i_sync _ I) Hp) as Hfull.
  unfold quiescent in Q. destruct Q as (Q1 & Q2 & Q3 & Q4 & Q5 & Q6 & Q7 & Q8 & Q9 & Q10).
  unfold do_step. destruct (rev (wal (sd s))) as [|sg r] eqn:Er.
  - apply (inv_down_frame s); sim; auto; try discriminate. unfold quiescent. sim. tauto.
  - assert (Hwal : wal (sd s) = rev r ++ [sg]).
    { rewrite <- (rev_involutive (wal (sd s))), Er. reflexivity. }
    destruct (is_nil (sg_items sg)) eqn:En.
    + (* an empty last segment is removed *)
      assert (Hi : sg_items sg = []) by (destruct (sg_items sg); [reflexivity|discriminate]).
      apply (inv_down_frame s); sim; auto; try discriminate.
      * rewrite Hwal, removelast_last. unfold E. rewrite Hwal, wal_entries_snoc_seg, Hi. cbn [good_prefix]. symmetry. apply app_nil_r.
      * rewrite Hwal, removelast_last. rewrite Hwal in Hfull. apply Forall_app in Hfull. tauto.
      * unfold quiescent. sim. repeat split; auto; discriminate.
    + apply (inv_down_frame s); sim; auto; try discriminate.
      * unfold quiescent. sim. repeat split; auto.
      * intros _. rewrite Hwal. destruct (rev r); discriminate.
Qed.

Lemma inv_openload s : Inv s -> ph (sv s) = O3 -> Inv (do_step repaired s OpenLoad).
Proof.
  intros I Hph. assert (Hn : ph (sv s) <> Up) by congruence.
  destruct (ph_not_up_quiescent s I Hn) as [Q Hw].
  unfold quiescent in Q. destruct Q as (Q1 & Q2 & Q3 & Q4 & Q5 & Q6 & Q7 & Q8 & Q9 & Q10).
  unfold do_step. cbn [fix_woff repaired].
  match goal with |- Inv ?st => set (s' := st) end.
  assert (HE : E s' = E s) by (unfold E, s'; sim; apply wal_entries_truncate).
  assert (Heff : eff_now s' = eff_now s) by (apply eff_now_eq; reflexivity).
  assert (Hmb : forall k t, mb_now s k t = mb_now s' k t) by (apply mb_now_eq; reflexivity).
  assert (Hfull : Forall seg_full (wal (sd s'))).
  { unfold s'. sim. apply Forall_forall. intros x Hx. apply in_map_iff in Hx. destruct Hx as [y [<- _]]. reflexivity. }
  constructor.
  - rewrite HE, Heff. apply (Dinv_ext _ _ _ (mb_now s)); [exact Hmb|]. apply (i_dur _ I).
  - unfold s'. sim. intros pts H. congruence.
  - unfold s'. sim. intros ss lo hi dk H. congruence.
  - unfold s'. sim. intros H. congruence.
  - apply sync_ok_of_full; [exact Hfull|]. unfold s'. sim. assumption.
  - unfold s'. sim. intros H. contradiction.
  - intros _. unfold s'. constructor; sim; auto.
    + apply kv_wf_replay. exact kv_wf_nil.
    + rewrite Q2. exact kv_wf_nil.
    + apply Forall_forall. intros x Hx. apply in_map_iff in Hx. destruct Hx as [y [<- _]]. apply truncate_seg_clean.
    + exists [], (map truncate_seg (wal (sd s))). constructor; sim; auto.
      * intros Ho. specialize (Hw Ho). destruct (wal (sd s)); [contradiction|discriminate].
      * intros Ho Hne. rewrite (Q10 Ho) in Hne. discriminate.
      * rewrite wal_entries_truncate. apply kv_equiv_refl.
      * intros _. rewrite Q2. apply kv_equiv_refl.
      * intros [H|H]; congruence.
    + intros _ H. rewrite Q2 in H. discriminate.
    + intros [H|[f H]]; congruence.
    + intros f H. congruence.
    + intros i n out H. congruence.
    + intros i olds H. congruence.
Qed.
