(* C01/Kv.v — facts about cache stores (kvs), WAL entries and their pointwise meaning. *)
From Verif Require Import Shard.Engine.
From Coq Require Import ZifyBool.
Open Scope Z_scope.
Local Arguments exclude_range : simpl never.

Lemma key_eqb_eq a b : key_eqb a b = true <-> a = b.
Proof. apply nlist_eqb_eq. Qed.

Lemma key_eqb_refl a : key_eqb a a = true.
Proof. apply key_eqb_eq. reflexivity. Qed.

Lemma key_eqb_sym a b : key_eqb a b = key_eqb b a.
Proof.
  destruct (key_eqb a b) eqn:E1, (key_eqb b a) eqn:E2; try reflexivity.
  - apply key_eqb_eq in E1. subst. rewrite key_eqb_refl in E2. discriminate.
  - apply key_eqb_eq in E2. subst. rewrite key_eqb_refl in E1. discriminate.
Qed.

Lemma key_eqb_trans_l a b c : key_eqb a b = true -> key_eqb a c = key_eqb b c.
Proof. intros H. apply key_eqb_eq in H. subst. reflexivity. Qed.

(* ---------- well-formed stores: one entry per key ---------- *)

Fixpoint kv_has (k : key) (m : kvs) : bool :=
  match m with
  | [] => false
  | (k', _) :: r => key_eqb k' k || kv_has k r
  end.

Fixpoint kv_wf (m : kvs) : Prop :=
  match m with
  | [] => True
  | (k, _) :: r => kv_has k r = false /\ kv_wf r
  end.

Lemma kv_get_not_has k m : kv_has k m = false -> kv_get k m = [].
Proof.
  induction m as [|[k' vs] r IH]; cbn; [reflexivity|].
  intros H. apply orb_false_iff in H. destruct H as [H1 H2]. rewrite H1. auto.
Qed.

Lemma kv_has_append k k' vs m : kv_has k (kv_append k' vs m) = key_eqb k' k || kv_has k m.
Proof.
  induction m as [|[k2 old] r IH]; cbn.
  - rewrite orb_false_r. reflexivity.
  - destruct (key_eqb k2 k') eqn:E; cbn.
    + apply key_eqb_eq in E. subst k2. destruct (key_eqb k' k); reflexivity.
    + rewrite IH. destruct (key_eqb k2 k), (key_eqb k' k); reflexivity.
Qed.

Lemma kv_wf_append k vs m : kv_wf m -> kv_wf (kv_append k vs m).
Proof.
  induction m as [|[k2 old] r IH]; cbn; [auto|].
  intros [H1 H2]. destruct (key_eqb k2 k) eqn:E; cbn.
  - auto.
  - split; [|auto]. rewrite kv_has_append. rewrite H1. rewrite key_eqb_sym, E. reflexivity.
Qed.

Lemma kv_get_append k k' vs m :
  kv_get k (kv_append k' vs m) = if key_eqb k' k then kv_get k m ++ vs else kv_get k m.
Proof.
  induction m as [|[k2 old] r IH]; cbn.
  - destruct (key_eqb k' k); reflexivity.
  - destruct (key_eqb k2 k') eqn:E; cbn.
    + apply key_eqb_eq in E. subst k2. destruct (key_eqb k' k); reflexivity.
    + destruct (key_eqb k2 k) eqn:E2.
      * destruct (key_eqb k' k) eqn:E3; [|reflexivity].
        apply key_eqb_eq in E2, E3. subst. rewrite key_eqb_refl in E. discriminate.
      * apply IH.
Qed.

Lemma kv_wf_write pts : forall m, kv_wf m -> kv_wf (kv_write pts m).
Proof.
  unfold kv_write. induction pts as [|p r IH]; intros m H; cbn; [assumption|].
  apply IH. apply kv_wf_append. assumption.
Qed.

Lemma kv_get_write k pts : forall m, kv_get k (kv_write pts m) = kv_get k m ++ batch_values k pts.
Proof.
  unfold kv_write, batch_values. induction pts as [|[k' x] r IH]; intros m; cbn [fold_left filter map fst snd].
  - rewrite app_nil_r. reflexivity.
  - rewrite IH. rewrite kv_get_append. cbn [fst snd].
    destruct (key_eqb k' k); cbn [map snd]; [rewrite <- app_assoc; reflexivity|reflexivity].
Qed.

Lemma kv_has_delrange_false k dk lo hi m : kv_has k m = false -> kv_has k (kv_delrange dk lo hi m) = false.
Proof.
  induction m as [|[k' vs] r IH]; cbn; [auto|].
  intros H. apply orb_false_iff in H. destruct H as [H1 H2].
  destruct (kmem k' dk); [destruct (is_nil _)|]; cbn; rewrite ?H1; auto.
Qed.

Lemma kv_wf_delrange dk lo hi m : kv_wf m -> kv_wf (kv_delrange dk lo hi m).
Proof.
  induction m as [|[k' vs] r IH]; cbn; [auto|].
  intros [H1 H2].
  destruct (kmem k' dk); [destruct (is_nil _)|]; cbn; auto using kv_has_delrange_false.
Qed.

Lemma kmem_eq k k' dk : key_eqb k' k = true -> kmem k' dk = kmem k dk.
Proof. intros H. apply key_eqb_eq in H. subst. reflexivity. Qed.

Lemma kv_get_delrange k dk lo hi m :
  kv_wf m ->
  kv_get k (kv_delrange dk lo hi m) = if kmem k dk then exclude_range lo hi (kv_get k m) else kv_get k m.
Proof.
  induction m as [|[k' vs] r IH]; cbn.
  - destruct (kmem k dk); reflexivity.
  - intros [H1 H2]. destruct (key_eqb k' k) eqn:E.
    + rewrite (kmem_eq _ _ dk E). destruct (kmem k dk) eqn:Em.
      * destruct (is_nil (exclude_range lo hi vs)) eqn:Ex.
        -- apply key_eqb_eq in E. subst k'.
           rewrite kv_get_not_has by (apply kv_has_delrange_false; assumption).
           destruct (exclude_range lo hi vs); [reflexivity|discriminate].
        -- cbn. rewrite E. reflexivity.
      * cbn. rewrite E. reflexivity.
    + destruct (kmem k' dk); [destruct (is_nil _)|]; cbn; rewrite ?E; apply IH; assumption.
Qed.

Lemma kv_wf_apply_entry m e : kv_wf m -> kv_wf (apply_entry m e).
Proof. destruct e; cbn; auto using kv_wf_write, kv_wf_delrange. Qed.

Lemma kv_wf_replay es : forall m, kv_wf m -> kv_wf (replay es m).
Proof.
  unfold replay. induction es as [|e r IH]; intros m H; cbn; [assumption|].
  apply IH. apply kv_wf_apply_entry. assumption.
Qed.

(* ---------- pointwise meaning ---------- *)

(* what one log entry does to the value visible at (k, t) in a cache *)
Inductive pev := PNop | PSet (v : value) | PDel.

Definition in_rng (lo hi t : Z) : bool := (lo <=? t) && (t <=? hi).

Definition ept (k : key) (t : Z) (e : entry) : pev :=
  match e with
  | EWrite pts => match lookup_last t (batch_values k pts) with Some v => PSet v | None => PNop end
  | EDelRange dk lo hi => if kmem k dk && in_rng lo hi t then PDel else PNop
  end.

Definition papply (cur : option value) (p : pev) : option value :=
  match p with PNop => cur | PSet v => Some v | PDel => None end.

Definition pfold (ps : list pev) (cur : option value) : option value := fold_left papply ps cur.

Definition cpt (m : kvs) (k : key) (t : Z) : option value := lookup_last t (kv_get k m).

Lemma cpt_apply_entry m e k t :
  kv_wf m -> cpt (apply_entry m e) k t = papply (cpt m k t) (ept k t e).
Proof.
  intros Hwf. unfold cpt. destruct e as [pts|dk lo hi]; cbn [apply_entry ept].
  - rewrite kv_get_write, lookup_last_app. destruct (lookup_last t (batch_values k pts)); reflexivity.
  - rewrite kv_get_delrange by assumption. unfold in_rng.
    destruct (kmem k dk); cbn [andb]; [|reflexivity].
    rewrite lookup_exclude_range. destruct ((lo <=? t) && (t <=? hi)); reflexivity.
Qed.

Lemma cpt_replay es k t : forall m,
  kv_wf m -> cpt (replay es m) k t = pfold (map (ept k t) es) (cpt m k t).
Proof.
  unfold replay, pfold. induction es as [|e r IH]; intros m H; cbn [fold_left map]; [reflexivity|].
  rewrite IH by (apply kv_wf_apply_entry; assumption). rewrite cpt_apply_entry by assumption. reflexivity.
Qed.

Lemma pfold_app a b cur : pfold (a ++ b) cur = pfold b (pfold a cur).
Proof. unfold pfold. apply fold_left_app. Qed.

(* the last entry that is not PNop decides *)
Fixpoint last_ev (ps : list pev) : pev :=
  match ps with
  | [] => PNop
  | p :: r => match last_ev r with PNop => p | q => q end
  end.

Lemma pfold_last ps : forall cur, pfold ps cur = papply cur (last_ev ps).
Proof.
  induction ps as [|p r IH]; intros cur; [reflexivity|].
  change (pfold (p :: r) cur) with (pfold r (papply cur p)). rewrite IH. cbn [last_ev].
  destruct (last_ev r); [destruct p|..]; reflexivity.
Qed.

Lemma last_ev_app a b : last_ev (a ++ b) = match last_ev b with PNop => last_ev a | q => q end.
Proof.
  induction a as [|p r IH]; cbn [app last_ev].
  - destruct (last_ev b); reflexivity.
  - rewrite IH. destruct (last_ev b); reflexivity.
Qed.

(* store equality as far as reads can tell *)
Definition kv_equiv (a b : kvs) : Prop := forall k, kv_get k a = kv_get k b.

Lemma kv_equiv_refl a : kv_equiv a a.
Proof. intros k. reflexivity. Qed.

Lemma kv_equiv_write pts a b : kv_equiv a b -> kv_equiv (kv_write pts a) (kv_write pts b).
Proof. intros H k. rewrite !kv_get_write, H. reflexivity. Qed.

Lemma kv_equiv_delrange dk lo hi a b :
  kv_wf a -> kv_wf b -> kv_equiv a b -> kv_equiv (kv_delrange dk lo hi a) (kv_delrange dk lo hi b).
Proof. intros Ha Hb H k. rewrite !kv_get_delrange by assumption. rewrite H. reflexivity. Qed.

Lemma kv_equiv_apply_entry e a b :
  kv_wf a -> kv_wf b -> kv_equiv a b -> kv_equiv (apply_entry a e) (apply_entry b e).
Proof. destruct e; cbn; auto using kv_equiv_write, kv_equiv_delrange. Qed.

Lemma replay_app a b m : replay (a ++ b) m = replay b (replay a m).
Proof. unfold replay. apply fold_left_app. Qed.

Lemma kv_equiv_cpt a b k t : kv_equiv a b -> cpt a k t = cpt b k t.
Proof. intros H. unfold cpt. rewrite H. reflexivity. Qed.
