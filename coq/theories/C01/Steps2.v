(* C01/Steps2.v — invariant preservation: RollSegment and the snapshot steps. *)
From Verif Require Import Shard.Engine C01.Kv C01.Facts C01.Dinv C01.Inv C01.Steps1.
From Coq Require Import ZifyBool ZifyN ZifyNat.
Open Scope Z_scope.
Local Arguments exclude_range : simpl never.
Local Arguments key_eqb : simpl never.

Lemma kv_equiv_sym a b : kv_equiv a b -> kv_equiv b a.
Proof. intros H k. symmetry. apply H. Qed.

Lemma kv_equiv_trans a b c : kv_equiv a b -> kv_equiv b c -> kv_equiv a c.
Proof. intros H1 H2 k. rewrite H1. apply H2. Qed.

Lemma kv_equiv_replay es : forall a b, kv_wf a -> kv_wf b -> kv_equiv a b -> kv_equiv (replay es a) (replay es b).
Proof.
  unfold replay. induction es as [|e r IH]; intros a b Ha Hb H; cbn [fold_left]; [assumption|].
  apply IH; auto using kv_wf_apply_entry, kv_equiv_apply_entry.
Qed.

Lemma kv_wf_nil : kv_wf [].
Proof. exact I. Qed.

Lemma cpt_nil k t : cpt [] k t = None.
Proof. reflexivity. Qed.

Lemma cpt_replay_nil es k t : cpt (replay es []) k t = pfold (evs es k t) None.
Proof. rewrite cpt_replay by exact I. reflexivity. Qed.

(* ---------- new segment ---------- *)

Definition rolled_wal (s : state) : list segment :=
  (if w_open (sv s) then update_last sync_seg (wal (sd s)) else wal (sd s))
  ++ [{| sg_id := (w_id (sv s) + 1)%N; sg_items := []; sg_synced := 0 |}].

Lemma new_segment_eq s :
  new_segment s =
  {| sd := {| wal := rolled_wal s; files := files (sd s); tmps := tmps (sd s) |};
     sv := v_writer true (w_id (sv s) + 1)%N 0%N false (sv s);
     g_hist := g_hist s |}.
Proof. reflexivity. Qed.

Lemma inv_new_segment s :
  Inv s -> ph (sv s) = Up -> pend (sv s) = PNone -> Inv (new_segment s).
Proof.
  intros I Hup Hp. pose proof (i_up _ I Hup) as V. destruct (u_split _ V) as [Wsn [Wh Sp]].
  rewrite new_segment_eq. unfold rolled_wal.
  set (ns := {| sg_id := (w_id (sv s) + 1)%N; sg_items := []; sg_synced := 0 |}).
  assert (Hw : exists Wsn' Wh', (if w_open (sv s) then update_last sync_seg (wal (sd s)) else wal (sd s)) = Wsn' ++ Wh' /\
            seg_ids Wsn' = seg_ids Wsn /\ wal_entries Wsn' = wal_entries Wsn /\ wal_entries Wh' = wal_entries Wh).
  { destruct (w_open (sv s)).
    - destruct (sync_split Wsn Wh) as [Wsn' [Wh' [H1 [H2 [H3 [H4 _]]]]]]. rewrite <- (sp_wal _ _ _ Sp) in H1. eauto 8.
    - exists Wsn, Wh. rewrite (sp_wal _ _ _ Sp). auto. }
  destruct Hw as [Wsn' [Wh' [Hw [Hids [Hes Heh]]]]].
  assert (HE : wal_entries ((if w_open (sv s) then update_last sync_seg (wal (sd s)) else wal (sd s)) ++ [ns]) = E s).
  { rewrite wal_entries_snoc_seg. cbn [ns sg_items good_prefix]. rewrite app_nil_r.
    destruct (w_open (sv s)); [apply wal_entries_sync|reflexivity]. }
  assert (Heff : forall w, eff_now {| sd := w; sv := v_writer true (w_id (sv s) + 1)%N 0%N false (sv s); g_hist := g_hist s |} = eff_now s).
  { intros. apply eff_now_eq; reflexivity. }
  assert (Hmb : forall w k t, mb_now s k t = mb_now {| sd := w; sv := v_writer true (w_id (sv s) + 1)%N 0%N false (sv s); g_hist := g_hist s |} k t).
  { intros. apply mb_now_eq; reflexivity. }
  constructor.
  - rewrite Heff. apply (Dinv_ext _ _ _ (mb_now s)); [apply Hmb|]. unfold E. sim. rewrite HE. apply (i_dur _ I).
  - sim. intros pts H. congruence.
  - sim. intros ss lo hi dk H. destruct (i_dwal _ I _ _ _ _ H) as [H1 _]. congruence.
  - sim. intros H. congruence.
  - apply sync_ok_of_full; [|assumption]. sim. apply Forall_app. split; [|constructor; [reflexivity|constructor]].
    destruct (w_open (sv s)); [apply sync_all_full; apply (i_sync _ I)|apply sync_ok_all_full; [apply (i_sync _ I)|assumption]].
  - sim. intros H. contradiction.
  - intros _. destruct V. constructor; sim; auto.
    + apply Forall_app. split; [|constructor; [reflexivity|constructor]].
      destruct (w_open (sv s)); [apply clean_sync|]; assumption.
    + exists Wsn', (Wh' ++ [ns]). destruct Sp. constructor; sim; auto.
      * rewrite Hw. symmetry. apply app_assoc.
      * congruence.
      * intros _. destruct Wh'; discriminate.
      * intros _ _. exists Wh', ns. auto.
      * rewrite wal_entries_snoc_seg. cbn [ns sg_items good_prefix]. rewrite app_nil_r, Heh. assumption.
      * intros Hs. rewrite Hes. auto.
      * intros Hst k t. rewrite wal_entries_snoc_seg. cbn [ns sg_items good_prefix]. rewrite app_nil_r, Hes, Heh, Heff.
        intros a Ha. destruct (sp_q Hst k t a Ha) as [H|[H|[H|H]]]; auto.
Qed.

Lemma inv_roll s : Inv s -> ph (sv s) = Up -> pend (sv s) = PNone -> Inv (do_step repaired s RollSegment).
Proof. apply inv_new_segment. Qed.

(* ---------- a step that only changes snapshot bookkeeping ---------- *)

Lemma new_segment_fields s :
  ph (sv (new_segment s)) = ph (sv s) /\ pend (sv (new_segment s)) = pend (sv s) /\
  hot (sv (new_segment s)) = hot (sv s) /\ snap (sv (new_segment s)) = snap (sv s) /\
  sstage (sv (new_segment s)) = sstage (sv s) /\ snap_keep (sv (new_segment s)) = snap_keep (sv s) /\
  snap_segs (sv (new_segment s)) = snap_segs (sv s) /\
  w_open (sv (new_segment s)) = true /\ w_nonempty (sv (new_segment s)) = false.
Proof. rewrite new_segment_eq. sim. repeat split. Qed.

(* ---------- SnapBegin ---------- *)

Lemma inv_snapbegin_core s :
  Inv s -> ph (sv s) = Up -> pend (sv s) = PNone -> sstage (sv s) = SIdle ->
  w_open (sv s) = true -> w_nonempty (sv s) = false ->
  Inv (let v := sv s in
       let closed := closed_ids s in
       if is_nil (snap v) then
         if is_nil (hot v) then upd (v_segs [] []) s
         else upd (fun v => v_sstage SBegun (v_segs closed closed (v_snap (hot v) true (v_hot [] v)))) s
       else upd (fun v => v_sstage SBegun (v_segs (snap_keep v) (snap_keep v) (v_snap (snap v) true v))) s).
Proof.
  intros I Hup Hp Hst Ho Hn. pose proof (i_up _ I Hup) as V. destruct (u_split _ V) as [Wsn [Wh Sp]].
  destruct (sp_empty _ _ _ Sp Ho Hn) as [l [cur [HWh Hcur]]].
  assert (Hwal : wal (sd s) = (Wsn ++ l) ++ [cur]) by (rewrite (sp_wal _ _ _ Sp), HWh; apply app_assoc).
  assert (Hclosed : closed_ids s = seg_ids (Wsn ++ l)).
  { unfold closed_ids. rewrite Ho, Hwal, removelast_last. reflexivity. }
  assert (Hcure : wal_entries [cur] = []).
  { cbn [wal_entries flat_map]. rewrite Hcur. reflexivity. }
  assert (Hnotc : sstage (sv s) <> SCleared) by congruence.
  pose proof (sp_snap _ _ _ Sp Hnotc) as Hsnap. pose proof (sp_hot _ _ _ Sp) as Hhot.
  assert (Hwf1 : kv_wf (replay (wal_entries Wsn) [])) by (apply kv_wf_replay; exact kv_wf_nil).
  cbv zeta.
  (* durable and ghost parts are untouched by all three outcomes *)
  assert (Dur : forall f, (forall v, pend (f v) = pend v) -> (forall v, dstage (f v) = dstage v) -> (forall v, ph (f v) = ph v) ->
            Dinv (E (upd f s)) (files (sd (upd f s))) (eff_now (upd f s)) (mb_now (upd f s)) /\
            (forall pts, pend (sv (upd f s)) = PWrite pts -> dstage (sv (upd f s)) = DIdle /\ exists es0, E (upd f s) = es0 ++ [EWrite pts] /\ Dinv es0 (files (sd (upd f s))) (effective (upd f s)) (mb_now (upd f s))) /\
            (forall ss lo hi dk, dstage (sv (upd f s)) = DWal ss lo hi dk -> pend (sv (upd f s)) = PDelete /\ (forall k, kmem k dk = true -> sel ss k = true) /\ exists es0, E (upd f s) = es0 ++ [EDelRange dk lo hi]) /\
            (pend (sv (upd f s)) = PDelete -> exists ss lo hi dk, dstage (sv (upd f s)) = DWal ss lo hi dk) /\
            sync_ok (upd f s) /\ (ph (sv (upd f s)) <> Up -> quiescent (sv (upd f s)) /\ (w_open (sv (upd f s)) = true -> wal (sd (upd f s)) <> []))).
  { intros f Hfp Hfd Hfph. sim. rewrite Hfp, Hfd, Hfph. split; [|split; [|split; [|split; [|split]]]].
    - rewrite (eff_now_eq s) by (sim; auto). apply (Dinv_ext _ _ _ (mb_now s)); [apply mb_now_eq; sim; auto|]. apply (i_dur _ I).
    - intros pts H. congruence.
    - intros ss lo hi dk H. destruct (i_dwal _ I _ _ _ _ H) as [H1 _]. congruence.
    - intros H. congruence.
    - pose proof (i_sync _ I) as Hs. unfold sync_ok, pend_entry in *. sim. rewrite Hfp, Hfd. exact Hs.
    - intros H. contradiction. }
  destruct (is_nil (snap (sv s))) eqn:Esn.
  - assert (Hsn0 : snap (sv s) = []) by (destruct (snap (sv s)); [reflexivity|discriminate]).
    assert (Hr0 : kv_equiv (replay (wal_entries Wsn) []) []) by (intros k0; rewrite <- (Hsnap k0), Hsn0; reflexivity).
    destruct (is_nil (hot (sv s))) eqn:Eh.
    + (* nothing to snapshot *)
      destruct (Dur (v_segs [] [])) as (D1 & D2 & D3 & D4 & D5 & D6); try reflexivity.
      constructor; auto. intros _. destruct V. constructor; sim; auto.
      * exists [], (wal (sd s)). constructor; sim; auto.
        -- intros _. rewrite Hwal. destruct (Wsn ++ l); discriminate.
        -- intros _ _. exists (Wsn ++ l), cur. auto.
        -- rewrite (sp_wal _ _ _ Sp), wal_entries_app, replay_app.
           apply (kv_equiv_trans _ (replay (wal_entries Wh) [])); [assumption|].
           apply kv_equiv_replay; [exact kv_wf_nil|assumption|apply kv_equiv_sym; assumption].
        -- intros _. rewrite Hsn0. apply kv_equiv_refl.
        -- intros [H|H]; congruence.
    + (* a new snapshot: the hot store becomes the snapshot, covering every closed segment *)
      destruct (Dur (fun v => v_sstage SBegun (v_segs (closed_ids s) (closed_ids s) (v_snap (hot v) true (v_hot [] v))))) as (D1 & D2 & D3 & D4 & D5 & D6); try reflexivity.
      constructor; auto. intros _. destruct V. constructor; sim; auto.
      * exact kv_wf_nil.
      * exists (Wsn ++ l), [cur]. constructor; sim; auto.
        -- discriminate.
        -- intros _ _. exists [], cur. auto.
        -- rewrite Hcure. apply kv_equiv_refl.
        -- intros _. rewrite wal_entries_app, replay_app.
           apply (kv_equiv_trans _ (replay (wal_entries Wh) [])); [assumption|].
           rewrite HWh, wal_entries_app, Hcure, app_nil_r.
           apply kv_equiv_replay; [exact kv_wf_nil|assumption|apply kv_equiv_sym; assumption].
        -- intros H. discriminate.
        -- intros [H|H]; discriminate.
      * intros f H. discriminate.
  - (* retry of a retained snapshot: it still covers the segments it was taken with *)
    assert (Hkeep : snap_keep (sv s) = snap_segs (sv s)) by (apply (u_keep _ V); assumption).
    destruct (Dur (fun v => v_sstage SBegun (v_segs (snap_keep v) (snap_keep v) (v_snap (snap v) true v)))) as (D1 & D2 & D3 & D4 & D5 & D6); try reflexivity.
    constructor; auto. intros _. destruct V. constructor; sim; auto.
    + exists Wsn, Wh. destruct Sp. constructor; sim; auto.
      * congruence.
      * intros H. discriminate.
      * intros [H|H]; discriminate.
    + intros f H. discriminate.
Qed.

Lemma inv_snapbegin s :
  Inv s -> ph (sv s) = Up -> pend (sv s) = PNone -> sstage (sv s) = SIdle ->
  Inv (do_step repaired s SnapBegin).
Proof.
  intros I Hup Hp Hst. unfold do_step. cbn [fix_snapsegs repaired].
  destruct (negb (w_open (sv s)) || w_nonempty (sv s)) eqn:Er.
  - pose proof (inv_new_segment s I Hup Hp) as I1.
    destruct (new_segment_fields s) as (F1 & F2 & F3 & F4 & F5 & F6 & F7 & F8 & F9).
    pose proof (inv_snapbegin_core (new_segment s) I1) as H. cbv zeta in H.
    apply H; congruence.
  - apply orb_false_iff in Er. destruct Er as [E1 E2]. apply negb_false_iff in E1.
    pose proof (inv_snapbegin_core s I Hup Hp Hst E1 E2) as H. exact H.
Qed.
