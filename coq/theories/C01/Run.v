(* C01/Run.v — correspondence cases for C01.  A case is a history of engine steps (with macro
   steps for "run this operation to completion"), the client-side history, and what the real
   store returned for every key after the last recovery.
   result code: 0 agree & property holds on the observation; 1 model differs, property holds;
                2 model differs and property fails; 3 agree and property fails. *)
From Verif Require Export Shard.Engine C01.Spec.
Open Scope Z_scope.

Definition code (agree spec_ok : bool) : N :=
  match agree, spec_ok with
  | true, true => 0 | false, true => 1 | false, false => 2 | true, false => 3
  end%N.

Inductive hstep :=
| HS (x : step)           (* exactly this step; must be applicable *)
| HTry (x : step)         (* this step if applicable *)
| HSnapRest               (* rest of WriteSnapshot after SnapBegin, if a snapshot was begun *)
| HReplaceAll             (* rest of FileStore.replace: remove every old file *)
| HTombAll                (* tombstone every file of the running delete *)
| HDeleteRest             (* cache, WAL entry, sync, index *)
| HOpen.                  (* complete recovery *)

Definition try (c : cfg) (s : state) (x : step) : state := step_fn c s x.

Fixpoint iter_while (n : nat) (c : cfg) (x : step) (s : state) : state :=
  match n with
  | O => s
  | S n' => if step_ok s x then iter_while n' c x (do_step c s x) else s
  end.

Definition tomb_all (c : cfg) (s : state) : state :=
  fold_left (fun s i => try c s (DeleteTombstone i)) (seq 0 (length (files (sd s)))) s.

(* returns the new state and whether every mandatory step was applicable *)
Definition exec (c : cfg) (sb : state * bool) (h : hstep) : state * bool :=
  let (s, ok) := sb in
  match h with
  | HS x => (step_fn c s x, ok && step_ok s x)
  | HTry x => (try c s x, ok)
  | HSnapRest =>
      let s1 := try c s SnapWriteTmp in
      let s2 := try c s1 SnapRename in
      let s3 := try c s2 SnapClear in
      (iter_while (S (length (wal (sd s3)))) c SnapRemoveWAL s3, ok)
  | HReplaceAll => (iter_while (S (length (files (sd s)))) c ReplaceRemove s, ok)
  | HTombAll => (tomb_all c s, ok)
  | HDeleteRest =>
      let s1 := try c s DeleteCache in
      let s2 := try c s1 WalSync in
      (try c s2 DeleteIndex, ok)
  | HOpen => (run c open_steps s, ok && run_ok c open_steps s)
  end.

Definition exec_all (c : cfg) (hs : list hstep) : state * bool := fold_left (exec c) hs (init, true).

Inductive case :=
| CRun (hs : list hstep) (hist : list hop) (obs : list (key * list tv)) (open_ok : bool).

(* the model's acknowledged history, with selections made explicit over the observed keys,
   equals the acknowledged part of the client-side history *)
Fixpoint oplist_eqb (a b : list op) : bool :=
  match a, b with
  | [], [] => true
  | OWrite p :: a', OWrite q :: b' =>
      (fix go (p q : list (key * tv)) : bool :=
         match p, q with
         | [], [] => true
         | (k1, x1) :: p', (k2, x2) :: q' => key_eqb k1 k2 && tvlist_eqb [x1] [x2] && go p' q'
         | _, _ => false
         end) p q && oplist_eqb a' b'
  | ODelete k1 l1 h1 :: a', ODelete k2 l2 h2 :: b' =>
      (fix go (p q : list key) : bool :=
         match p, q with
         | [], [] => true
         | x :: p', y :: q' => key_eqb x y && go p' q'
         | _, _ => false
         end) k1 k2 && (l1 =? l2) && (h1 =? h2) && oplist_eqb a' b'
  | _, _ => false
  end.

Definition acked_ops (hist : list hop) : list op :=
  flat_map (fun h => match h with HAck o => [o] | HMaybe _ => [] end) hist.

Definition check_case (c : case) : N :=
  match c with
  | CRun hs hist obs open_ok =>
      let '(s, ok) := exec_all repaired hs in
      let U := map fst obs in
      let agree :=
        open_ok && ok && is_up s
        && forallb (fun kv => tvlist_eqb (eng_read_all s (fst kv)) (snd kv)) obs
        && oplist_eqb (map (conc U) (acked s)) (acked_ops hist) in
      let spec_ok := open_ok && forallb (fun kv => read_ok hist (fst kv) (snd kv)) obs in
      code agree spec_ok
  end.
