(* C01/Steps4.v — invariant preservation: compaction steps and delete steps. *)
From Verif Require Import Shard.Engine C01.Kv C01.Facts C01.Dinv C01.Inv C01.Steps1 C01.Steps2 C01.Steps3.
From Coq Require Import ZifyBool ZifyN ZifyNat.
Open Scope Z_scope.
Local Arguments exclude_range : simpl never.
Local Arguments key_eqb : simpl never.

(* ---------- helpers ---------- *)

Lemma oplus_idem a : oplus a a = a.
Proof. destruct a; reflexivity. Qed.

Lemma firstn_add_split {A} (l : list A) i n : firstn (i + n) l = firstn i l ++ firstn n (skipn i l).
Proof.
  revert l; induction i as [|i IH]; intros l; [reflexivity|].
  destruct l as [|x r]; [destruct n; reflexivity|]. cbn. rewrite IH. reflexivity.
Qed.

Lemma Qpt_mb esn eh fs eff (mb mb' : key -> Z -> bool) k t :
  (mb k t = true -> mb' k t = true) -> Qpt esn eh fs eff mb k t -> Qpt esn eh fs eff mb' k t.
Proof. intros H HQ a Ha. destruct (HQ a Ha) as [X|[X|[X|X]]]; auto. Qed.

Lemma Qpt_files esn eh fs fs' eff mb k t :
  (mb k t = true \/ fview fs' k t = fview fs k t) -> Qpt esn eh fs eff mb k t -> Qpt esn eh fs' eff mb k t.
Proof.
  intros H HQ a Ha. destruct H as [H|H]; [auto|]. rewrite H. apply HQ. assumption.
Qed.

Lemma Qpt_delete_done esn eh fs eff (mb mb' : key -> Z -> bool) ss lo hi k t :
  (mb k t = true -> mb' k t = true \/ sel ss k && in_rng lo hi t = true) ->
  Qpt esn eh fs eff mb k t -> Qpt esn eh fs (eff ++ [GDelete ss lo hi]) mb' k t.
Proof.
  intros Hm HQ a Ha. rewrite glww_snoc. cbn [gapply]. fold (in_rng lo hi t).
  destruct (sel ss k && in_rng lo hi t) eqn:Ec; [right; right; right; discriminate|].
  destruct (HQ a Ha) as [X|[X|[X|X]]]; auto.
  destruct (Hm X) as [Y|Y]; [auto|discriminate].
Qed.

Lemma Qpt_add_nop esn eh fs eff mb e k t :
  (ept k t e = PNop \/ mb k t = true) -> Qpt esn eh fs eff mb k t -> Qpt esn (eh ++ [e]) fs eff mb k t.
Proof.
  intros H HQ a Ha. destruct H as [H|H]; [|auto].
  rewrite evs_snoc, last_ev_snoc, H. apply HQ. assumption.
Qed.

Lemma kmem_filter (p : key -> bool) k l : kmem k (filter p l) = true -> p k = true.
Proof.
  unfold kmem. rewrite existsb_exists. intros [x [Hin Hx]]. apply filter_In in Hin. destruct Hin as [_ Hp].
  apply key_eqb_eq in Hx. subst. assumption.
Qed.

Lemma cstage_idle_of_delete s : Vinv s -> dstage (sv s) <> DIdle -> cstage (sv s) = CIdle.
Proof.
  intros V Hd. destruct (cstage (sv s)) eqn:Ec; [reflexivity| |]; exfalso; apply Hd; apply (u_c2 _ V); congruence.
Qed.

Lemma fview_update_nth fs i f g k t :
  nth_error fs i = Some f -> fpt (g f) k t = fpt f k t -> fview (update_nth i g fs) k t = fview fs k t.
Proof.
  intros Hn Hf. destruct (nth_error_split _ _ Hn) as [a [b [-> Hl]]]. subst i.
  rewrite update_nth_split. rewrite !fview_app, !fview_cons, Hf. reflexivity.
Qed.

(* ---------- CompactWriteTmp / CompactAbort ---------- *)

Lemma inv_compactwritetmp s i n :
  Inv s -> ph (sv s) = Up -> cstage (sv s) = CIdle -> dstage (sv s) = DIdle ->
  (i + n <= length (files (sd s)))%nat ->
  Inv (do_step repaired s (CompactWriteTmp i n)).
Proof.
  intros I Hup Hc Hd Hlen. pose proof (i_up _ I Hup) as V. unfold do_step.
  apply Inv_of_parts.
  - apply (dur_frame s); try reflexivity; [apply DurPart_of_Inv|]; assumption.
  - intros _. destruct V. constructor; sim; auto.
    + destruct u_split as [Wsn [Wh Sp]]. exists Wsn, Wh. destruct Sp. constructor; sim; auto.
    + intros i0 n0 out H. inversion H; subst. auto.
    + intros i0 olds H. discriminate.
Qed.

Lemma inv_compactabort s :
  Inv s -> ph (sv s) = Up -> Inv (do_step repaired s CompactAbort).
Proof.
  intros I Hup. pose proof (i_up _ I Hup) as V. unfold do_step.
  apply Inv_of_parts.
  - apply (dur_frame s); try reflexivity; [apply DurPart_of_Inv|]; assumption.
  - intros _. destruct V. constructor; sim; auto.
    + destruct u_split as [Wsn [Wh Sp]]. exists Wsn, Wh. destruct Sp. constructor; sim; auto.
    + intros i0 n0 out H. discriminate.
    + intros i0 olds H. discriminate.
Qed.

(* ---------- a step that changes the files without changing any view ---------- *)

Lemma inv_files_same_view s s' :
  Inv s -> ph (sv s) = Up -> pend (sv s) = PNone ->
  wal (sd s') = wal (sd s) -> g_hist s' = g_hist s ->
  (forall k t, fview (files (sd s')) k t = fview (files (sd s)) k t) ->
  (exists cs, sv s' = v_cstage cs (sv s)) ->
  (ph (sv s') = Up -> Vinv s') ->
  Inv s'.
Proof.
  intros I Hup Hp Hw Hg Hf [cs Hv] HV.
  destruct (DurPart_of_Inv _ I) as (D1 & D2 & D3 & D4 & D5 & D6).
  assert (HE : E s' = E s) by (unfold E; rewrite Hw; reflexivity).
  assert (Hpd : pend (sv s') = pend (sv s)) by (rewrite Hv; reflexivity).
  assert (Hds : dstage (sv s') = dstage (sv s)) by (rewrite Hv; reflexivity).
  assert (Hph : ph (sv s') = ph (sv s)) by (rewrite Hv; reflexivity).
  apply Inv_of_parts; [|assumption].
  unfold DurPart. rewrite HE, Hpd, Hds, Hph, (eff_now_eq s s' Hg Hpd), (effective_eq s s' Hg).
  split; [|split; [|split; [|split; [|split]]]].
  - apply (Dinv_ext _ _ _ (mb_now s)); [apply mb_now_eq; assumption|].
    apply (Dinv_files _ (files (sd s))); [intros k t; right; apply Hf|assumption].
  - intros pts H. congruence.
  - assumption.
  - assumption.
  - unfold sync_ok, pend_entry in *. rewrite Hw, Hpd, Hds. assumption.
  - intros H. contradiction.
Qed.

(* ---------- ReplaceRename ---------- *)

Lemma inv_replacerename s i n out :
  Inv s -> ph (sv s) = Up -> pend (sv s) = PNone -> cstage (sv s) = CWritten i n out ->
  match out with
  | Some f => fits_between (firstn (i + n) (files (sd s))) f (skipn (i + n) (files (sd s)))
  | None => true
  end = true ->
  Inv (do_step repaired s ReplaceRename).
Proof.
  intros I Hup Hp Hc Hfit. pose proof (i_up _ I Hup) as V.
  destruct (u_c1 _ V _ _ _ Hc) as [Hout Hlen].
  set (fs := files (sd s)) in *. set (grp := group_at i n fs) in *.
  assert (Hsplit : fs = firstn i fs ++ grp ++ skipn (i + n) fs).
  { rewrite app_assoc. unfold grp, group_at. rewrite <- firstn_add_split. symmetry. apply firstn_skipn. }
  assert (Hpre : length (firstn i fs) = i) by (apply firstn_length_le; lia).
  assert (Hview : forall k t, ofpt out k t = fview grp k t) by (intros; subst out; apply compact_out_view).
  unfold do_step. rewrite Hc. fold fs. fold grp.
  destruct out as [f|].
  - (* the output file becomes live, right behind its inputs *)
    assert (Hins : insert_file f fs = firstn i fs ++ grp ++ [f] ++ skipn (i + n) fs).
    { rewrite <- (firstn_skipn (i + n) fs) at 1. rewrite (insert_file_pos _ _ _ Hfit).
      rewrite firstn_add_split. fold grp. rewrite <- !app_assoc. reflexivity. }
    assert (Hfv : forall k t, fview (insert_file f fs) k t = fview fs k t).
    { intros k t. rewrite Hins.
      assert (R : fview fs k t = fview (firstn i fs ++ grp ++ skipn (i + n) fs) k t) by (rewrite <- Hsplit; reflexivity).
      rewrite R. rewrite !fview_app, fview_single. cbn [ofpt] in Hview. rewrite Hview.
      rewrite <- (oplus_assoc (fview (skipn (i + n) fs) k t)). rewrite oplus_idem. reflexivity. }
    apply (inv_files_same_view s); sim; auto.
    + eexists. reflexivity.
    + intros _. destruct V. constructor; sim; auto.
      * destruct u_split as [Wsn [Wh Sp]]. exists Wsn, Wh. destruct Sp. constructor; sim; auto.
        intros Hst k t. apply (Qpt_files _ _ fs); [right; apply Hfv|]. apply sp_q. assumption.
      * intros i0 n0 out0 H. discriminate.
      * intros H. apply u_c2. congruence.
      * intros i0 olds H. inversion H; subst i0 olds.
        exists (firstn i fs), grp, [f], (skipn (i + n) fs). repeat split; auto.
        intros k t Hn. rewrite fview_single in Hn. rewrite <- Hview. exact Hn.
  - (* nothing left to write: only the inputs go away *)
    apply (inv_files_same_view s); sim; auto.
    + eexists. reflexivity.
    + intros _. destruct V. constructor; sim; auto.
      * destruct u_split as [Wsn [Wh Sp]]. exists Wsn, Wh. destruct Sp. constructor; sim; auto.
      * intros i0 n0 out0 H. discriminate.
      * intros H. apply u_c2. congruence.
      * intros i0 olds H. inversion H; subst i0 olds.
        exists (firstn i fs), grp, [], (skipn (i + n) fs). repeat split; auto.
        intros k t _. rewrite <- Hview. reflexivity.
Qed.

(* ---------- ReplaceRemove ---------- *)

Lemma inv_replaceremove s i olds :
  Inv s -> ph (sv s) = Up -> pend (sv s) = PNone -> cstage (sv s) = CReplacing i olds ->
  match olds with
  | id :: _ => match nth_error (files (sd s)) i with Some f => fid_eqb (fid f) id | None => false end
  | [] => true
  end = true ->
  Inv (do_step repaired s ReplaceRemove).
Proof.
  intros I Hup Hp Hc Hg. pose proof (i_up _ I Hup) as V.
  destruct (u_c3 _ V _ _ Hc) as [pre [grp [o [post [Hfs [Hlen [Hids Hdom]]]]]]].
  unfold do_step. rewrite Hc. destruct olds as [|id r].
  - apply (inv_files_same_view s); sim; auto.
    + eexists. reflexivity.
    + intros _. destruct V. constructor; sim; auto.
      * destruct u_split as [Wsn [Wh Sp]]. exists Wsn, Wh. destruct Sp. constructor; sim; auto.
      * intros i0 n0 out0 H. discriminate.
      * intros i0 olds H. discriminate.
  - destruct grp as [|x grp']; [discriminate|]. cbn [map] in Hids. injection Hids as Hx Hr.
    assert (Hrm : remove_nth i (files (sd s)) = pre ++ grp' ++ o ++ post).
    { rewrite Hfs. subst i. cbn [app]. apply remove_nth_split. }
    assert (Hfv : forall k t, fview (remove_nth i (files (sd s))) k t = fview (files (sd s)) k t).
    { intros k t. rewrite Hrm, Hfs. rewrite !fview_app. f_equal.
      destruct (fview o k t) eqn:Eo; [destruct (fview post k t); reflexivity|].
      destruct (fview post k t); [reflexivity|]. cbn [oplus].
      specialize (Hdom k t Eo). rewrite fview_cons in Hdom.
      destruct (fview grp' k t) eqn:Eg; [discriminate|]. cbn [oplus] in Hdom. rewrite fview_cons, Eg. cbn [oplus].
      rewrite Hdom. reflexivity. }
    apply (inv_files_same_view s); sim; auto.
    + eexists. reflexivity.
    + intros _. destruct V. constructor; sim; auto.
      * destruct u_split as [Wsn [Wh Sp]]. exists Wsn, Wh. destruct Sp. constructor; sim; auto.
        intros Hst k t. apply (Qpt_files _ _ (files (sd s))); [right; apply Hfv|]. apply sp_q. assumption.
      * intros i0 n0 out0 H. discriminate.
      * intros H. apply u_c2. congruence.
      * intros i0 olds H. inversion H; subst i0 olds.
        exists pre, grp', o, post. repeat split; auto.
        intros k t Hn. specialize (Hdom k t Hn). rewrite fview_cons in Hdom.
        destruct (fview grp' k t); [discriminate|reflexivity].
Qed.
