(* C01/Facts.v — facts about data files (views, snapshot file, compaction output, tombstones,
   file-list surgery) and about WAL segment lists. *)
From Verif Require Import Shard.Engine C01.Kv.
From Coq Require Import ZifyBool ZifyN.
Open Scope Z_scope.
Local Arguments exclude_range : simpl never.
Local Arguments key_eqb : simpl never.

(* ---------- overlaying layers ---------- *)

(* [a] on top of [b] *)
Definition oplus (a b : option value) : option value := match a with Some _ => a | None => b end.

Lemma oplus_none_r a : oplus a None = a.
Proof. destruct a; reflexivity. Qed.

Lemma oplus_assoc a b c : oplus a (oplus b c) = oplus (oplus a b) c.
Proof. destruct a; reflexivity. Qed.

Lemma lookup_app_oplus t a b : lookup_last t (a ++ b) = oplus (lookup_last t b) (lookup_last t a).
Proof. rewrite lookup_last_app. unfold oplus. destruct (lookup_last t b); reflexivity. Qed.

Definition fpt (f : tsmfile) (k : key) (t : Z) : option value := lookup_last t (file_values f k).
Definition fview (fs : list tsmfile) (k : key) (t : Z) : option value :=
  lookup_last t (flat_map (fun f => file_values f k) fs).

Lemma fview_nil k t : fview [] k t = None.
Proof. reflexivity. Qed.

Lemma fview_app a b k t : fview (a ++ b) k t = oplus (fview b k t) (fview a k t).
Proof. unfold fview. rewrite flat_map_app. apply lookup_app_oplus. Qed.

Lemma fview_cons f r k t : fview (f :: r) k t = oplus (fview r k t) (fpt f k t).
Proof. change (f :: r) with ([f] ++ r). rewrite fview_app. unfold fview at 2. cbn [flat_map]. rewrite app_nil_r. reflexivity. Qed.

Lemma fview_single f k t : fview [f] k t = fpt f k t.
Proof. rewrite fview_cons. reflexivity. Qed.

Lemma fview_none_all fs k t : fview fs k t = None -> forall f, In f fs -> fpt f k t = None.
Proof.
  induction fs as [|g r IH]; intros H f Hin; [destruct Hin|].
  rewrite fview_cons in H. destruct (fview r k t) eqn:E; [discriminate|]. cbn in H.
  destruct Hin as [<-|Hin]; [assumption|]. apply IH; [reflexivity|assumption].
Qed.

Lemma fview_all_none fs k t : (forall f, In f fs -> fpt f k t = None) -> fview fs k t = None.
Proof.
  induction fs as [|g r IH]; intros H; [reflexivity|].
  rewrite fview_cons, IH by (intros f Hf; apply H; right; assumption). cbn. apply H. left. reflexivity.
Qed.

(* what a reader sees: the cache on top of the files *)
Lemma read_all_view fs sn h k t :
  lookup_last t (read_all fs {| c_snap := sn; c_hot := h |} k) =
  oplus (cpt h k t) (oplus (cpt sn k t) (fview fs k t)).
Proof.
  rewrite read_all_lookup. unfold cache_values. cbn [c_snap c_hot].
  rewrite !lookup_app_oplus. rewrite <- oplus_assoc. reflexivity.
Qed.

(* ---------- tombstones ---------- *)

Definition tomb_hit (tombs : list (key * (Z * Z))) (k : key) (t : Z) : bool :=
  existsb (fun tb => key_eqb (fst tb) k && in_rng (fst (snd tb)) (snd (snd tb)) t) tombs.

Lemma lookup_apply_tombs k t tombs : forall vs,
  lookup_last t (apply_tombs k tombs vs) = if tomb_hit tombs k t then None else lookup_last t vs.
Proof.
  unfold apply_tombs, tomb_hit. induction tombs as [|tb r IH]; intros vs; cbn [fold_left existsb]; [reflexivity|].
  rewrite IH. destruct (key_eqb (fst tb) k); cbn [andb].
  - rewrite lookup_exclude_range. unfold in_rng.
    destruct ((fst (snd tb) <=? t) && (t <=? snd (snd tb))); cbn [orb]; [|reflexivity].
    destruct (existsb _ r); reflexivity.
  - reflexivity.
Qed.

Lemma fpt_tombs f k t :
  fpt f k t = if tomb_hit (f_tombs f) k t then None else lookup_last t (kv_get k (f_data f)).
Proof. unfold fpt, file_values. apply lookup_apply_tombs. Qed.

Lemma tomb_hit_app a b k t : tomb_hit (a ++ b) k t = tomb_hit a k t || tomb_hit b k t.
Proof. unfold tomb_hit. apply existsb_app. Qed.

Lemma tomb_hit_new ss lo hi ks k t :
  tomb_hit (map (fun k' => (k', (lo, hi))) (filter (sel ss) ks)) k t = true -> sel ss k = true /\ in_rng lo hi t = true.
Proof.
  unfold tomb_hit. rewrite existsb_exists. intros [tb [Hin H]].
  apply in_map_iff in Hin. destruct Hin as [k' [<- Hk']]. apply filter_In in Hk'. destruct Hk' as [_ Hs].
  cbn [fst snd] in H. apply andb_true_iff in H. destruct H as [H1 H2].
  apply key_eqb_eq in H1. subst. auto.
Qed.

(* tombstoning changes nothing outside the selected series and range *)
Lemma fpt_tombstone_outside ss lo hi f k t :
  sel ss k && in_rng lo hi t = false -> fpt (tombstone_file ss lo hi f) k t = fpt f k t.
Proof.
  intros H. unfold tombstone_file. destruct (file_overlaps lo hi f); [|reflexivity].
  rewrite !fpt_tombs. cbn [f_tombs f_data]. rewrite tomb_hit_app.
  destruct (tomb_hit (f_tombs f) k t); cbn [orb]; [reflexivity|].
  destruct (tomb_hit (map _ _) k t) eqn:E; [|reflexivity].
  apply tomb_hit_new in E. destruct E as [E1 E2]. rewrite E1, E2 in H. discriminate.
Qed.

Lemma tombstone_file_fid ss lo hi f : fid (tombstone_file ss lo hi f) = fid f.
Proof. unfold tombstone_file. destruct (file_overlaps lo hi f); reflexivity. Qed.

(* tombstoning can only hide values *)
Lemma fpt_tombstone_mono ss lo hi f k t :
  fpt (tombstone_file ss lo hi f) k t = None \/ fpt (tombstone_file ss lo hi f) k t = fpt f k t.
Proof.
  unfold tombstone_file. destruct (file_overlaps lo hi f); [|right; reflexivity].
  rewrite !fpt_tombs. cbn [f_tombs f_data]. rewrite tomb_hit_app.
  destruct (tomb_hit (f_tombs f) k t); cbn [orb]; [left; reflexivity|].
  destruct (tomb_hit (map _ _) k t); [left|right]; reflexivity.
Qed.

(* ---------- list surgery ---------- *)

Lemma update_nth_split {A} (g : A -> A) a x b :
  update_nth (length a) g (a ++ x :: b) = a ++ g x :: b.
Proof. induction a as [|y a IH]; cbn; [reflexivity|]. rewrite IH. reflexivity. Qed.

Lemma remove_nth_split {A} (a : list A) x b : remove_nth (length a) (a ++ x :: b) = a ++ b.
Proof. induction a as [|y a IH]; cbn; [reflexivity|]. rewrite IH. reflexivity. Qed.

Lemma update_nth_length {A} (g : A -> A) n l : length (update_nth n g l) = length l.
Proof. revert n; induction l as [|x r IH]; intros [|n]; cbn; auto. Qed.

Lemma fid_ltb_asym a b : fid_ltb a b = true -> fid_ltb b a = false.
Proof. unfold fid_ltb. destruct a as [a1 a2], b as [b1 b2]. cbn [fst snd]. lia. Qed.

Lemma insert_file_pos f a b : fits_between a f b = true -> insert_file f (a ++ b) = a ++ f :: b.
Proof.
  unfold fits_between. intros H. apply andb_true_iff in H. destruct H as [Ha Hb].
  induction a as [|g a IH]; cbn [app].
  - destruct b as [|g b]; [reflexivity|]. cbn [insert_file].
    cbn [forallb] in Hb. apply andb_true_iff in Hb. destruct Hb as [Hb _]. rewrite Hb. reflexivity.
  - cbn [forallb] in Ha. apply andb_true_iff in Ha. destruct Ha as [Hg Ha].
    cbn [insert_file]. rewrite (fid_ltb_asym _ _ Hg). rewrite IH by assumption. reflexivity.
Qed.

Lemma insert_file_end f a : fits_between a f [] = true -> insert_file f a = a ++ [f].
Proof. intros H. rewrite <- (app_nil_r a) at 1. apply insert_file_pos. assumption. Qed.

(* ---------- snapshot file ---------- *)

Lemma kv_get_map_values (g : list tv -> list tv) k m :
  g [] = [] -> kv_get k (map (fun kv => (fst kv, g (snd kv))) m) = g (kv_get k m).
Proof.
  intros Hg. induction m as [|[k' vs] r IH]; cbn; [symmetry; assumption|].
  destruct (key_eqb k' k); [reflexivity|assumption].
Qed.

Lemma kv_has_map_values (g : list tv -> list tv) k m :
  kv_has k (map (fun kv => (fst kv, g (snd kv))) m) = kv_has k m.
Proof. induction m as [|[k' vs] r IH]; cbn; [reflexivity|]. rewrite IH. reflexivity. Qed.

Lemma kv_wf_map_values (g : list tv -> list tv) m :
  kv_wf m -> kv_wf (map (fun kv => (fst kv, g (snd kv))) m).
Proof.
  induction m as [|[k' vs] r IH]; cbn; [auto|]. intros [H1 H2]. split; [|auto].
  rewrite kv_has_map_values. assumption.
Qed.

Lemma kv_has_nonempty_false k m : kv_has k m = false -> kv_has k (nonempty_kvs m) = false.
Proof.
  induction m as [|[k' vs] r IH]; cbn; [auto|]. intros H. apply orb_false_iff in H. destruct H as [H1 H2].
  destruct (is_nil vs); cbn; rewrite ?H1; auto.
Qed.

Lemma kv_get_nonempty k m : kv_wf m -> kv_get k (nonempty_kvs m) = kv_get k m.
Proof.
  induction m as [|[k' vs] r IH]; cbn; [reflexivity|]. intros [H1 H2].
  destruct (key_eqb k' k) eqn:E.
  - destruct vs as [|x xs]; cbn.
    + apply key_eqb_eq in E. subst. apply kv_get_not_has. apply kv_has_nonempty_false. assumption.
    + rewrite E. reflexivity.
  - destruct (is_nil vs); cbn; rewrite ?E; auto.
Qed.

Lemma dedup_nil : dedup [] = [].
Proof. reflexivity. Qed.

Lemma fpt_snap_file g sn k t : kv_wf sn -> fpt (snap_file g sn) k t = cpt sn k t.
Proof.
  intros Hwf. rewrite fpt_tombs. cbn [snap_file f_tombs f_data tomb_hit existsb].
  rewrite kv_get_nonempty by (apply kv_wf_map_values; assumption).
  rewrite (kv_get_map_values dedup) by reflexivity. unfold cpt. apply dedup_last_wins.
Qed.

Lemma snap_file_fid g sn : fid (snap_file g sn) = (g, 1%N).
Proof. reflexivity. Qed.

(* ---------- compaction output ---------- *)

Lemma kmem_app k a b : kmem k (a ++ b) = kmem k a || kmem k b.
Proof. unfold kmem. apply existsb_app. Qed.

Lemma kmem_kunion k b : forall a, kmem k (kunion a b) = kmem k a || kmem k b.
Proof.
  induction b as [|x r IH]; intros a; cbn [kunion]; [cbn; rewrite orb_false_r; reflexivity|].
  destruct (kmem x a) eqn:E; rewrite IH.
  - cbn [kmem existsb]. destruct (key_eqb k x) eqn:E2; [|reflexivity].
    apply key_eqb_eq in E2. subst. fold (kmem x a). rewrite E. reflexivity.
  - rewrite kmem_app. cbn [kmem existsb]. rewrite orb_false_r, orb_assoc. reflexivity.
Qed.

Lemma kmem_group_keys k g :
  kmem k (group_keys g) = existsb (fun f => kmem k (kv_keys (f_data f))) g.
Proof.
  unfold group_keys.
  assert (G : forall acc, kmem k (fold_left (fun acc f => kunion acc (kv_keys (f_data f))) g acc) =
                          kmem k acc || existsb (fun f => kmem k (kv_keys (f_data f))) g).
  { induction g as [|f r IH]; intros acc; cbn [fold_left existsb]; [rewrite orb_false_r; reflexivity|].
    rewrite IH, kmem_kunion, orb_assoc. reflexivity. }
  rewrite G. reflexivity.
Qed.

Lemma kv_get_no_key k m : kmem k (kv_keys m) = false -> kv_get k m = [].
Proof.
  induction m as [|[k' vs] r IH]; cbn; [reflexivity|]. intros H. apply orb_false_iff in H. destruct H as [H1 H2].
  rewrite key_eqb_sym, H1. auto.
Qed.

Lemma apply_tombs_nil k tombs : apply_tombs k tombs [] = [].
Proof.
  unfold apply_tombs. induction tombs as [|tb r IH]; cbn [fold_left]; [reflexivity|].
  destruct (key_eqb (fst tb) k); assumption.
Qed.

Lemma fpt_no_key f k t : kmem k (kv_keys (f_data f)) = false -> fpt f k t = None.
Proof. intros H. unfold fpt, file_values. rewrite kv_get_no_key by assumption. rewrite apply_tombs_nil. reflexivity. Qed.

Lemma kv_get_keyed_map (F : key -> list tv) k ks :
  kv_get k (nonempty_kvs (map (fun k' => (k', F k')) ks)) = if kmem k ks then F k else [].
Proof.
  induction ks as [|k' r IH]; cbn [map nonempty_kvs filter kmem existsb snd]; [reflexivity|].
  fold (kmem k r). destruct (key_eqb k k') eqn:E; cbn [orb].
  - apply key_eqb_eq in E. subst k'. destruct (F k) as [|x xs] eqn:EF; cbn [is_nil negb].
    + fold (nonempty_kvs (map (fun k' => (k', F k')) r)). rewrite IH. destruct (kmem k r); reflexivity.
    + cbn [kv_get]. rewrite key_eqb_refl. reflexivity.
  - destruct (negb (is_nil (F k'))).
    + cbn [kv_get]. rewrite key_eqb_sym, E. apply IH.
    + apply IH.
Qed.

Definition ofpt (o : option tsmfile) (k : key) (t : Z) : option value :=
  match o with Some f => fpt f k t | None => None end.

Lemma compact_out_view g k t : ofpt (compact_out g) k t = fview g k t.
Proof.
  assert (V : lookup_last t (if kmem k (group_keys g) then files_values g k else []) = fview g k t).
  { destruct (kmem k (group_keys g)) eqn:E.
    - apply files_values_lookup.
    - symmetry. apply fview_all_none. intros f Hf. apply fpt_no_key.
      rewrite kmem_group_keys in E. destruct (kmem k (kv_keys (f_data f))) eqn:E2; [|reflexivity].
      assert (existsb (fun f => kmem k (kv_keys (f_data f))) g = true) by (apply existsb_exists; eauto). congruence. }
  unfold compact_out.
  set (data := nonempty_kvs (map (fun k0 => (k0, files_values g k0)) (group_keys g))).
  assert (D : kv_get k data = if kmem k (group_keys g) then files_values g k else [])
    by apply (kv_get_keyed_map (fun k0 => files_values g k0)).
  destruct (is_nil data) eqn:En.
  - cbn [ofpt]. rewrite <- V, <- D. destruct data; [reflexivity|discriminate].
  - destruct (group_genseq g) as [mg sq]. cbn [ofpt]. rewrite fpt_tombs. cbn [f_tombs f_data tomb_hit existsb].
    rewrite D. exact V.
Qed.

(* ---------- WAL segment lists ---------- *)

Definition seg_clean (sg : segment) : Prop := forallb is_entry (sg_items sg) = true.

Lemma wal_entries_app a b : wal_entries (a ++ b) = wal_entries a ++ wal_entries b.
Proof. unfold wal_entries. apply flat_map_app. Qed.

Lemma good_prefix_app_entry l e : forallb is_entry l = true -> good_prefix (l ++ [IEntry e]) = good_prefix l ++ [e].
Proof.
  induction l as [|[e'|n] r IH]; cbn; [reflexivity| |discriminate].
  intros H. rewrite IH by assumption. reflexivity.
Qed.

Lemma good_prefix_entries es : good_prefix (map IEntry es) = es.
Proof. induction es as [|e r IH]; cbn; [reflexivity|]. rewrite IH. reflexivity. Qed.

Lemma good_prefix_entries_junk es l n : good_prefix (map IEntry es ++ IJunk n :: l) = es.
Proof. induction es as [|e r IH]; cbn; [reflexivity|]. rewrite IH. reflexivity. Qed.

Lemma clean_is_entries l : forallb is_entry l = true -> l = map IEntry (good_prefix l).
Proof.
  induction l as [|[e|n] r IH]; cbn; [reflexivity| |discriminate]. intros H. rewrite <- IH by assumption. reflexivity.
Qed.

Lemma update_last_snoc {A} (g : A -> A) l x : update_last g (l ++ [x]) = l ++ [g x].
Proof.
  induction l as [|y r IH]; [reflexivity|].
  change ((y :: r) ++ [x]) with (y :: (r ++ [x])). change ((y :: r) ++ [g x]) with (y :: (r ++ [g x])).
  destruct (r ++ [x]) as [|z zs] eqn:E; [destruct r; discriminate|].
  cbn [update_last]. f_equal. exact IH.
Qed.

Lemma update_last_nil {A} (g : A -> A) : update_last g [] = [].
Proof. reflexivity. Qed.

Lemma update_last_app {A} (g : A -> A) a b : b <> [] -> update_last g (a ++ b) = a ++ update_last g b.
Proof.
  intros Hb. destruct (exists_last Hb) as [b' [x ->]].
  rewrite app_assoc, !update_last_snoc, app_assoc. reflexivity.
Qed.

Lemma wal_entries_update_last g w :
  (forall sg, good_prefix (sg_items (g sg)) = good_prefix (sg_items sg)) ->
  wal_entries (update_last g w) = wal_entries w.
Proof.
  intros H. destruct w as [|s0 r]; [reflexivity|].
  assert (Hne : s0 :: r <> []) by discriminate. destruct (exists_last Hne) as [l [x ->]].
  rewrite update_last_snoc, !wal_entries_app. cbn [wal_entries flat_map]. rewrite H. reflexivity.
Qed.

Lemma wal_entries_truncate w : wal_entries (map truncate_seg w) = wal_entries w.
Proof.
  unfold wal_entries. induction w as [|sg r IH]; cbn [map flat_map]; [reflexivity|].
  rewrite IH. cbn [truncate_seg sg_items]. rewrite good_prefix_entries. reflexivity.
Qed.

Lemma truncate_seg_clean sg : seg_clean (truncate_seg sg).
Proof.
  unfold seg_clean. cbn [truncate_seg sg_items]. induction (good_prefix (sg_items sg)); cbn; auto.
Qed.

(* the frames CacheLoader.Load gets from a cut segment: exactly the whole ones before the cut *)
Lemma good_prefix_cut es n keep torn id :
  good_prefix (sg_items (cut_seg keep torn {| sg_id := id; sg_items := map IEntry es; sg_synced := n |}))
  = firstn (n + keep) es.
Proof.
  unfold cut_seg. cbn [sg_items sg_synced sg_id].
  rewrite firstn_map. destruct (skipn (n + keep) (map IEntry es)); [|destruct (N.eqb torn 0)].
  - rewrite app_nil_r. apply good_prefix_entries.
  - rewrite app_nil_r. apply good_prefix_entries.
  - apply good_prefix_entries_junk.
Qed.
