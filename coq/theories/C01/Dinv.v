(* C01/Dinv.v — the durable, pointwise part of the invariant: what a recovery would rebuild
   from the WAL entries [es] and the data files [fs] covers the effective history [eff],
   except at points inside a delete that is in flight or was cut by a crash ([mb]). *)
From Verif Require Import Shard.Engine C01.Kv C01.Facts.
Open Scope Z_scope.

Definition evs (es : list entry) (k : key) (t : Z) : list pev := map (ept k t) es.

(* value recovery yields at (k, t): the replayed cache on top of the files *)
Definition rview (es : list entry) (fs : list tsmfile) (k : key) (t : Z) : option value :=
  oplus (pfold (evs es k t) None) (fview fs k t).

Definition D1 es fs (eff : list gop) (mb : key -> Z -> bool) k t : Prop :=
  forall v, glww eff k t = Some v -> mb k t = true \/ rview es fs k t = Some v.

(* a delete entry that is the last word of the log about (k, t) was preceded by tombstones *)
Definition D2 es fs (eff : list gop) (mb : key -> Z -> bool) k t : Prop :=
  last_ev (evs es k t) = PDel -> fview fs k t = None \/ glww eff k t = None \/ mb k t = true.

Definition Dinv es fs eff mb : Prop := forall k t, D1 es fs eff mb k t /\ D2 es fs eff mb k t.

Lemma glww_snoc h o k t : glww (h ++ [o]) k t = gapply k t (glww h k t) o.
Proof. unfold glww. rewrite fold_left_app. reflexivity. Qed.

Lemma evs_app a b k t : evs (a ++ b) k t = evs a k t ++ evs b k t.
Proof. unfold evs. apply map_app. Qed.

Lemma evs_snoc es e k t : evs (es ++ [e]) k t = evs es k t ++ [ept k t e].
Proof. unfold evs. rewrite map_app. reflexivity. Qed.

Lemma rview_snoc es e fs k t :
  rview (es ++ [e]) fs k t =
  match ept k t e with
  | PNop => rview es fs k t
  | PSet v => Some v
  | PDel => fview fs k t
  end.
Proof.
  unfold rview. rewrite evs_snoc, pfold_app. cbn [pfold fold_left].
  destruct (ept k t e); reflexivity.
Qed.

Lemma last_ev_snoc ps p : last_ev (ps ++ [p]) = match p with PNop => last_ev ps | q => q end.
Proof. rewrite last_ev_app. cbn [last_ev]. destruct p; reflexivity. Qed.

Lemma Dinv_empty : Dinv [] [] [] (fun _ _ => false).
Proof. intros k t. split; [intros v H; discriminate|intros H; discriminate]. Qed.

(* ---- a write: the entry and the operation arrive together ---- *)
Lemma Dinv_write es fs eff mb pts :
  Dinv es fs eff mb -> Dinv (es ++ [EWrite pts]) fs (eff ++ [GWrite pts]) mb.
Proof.
  intros H k t. destruct (H k t) as [H1 H2]. split.
  - intros v Hv. rewrite glww_snoc in Hv. cbn [gapply] in Hv. rewrite rview_snoc. cbn [ept].
    destruct (lookup_last t (batch_values k pts)) as [x|].
    + right. assumption.
    + apply H1. assumption.
  - unfold D2. rewrite evs_snoc, last_ev_snoc. cbn [ept]. rewrite glww_snoc. cbn [gapply].
    destruct (lookup_last t (batch_values k pts)) as [x|]; [discriminate|]. apply H2.
Qed.

(* ---- an entry that says nothing outside the exempt points ---- *)
Lemma Dinv_add_nop es fs eff mb e :
  (forall k t, ept k t e = PNop \/ mb k t = true) ->
  Dinv es fs eff mb -> Dinv (es ++ [e]) fs eff mb.
Proof.
  intros He H k t. destruct (H k t) as [H1 H2]. destruct (He k t) as [E|E].
  - split.
    + intros v Hv. rewrite rview_snoc, E. apply H1. assumption.
    + unfold D2. rewrite evs_snoc, last_ev_snoc. rewrite E. apply H2.
  - split; [intros v Hv; left; assumption|intros _; right; right; assumption].
Qed.

Lemma Dinv_drop_nop es fs eff mb e :
  (forall k t, ept k t e = PNop \/ mb k t = true) ->
  Dinv (es ++ [e]) fs eff mb -> Dinv es fs eff mb.
Proof.
  intros He H k t. destruct (H k t) as [H1 H2]. destruct (He k t) as [E|E].
  - split.
    + intros v Hv. specialize (H1 v Hv). rewrite rview_snoc, E in H1. assumption.
    + unfold D2 in *. rewrite evs_snoc, last_ev_snoc in H2. rewrite E in H2. assumption.
  - split; [intros v Hv; left; assumption|intros _; right; right; assumption].
Qed.

(* ---- files change only at exempt points (tombstones) or not at all (compaction) ---- *)
Lemma Dinv_files es fs fs' eff mb :
  (forall k t, mb k t = true \/ fview fs' k t = fview fs k t) ->
  Dinv es fs eff mb -> Dinv es fs' eff mb.
Proof.
  intros Hf H k t. destruct (H k t) as [H1 H2]. destruct (Hf k t) as [E|E].
  - split; [intros v Hv; left; assumption|intros _; right; right; assumption].
  - split.
    + intros v Hv. unfold rview. rewrite E. apply H1. assumption.
    + unfold D2. rewrite E. apply H2.
Qed.

Lemma Dinv_mb es fs eff (mb mb' : key -> Z -> bool) :
  (forall k t, mb k t = true -> mb' k t = true) -> Dinv es fs eff mb -> Dinv es fs eff mb'.
Proof.
  intros Hm H k t. destruct (H k t) as [H1 H2]. split.
  - intros v Hv. destruct (H1 v Hv); auto.
  - intros Hl. destruct (H2 Hl) as [|[|]]; auto.
Qed.

(* ---- a delete becomes part of the history: the points it covers stop being exempt ---- *)
Lemma Dinv_delete_done es fs eff (mb mb' : key -> Z -> bool) ss lo hi :
  (forall k t, mb k t = true -> mb' k t = true \/ sel ss k && in_rng lo hi t = true) ->
  Dinv es fs eff mb -> Dinv es fs (eff ++ [GDelete ss lo hi]) mb'.
Proof.
  intros Hm H k t. destruct (H k t) as [H1 H2].
  assert (G : glww (eff ++ [GDelete ss lo hi]) k t =
              if sel ss k && in_rng lo hi t then None else glww eff k t).
  { rewrite glww_snoc. reflexivity. }
  destruct (sel ss k && in_rng lo hi t) eqn:Ec.
  - split; [intros v Hv; rewrite G in Hv; discriminate|intros _; right; left; assumption].
  - split.
    + intros v Hv. rewrite G in Hv. destruct (H1 v Hv) as [Hb|Hb]; [|right; assumption].
      destruct (Hm k t Hb) as [|Hc]; [left; assumption|rewrite Ec in Hc; discriminate].
    + intros Hl. rewrite G. destruct (H2 Hl) as [|[|Hb]]; auto.
      destruct (Hm k t Hb) as [|Hc]; [auto|rewrite Ec in Hc; discriminate].
Qed.

(* ---- the snapshot file goes on top of the files: [sn] is the cache replayed from the
        segments [esn] the snapshot covers ---- *)
Lemma Dinv_snap_rename esn eh fs fs' eff mb :
  (forall k t, fview fs' k t = oplus (pfold (evs esn k t) None) (fview fs k t)) ->
  Dinv (esn ++ eh) fs eff mb -> Dinv (esn ++ eh) fs' eff mb.
Proof.
  intros Hf H k t. destruct (H k t) as [H1 H2].
  assert (Hp : pfold (evs (esn ++ eh) k t) None = papply (pfold (evs esn k t) None) (last_ev (evs eh k t))).
  { rewrite evs_app, pfold_app. apply pfold_last. }
  assert (Hl : last_ev (evs (esn ++ eh) k t) =
               match last_ev (evs eh k t) with PNop => last_ev (evs esn k t) | q => q end).
  { rewrite evs_app. apply last_ev_app. }
  assert (Hs : pfold (evs esn k t) None = papply None (last_ev (evs esn k t))) by apply pfold_last.
  split.
  - intros v Hv. destruct (H1 v Hv) as [Hb|Hb]; [left; assumption|].
    unfold D2 in H2. unfold rview in *. rewrite Hf. rewrite Hp in *. rewrite Hl in H2.
    destruct (last_ev (evs eh k t)) as [|x|] eqn:El; cbn [papply] in *.
    + right. rewrite oplus_assoc. destruct (pfold (evs esn k t) None); [assumption|]. assumption.
    + right. assumption.
    + cbn [oplus] in Hb. destruct (H2 eq_refl) as [Hn|[Hn|Hn]]; [congruence|congruence|left; assumption].
  - unfold D2 in *. intros Hd. rewrite Hl in *. rewrite Hf.
    destruct (last_ev (evs eh k t)) as [|x|] eqn:El.
    + rewrite Hs, Hd. cbn [papply oplus]. apply H2. assumption.
    + discriminate.
    + destruct (H2 eq_refl) as [Hn|[Hn|Hn]]; [|auto|auto].
      destruct (glww eff k t) as [v|] eqn:Eg; [|auto].
      destruct (H1 v Eg) as [Hb|Hb]; [auto|].
      unfold rview in Hb. rewrite Hp, Hn in Hb. discriminate.
Qed.

(* ---- the oldest segment of an installed snapshot is removed ---- *)
(* [Q]: what the remaining snapshot segments [esn] replay to is in the files, unless the later
   log speaks about the point or the point is exempt *)
Definition Qpt esn eh fs (eff : list gop) (mb : key -> Z -> bool) k t : Prop :=
  forall a, pfold (evs esn k t) None = Some a ->
            last_ev (evs eh k t) <> PNop \/ fview fs k t = Some a \/ mb k t = true \/ glww eff k t <> Some a.

Lemma Dinv_remove_seg a esn eh fs eff mb :
  (forall k t, Qpt (a ++ esn) eh fs eff mb k t) ->
  Dinv (a ++ esn ++ eh) fs eff mb -> Dinv (esn ++ eh) fs eff mb.
Proof.
  intros HQ H k t. destruct (H k t) as [H1 H2]. specialize (HQ k t).
  assert (Hl : last_ev (evs (a ++ esn ++ eh) k t) =
               match last_ev (evs (esn ++ eh) k t) with PNop => last_ev (evs a k t) | q => q end).
  { rewrite evs_app. apply last_ev_app. }
  split.
  - intros v Hv. destruct (H1 v Hv) as [Hb|Hb]; [left; assumption|].
    unfold rview in *. rewrite evs_app, pfold_app, pfold_last in Hb. rewrite pfold_last.
    destruct (last_ev (evs (esn ++ eh) k t)) as [|x|] eqn:El; cbn [papply] in *; [|right; assumption|right; assumption].
    (* nothing in the remaining log about (k, t) *)
    destruct (pfold (evs a k t) None) as [y|] eqn:Ea; [|right; assumption].
    cbn [oplus] in Hb. inversion Hb; subst y.
    assert (El2 : last_ev (evs esn k t) = PNop /\ last_ev (evs eh k t) = PNop).
    { rewrite evs_app, last_ev_app in El. destruct (last_ev (evs eh k t)); [|discriminate|discriminate]. auto. }
    destruct El2 as [Es Eh'].
    assert (Hq : pfold (evs (a ++ esn) k t) None = Some v).
    { rewrite evs_app, pfold_app, pfold_last, Es. exact Ea. }
    destruct (HQ v Hq) as [Hc|[Hc|[Hc|Hc]]]; [contradiction|right; cbn [oplus]; assumption|left; assumption|contradiction].
  - unfold D2 in *. intros Hd. apply H2. rewrite Hl, Hd. reflexivity.
Qed.

Lemma Qpt_shrink a esn eh fs eff mb k t :
  Qpt (a ++ esn) eh fs eff mb k t -> Qpt esn eh fs eff mb k t.
Proof.
  intros HQ x Hx. apply HQ.
  rewrite evs_app, pfold_app, pfold_last. rewrite pfold_last in Hx.
  destruct (last_ev (evs esn k t)); cbn [papply] in *; [discriminate|assumption|discriminate].
Qed.
