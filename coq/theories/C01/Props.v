(* C01/Props.v — property theorems of C01 (acknowledged writes survive any crash and restart).
   Every theorem is closed by [exact]/[apply] of a lemma of Proofs.v and followed by Print Assumptions.
   [run repaired h init] ranges over EVERY list of engine steps: writes, WAL syncs and rolls, cache
   snapshots (begun, failed, retried, installed, cleared, WAL removal segment by segment),
   compactions (written, aborted, renamed, inputs removed one by one), range deletes (tombstone
   per file, cache + WAL entry, index), crashes with any cut of the unsynced WAL tail between any
   two steps — including inside recovery — and recoveries as four separate steps. *)
From Verif Require Import Shard.Engine C01.Kv C01.Facts C01.Dinv C01.Inv C01.Steps6 C01.Spec C01.Proofs C01.Link.
From VerifGen Require Import Consts.
Open Scope Z_scope.

(* Two steps of the engine machine stand for code that must run as ONE critical section, resp.
   in one order; both shapes are re-derived from tsdb/engine/tsm1/engine.go on every run by the
   translator (tools/genconsts/c19.go):
   - SnapBegin = WAL.CloseSegment + WAL.ClosedSegments + Cache.Snapshot inside one function
     literal of Engine.writeSnapshot that holds e.mu.Lock: a write acknowledged between the cache
     snapshot and the segment close would sit in a segment the snapshot removes;
   - SnapRename; SnapClear; SnapRemoveWAL = FileStore.Replace, then Cache.ClearSnapshot(true),
     then WAL.Remove in writeSnapshotAndCommit.
   A change that splits the section or reorders the commit makes these obligations fail. *)
Theorem snapshot_begin_is_one_section : c01_snapshot_begin_one_section = true.
Proof. reflexivity. Qed.
Print Assumptions snapshot_begin_is_one_section.

Theorem snapshot_commit_order_is_modelled : c01_snapshot_commit_order = true.
Proof. reflexivity. Qed.
Print Assumptions snapshot_commit_order_is_modelled.

(* Replaying a WAL segment cut by a crash yields exactly the whole frames before the cut:
   the [n] synced ones plus the [keep] unsynced ones that made it, whatever torn bytes follow. *)
Theorem wal_replay_prefix :
  forall (es : list entry) (n keep : nat) (torn : N) (id : N),
  good_prefix (sg_items (cut_seg keep torn {| sg_id := id; sg_items := map IEntry es; sg_synced := n |}))
  = firstn (n + keep) es.
Proof. intros. apply good_prefix_cut. Qed.
Print Assumptions wal_replay_prefix.

(* The invariant: in every reachable state, what a recovery would rebuild from the WAL and the
   data files ([rview]) shows, at every (key, time), the value the effective history gives —
   except inside a delete that is still running or was cut by a crash. *)
Theorem durable_covers_acked :
  forall (h : list step),
  let s := run repaired h init in
  forall k t v, glww (eff_now s) k t = Some v ->
  mb_now s k t = true \/ rview (E s) (files (sd s)) k t = Some v.
Proof. exact durable_covers_acked_lemma. Qed.
Print Assumptions durable_covers_acked.

(* ... and recovery reads back exactly [rview]; its truncation of a torn tail drops no whole frame *)
Theorem recovery_rebuilds_rview :
  forall s, ph (sv s) = O3 -> snap (sv s) = [] -> step_ok s OpenLoad = true ->
  forall k t, live (do_step repaired s OpenLoad) k t = rview (E s) (files (sd s)) k t.
Proof. exact recovery_reads_rview. Qed.
Print Assumptions recovery_rebuilds_rview.

(* Acknowledged writes survive: for every history — any number of crash/restart cycles, crashes
   between any two steps including inside Open — whenever the engine is up and no client
   operation is in progress, every point of the effective history (the acknowledged operations,
   plus operations that were in flight at a crash and turned out completely durable) is read
   back with the last-write-wins value: the value written, or a newer acknowledged one.  The only
   exemption: points inside a delete that a crash cut short (never acknowledged). *)
Theorem ack_durable :
  forall (h : list step),
  let s := run repaired h init in
  ph (sv s) = Up -> pend (sv s) = PNone -> dstage (sv s) = DIdle ->
  forall k t v, glww (effective s) k t = Some v ->
  maybe_deleted s k t = true \/ lookup_last t (eng_read_all s k) = Some v.
Proof. exact ack_durable_lemma. Qed.
Print Assumptions ack_durable.

(* when no crash ever hit an operation in flight, the effective history IS the acknowledged one *)
Theorem effective_is_acknowledged :
  forall s, (forall e, In e (g_hist s) -> fst e = KAck) ->
  effective s = acked s /\ forall k t, maybe_deleted s k t = false.
Proof. exact effective_is_acked. Qed.
Print Assumptions effective_is_acknowledged.

(* The link to the executable spec (Shard/Spec.v): every point that [spec_read] reads from the
   acknowledged history is in the engine's read of the same key and range, for every history in
   which no crash hit an operation in flight.  (The converse — nothing else is read — is C10's
   delete_permanent_partial / reads_equal_spec.) *)
Theorem acknowledged_points_are_read :
  forall (h : list step) (U : list key) (k : key) (lo hi : Z),
  let s := run repaired h init in
  ph (sv s) = Up -> pend (sv s) = PNone -> dstage (sv s) = DIdle ->
  (forall e, In e (g_hist s) -> fst e = KAck) -> In k U ->
  forall t v, In (t, v) (spec_read (map (conc U) (acked s)) k lo hi true) -> In (t, v) (eng_read s k lo hi true).
Proof. exact acked_points_are_read. Qed.
Print Assumptions acknowledged_points_are_read.

(* A torn tail costs only unacknowledged work: a crash (any cut) never changes the acknowledged
   history and removes from the replayable log at most the one entry whose fsync had not
   returned; recovery's truncation then removes nothing. *)
Theorem torn_tail_costs_only_unacked :
  forall (h : list step) (keep : nat) (torn : N),
  let s := run repaired h init in
  let s' := do_step repaired s (Crash keep torn) in
  acked s' = acked s /\
  (E s' = E s \/ exists e, pend_entry s = Some e /\ E s = E s' ++ [e]).
Proof. exact torn_tail_lemma. Qed.
Print Assumptions torn_tail_costs_only_unacked.

Theorem recovery_truncation_keeps_whole_frames :
  forall s, E (do_step repaired s OpenLoad) = E s.
Proof. exact load_loses_nothing. Qed.
Print Assumptions recovery_truncation_keeps_whole_frames.

(* The unrepaired tree (WAL.Open positions the writer at the old length; a retried snapshot
   removes the segments closed at retry time) loses acknowledged writes: two witnesses, both in
   corpus/C01.jsonl and replayed on the real code. *)
Theorem ack_durable_unrepaired_refuted :
  (exists h k t, loses_acked pinned h k t = true) /\
  loses_acked pinned witness_torn wk 3 = true /\ loses_acked pinned witness_retry wk 2 = true /\
  loses_acked repaired witness_torn wk 3 = false /\ loses_acked repaired witness_retry wk 2 = false.
Proof.
  split; [exists witness_torn, wk, 3; exact pinned_loses_torn|].
  split; [exact pinned_loses_torn|]. split; [exact pinned_loses_retry|]. exact repaired_keeps_torn.
Qed.
Print Assumptions ack_durable_unrepaired_refuted.

(* non-vacuity: a history with three WAL segments, a snapshot, a compaction, a delete and two
   crash cycles (one torn) is fully applicable, ends Up and idle, and reads back non-trivially *)
Definition nv_hist : list step :=
  open_steps ++
  [w1 1 10; WalSync; SnapBegin; SnapWriteTmp; SnapRename; SnapClear; SnapRemoveWAL; SnapRemoveWAL;
   w1 2 20; WalSync; SnapBegin; SnapWriteTmp; SnapRename; SnapClear; SnapRemoveWAL; SnapRemoveWAL;
   CompactWriteTmp 0 2; ReplaceRename; ReplaceRemove; ReplaceRemove; ReplaceRemove;
   w1 3 30; WalSync; RollSegment; w1 4 40; Crash 0 7] ++ open_steps ++
  [DeleteBegin [[109; 44; 115; 61; 97]%N] 2 2; DeleteTombstone 0; DeleteCache; WalSync; DeleteIndex;
   w1 5 50; WalSync; Crash 0 0] ++ open_steps.

Example ack_durable_nonvacuous :
  let s := run repaired nv_hist init in
  run_ok repaired nv_hist init = true /\ ph (sv s) = Up /\ pend (sv s) = PNone /\ dstage (sv s) = DIdle /\
  eng_read_all s wk = [(1, VInt 10); (3, VInt 30); (5, VInt 50)] /\
  glww (effective s) wk 3 = Some (VInt 30) /\ glww (effective s) wk 2 = None /\ maybe_deleted s wk 3 = false.
Proof. vm_compute. repeat split; reflexivity. Qed.
