(* C01/Spec.v — executable statement of "acknowledged writes survive any crash and restart".
   A client-side history is the list of operations issued, oldest first, each either
   acknowledged (HAck) or in flight when a crash hit (HMaybe: never acknowledged; its effect
   may be present or absent, decided per point).  An observed read is correct when it is
   sorted, duplicate-free, and shows at every timestamp one of the values the history allows. *)
From Verif Require Export Shard.Values Shard.Spec.
Open Scope Z_scope.

Inductive hop := HAck (o : op) | HMaybe (o : op).

Definition hop_op (h : hop) : op := match h with HAck o => o | HMaybe o => o end.
Definition is_maybe (h : hop) : bool := match h with HMaybe _ => true | HAck _ => false end.

(* the values the history allows at (k, t): acknowledged operations apply; an operation cut
   by a crash may or may not have applied *)
Definition poss_step (k : key) (t : Z) (cur : list (option value)) (h : hop) : list (option value) :=
  match h with
  | HAck o => map (fun c => apply_op k t c o) cur
  | HMaybe o => cur ++ map (fun c => apply_op k t c o) cur
  end.
Definition poss (h : list hop) (k : key) (t : Z) : list (option value) := fold_left (poss_step k t) h [None].

Definition ovalue_eqb (a b : option value) : bool :=
  match a, b with
  | Some x, Some y => value_eqb x y
  | None, None => true
  | _, _ => false
  end.

Fixpoint tvlist_eqb (a b : list tv) : bool :=
  match a, b with
  | [], [] => true
  | (t1, v1) :: a', (t2, v2) :: b' => (t1 =? t2) && value_eqb v1 v2 && tvlist_eqb a' b'
  | _, _ => false
  end.

Definition min_time : Z := -9223372036854775808.
Definition max_time : Z := 9223372036854775807.

(* a full-range ascending read [obs] of key k is allowed by history h *)
Definition read_ok (h : list hop) (k : key) (obs : list tv) : bool :=
  if existsb is_maybe h then
    ssortedb obs &&
    forallb (fun t => existsb (ovalue_eqb (lookup_last t obs)) (poss h k t))
            (times_of (map hop_op h) k ++ map fst obs)
  else
    tvlist_eqb obs (spec_read (map hop_op h) k min_time max_time true).
