(* C01/Inv.v — the invariant of the engine step machine (repaired configuration) and the
   auxiliary facts about WAL shapes used to show that every step preserves it. *)
From Verif Require Import Shard.Engine C01.Kv C01.Facts C01.Dinv.
From Coq Require Import ZifyBool ZifyN ZifyNat.
Open Scope Z_scope.
Local Arguments exclude_range : simpl never.
Local Arguments key_eqb : simpl never.

(* ---------- ghost views of a state ---------- *)

Definition E (s : state) : list entry := wal_entries (wal (sd s)).

Definition pending_ops (s : state) : list gop :=
  match pend (sv s) with PWrite pts => [GWrite pts] | _ => [] end.

(* the operations whose effects the state is supposed to show *)
Definition eff_now (s : state) : list gop := effective s ++ pending_ops s.

Definition inflight (s : state) (k : key) (t : Z) : bool :=
  match dstage (sv s) with
  | DIdle => false
  | DTomb ss lo hi _ | DWal ss lo hi _ | DIndexing ss lo hi _ => sel ss k && in_rng lo hi t
  end.

(* points inside a delete that is running or was cut by a crash: no claim is made there *)
Definition mb_now (s : state) (k : key) (t : Z) : bool := maybe_deleted s k t || inflight s k t.

Definition pend_entry (s : state) : option entry :=
  match pend (sv s), dstage (sv s) with
  | PWrite pts, _ => Some (EWrite pts)
  | PDelete, DWal _ lo hi dk => Some (EDelRange dk lo hi)
  | _, _ => None
  end.

(* ---------- the invariant ---------- *)

Definition quiescent (v : vol) : Prop :=
  hot v = [] /\ snap v = [] /\ snap_segs v = [] /\ sstage v = SIdle /\ cstage v = CIdle /\
  dstage v = DIdle /\ pend v = PNone /\ w_gap v = 0%N /\ snapshotting v = false /\
  (w_open v = true -> w_nonempty v = true).

Definition stage_installed (st : snap_stage) : Prop := st = SRenamed \/ st = SCleared.

Record Split (s : state) (Wsn Wh : list segment) : Prop := {
  sp_wal : wal (sd s) = Wsn ++ Wh;
  sp_ids : seg_ids Wsn = snap_segs (sv s);
  sp_open : w_open (sv s) = true -> Wh <> [];
  sp_empty : w_open (sv s) = true -> w_nonempty (sv s) = false ->
             exists l sg, Wh = l ++ [sg] /\ sg_items sg = [];
  sp_hot : kv_equiv (hot (sv s)) (replay (wal_entries Wh) []);
  sp_snap : sstage (sv s) <> SCleared -> kv_equiv (snap (sv s)) (replay (wal_entries Wsn) []);
  sp_cleared : sstage (sv s) = SCleared -> snap (sv s) = [];
  sp_q : stage_installed (sstage (sv s)) ->
         forall k t, Qpt (wal_entries Wsn) (wal_entries Wh) (files (sd s)) (eff_now s) (mb_now s) k t
}.

Record Vinv (s : state) : Prop := {
  u_wf_hot : kv_wf (hot (sv s));
  u_wf_snap : kv_wf (snap (sv s));
  u_gap : w_gap (sv s) = 0%N;
  u_clean : Forall seg_clean (wal (sd s));
  u_split : exists Wsn Wh, Split s Wsn Wh;
  u_keep : sstage (sv s) <> SCleared -> is_nil (snap (sv s)) = false -> snap_keep (sv s) = snap_segs (sv s);
  u_begun : (sstage (sv s) = SBegun \/ exists f, sstage (sv s) = SWritten f) -> is_nil (snap (sv s)) = false;
  u_sw : forall f, sstage (sv s) = SWritten f -> forall k t, fpt f k t = cpt (snap (sv s)) k t;
  u_c1 : forall i n out, cstage (sv s) = CWritten i n out ->
         out = compact_out (group_at i n (files (sd s))) /\ (i + n <= length (files (sd s)))%nat;
  u_c2 : cstage (sv s) <> CIdle -> dstage (sv s) = DIdle;
  u_c3 : forall i olds, cstage (sv s) = CReplacing i olds ->
         exists pre grp o post, files (sd s) = pre ++ grp ++ o ++ post /\ length pre = i /\ map fid grp = olds /\
                                forall k t, fview o k t = None -> fview grp k t = None
}.

Definition seg_full (sg : segment) : Prop := sg_synced sg = length (sg_items sg).

(* every closed segment is fully synced; the current one is, up to the pending entry *)
Definition sync_ok (s : state) : Prop :=
  match rev (wal (sd s)) with
  | [] => pend (sv s) = PNone
  | sg :: r =>
      Forall seg_full r /\
      match pend_entry s with
      | None => pend (sv s) = PNone /\ seg_full sg
      | Some e => exists its, sg_items sg = its ++ [IEntry e] /\ sg_synced sg = length its
      end
  end.

Record Inv (s : state) : Prop := {
  i_dur : Dinv (E s) (files (sd s)) (eff_now s) (mb_now s);
  i_pw : forall pts, pend (sv s) = PWrite pts ->
         dstage (sv s) = DIdle /\
         exists es0, E s = es0 ++ [EWrite pts] /\ Dinv es0 (files (sd s)) (effective s) (mb_now s);
  i_dwal : forall ss lo hi dk, dstage (sv s) = DWal ss lo hi dk ->
           pend (sv s) = PDelete /\ (forall k, kmem k dk = true -> sel ss k = true) /\
           exists es0, E s = es0 ++ [EDelRange dk lo hi];
  i_pd : pend (sv s) = PDelete -> exists ss lo hi dk, dstage (sv s) = DWal ss lo hi dk;
  i_sync : sync_ok s;
  i_down : ph (sv s) <> Up -> quiescent (sv s) /\ (w_open (sv s) = true -> wal (sd s) <> []);
  i_up : ph (sv s) = Up -> Vinv s
}.

(* ---------- simplification of projections through the setters ---------- *)

Ltac sim :=
  cbn [sd sv g_hist wal files tmps ph w_open w_id w_gap w_nonempty hot snap snapshotting snap_segs snap_keep
       sstage cur_gen cstage dstage pend listed
       set_wal set_files set_tmps set_vol add_hist upd
       v_ph v_writer v_hot v_snap v_segs v_sstage v_gen v_cstage v_dstage v_pend v_listed] in *.

(* ---------- ghost histories ---------- *)

Lemma effective_add k o s : effective (add_hist k o s) = effective s ++ match k with KMaybe => [] | _ => [o] end.
Proof. unfold effective, add_hist. sim. rewrite flat_map_app. cbn. rewrite app_nil_r. reflexivity. Qed.

Lemma maybe_deleted_add k o s key t :
  maybe_deleted (add_hist k o s) key t =
  maybe_deleted s key t || match k, o with KMaybe, GDelete ss lo hi => sel ss key && in_rng lo hi t | _, _ => false end.
Proof.
  unfold maybe_deleted, add_hist. sim. rewrite existsb_app. cbn [existsb]. rewrite orb_false_r.
  destruct k, o; reflexivity.
Qed.

(* ---------- WAL shapes ---------- *)

Definition add_items (add : list item) (sg : segment) : segment :=
  {| sg_id := sg_id sg; sg_items := sg_items sg ++ add; sg_synced := sg_synced sg |}.

Lemma wal_entries_snoc_seg w sg : wal_entries (w ++ [sg]) = wal_entries w ++ good_prefix (sg_items sg).
Proof. rewrite wal_entries_app. cbn [wal_entries flat_map]. rewrite app_nil_r. reflexivity. Qed.

Lemma sync_seg_items sg : sg_items (sync_seg sg) = sg_items sg.
Proof. reflexivity. Qed.

Lemma wal_entries_sync w : wal_entries (update_last sync_seg w) = wal_entries w.
Proof. apply wal_entries_update_last. intros sg. reflexivity. Qed.

Lemma Forall_update_last {A} (P : A -> Prop) g l : (forall x, P x -> P (g x)) -> Forall P l -> Forall P (update_last g l).
Proof.
  intros Hg H. destruct l as [|a r]; [constructor|].
  assert (Hne : a :: r <> []) by discriminate. destruct (exists_last Hne) as [l' [x E]]. rewrite E in *.
  rewrite update_last_snoc. apply Forall_app in H. destruct H as [H1 H2]. apply Forall_app. split; [assumption|].
  inversion H2; subst. constructor; auto.
Qed.

Lemma seg_ids_update_last g w : (forall sg, sg_id (g sg) = sg_id sg) -> seg_ids (update_last g w) = seg_ids w.
Proof.
  intros Hg. destruct w as [|a r]; [reflexivity|].
  assert (Hne : a :: r <> []) by discriminate. destruct (exists_last Hne) as [l' [x E]]. rewrite E.
  rewrite update_last_snoc. unfold seg_ids. rewrite !map_app. cbn [map]. rewrite Hg. reflexivity.
Qed.

Lemma rev_snoc {A} (l : list A) x : rev (l ++ [x]) = x :: rev l.
Proof. rewrite rev_app_distr. reflexivity. Qed.

(* the entry list after WALSegmentWriter.Write, in a clean log with no writer gap *)
Lemma wal_entries_append_open w e :
  w <> [] -> Forall seg_clean w ->
  wal_entries (update_last (add_items [IEntry e]) w) = wal_entries w ++ [e].
Proof.
  intros Hne Hc. destruct (exists_last Hne) as [l [sg ->]].
  rewrite update_last_snoc, !wal_entries_snoc_seg. cbn [add_items sg_items].
  apply Forall_app in Hc. destruct Hc as [_ Hc]. inversion Hc; subst.
  rewrite good_prefix_app_entry by assumption. rewrite app_assoc. reflexivity.
Qed.

Lemma seg_clean_add sg e : seg_clean sg -> seg_clean (add_items [IEntry e] sg).
Proof. unfold seg_clean. cbn [add_items sg_items]. intros H. rewrite forallb_app, H. reflexivity. Qed.

(* ---------- appending an entry ---------- *)

Definition wal_append (open : bool) (id : N) (e : entry) (w : list segment) : list segment :=
  if open then update_last (add_items [IEntry e]) w
  else w ++ [{| sg_id := (id + 1)%N; sg_items := [IEntry e]; sg_synced := 0 |}].

Lemma append_entry_wal e s :
  w_gap (sv s) = 0%N ->
  wal (sd (append_entry e s)) = wal_append (w_open (sv s)) (w_id (sv s)) e (wal (sd s)).
Proof.
  intros Hg. unfold append_entry, wal_append. destruct (w_open (sv s)) eqn:Eo.
  - sim. rewrite Hg. reflexivity.
  - unfold new_segment. rewrite Eo. sim. rewrite update_last_snoc. reflexivity.
Qed.

Lemma append_entry_rest e s :
  files (sd (append_entry e s)) = files (sd s) /\ tmps (sd (append_entry e s)) = tmps (sd s) /\
  g_hist (append_entry e s) = g_hist s /\
  sv (append_entry e s) = v_writer true (if w_open (sv s) then w_id (sv s) else (w_id (sv s) + 1)%N) 0%N true (sv s).
Proof.
  unfold append_entry. destruct (w_open (sv s)) eqn:Eo; sim; [auto|].
  unfold new_segment. rewrite Eo. sim. auto.
Qed.

Lemma wal_append_split open id e Wsn Wh :
  (open = true -> Wh <> []) -> wal_append open id e (Wsn ++ Wh) = Wsn ++ wal_append open id e Wh.
Proof.
  intros H. unfold wal_append. destruct open.
  - apply update_last_app. auto.
  - rewrite app_assoc. reflexivity.
Qed.

Lemma wal_append_entries open id e w :
  (open = true -> w <> []) -> Forall seg_clean w ->
  wal_entries (wal_append open id e w) = wal_entries w ++ [e].
Proof.
  intros H Hc. unfold wal_append. destruct open.
  - apply wal_entries_append_open; auto.
  - rewrite wal_entries_snoc_seg. reflexivity.
Qed.

Lemma wal_append_clean open id e w : Forall seg_clean w -> Forall seg_clean (wal_append open id e w).
Proof.
  intros Hc. unfold wal_append. destruct open.
  - apply Forall_update_last; [intros x; apply seg_clean_add|assumption].
  - apply Forall_app. split; [assumption|]. constructor; [reflexivity|constructor].
Qed.

Lemma wal_append_nonempty open id e w : (open = true -> w <> []) -> wal_append open id e w <> [].
Proof.
  intros H. unfold wal_append. destruct open.
  - specialize (H eq_refl). destruct (exists_last H) as [l [x ->]]. rewrite update_last_snoc. destruct l; discriminate.
  - destruct w; discriminate.
Qed.

Lemma wal_append_ids open id e w :
  seg_ids (wal_append open id e w) = if open then seg_ids w else seg_ids w ++ [(id + 1)%N].
Proof.
  unfold wal_append. destruct open.
  - apply seg_ids_update_last. reflexivity.
  - unfold seg_ids. rewrite map_app. reflexivity.
Qed.

(* the last segment after an append: the old items (all synced) followed by the new frame *)
Lemma wal_append_last open id e w :
  (open = true -> w <> []) ->
  Forall seg_full w ->
  exists sg r its, rev (wal_append open id e w) = sg :: r /\ Forall seg_full r /\
                   sg_items sg = its ++ [IEntry e] /\ sg_synced sg = length its.
Proof.
  intros H Hs. unfold wal_append. destruct open.
  - specialize (H eq_refl). destruct (exists_last H) as [l [x ->]].
    rewrite update_last_snoc, rev_snoc. exists (add_items [IEntry e] x), (rev l), (sg_items x).
    apply Forall_app in Hs. destruct Hs as [Hl Hx]. inversion Hx; subst.
    repeat split; auto. apply Forall_rev. assumption.
  - rewrite rev_snoc. exists {| sg_id := (id + 1)%N; sg_items := [IEntry e]; sg_synced := 0 |}, (rev w), [].
    repeat split. apply Forall_rev. assumption.
Qed.

(* with nothing pending every segment is fully synced *)
Lemma sync_ok_all_full s : sync_ok s -> pend (sv s) = PNone -> Forall seg_full (wal (sd s)).
Proof.
  unfold sync_ok, pend_entry. intros H Hp. rewrite Hp in H.
  rewrite <- (rev_involutive (wal (sd s))). apply Forall_rev.
  destruct (rev (wal (sd s))) as [|sg r]; [constructor|]. destruct H as [H1 [_ H2]]. constructor; assumption.
Qed.

Lemma sync_ok_of_full s : Forall seg_full (wal (sd s)) -> pend (sv s) = PNone -> sync_ok s.
Proof.
  unfold sync_ok, pend_entry. intros H Hp. rewrite Hp.
  apply Forall_rev in H. destruct (rev (wal (sd s))) as [|sg r]; [reflexivity|].
  inversion H; subst. auto.
Qed.

(* ---------- the ghost views depend on few fields ---------- *)

Lemma effective_eq s s' : g_hist s' = g_hist s -> effective s' = effective s.
Proof. unfold effective. intros ->. reflexivity. Qed.

Lemma acked_eq s s' : g_hist s' = g_hist s -> acked s' = acked s.
Proof. unfold acked. intros ->. reflexivity. Qed.

Lemma mb_now_eq s s' :
  g_hist s' = g_hist s -> dstage (sv s') = dstage (sv s) -> forall k t, mb_now s k t = mb_now s' k t.
Proof. intros H1 H2 k t. unfold mb_now, maybe_deleted, inflight. rewrite H1, H2. reflexivity. Qed.

Lemma eff_now_eq s s' :
  g_hist s' = g_hist s -> pend (sv s') = pend (sv s) -> eff_now s' = eff_now s.
Proof. intros H1 H2. unfold eff_now, pending_ops. rewrite H2, (effective_eq s s' H1). reflexivity. Qed.

Lemma eff_now_nopend s : pend (sv s) = PNone -> eff_now s = effective s.
Proof. intros H. unfold eff_now, pending_ops. rewrite H. apply app_nil_r. Qed.
