(* C01/Steps3.v — invariant preservation: SnapWriteTmp, SnapFail, SnapRename, SnapClear, SnapRemoveWAL. *)
From Verif Require Import Shard.Engine C01.Kv C01.Facts C01.Dinv C01.Inv C01.Steps1 C01.Steps2.
From Coq Require Import ZifyBool ZifyN ZifyNat.
Open Scope Z_scope.
Local Arguments exclude_range : simpl never.
Local Arguments key_eqb : simpl never.

(* the durable / ghost part of the invariant carries over to a state that differs only in
   volatile bookkeeping *)
Definition DurPart (s : state) : Prop :=
  Dinv (E s) (files (sd s)) (eff_now s) (mb_now s) /\
  (forall pts, pend (sv s) = PWrite pts -> dstage (sv s) = DIdle /\
     exists es0, E s = es0 ++ [EWrite pts] /\ Dinv es0 (files (sd s)) (effective s) (mb_now s)) /\
  (forall ss lo hi dk, dstage (sv s) = DWal ss lo hi dk ->
     pend (sv s) = PDelete /\ (forall k, kmem k dk = true -> sel ss k = true) /\ exists es0, E s = es0 ++ [EDelRange dk lo hi]) /\
  (pend (sv s) = PDelete -> exists ss lo hi dk, dstage (sv s) = DWal ss lo hi dk) /\
  sync_ok s /\
  (ph (sv s) <> Up -> quiescent (sv s) /\ (w_open (sv s) = true -> wal (sd s) <> [])).

Lemma DurPart_of_Inv s : Inv s -> DurPart s.
Proof. intros I. destruct I. repeat (split; [assumption|]). assumption. Qed.

Lemma Inv_of_parts s : DurPart s -> (ph (sv s) = Up -> Vinv s) -> Inv s.
Proof. intros (D1 & D2 & D3 & D4 & D5 & D6) V. constructor; assumption. Qed.

Lemma dur_frame s s' :
  DurPart s -> ph (sv s) = Up ->
  wal (sd s') = wal (sd s) -> files (sd s') = files (sd s) -> g_hist s' = g_hist s ->
  pend (sv s') = pend (sv s) -> dstage (sv s') = dstage (sv s) -> ph (sv s') = ph (sv s) ->
  DurPart s'.
Proof.
  intros (D1 & D2 & D3 & D4 & D5 & D6) Hup Hw Hf Hg Hp Hd Hph.
  assert (HE : E s' = E s) by (unfold E; rewrite Hw; reflexivity).
  assert (Hmb : forall k t, mb_now s k t = mb_now s' k t) by (apply mb_now_eq; assumption).
  unfold DurPart. rewrite HE, Hf, Hp, Hd, Hph, (eff_now_eq s s' Hg Hp), (effective_eq s s' Hg).
  split; [|split; [|split; [|split; [|split]]]].
  - apply (Dinv_ext _ _ _ (mb_now s)); assumption.
  - intros pts H. destruct (D2 pts H) as [Hdi [es0 [H1 H2]]]. split; [assumption|]. exists es0. split; [assumption|].
    apply (Dinv_ext _ _ _ (mb_now s)); assumption.
  - assumption.
  - assumption.
  - unfold sync_ok, pend_entry in *. rewrite Hw, Hp, Hd. assumption.
  - intros H. contradiction.
Qed.

(* the durable part for a state with no operation pending on the WAL *)
Lemma DurPart_intro s' es fs eff :
  E s' = es -> files (sd s') = fs -> eff_now s' = eff ->
  Dinv es fs eff (mb_now s') ->
  pend (sv s') = PNone -> (forall ss lo hi dk, dstage (sv s') <> DWal ss lo hi dk) ->
  sync_ok s' -> ph (sv s') = Up -> DurPart s'.
Proof.
  intros HE Hf Heff HD Hp Hd Hs Hup. unfold DurPart. rewrite HE, Hf, Heff, Hp.
  split; [|split; [|split; [|split; [|split]]]]; auto.
  - intros pts H. discriminate.
  - intros ss lo hi dk H. exfalso. apply (Hd _ _ _ _ H).
  - intros H. discriminate.
  - intros H. contradiction.
Qed.

Lemma sync_ok_frame s s' :
  sync_ok s -> wal (sd s') = wal (sd s) -> pend (sv s) = PNone -> pend (sv s') = PNone -> sync_ok s'.
Proof.
  unfold sync_ok, pend_entry. intros H Hw Hp Hp'. rewrite Hw, Hp'. rewrite Hp in H. exact H.
Qed.

(* ---------- SnapWriteTmp ---------- *)

Lemma inv_snapwritetmp s :
  Inv s -> ph (sv s) = Up -> sstage (sv s) = SBegun -> Inv (do_step repaired s SnapWriteTmp).
Proof.
  intros I Hup Hst. pose proof (i_up _ I Hup) as V. unfold do_step.
  apply Inv_of_parts.
  - apply (dur_frame s); try reflexivity; [apply DurPart_of_Inv|]; assumption.
  - intros _. destruct V. constructor; sim; auto.
    + destruct u_split as [Wsn [Wh Sp]]. exists Wsn, Wh. destruct Sp. constructor; sim; auto.
      * intros _. apply sp_snap. congruence.
      * intros H. discriminate.
      * intros [H|H]; discriminate.
    + intros _. apply u_keep. congruence.
    + intros f H k t. inversion H; subst f. apply fpt_snap_file. assumption.
Qed.

(* ---------- SnapFail ---------- *)

Lemma inv_snapfail s :
  Inv s -> ph (sv s) = Up -> (sstage (sv s) = SBegun \/ exists f, sstage (sv s) = SWritten f) ->
  Inv (do_step repaired s SnapFail).
Proof.
  intros I Hup Hst. pose proof (i_up _ I Hup) as V. unfold do_step.
  assert (Hnc : sstage (sv s) <> SCleared) by (destruct Hst as [H|[f H]]; congruence).
  apply Inv_of_parts.
  - apply (dur_frame s); try reflexivity; [apply DurPart_of_Inv|]; assumption.
  - intros _. destruct V. constructor; sim; auto.
    + destruct u_split as [Wsn [Wh Sp]]. exists Wsn, Wh. destruct Sp. constructor; sim; auto.
      * intros H. discriminate.
      * intros [H|H]; discriminate.
    + intros f H. discriminate.
Qed.

(* ---------- SnapRename ---------- *)

Lemma group_at_app i n fs x : (i + n <= length fs)%nat -> group_at i n (fs ++ x) = group_at i n fs.
Proof.
  intros H. unfold group_at. rewrite skipn_app. rewrite firstn_app.
  replace (n - length (skipn i fs))%nat with 0%nat by (rewrite skipn_length; lia).
  cbn [firstn]. rewrite app_nil_r. reflexivity.
Qed.

Lemma inv_snaprename s f :
  Inv s -> ph (sv s) = Up -> pend (sv s) = PNone -> sstage (sv s) = SWritten f ->
  fits_between (files (sd s)) f [] = true ->
  Inv (do_step repaired s SnapRename).
Proof.
  intros I Hup Hp Hst Hfit. pose proof (i_up _ I Hup) as V. destruct (u_split _ V) as [Wsn [Wh Sp]].
  unfold do_step. rewrite Hst. rewrite (insert_file_end _ _ Hfit).
  assert (Hnc : sstage (sv s) <> SCleared) by congruence.
  assert (HE : E s = wal_entries Wsn ++ wal_entries Wh).
  { unfold E. rewrite (sp_wal _ _ _ Sp). apply wal_entries_app. }
  assert (Hfv : forall k t, fview (files (sd s) ++ [f]) k t =
                            oplus (pfold (evs (wal_entries Wsn) k t) None) (fview (files (sd s)) k t)).
  { intros k t. rewrite fview_app, fview_single. rewrite (u_sw _ V f Hst).
    rewrite (kv_equiv_cpt _ _ k t (sp_snap _ _ _ Sp Hnc)). rewrite cpt_replay_nil. reflexivity. }
  destruct (DurPart_of_Inv _ I) as (D1 & D2 & D3 & D4 & D5 & D6).
  apply Inv_of_parts.
  - unfold DurPart. sim. unfold E, eff_now, pending_ops. sim. rewrite (effective_eq s) by reflexivity.
    split; [|split; [|split; [|split; [|split]]]].
    + fold (E s). rewrite HE.
      apply (Dinv_ext _ _ _ (mb_now s)); [apply mb_now_eq; reflexivity|].
      apply (Dinv_snap_rename _ _ (files (sd s))); [exact Hfv|]. rewrite <- HE. exact D1.
    + intros pts H. congruence.
    + exact D3.
    + exact D4.
    + exact D5.
    + intros H. contradiction.
  - intros _. destruct V. constructor; sim; auto.
    + exists Wsn, Wh. destruct Sp. constructor; sim; auto.
      * intros H. discriminate.
      * intros _ k t a Ha. right. left. rewrite Hfv, Ha. reflexivity.
    + intros [H|[f0 H]]; discriminate.
    + intros f0 H. discriminate.
    + intros i n out H. destruct (u_c1 i n out H) as [H1 H2]. rewrite app_length. split; [|lia].
      rewrite group_at_app by assumption. assumption.
    + intros i olds H. destruct (u_c3 i olds H) as [pre [grp [o [post [H1 [H2 [H3 H4]]]]]]].
      exists pre, grp, o, (post ++ [f]). repeat split; auto. rewrite H1. rewrite <- !app_assoc. reflexivity.
Qed.

(* ---------- SnapClear ---------- *)

Lemma inv_snapclear s :
  Inv s -> ph (sv s) = Up -> sstage (sv s) = SRenamed -> Inv (do_step repaired s SnapClear).
Proof.
  intros I Hup Hst. pose proof (i_up _ I Hup) as V. unfold do_step.
  apply Inv_of_parts.
  - apply (dur_frame s); try reflexivity; [apply DurPart_of_Inv|]; assumption.
  - intros _. destruct V. constructor; sim; auto.
    + exact kv_wf_nil.
    + destruct u_split as [Wsn [Wh Sp]]. exists Wsn, Wh. destruct Sp. constructor; sim; auto.
      * intros H. contradiction.
      * intros _. apply sp_q. left. assumption.
    + intros H. contradiction.
    + intros [H|[f H]]; discriminate.
    + intros f H. discriminate.
Qed.

(* ---------- SnapRemoveWAL ---------- *)

Lemma remove_seg_head sg r :
  negb (existsb (N.eqb (sg_id sg)) (seg_ids r)) = true -> remove_seg (sg_id sg) (sg :: r) = r.
Proof.
  intros H. unfold remove_seg. cbn [filter]. rewrite N.eqb_refl. cbn [negb].
  apply negb_true_iff in H. induction r as [|x r IH]; [reflexivity|].
  cbn [seg_ids map existsb] in H. apply orb_false_iff in H. destruct H as [H1 H2].
  cbn [filter]. rewrite N.eqb_sym, H1. cbn [negb]. f_equal. apply IH. exact H2.
Qed.

Lemma rev_cons_head {A} (x : A) r : r <> [] -> exists y l l', rev (x :: r) = y :: l /\ rev r = y :: l'.
Proof.
  intros H. destruct (exists_last H) as [l0 [y ->]]. cbn [rev]. rewrite rev_snoc. cbn [app]. eauto.
Qed.

Lemma inv_snapremovewal s :
  Inv s -> ph (sv s) = Up -> pend (sv s) = PNone -> sstage (sv s) = SCleared ->
  match snap_segs (sv s), wal (sd s) with
  | [], _ => true
  | id :: _, sg :: r => N.eqb (sg_id sg) id && negb (existsb (N.eqb id) (seg_ids r))
  | _ :: _, [] => false
  end = true ->
  Inv (do_step repaired s SnapRemoveWAL).
Proof.
  intros I Hup Hp Hst Hg. pose proof (i_up _ I Hup) as V. destruct (u_split _ V) as [Wsn [Wh Sp]].
  unfold do_step. destruct (snap_segs (sv s)) as [|id rest] eqn:Esegs.
  - (* all segments of the snapshot are gone *)
    assert (HW : Wsn = []).
    { pose proof (sp_ids _ _ _ Sp) as H. rewrite Esegs in H. destruct Wsn; [reflexivity|discriminate]. }
    apply Inv_of_parts.
    + apply (dur_frame s); try reflexivity; [apply DurPart_of_Inv|]; assumption.
    + intros _. destruct V. constructor; sim; auto.
      * exists Wsn, Wh. destruct Sp. constructor; sim; auto.
        -- intros _. rewrite (sp_cleared Hst), HW. apply kv_equiv_refl.
        -- intros [H|H]; discriminate.
      * intros _ H. rewrite (sp_cleared _ _ _ Sp Hst) in H. discriminate.
      * intros [H|[f H]]; discriminate.
      * intros f H. discriminate.
  - (* remove the oldest remaining segment of the snapshot *)
    destruct (wal (sd s)) as [|sg r] eqn:Ewal; [discriminate|].
    apply andb_true_iff in Hg. destruct Hg as [Hid Hnd]. apply N.eqb_eq in Hid. subst id.
    rewrite (remove_seg_head _ _ Hnd).
    pose proof (sp_wal _ _ _ Sp) as Hw. pose proof (sp_ids _ _ _ Sp) as Hids. rewrite Esegs in Hids. rewrite Ewal in Hw.
    destruct Wsn as [|sg0 Wsn']; [discriminate|]. cbn [app] in Hw. inversion Hw; subst sg0 r.
    cbn [seg_ids map] in Hids. injection Hids as Hi2. clear Hw.
    assert (HE : E s = good_prefix (sg_items sg) ++ wal_entries Wsn' ++ wal_entries Wh).
    { unfold E. rewrite Ewal. cbn [wal_entries flat_map]. fold (wal_entries (Wsn' ++ Wh)). rewrite wal_entries_app. reflexivity. }
    assert (HQ : forall k t, Qpt (good_prefix (sg_items sg) ++ wal_entries Wsn') (wal_entries Wh) (files (sd s)) (eff_now s) (mb_now s) k t).
    { intros k t. pose proof (sp_q _ _ _ Sp (or_intror Hst) k t) as H. cbn [wal_entries flat_map] in H. exact H. }
    destruct (DurPart_of_Inv _ I) as (D1 & D2 & D3 & D4 & D5 & D6).
    apply Inv_of_parts.
    + unfold DurPart. sim. unfold E, eff_now, pending_ops. sim. rewrite (effective_eq s) by reflexivity.
      rewrite Hp in *.
      split; [|split; [|split; [|split; [|split]]]].
      * rewrite wal_entries_app. rewrite app_nil_r.
        apply (Dinv_ext _ _ _ (mb_now s)); [apply mb_now_eq; reflexivity|].
        apply (Dinv_remove_seg (good_prefix (sg_items sg))).
        -- rewrite <- (eff_now_nopend s Hp). exact HQ.
        -- rewrite <- HE. rewrite <- (eff_now_nopend s Hp). exact D1.
      * intros pts H. discriminate.
      * intros ss lo hi dk H. destruct (D3 _ _ _ _ H) as [H1 _]. discriminate.
      * intros H. discriminate.
      * apply sync_ok_of_full; [|assumption]. sim.
        pose proof (sync_ok_all_full _ (i_sync _ I) Hp) as Hfull. rewrite Ewal in Hfull. inversion Hfull. assumption.
      * intros H. contradiction.
    + intros _. destruct V. constructor; sim; auto.
      * rewrite Ewal in u_clean. inversion u_clean. assumption.
      * exists Wsn', Wh. destruct Sp. constructor; sim; auto.
        -- intros H. contradiction.
        -- intros _ k t. apply (Qpt_shrink (good_prefix (sg_items sg))). apply HQ.
      * intros H. contradiction.
Qed.
