(* C01/Proofs.v — the invariant holds in every reachable state of the repaired engine; the
   property theorems of C01 follow.  The pinned-tree configuration is refuted by witnesses. *)
From Verif Require Import Shard.Engine C01.Kv C01.Facts C01.Dinv C01.Inv C01.Steps1 C01.Steps2 C01.Steps3 C01.Steps4 C01.Steps5 C01.Steps6 C01.Spec.
From Coq Require Import ZifyBool ZifyN ZifyNat.
Open Scope Z_scope.
Local Arguments exclude_range : simpl never.
Local Arguments key_eqb : simpl never.

Lemma inv_init : Inv init.
Proof.
  constructor.
  - intros k t. split; [intros v H; discriminate|intros H; discriminate].
  - intros pts H. discriminate.
  - intros ss lo hi dk H. discriminate.
  - intros H. discriminate.
  - reflexivity.
  - intros _. split; [apply quiescent_vol0|]. cbn. discriminate.
  - intros H. discriminate.
Qed.

Ltac split_guard :=
  repeat match goal with
         | H : _ && _ = true |- _ => apply andb_true_iff in H; destruct H
         end.

Lemma inv_step s x : Inv s -> Inv (step_fn repaired s x).
Proof.
  intros I. unfold step_fn. destruct (step_ok s x) eqn:Ok; [|assumption].
  unfold step_ok in Ok. apply andb_true_iff in Ok. destruct Ok as [Hpf Ok].
  destruct x; cbn [pend_free orb] in Hpf; cbn [step_ok0] in Ok; split_guard.
  - (* Write *) apply inv_write; auto using is_up_ph, no_pend_eq, d_idle_eq.
  - (* WalSync *) apply inv_walsync; auto using is_up_ph.
    intros Hn. unfold no_pend in *. rewrite Hn in *. discriminate.
  - (* RollSegment *) apply inv_roll; auto using is_up_ph, no_pend_eq.
  - (* SnapBegin *) apply inv_snapbegin; auto using is_up_ph, no_pend_eq.
    destruct (sstage (sv s)); try discriminate. reflexivity.
  - (* SnapWriteTmp *) apply inv_snapwritetmp; auto using is_up_ph.
    destruct (sstage (sv s)); try discriminate. reflexivity.
  - (* SnapFail *) apply inv_snapfail; auto using is_up_ph.
    destruct (sstage (sv s)) eqn:E; try discriminate; [left; reflexivity|right; eauto].
  - (* SnapRename *) destruct (sstage (sv s)) eqn:E; try discriminate.
    apply (inv_snaprename s f); auto using is_up_ph, no_pend_eq.
  - (* SnapClear *) apply inv_snapclear; auto using is_up_ph.
    destruct (sstage (sv s)); try discriminate. reflexivity.
  - (* SnapRemoveWAL *) apply inv_snapremovewal; auto using is_up_ph, no_pend_eq.
    destruct (sstage (sv s)); try discriminate. reflexivity.
  - (* CompactWriteTmp *) apply inv_compactwritetmp; auto using is_up_ph, c_idle_eq, d_idle_eq.
    apply Nat.leb_le. assumption.
  - (* CompactAbort *) apply inv_compactabort; auto using is_up_ph.
  - (* ReplaceRename *) destruct (cstage (sv s)) as [|i n out|] eqn:E; try discriminate.
    apply (inv_replacerename s i n out); auto using is_up_ph, no_pend_eq.
  - (* ReplaceRemove *) destruct (cstage (sv s)) as [| |i olds] eqn:E; try discriminate.
    apply (inv_replaceremove s i olds); auto using is_up_ph, no_pend_eq.
  - (* DeleteBegin *) apply inv_deletebegin; auto using is_up_ph, no_pend_eq, d_idle_eq.
    intros i olds Hc. rewrite Hc in *. discriminate.
  - (* DeleteTombstone *) destruct (dstage (sv s)) as [|ss lo hi todo| |] eqn:E; try discriminate.
    destruct (nth_error (files (sd s)) i) as [f|] eqn:En; try discriminate.
    apply (inv_deletetombstone s i ss lo hi todo f); auto using is_up_ph, no_pend_eq.
  - (* DeleteCache *) destruct (dstage (sv s)) as [|ss lo hi todo| |] eqn:E; try discriminate.
    destruct todo; try discriminate.
    apply (inv_deletecache s ss lo hi); auto using is_up_ph, no_pend_eq.
  - (* DeleteIndex *) destruct (dstage (sv s)) as [| | |ss lo hi dk] eqn:E; try discriminate.
    apply (inv_deleteindex s ss lo hi dk); auto using is_up_ph, no_pend_eq.
  - (* Crash *) apply inv_crash; auto. apply Nat.leb_le. assumption.
  - (* OpenCleanup *) apply inv_opencleanup; auto. destruct (ph (sv s)); try discriminate. reflexivity.
  - (* OpenWAL *) apply inv_openwal; auto. destruct (ph (sv s)); try discriminate. reflexivity.
  - (* OpenFiles *) apply inv_openfiles; auto. destruct (ph (sv s)); try discriminate. reflexivity.
  - (* OpenLoad *) apply inv_openload; auto. destruct (ph (sv s)); try discriminate. reflexivity.
Qed.

Lemma inv_run h : forall s, Inv s -> Inv (run repaired h s).
Proof.
  unfold run. induction h as [|x r IH]; intros s I; cbn [fold_left]; [assumption|].
  apply IH. apply inv_step. assumption.
Qed.

Lemma inv_reachable h : Inv (run repaired h init).
Proof. apply inv_run. apply inv_init. Qed.

(* ---------- what a completed recovery / a running engine returns ---------- *)

(* the value a reader gets at (k, t) *)
Definition live (s : state) (k : key) (t : Z) : option value := lookup_last t (eng_read_all s k).

Lemma live_view s k t :
  live s k t = oplus (cpt (hot (sv s)) k t) (oplus (cpt (snap (sv s)) k t) (fview (files (sd s)) k t)).
Proof. unfold live, eng_read_all, eng_cache. apply read_all_view. Qed.

Lemma durable_covers s :
  Inv s -> forall k t v, glww (eff_now s) k t = Some v ->
  mb_now s k t = true \/ rview (E s) (files (sd s)) k t = Some v.
Proof. intros I k t v H. destruct (i_dur _ I k t) as [H1 _]. apply H1. assumption. Qed.

Lemma live_covers s :
  Inv s -> ph (sv s) = Up ->
  forall k t v, glww (eff_now s) k t = Some v -> mb_now s k t = true \/ live s k t = Some v.
Proof.
  intros I Hup k t v Hg. pose proof (i_up _ I Hup) as V. destruct (u_split _ V) as [Wsn [Wh Sp]].
  destruct (i_dur _ I k t) as [H1 H2]. destruct (H1 v Hg) as [Hm|Hr]; [left; assumption|].
  assert (HE : E s = wal_entries Wsn ++ wal_entries Wh) by (unfold E; rewrite (sp_wal _ _ _ Sp); apply wal_entries_app).
  unfold D2 in H2. unfold rview in Hr. rewrite HE in Hr, H2. rewrite evs_app in Hr, H2. rewrite pfold_app, pfold_last in Hr.
  rewrite last_ev_app in H2.
  rewrite live_view. rewrite (kv_equiv_cpt _ _ k t (sp_hot _ _ _ Sp)), cpt_replay_nil, pfold_last.
  destruct (Facts.oplus (papply None (last_ev (evs (wal_entries Wh) k t))) None) eqn:Edummy; clear Edummy.
  all: destruct (last_ev (evs (wal_entries Wh) k t)) as [|x|] eqn:El; cbn [papply oplus] in *.
  all: try (right; assumption).
  all: destruct (sstage (sv s)) eqn:Est.
  all: try (assert (Hnc : sstage (sv s) <> SCleared) by congruence;
            rewrite (kv_equiv_cpt _ _ k t (sp_snap _ _ _ Sp Hnc)), cpt_replay_nil).
  all: try (right; exact Hr).
  all: try (destruct (pfold (evs (wal_entries Wsn) k t) None) as [a|] eqn:Ea; [|right; exact Hr];
            destruct (H2 eq_refl) as [Hn|[Hn|Hn]]; [cbn [oplus] in Hr; congruence|congruence|left; assumption]).
  all: rewrite (sp_cleared _ _ _ Sp Est); rewrite cpt_nil; cbn [oplus].
  all: try (right; exact Hr).
  all: destruct (pfold (evs (wal_entries Wsn) k t) None) as [a|] eqn:Ea; [|right; exact Hr].
  all: cbn [oplus] in Hr; inversion Hr; subst a.
  all: destruct (sp_q _ _ _ Sp (or_intror Est) k t v Ea) as [Hq|[Hq|[Hq|Hq]]]; [congruence|right; assumption|left; assumption|congruence].
Qed.

(* ---------- the C01 statements ---------- *)

Lemma ack_durable_lemma h :
  let s := run repaired h init in
  ph (sv s) = Up -> pend (sv s) = PNone -> dstage (sv s) = DIdle ->
  forall k t v, glww (effective s) k t = Some v -> maybe_deleted s k t = true \/ live s k t = Some v.
Proof.
  intros s Hup Hp Hd k t v Hg. pose proof (inv_reachable h) as I. fold s in I.
  rewrite <- (eff_now_nopend s Hp) in Hg.
  destruct (live_covers s I Hup k t v Hg) as [Hm|Hl]; [left|right; assumption].
  unfold mb_now, inflight in Hm. rewrite Hd, orb_false_r in Hm. assumption.
Qed.

Lemma durable_covers_acked_lemma h :
  let s := run repaired h init in
  forall k t v, glww (eff_now s) k t = Some v ->
  mb_now s k t = true \/ rview (E s) (files (sd s)) k t = Some v.
Proof. intros s. apply durable_covers. apply inv_reachable. Qed.

(* recovery rebuilds exactly [rview] *)
Lemma recovery_reads_rview s :
  ph (sv s) = O3 -> snap (sv s) = [] -> step_ok s OpenLoad = true ->
  forall k t, live (do_step repaired s OpenLoad) k t = rview (E s) (files (sd s)) k t.
Proof.
  intros Hph Hsn _ k t. rewrite live_view. unfold do_step. cbn [fix_woff repaired]. sim.
  rewrite Hsn, cpt_nil. cbn [oplus]. rewrite cpt_replay_nil. reflexivity.
Qed.

(* a crash loses at most the entry that was appended but not yet synced; acknowledged
   operations are untouched; the truncation done by recovery loses nothing *)
Lemma acked_add k o s : acked (add_hist k o s) = acked s ++ match k with KAck => [o] | _ => [] end.
Proof. unfold acked, add_hist. sim. rewrite flat_map_app. cbn. rewrite app_nil_r. reflexivity. Qed.

Lemma crash_acked s keep torn : acked (do_step repaired s (Crash keep torn)) = acked s.
Proof.
  unfold do_step.
  destruct (pend (sv s)); destruct (dstage (sv s));
    try destruct (existsb is_entry (firstn keep (pending_unsynced s)));
    rewrite ?acked_add, ?app_nil_r; reflexivity.
Qed.

Lemma crash_entries s keep torn s1 :
  sd s1 = sd (do_step repaired s (Crash keep torn)) ->
  wal (sd s1) = cut_wal keep torn (wal (sd s)).
Proof.
  intros ->. unfold do_step.
  destruct (pend (sv s)); destruct (dstage (sv s));
    try destruct (existsb is_entry (firstn keep (pending_unsynced s))); reflexivity.
Qed.

Lemma torn_tail_lemma h keep torn :
  let s := run repaired h init in
  let s' := do_step repaired s (Crash keep torn) in
  acked s' = acked s /\
  (E s' = E s \/ exists e, pend_entry s = Some e /\ E s = E s' ++ [e]).
Proof.
  intros s s'. split; [apply crash_acked|].
  pose proof (inv_reachable h) as I. fold s in I. pose proof (i_sync _ I) as Hs.
  assert (HW : wal (sd s') = cut_wal keep torn (wal (sd s))) by (apply (crash_entries s keep torn); reflexivity).
  change (E s') with (wal_entries (wal (sd s'))). rewrite HW.
  destruct (pend_entry s) as [e|] eqn:He.
  - assert (Hup : ph (sv s) = Up).
    { destruct (ph (sv s)) eqn:Eph; try reflexivity; exfalso;
        (assert (Hq : ph (sv s) <> Up) by congruence); destruct (i_down _ I Hq) as [Hq' _];
        unfold quiescent in Hq'; destruct Hq' as (_ & _ & _ & _ & _ & _ & X & _);
        unfold pend_entry in He; rewrite X in He; discriminate. }
    destruct (cut_entries_some s keep torn e Hs (u_clean _ (i_up _ I Hup)) He) as [es0 [HE0 [_ HE]]].
    rewrite HE. destruct keep; [right; exists e; split; [reflexivity|assumption]|left; reflexivity].
  - left. apply (cut_entries_none s keep torn Hs He).
Qed.

Lemma load_loses_nothing s : E (do_step repaired s OpenLoad) = E s.
Proof. unfold E, do_step. sim. apply wal_entries_truncate. Qed.

(* with no crash in flight the effective history is the acknowledged one *)
Lemma effective_is_acked s :
  (forall e, In e (g_hist s) -> fst e = KAck) ->
  effective s = acked s /\ forall k t, maybe_deleted s k t = false.
Proof.
  unfold effective, acked, maybe_deleted. induction (g_hist s) as [|[kd o] r IH]; intros H; [split; reflexivity|].
  assert (Hk : kd = KAck) by (apply (H (kd, o)); left; reflexivity). subst kd.
  destruct IH as [IH1 IH2]; [intros e He; apply H; right; assumption|].
  cbn [flat_map fst snd existsb]. rewrite IH1. split; [reflexivity|]. intros k t. apply IH2.
Qed.

(* ---------- the unrepaired code: refutations ---------- *)

Definition wk : key := [109; 44; 115; 61; 97; 35; 33; 126; 35; 105]%N.   (* "m,s=a#!~#i" *)
Definition w1 (t v : Z) : step := Write [(wk, (t, VInt v))].

(* torn tail, acknowledged write, second restart *)
Definition witness_torn : list step :=
  open_steps ++ [w1 1 10; WalSync; w1 2 20; Crash 0 3] ++ open_steps ++ [w1 3 30; WalSync; Crash 0 0] ++ open_steps.

(* failed snapshot, acknowledged write, retried snapshot, crash *)
Definition witness_retry : list step :=
  open_steps ++ [w1 1 10; WalSync; SnapBegin; SnapFail; w1 2 20; WalSync; SnapBegin; SnapWriteTmp; SnapRename; SnapClear;
                 SnapRemoveWAL; SnapRemoveWAL; SnapRemoveWAL; Crash 0 0] ++ open_steps.

Definition loses_acked (c : cfg) (h : list step) (k : key) (t : Z) : bool :=
  let s := run c h init in
  run_ok c h init && is_up s &&
  match glww (acked s) k t with
  | Some v => negb (maybe_deleted s k t) && negb (ovalue_eqb (live s k t) (Some v))
  | None => false
  end.

Lemma pinned_loses_torn : loses_acked pinned witness_torn wk 3 = true.
Proof. vm_compute. reflexivity. Qed.

Lemma pinned_loses_retry : loses_acked pinned witness_retry wk 2 = true.
Proof. vm_compute. reflexivity. Qed.

Lemma repaired_keeps_torn : loses_acked repaired witness_torn wk 3 = false /\ loses_acked repaired witness_retry wk 2 = false.
Proof. vm_compute. split; reflexivity. Qed.
