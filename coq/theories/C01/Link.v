(* C01/Link.v — from pointwise equality to equality of reads with Shard/Spec.v's [spec_read];
   the listing rebuilt by recovery. *)
From Verif Require Import Shard.Engine C01.Kv C01.Facts C01.Dinv C01.Inv C01.Spec C01.Proofs.
From Coq Require Import ZifyBool.
Open Scope Z_scope.
Local Arguments key_eqb : simpl never.

(* ---------- spec_read, pointwise ---------- *)

Lemma lookup_flat_singletons (f : Z -> option value) t l :
  lookup_last t (flat_map (fun t' => match f t' with Some v => [(t', v)] | None => [] end) l) =
  if existsb (Z.eqb t) l then f t else None.
Proof.
  induction l as [|x r IH]; cbn [flat_map existsb]; [reflexivity|].
  rewrite lookup_last_app, IH.
  destruct (t =? x) eqn:E; cbn [orb].
  - assert (x = t) by lia. subst x. destruct (existsb (Z.eqb t) r).
    + destruct (f t) as [v|]; reflexivity.
    + destruct (f t) as [v|]; cbn; [rewrite Z.eqb_refl|]; reflexivity.
  - destruct (existsb (Z.eqb t) r).
    + destruct (f t); [reflexivity|]. destruct (f x); cbn; [|reflexivity].
      destruct (x =? t) eqn:E2; [lia|reflexivity].
    + destruct (f x); cbn; [|reflexivity]. destruct (x =? t) eqn:E2; [lia|reflexivity].
Qed.

Lemma times_of_app a b k : times_of (a ++ b) k = times_of a k ++ times_of b k.
Proof. unfold times_of. apply flat_map_app. Qed.

Lemma lookup_some_time t l v : lookup_last t l = Some v -> existsb (Z.eqb t) (map fst l) = true.
Proof.
  revert v. induction l as [|[t' v'] r IH]; intros v; cbn; [discriminate|].
  destruct (lookup_last t r) eqn:E.
  - intros _. rewrite (IH _ eq_refl). apply orb_true_r.
  - destruct (t' =? t) eqn:Et; [|discriminate]. intros _. replace (t =? t') with true by lia. reflexivity.
Qed.

Lemma lww_time h k t v : lww h k t = Some v -> existsb (Z.eqb t) (times_of h k) = true.
Proof.
  revert v. induction h as [|o r IH] using rev_ind; intros v; [discriminate|].
  rewrite lww_snoc, times_of_app, existsb_app. destruct o as [pts|ks lo hi]; cbn [apply_op].
  - destruct (lookup_last t (batch_values k pts)) as [x|] eqn:E.
    + intros _. unfold times_of. cbn [flat_map]. rewrite app_nil_r. rewrite (lookup_some_time _ _ _ E). apply orb_true_r.
    + intros H. rewrite (IH _ H). reflexivity.
  - destruct (existsb (key_eqb k) ks && ((lo <=? t) && (t <=? hi))); [discriminate|]. intros H. rewrite (IH _ H). reflexivity.
Qed.

Lemma spec_read_lookup h k lo hi t :
  lookup_last t (spec_read_asc h k lo hi) = if (lo <=? t) && (t <=? hi) then lww h k t else None.
Proof.
  unfold spec_read_asc. rewrite dedup_last_wins.
  rewrite (flat_map_ext _ (fun t' => match (if (lo <=? t') && (t' <=? hi) then lww h k t' else None) with Some v => [(t', v)] | None => [] end))
    by (intros a; destruct ((lo <=? a) && (a <=? hi)); reflexivity).
  rewrite (lookup_flat_singletons (fun t' => if (lo <=? t') && (t' <=? hi) then lww h k t' else None)).
  - destruct ((lo <=? t) && (t <=? hi)); [|destruct (existsb _ _); reflexivity].
    destruct (lww h k t) as [v|] eqn:E; [rewrite (lww_time _ _ _ _ E); reflexivity|destruct (existsb _ _); reflexivity].
Qed.

(* selections made explicit over a key universe containing k *)
Lemma kmem_filter_universe (p : key -> bool) U k : In k U -> existsb (key_eqb k) (filter p U) = p k.
Proof.
  intros Hin. destruct (p k) eqn:Ep.
  - apply existsb_exists. exists k. split; [apply filter_In; auto|apply key_eqb_refl].
  - destruct (existsb (key_eqb k) (filter p U)) eqn:E; [|reflexivity].
    apply existsb_exists in E. destruct E as [x [Hx Hk]]. apply key_eqb_eq in Hk. subst x.
    apply filter_In in Hx. destruct Hx as [_ Hx]. congruence.
Qed.

Lemma lww_conc U g k t : In k U -> lww (map (conc U) g) k t = glww g k t.
Proof.
  intros Hin. unfold lww, glww. generalize (@None value). induction g as [|o r IH]; intros acc; [reflexivity|].
  cbn [map fold_left]. rewrite IH. f_equal. destruct o as [pts|ss lo hi]; cbn [conc apply_op gapply]; [reflexivity|].
  rewrite (kmem_filter_universe (sel ss) U k Hin). reflexivity.
Qed.

(* two sorted lists that agree pointwise with the spec are equal *)
Lemma read_eq_spec s k lo hi (H : list op) :
  (forall t, (lo <=? t) && (t <=? hi) = true -> live s k t = lww H k t) ->
  eng_read s k lo hi true = spec_read H k lo hi true.
Proof.
  intros Hp. unfold eng_read, read, spec_read. apply sorted_lookup_ext.
  - apply filter_ssorted. apply read_all_sorted.
  - apply dedup_sorted.
  - intros t. rewrite lookup_include_range, spec_read_lookup.
    destruct ((lo <=? t) && (t <=? hi)) eqn:Er; [|reflexivity]. apply Hp. assumption.
Qed.

(* ---------- the listing rebuilt by recovery ---------- *)

Lemma kmem_add_key sr k l : kmem sr (add_key k l) = kmem sr l || key_eqb sr k.
Proof.
  unfold add_key. destruct (kmem k l) eqn:E.
  - destruct (key_eqb sr k) eqn:E2; [|rewrite orb_false_r; reflexivity].
    apply key_eqb_eq in E2. subst. rewrite E. reflexivity.
  - rewrite kmem_app. cbn [kmem existsb]. rewrite orb_false_r. reflexivity.
Qed.

Lemma kmem_fold_add_series sr l : forall acc,
  kmem sr (fold_left (fun acc k => add_key (series_of k) acc) l acc) =
  kmem sr acc || existsb (fun k => key_eqb sr (series_of k)) l.
Proof.
  induction l as [|k r IH]; intros acc; cbn [fold_left existsb]; [rewrite orb_false_r; reflexivity|].
  rewrite IH, kmem_add_key, orb_assoc. reflexivity.
Qed.

(* a series is listed after recovery iff one of its keys is left in a file index or in the cache *)
Lemma rebuild_listed_spec fs h sr :
  kmem sr (rebuild_listed fs h) =
  existsb (fun f => existsb (fun k => key_eqb sr (series_of k) && file_has_key f k) (kv_keys (f_data f))) fs
  || existsb (fun k => key_eqb sr (series_of k)) (kv_keys h).
Proof.
  unfold rebuild_listed. rewrite kmem_fold_add_series. cbn [kmem existsb orb]. rewrite existsb_app. f_equal.
  induction fs as [|f r IH]; cbn [flat_map existsb]; [reflexivity|].
  rewrite existsb_app, IH. f_equal.
  induction (kv_keys (f_data f)) as [|k ks IHk]; cbn [filter existsb]; [reflexivity|].
  destruct (file_has_key f k); cbn [existsb]; rewrite IHk.
  - rewrite andb_true_r. reflexivity.
  - rewrite andb_false_r. reflexivity.
Qed.

(* ---------- C01's link to the executable spec ---------- *)

(* every point the last-write-wins spec reads from the acknowledged history is returned by the
   engine's read (same key, same range), for histories in which no crash hit an operation in flight *)
Lemma acked_points_are_read h U k lo hi :
  let s := run repaired h init in
  ph (sv s) = Up -> pend (sv s) = PNone -> dstage (sv s) = DIdle ->
  (forall e, In e (g_hist s) -> fst e = KAck) -> In k U ->
  forall t v, In (t, v) (spec_read (map (conc U) (acked s)) k lo hi true) -> In (t, v) (eng_read s k lo hi true).
Proof.
  intros s Hup Hp Hd Hack Hin t v Hs.
  destruct (effective_is_acked s Hack) as [Heff Hmb].
  unfold spec_read in Hs. apply (in_sorted_lookup t v _ (dedup_sorted _)) in Hs. fold (spec_read_asc (map (conc U) (acked s)) k lo hi) in Hs.
  rewrite spec_read_lookup in Hs. destruct ((lo <=? t) && (t <=? hi)) eqn:Er; [|discriminate].
  rewrite (lww_conc U _ k t Hin), <- Heff in Hs.
  destruct (ack_durable_lemma h Hup Hp Hd k t v Hs) as [X|X]; [fold s in X; rewrite Hmb in X; discriminate|].
  unfold eng_read, read. apply (in_sorted_lookup t v).
  - apply filter_ssorted. apply read_all_sorted.
  - rewrite lookup_include_range, Er. exact X.
Qed.
