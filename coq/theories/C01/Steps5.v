(* C01/Steps5.v — invariant preservation: the delete steps. *)
From Verif Require Import Shard.Engine C01.Kv C01.Facts C01.Dinv C01.Inv C01.Steps1 C01.Steps2 C01.Steps3 C01.Steps4.
From Coq Require Import ZifyBool ZifyN ZifyNat.
Open Scope Z_scope.
Local Arguments exclude_range : simpl never.
Local Arguments key_eqb : simpl never.

Lemma pend_entry_nopend s : pend (sv s) = PNone -> pend_entry s = None.
Proof. unfold pend_entry. intros ->. reflexivity. Qed.

(* ---------- DeleteBegin ---------- *)

Lemma inv_deletebegin s ss lo hi :
  Inv s -> ph (sv s) = Up -> pend (sv s) = PNone -> dstage (sv s) = DIdle ->
  (forall i olds, cstage (sv s) <> CReplacing i olds) ->
  Inv (do_step repaired s (DeleteBegin ss lo hi)).
Proof.
  intros I Hup Hp Hd Hc. pose proof (i_up _ I Hup) as V.
  destruct (DurPart_of_Inv _ I) as (D1 & D2 & D3 & D4 & D5 & D6).
  unfold do_step.
  destruct (existsb (file_overlaps lo hi) (files (sd s)) || negb (is_nil (hot (sv s)))).
  - (* the delete starts: its points become exempt *)
    assert (Hmb : forall k t, mb_now s k t = true ->
              mb_now (upd (v_dstage (DTomb ss lo hi (map fid (files (sd s))))) (upd (v_cstage CIdle) s)) k t = true).
    { intros k t H. unfold mb_now, inflight, maybe_deleted in *. sim. rewrite Hd in H. rewrite orb_false_r in H. rewrite H. reflexivity. }
    apply Inv_of_parts.
    + apply (DurPart_intro _ (E s) (files (sd s)) (eff_now s)); try reflexivity; try assumption;
      try (intros ss0 lo0 hi0 dk0 H; sim; try rewrite Hd in H; discriminate); try (apply (sync_ok_frame s); auto; fail).
      * apply (Dinv_mb _ _ _ (mb_now s)); [exact Hmb|exact D1].
    + intros _. destruct V. constructor; sim; auto.
      * destruct u_split as [Wsn [Wh Sp]]. exists Wsn, Wh. destruct Sp. constructor; sim; auto.
        intros Hst k t. apply (Qpt_mb _ _ _ _ (mb_now s)); [apply Hmb|]. apply sp_q. assumption.
      * intros i n out H. discriminate.
      * intros H. contradiction.
      * intros i olds H. discriminate.
  - (* nothing can match: returns at once *)
    assert (Hmb : forall k t, mb_now s k t = mb_now (add_hist KAck (GDelete ss lo hi) (upd (v_cstage CIdle) s)) k t).
    { intros k t. unfold mb_now. rewrite maybe_deleted_add, orb_false_r. reflexivity. }
    assert (Heff : eff_now (add_hist KAck (GDelete ss lo hi) (upd (v_cstage CIdle) s)) = eff_now s ++ [GDelete ss lo hi]).
    { unfold eff_now, pending_ops. rewrite effective_add. sim. rewrite Hp, !app_nil_r. rewrite (effective_eq s) by reflexivity. reflexivity. }
    apply Inv_of_parts.
    + apply (DurPart_intro _ (E s) (files (sd s)) (eff_now s ++ [GDelete ss lo hi])); try reflexivity; try assumption;
      try (intros ss0 lo0 hi0 dk0 H; sim; try rewrite Hd in H; discriminate); try (apply (sync_ok_frame s); auto; fail).
      * apply (Dinv_delete_done _ _ _ (mb_now s)); [|exact D1]. intros k t H. left. rewrite <- Hmb. exact H.
    + intros _. destruct V. constructor; sim; auto.
      * destruct u_split as [Wsn [Wh Sp]]. exists Wsn, Wh. destruct Sp. constructor; sim; auto.
        intros Hst k t. rewrite Heff. apply (Qpt_delete_done _ _ _ _ (mb_now s)).
        -- intros H. left. rewrite <- Hmb. exact H.
        -- apply sp_q. assumption.
      * intros i n out H. discriminate.
      * intros i olds H. discriminate.
Qed.

(* ---------- DeleteTombstone ---------- *)

Lemma inv_deletetombstone s i ss lo hi todo f :
  Inv s -> ph (sv s) = Up -> pend (sv s) = PNone -> dstage (sv s) = DTomb ss lo hi todo ->
  nth_error (files (sd s)) i = Some f ->
  Inv (do_step repaired s (DeleteTombstone i)).
Proof.
  intros I Hup Hp Hd Hn. pose proof (i_up _ I Hup) as V.
  destruct (DurPart_of_Inv _ I) as (D1 & D2 & D3 & D4 & D5 & D6).
  assert (Hci : cstage (sv s) = CIdle) by (apply cstage_idle_of_delete; [assumption|congruence]).
  unfold do_step. rewrite Hd, Hn.
  set (todo' := filter (fun id => negb (fid_eqb id (fid f))) todo).
  assert (Hfv : forall k t, mb_now s k t = true \/
             fview (update_nth i (tombstone_file ss lo hi) (files (sd s))) k t = fview (files (sd s)) k t).
  { intros k t. destruct (sel ss k && in_rng lo hi t) eqn:Ec.
    - left. unfold mb_now, inflight. rewrite Hd, Ec. apply orb_true_r.
    - right. apply (fview_update_nth _ _ f); [assumption|]. apply fpt_tombstone_outside. assumption. }
  assert (Hmb : forall k t, mb_now s k t =
             mb_now (set_files (update_nth i (tombstone_file ss lo hi) (files (sd s))) (upd (v_dstage (DTomb ss lo hi todo')) s)) k t).
  { intros k t. unfold mb_now, inflight, maybe_deleted. sim. rewrite Hd. reflexivity. }
  apply Inv_of_parts.
  - apply (DurPart_intro _ (E s) (update_nth i (tombstone_file ss lo hi) (files (sd s))) (eff_now s)); try reflexivity; try assumption;
      try (intros ss0 lo0 hi0 dk0 H; sim; try rewrite Hd in H; discriminate); try (apply (sync_ok_frame s); auto; fail).
    + apply (Dinv_ext _ _ _ (mb_now s)); [exact Hmb|].
      apply (Dinv_files _ (files (sd s))); [exact Hfv|exact D1].
  - intros _. destruct V. constructor; sim; auto.
    + destruct u_split as [Wsn [Wh Sp]]. exists Wsn, Wh. destruct Sp. constructor; sim; auto.
      intros Hst k t. apply (Qpt_mb _ _ _ _ (mb_now s)); [intros H; rewrite <- Hmb; exact H|].
      apply (Qpt_files _ _ (files (sd s))); [apply Hfv|]. apply sp_q. assumption.
    + intros i0 n out H. congruence.
    + intros H. contradiction.
    + intros i0 olds H. congruence.
Qed.

(* ---------- DeleteCache ---------- *)

Lemma do_deletecache_eq s ss lo hi todo :
  w_gap (sv s) = 0%N -> dstage (sv s) = DTomb ss lo hi todo ->
  let dk := filter (sel ss) (kv_keys (hot (sv s))) in
  do_step repaired s DeleteCache =
  if is_nil dk then upd (v_dstage (DIndexing ss lo hi dk)) (upd (v_hot (kv_delrange dk lo hi (hot (sv s)))) s)
  else
  {| sd := {| wal := wal_append (w_open (sv s)) (w_id (sv s)) (EDelRange dk lo hi) (wal (sd s));
              files := files (sd s); tmps := tmps (sd s) |};
     sv := v_pend PDelete (v_dstage (DWal ss lo hi dk)
             (v_writer true (if w_open (sv s) then w_id (sv s) else (w_id (sv s) + 1)%N) 0%N true
                (v_hot (kv_delrange dk lo hi (hot (sv s))) (sv s))));
     g_hist := g_hist s |}.
Proof.
  intros Hg Hd. cbv zeta. unfold do_step. rewrite Hd.
  destruct (is_nil (filter (sel ss) (kv_keys (hot (sv s))))); [reflexivity|].
  unfold append_entry, wal_append. sim.
  destruct (w_open (sv s)) eqn:Eo; sim.
  - rewrite Hg. reflexivity.
  - unfold new_segment. sim. rewrite Eo. sim. rewrite update_last_snoc. reflexivity.
Qed.

Lemma kv_delrange_nil_keys lo hi m : kv_delrange [] lo hi m = m.
Proof. induction m as [|[k vs] r IH]; cbn; [reflexivity|]. rewrite IH. reflexivity. Qed.

Lemma inv_deletecache s ss lo hi :
  Inv s -> ph (sv s) = Up -> pend (sv s) = PNone -> dstage (sv s) = DTomb ss lo hi [] ->
  Inv (do_step repaired s DeleteCache).
Proof.
  intros I Hup Hp Hd. pose proof (i_up _ I Hup) as V. destruct (u_split _ V) as [Wsn [Wh Sp]].
  destruct (DurPart_of_Inv _ I) as (D1 & D2 & D3 & D4 & D5 & D6).
  assert (Hci : cstage (sv s) = CIdle) by (apply cstage_idle_of_delete; [assumption|congruence]).
  rewrite (do_deletecache_eq s ss lo hi [] (u_gap _ V) Hd). cbv zeta.
  set (dk := filter (sel ss) (kv_keys (hot (sv s)))).
  assert (Hdk : forall k, kmem k dk = true -> sel ss k = true) by (intros k; apply kmem_filter).
  destruct (is_nil dk) eqn:Edk.
  - (* no key of the selected series is in the hot cache: no WAL entry *)
    assert (Hdk0 : dk = []) by (destruct dk; [reflexivity|discriminate]).
    rewrite Hdk0, kv_delrange_nil_keys.
    assert (Hmb : forall k t, mb_now s k t = mb_now (upd (v_dstage (DIndexing ss lo hi [])) (upd (v_hot (hot (sv s))) s)) k t).
    { intros k t. unfold mb_now, inflight, maybe_deleted. sim. rewrite Hd. reflexivity. }
    apply Inv_of_parts.
    + apply (DurPart_intro _ (E s) (files (sd s)) (eff_now s)); try reflexivity; try assumption;
      try (intros ss0 lo0 hi0 dk0 H; sim; try rewrite Hd in H; discriminate); try (apply (sync_ok_frame s); auto; fail).
      * apply (Dinv_ext _ _ _ (mb_now s)); [exact Hmb|exact D1].
    + intros _. destruct V. constructor; sim; auto.
      * exists Wsn, Wh. destruct Sp. constructor; sim; auto.
        intros Hst k t. apply (Qpt_mb _ _ _ _ (mb_now s)); [intros H; rewrite <- Hmb; exact H|]. apply sp_q. assumption.
      * intros H. contradiction.
  - (* cache range removed, delete entry appended (not yet synced) *)
    set (e := EDelRange dk lo hi).
    assert (Hne : w_open (sv s) = true -> wal (sd s) <> []) by (apply (split_wal_nonempty _ _ _ Sp)).
    assert (HE : wal_entries (wal_append (w_open (sv s)) (w_id (sv s)) e (wal (sd s))) = E s ++ [e]).
    { apply wal_append_entries; [assumption|apply (u_clean _ V)]. }
    assert (Hnop : forall k t, ept k t e = PNop \/ mb_now s k t = true).
    { intros k t. cbn [ept e]. destruct (kmem k dk) eqn:Ek; [|left; reflexivity].
      destruct (in_rng lo hi t) eqn:Er; [|left; reflexivity]. right.
      unfold mb_now, inflight. rewrite Hd, (Hdk k Ek), Er. apply orb_true_r. }
    match goal with |- Inv ?st => set (s' := st) end.
    assert (Hmb : forall k t, mb_now s k t = mb_now s' k t).
    { intros k t. unfold mb_now, inflight, maybe_deleted, s'. sim. rewrite Hd. reflexivity. }
    assert (Heff : eff_now s' = eff_now s).
    { unfold eff_now, pending_ops, s'. sim. rewrite Hp. rewrite (effective_eq s) by reflexivity. reflexivity. }
    apply Inv_of_parts.
    + unfold DurPart. rewrite Heff. unfold s'. sim. unfold E. sim. rewrite HE.
      split; [|split; [|split; [|split; [|split]]]].
      * apply (Dinv_ext _ _ _ (mb_now s)); [exact Hmb|]. apply Dinv_add_nop; assumption.
      * intros pts H. discriminate.
      * intros ss0 lo0 hi0 dk0 H. inversion H; subst ss0 lo0 hi0 dk0. split; [reflexivity|]. split; [exact Hdk|].
        exists (E s). reflexivity.
      * intros _. eauto.
      * unfold sync_ok, pend_entry. sim.
        destruct (wal_append_last (w_open (sv s)) (w_id (sv s)) e (wal (sd s)) Hne (sync_ok_all_full _ D5 Hp))
          as [sg [r [its [Hr [Hfull [Hi Hs]]]]]].
        rewrite Hr. split; [assumption|]. exists its. auto.
      * intros H. contradiction.
    + intros _. unfold s'. destruct V. constructor; sim; auto.
      * apply kv_wf_delrange. assumption.
      * apply wal_append_clean. assumption.
      * exists Wsn, (wal_append (w_open (sv s)) (w_id (sv s)) e Wh). destruct Sp. constructor; sim; auto.
        -- rewrite sp_wal. apply wal_append_split. assumption.
        -- intros _. apply wal_append_nonempty. assumption.
        -- discriminate.
        -- rewrite wal_append_entries.
           ++ rewrite replay_app. cbn [replay fold_left apply_entry e]. apply kv_equiv_delrange; auto.
              apply kv_wf_replay. exact kv_wf_nil.
           ++ assumption.
           ++ rewrite sp_wal in u_clean. apply Forall_app in u_clean. tauto.
        -- intros Hst k t. rewrite wal_append_entries.
           ++ fold s'. rewrite Heff. apply (Qpt_mb _ _ _ _ (mb_now s)); [intros H; rewrite <- Hmb; exact H|].
              apply Qpt_add_nop; [apply Hnop|]. apply sp_q. assumption.
           ++ assumption.
           ++ rewrite sp_wal in u_clean. apply Forall_app in u_clean. tauto.
      * intros H. contradiction.
Qed.

(* ---------- DeleteIndex ---------- *)

Lemma inv_deleteindex s ss lo hi dk :
  Inv s -> ph (sv s) = Up -> pend (sv s) = PNone -> dstage (sv s) = DIndexing ss lo hi dk ->
  Inv (do_step repaired s DeleteIndex).
Proof.
  intros I Hup Hp Hd. pose proof (i_up _ I Hup) as V.
  destruct (DurPart_of_Inv _ I) as (D1 & D2 & D3 & D4 & D5 & D6).
  assert (Hci : cstage (sv s) = CIdle) by (apply cstage_idle_of_delete; [assumption|congruence]).
  unfold do_step. rewrite Hd.
  match goal with |- Inv ?st => set (s' := st) end.
  assert (Hmb : forall k t, mb_now s k t = true -> mb_now s' k t = true \/ sel ss k && in_rng lo hi t = true).
  { intros k t H. unfold mb_now in *. unfold s'. rewrite maybe_deleted_add, orb_false_r.
    unfold inflight, maybe_deleted in *. sim. rewrite Hd in H.
    apply orb_true_iff in H. destruct H as [H|H]; [left; rewrite H; reflexivity|right; exact H]. }
  assert (Heff : eff_now s' = eff_now s ++ [GDelete ss lo hi]).
  { unfold eff_now, pending_ops, s'. rewrite effective_add. sim. rewrite Hp, !app_nil_r. rewrite (effective_eq s) by reflexivity. reflexivity. }
  apply Inv_of_parts.
  - apply (DurPart_intro _ (E s) (files (sd s)) (eff_now s ++ [GDelete ss lo hi])); try reflexivity; try assumption;
      try (intros ss0 lo0 hi0 dk0 H; sim; try rewrite Hd in H; discriminate); try (apply (sync_ok_frame s); auto; fail).
    + apply (Dinv_delete_done _ _ _ (mb_now s)); [exact Hmb|exact D1].
  - intros _. unfold s'. destruct V. constructor; sim; auto.
    + destruct u_split as [Wsn [Wh Sp]]. exists Wsn, Wh. destruct Sp. constructor; sim; auto.
      intros Hst k t. fold s'. rewrite Heff. apply (Qpt_delete_done _ _ _ _ (mb_now s)); [apply Hmb|]. apply sp_q. assumption.
Qed.
