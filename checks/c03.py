CONFIG = {
    "manifest": {
        "text": "Theorems (Qed, closed under the global context) for every number of shard owners, every coordinator node id (owner at any "
                "position or not an owner), every consistency level, every per-owner environment (direct write stores / fails retryably / is "
                "rejected permanently / never answers; handoff queue empty or not; handoff accepts / refuses / is blocked) and every arrival "
                "order (any Permutation of the answers): success is reported iff the level was met by owners answering in time "
                "(success_sound, success_complete_any_order), the reported class is success/timeout/partial/failed exactly as specified "
                "(classification), hinted handoff is offered exactly once where due and never elsewhere (hh_offered_exactly_once), a failed "
                "write names the first non-skipped error. The model mirrors writeToShardWithContext branch by branch; ConsistencyLevel values are "
                "re-read from models/consistency.go each run; the model is diffed against the REAL coordinator.PointsWriter driven through "
                "WritePointsPrivileged with gated fakes, exhaustively for <=3 owners x 7 named scenarios x all arrival orders x 4 levels x "
                "coordinator owner/not owner, sampled for 4-5 owners and the full environment product. The REQUESTED level: for every byte string, "
                "models.ParseConsistencyLevel accepts it iff it is an ASCII spelling in any letter case of any/one/quorum/all and then means that level; absent/empty means one "
                "(requested_level_exact, requested_level_case_insensitive); that both write handlers start from ConsistencyLevelOne and pass a non-empty parameter to the parser is re-derived from handler.go each run; "
                "the real parser is run on spellings, near misses and non-ASCII strings (Kelvin sign, dotted I, full-width letters). "
                "BATCH level (WritePointsPrivilegedWithContext, theories/C03/Batch.v): for every number of shards, each with its own owners/environment/shard-not-found path and its own owner arrival order, "
                "every arrival order of the shard results (Permutation), every number of dropped points and every point at which PointsWriter.Close is seen: success is told only if EVERY shard met the level, "
                "nothing was dropped and no Close was seen (batch_success_sound), and is told then (batch_success_complete); a reported error is the value of the FIRST shard in arrival order that did not meet "
                "the level, or the dropped-points PartialWriteError only when every shard met it, or closing (batch_error_is_some_shards_error); the writes / CreateShard calls / handoff offers at every owner "
                "of every shard are those of the single-shard run whatever the other shards do and whenever the batch loop returns (batch_hh_independent); the model is diffed against the real PointsWriter with "
                "gated fakes over 0-4 shards in all shard release orders, with dropped points and Close during the wait. "
                "HINTED-HANDOFF ANSWER (theories/C03/Handoff.v): result classes of hh.Service.WriteShard re-derived from the source; accepted iff enabled and the block fits under max-size "
                "(handoff_accept_iff_fits); for every sequence of writes a reported success was received by some owner's store or - only under any - its block is in some owner's queue afterwards "
                "(handoff_success_means_stored_or_queued); run against the REAL hh.Service (small max-size) under the real PointsWriter, queues drained after closing the service. "
                "REMOTE PATH (theories/C03/Remote.v): for every script of node behaviours (timely/late/missing replies, hang-ups) every write reads its own reply (remote_success_is_own_ack), "
                "keeping the connection after a read timeout is refuted (remote_keep_connection_refuted); run against the REAL coordinator.ShardWriter + connection pool and a scripted in-process TCP node "
                "under the real PointsWriter: success reported => that write was stored and acknowledged by the node.",
        "note": "Trusts Coq kernel, genconsts, the harness (arrival order enforced by observing goroutine states via runtime.Stack; timeout runs are "
                "validated and repeated when the timer could have fired early; remote cases repeated with a 3x larger read timeout when a timely reply was slower than the timeout). "
                "Queue file format/segments/crash behaviour of hh are C04 (only the accept/refuse answer and the presence of accepted blocks after a drain are checked here); the wire format and "
                "request/response pairing under concurrency are C15; the HTTP layer above the level parameter, MapShards' point-to-shard hashing and subscriber delivery are not modelled; w.closing inside "
                "writeToShardWithContext is modelled only through the batch loop (both return ErrWriteFailed).",
        "technique": "Coq proof (induction over the answer list, Permutation invariance) on a Gallina model + exhaustive/sampled differential run against the real PointsWriter",
    },
    "harness": "h_c03",
    "level": "proof",
    "extra_proof_files": ["LevelProofs", "BatchProofs", "HandoffProofs"],
    "n": {"quick": 2000, "thorough": 40000},
    "shard": 1100,
    "search_rounds": 1,
    "search_boost": 2,
    "harness_timeout": {"quick": 900, "thorough": 3000},
    "rule": "kind hh: designed (one dead owner, 6 writes under any/one, max-size 0..400 bytes; disabled service; three owners mixed) then seeded sequences of 2-8 writes, 1-3 owners, max-size mostly < 420 bytes, "
            "levels biased to any, 1-3 points per write; kind remote: 14 designed scripts (late ack followed by error/silence/ack, hang-up, ...) then seeded scripts of 2-4 requests; "
            "kind batch: designed (no points, only dropped points, shard without owners, ok+failing shard in both orders, Close after 0/1/2 shards, silent-owner shard + failing shard, per-shard shard-not-found paths) "
            "then EXHAUSTIVE two shards x 6 shard templates each x both release orders x 4 levels x dropped 0/1 x Close never/0/1, three shards x all 6 release orders over sampled (thorough: all) template triples, "
            "then seeded batches of 1-4 shards with 1-3 owners each over the full environment product, random owner/shard orders, dropped points, Close; kind write: designed cases (no owners; all owners behind non-empty queues / retryable with each handoff flavour; both permanent-rejection wordings; "
            "local ErrShardNotFound -> CreateShard ok/fail) then EXHAUSTIVE enumeration: owners n=1,2,3 x coordinator {not an owner, first owner} (n<=2 and thorough tier: every position) "
            "x levels {any,one,quorum,all} x 7^n named scenarios (stored, retryable+hh accepted, retryable+hh refused, permanent rejection, queue non-empty+"
            "accepted, queue non-empty+refused, no answer) x every arrival order of the answering owners; the same with AllowOutOfOrderWrites for n<=2; "
            "then seeded samples with 1..5 owners (half with 4) over the full environment product incl. ErrQueueBlocked refusals, out-of-order mode, "
            "shard-not-found path, random coordinator position. distinct = distinct input; non-trivial = >=2 owners or an owner that is not simply stored",
    "trusted_base": [
        "C03: in kinds write/batch fakes stand for TSDBStore / ShardWriter / HintedHandoff / MetaClient: an owner's 'stored' and 'queued' are what the fake returned nil for; kind hh runs the real hh.Service (queues drained through hh's own queue code after Close, via the committed verif_export wrappers of services/hh); kind remote runs the real ShardWriter/pool against a scripted TCP node (stored = the node received that request and its script says store+ack)",
        "C03: batch schedules: shards are released one after the other; a shard whose wait ends in ErrTimeout is taken to send its value after all shards released in time (shared WriteTimeout), runs with a silent owner are accepted only if everything requested happened before t0+WriteTimeout, else repeated with a 4x larger timeout; ErrWriteFailed from closing and from a shard without successful owner are the same value and not distinguished",
        "C03: shape of the two hh refusals (Service.WriteShard !Enabled, queue.Append size limit -> ErrQueueFull), footerSize, and 'a failed ReadTLVT marks the connection unusable' in ShardWriter.WriteShardBinary are re-derived from the source by genconsts on every run",
        "C03: arrival order is enforced by releasing one gated owner at a time and waiting (runtime.Stack) until its goroutine is gone and the collecting goroutine is parked in select; runs ending in ErrTimeout are accepted only if all released answers were consumed before t0+WriteTimeout, else repeated with a 4x larger timeout",
        "C03: models.ConsistencyLevel values are regenerated from models/consistency.go by genconsts on every run; the harness passes the named constants",
        "C03: hh.IsRetryable is exercised through the real function (error texts 'field type conflict' / 'partial write' = permanent); the skip test uses the real hh.ErrQueueBlocked / ErrHintedHandoffQueueNotEmpty values",
    ],
    "modelled": "coordinator/points_writer.go writeToShardWithContext (required, per-owner goroutine incl. local ErrShardNotFound/CreateShard retry, "
                "AllowOutOfOrderWrites, hinted-handoff paths, result loop, timeout, classification) is modelled in theories/C03/Model.v; the per-shard fan-out and the combining loop of "
                "WritePointsPrivilegedWithContext (first non-nil value in arrival order, dead ErrShardDeletion conversion, dropped-points PartialWriteError, w.closing) in Batch.v; the answer classes of "
                "hh.Service.WriteShard and the max-size branch of queue.Append in Handoff.v; ShardWriter.WriteShardBinary's use of the connection pool (reuse, discard after a failed read) for a sequential caller in Remote.v; "
                "models.ParseConsistencyLevel in Level.v. Executed by the harness but not modelled: MapShards (point -> shard group/shard), subscriber delivery, statistics counters, logging, the closing case inside "
                "writeToShardWithContext, hh segment files and the retry/purge loops (C04), TLV/protobuf framing and concurrent use of the pool (C15)",
    "assumptions": ["answers that arrive before the timer fires are consumed before it (Go select picks randomly when both are ready: that race is outside the model)",
                    "a shard goroutine's value that is ready together with w.closing may or may not be consumed (Go select): both are behaviours of the model (close point k), the harness only realises quiescent ones",
                    "owners' node ids are what meta reports; hinted-handoff queues are not drained during a kind-hh sequence (owners down); the remote model is for a sequential caller (one write at a time per node)"],
}


def classify(case):
    return None
