CONFIG = {
    "manifest": {
        "text": "Theorems (Qed, closed under the global context) for every number of shard owners, every coordinator node id (owner at any "
                "position or not an owner), every consistency level, every per-owner environment (direct write stores / fails retryably / is "
                "rejected permanently / never answers; handoff queue empty or not; handoff accepts / refuses / is blocked) and every arrival "
                "order (any Permutation of the answers): success is reported iff the level was met by owners answering in time "
                "(success_sound, success_complete_any_order), the reported class is success/timeout/partial/failed exactly as specified "
                "(classification), hinted handoff is offered exactly once where due and never elsewhere (hh_offered_exactly_once), a failed "
                "write names the first non-skipped error. The model mirrors writeToShardWithContext branch by branch; ConsistencyLevel values are "
                "re-read from models/consistency.go each run; the model is diffed against the REAL coordinator.PointsWriter driven through "
                "WritePointsPrivileged with gated fakes, exhaustively for <=3 owners x 7 named scenarios x all arrival orders x 4 levels x "
                "coordinator owner/not owner, sampled for 4-5 owners and the full environment product. The REQUESTED level: for every byte string, "
                "models.ParseConsistencyLevel accepts it iff it is an ASCII spelling in any letter case of any/one/quorum/all and then means that level; absent/empty means one "
                "(requested_level_exact, requested_level_case_insensitive); that both write handlers start from ConsistencyLevelOne and pass a non-empty parameter to the parser is re-derived from handler.go each run; "
                "the real parser is run on spellings, near misses and non-ASCII strings (Kelvin sign, dotted I, full-width letters).",
        "note": "Trusts Coq kernel, genconsts, the harness (arrival order enforced by observing goroutine states via runtime.Stack; timeout runs are "
                "validated and repeated when the timer could have fired early). hh.Service/queue internals are C04, the HTTP layer and multi-shard "
                "fan-out of WritePointsPrivileged are not modelled; w.closing (shutdown) is not modelled.",
        "technique": "Coq proof (induction over the answer list, Permutation invariance) on a Gallina model + exhaustive/sampled differential run against the real PointsWriter",
    },
    "harness": "h_c03",
    "level": "proof",
    "extra_proof_files": ["LevelProofs"],
    "n": {"quick": 2000, "thorough": 40000},
    "shard": 1100,
    "search_rounds": 1,
    "search_boost": 2,
    "harness_timeout": {"quick": 900, "thorough": 3000},
    "rule": "designed cases (no owners; all owners behind non-empty queues / retryable with each handoff flavour; both permanent-rejection wordings; "
            "local ErrShardNotFound -> CreateShard ok/fail) then EXHAUSTIVE enumeration: owners n=1,2,3 x coordinator {not an owner, first owner} (n<=2 and thorough tier: every position) "
            "x levels {any,one,quorum,all} x 7^n named scenarios (stored, retryable+hh accepted, retryable+hh refused, permanent rejection, queue non-empty+"
            "accepted, queue non-empty+refused, no answer) x every arrival order of the answering owners; the same with AllowOutOfOrderWrites for n<=2; "
            "then seeded samples with 1..5 owners (half with 4) over the full environment product incl. ErrQueueBlocked refusals, out-of-order mode, "
            "shard-not-found path, random coordinator position. distinct = distinct input; non-trivial = >=2 owners or an owner that is not simply stored",
    "trusted_base": [
        "C03: fakes stand for TSDBStore / ShardWriter / HintedHandoff / MetaClient: an owner's 'stored' and 'queued' are what the fake returned nil for; hh.Service and the queue files are covered by C04, shard_writer.go's network path is not exercised",
        "C03: arrival order is enforced by releasing one gated owner at a time and waiting (runtime.Stack) until its goroutine is gone and the collecting goroutine is parked in select; runs ending in ErrTimeout are accepted only if all released answers were consumed before t0+WriteTimeout, else repeated with a 4x larger timeout",
        "C03: models.ConsistencyLevel values are regenerated from models/consistency.go by genconsts on every run; the harness passes the named constants",
        "C03: hh.IsRetryable is exercised through the real function (error texts 'field type conflict' / 'partial write' = permanent); the skip test uses the real hh.ErrQueueBlocked / ErrHintedHandoffQueueNotEmpty values",
    ],
    "modelled": "coordinator/points_writer.go writeToShardWithContext (required, per-owner goroutine incl. local ErrShardNotFound/CreateShard retry, "
                "AllowOutOfOrderWrites, hinted-handoff paths, result loop, timeout, classification) is modelled in theories/C03/Model.v; MapShards, the "
                "per-shard fan-out and subscriber delivery of WritePointsPrivilegedWithContext, w.closing, statistics counters and logging are executed by "
                "the harness but not modelled; shard_writer.go (network), services/hh internals and the HTTP handler's level parsing are not modelled",
    "assumptions": ["answers that arrive before the timer fires are consumed before it (Go select picks randomly when both are ready: that race is outside the model)",
                    "one shard per write; owners' node ids are what meta reports; the write is not concurrent with PointsWriter.Close"],
}


def classify(case):
    return None
