CONFIG = {
    "manifest": {
        "text": "Theorems (Qed; bcrypt and the cache's salted hash universally quantified, sole hypothesis: the salted hash determines the password) over every user table, "
                "grant combination, statement list, default database, credential carrier and every history of user/grant/password/database changes, snapshots reaching the node "
                "and authentications: a query/write reaches the executor only for a carried credential valid for an existing user whose grants cover every required privilege of "
                "every statement (explicit or default database); admin-only statements only for administrators; with no users a request is admitted iff its first statement creates "
                "an administrator and writes never; the credential cache is transparent (Authenticate == cache-less check against current metadata), so old passwords, dropped users and "
                "revoked grants stop working once the snapshot is installed, also when the swap interleaves with Authenticate (small-step model, every schedule). The model is diffed "
                "against the real QueryAuthorizer, WriteAuthorizer, meta.Client (driven by its own pollForUpdates loop from a fake meta server) and httpd.Handler on every run. "
                "SHOW family (FIELD KEYS, SERIES, TAG KEYS, TAG VALUES, MEASUREMENTS incl. ON *.*, and the five CARDINALITY forms, any ON clause and source list): the privileges checked "
                "and the databases really read are both modelled (rewrite into SELECT over the sources, default-database normalisation, executors); theorem: every database an authorised "
                "SHOW statement reads is one the admitted user may READ (all users, statements, defaults, histories); refuted for the pinned rule by four witnesses replayed on the real "
                "handler + coordinator.StatementExecutor + tsdb store (two defects repaired by fix: commits); each run drives such statements end to end and compares the databases whose "
                "shards/indexes were touched (wrapped TSDBStore/shard mapper) or whose names appear in the answer with the model and with the grants. "
                "Known finding: statements following the bootstrap CREATE USER ... WITH ALL PRIVILEGES run un-authenticated (strict reading refuted, witness replayed).",
        "note": "Trusts Coq kernel, the harness and its canonicalisers, influxql.RequiredPrivileges (consumed, not verified), the JWT library and bcrypt (abstracted: a hash verifies exactly the password it was made from).",
        "technique": "Coq proof (invariants over histories and schedules) on a Gallina model of authenticate middleware / AuthorizeQuery / AuthorizeWrite / Client.Authenticate+cache, "
                     "differential correspondence against the real code, executable spec evaluated on the implementation's observations",
    },
    "harness": "h_c16",
    "level": "proof",
    "extra_proof_files": ["Link", "Reads", "ReadsProofs"],
    "n": {"quick": 320, "thorough": 8000},
    "shard": 60,
    "rule": "designed cases first (every statement kind the parser produces x a 6-user grant lattice x default db; bootstrap requests alone and with trailing statements x carriers; "
            "write-authoriser lattice; every carrier incl. 9 defective JWT classes x right/wrong password x shared secret set/unset; password change / drop / re-create histories; "
            "one metadata swap landing inside Authenticate), then seeded generation: HTTP request sequences (1-3 requests on one node, cache carried over) over random user tables "
            "(0-4 users, admin/no-admin shapes, grants 0..3 on 4 databases), single and multi-statement queries from 78 templates (+ malformed), GET/POST, /write and /api/v2/write; "
            "SHOW DATABASES / SHOW CONTINUOUS QUERIES through the real coordinator.StatementExecutor (visible names); requests MIXING privileges that name a database with privileges that fall back to the request default, in every order (designed grid of 13 explicit x 13 default statement forms, both orders and sandwiches, multi-source/subquery/INTO selects; generated with the default set to a database the user lacks), directly and over HTTP; sessions on one node (tables installed, requests with the same credentials before and after, GRANT/REVOKE/GRANT ALL PRIVILEGES/REVOKE ALL PRIVILEGES/SET PASSWORD/DROP USER sent by an administrator and executed by the REAL coordinator.StatementExecutor on a meta.Data-backed MetaClient: designed = every held {none,0,1,2,3} x {GRANT,REVOKE} x {READ,WRITE,ALL}, admin flag set/unset, password change, removal, refused/failed statements; generated sessions); the user VALUE returned by every Authenticate (grants + admin flag) compared with the current metadata; direct AuthorizeQuery/AuthorizeWrite calls incl. users not in the table and grants keyed by the empty name; cache histories of data.go operations, snapshots and authentications with current/old/foreign passwords; "
            "dbread: ONE SHOW-family statement per request through the real handler (auth on), real query.Executor and real coordinator.StatementExecutor over a real tsi1 tsdb.Store with one shard per database (4 databases, names unique per database): designed = 19 statement forms x ON {none, db0, db1} x sources {none, unqualified, db1, db0, mixed, two foreign} x default {db0, none} for a reader of db0, ON *.* / ON * x default x {reader, admin, no credentials}, missing databases; generated = random user tables, credentials, forms, ON clauses and 0-3 sources. "
            "distinct = distinct replayable description; non-trivial = something executed or was refused with 403 (req), non-empty table or query (authz), "
            "at least one successful authentication and two snapshots (hist), swap landed inside the call (race), status 200 or 403 (dbread)",
    "trusted_base": [
        "C16: influxql RequiredPrivileges()/parser are consumed, not verified, for statements outside the SHOW family: the harness asks the real code (meta.statementPrivileges = influxql RequiredPrivileges + showReadPrivileges, through verif_export_c16_privs.go) for each concrete statement and hands the list to both sides; for the SHOW family the list is MODELLED (Reads.v lib_privs/show_read_privs) and compared with the real one on every dbread case",
        "C16: dbread attributes a read to a database through the wrapped coordinator.TSDBStore (MeasurementNames, TagKeys, TagValues, cardinalities, sketches, ShardGroup as used by LocalShardMapper) and through names that exist in one database only appearing in the answer; the cluster's remote shard mapper (ClusterShardMapper/MetaExecutor) is replaced by coordinator.LocalShardMapper; the abstraction of the parsed SHOW statement (kind, ON, wildcard, EXACT, sources' databases) is read off the influxql AST by the harness",
        "C16: bcrypt abstracted as 'a stored hash verifies exactly the password it was generated from' (hash ids assigned by the harness); SHA-256 salted hash abstracted as an injective function of the password",
        "C16: JWT validation (dgrijalva/jwt-go) is a black box: the model accepts exactly token class 0 (HMAC, shared secret, future numeric exp, string username); 9 defective classes are exercised",
        "C16: statements reaching the executor are counted by a recording StatementExecutor; 'reach' (how far the executor loop goes once authorised) is measured on the same handler with auth disabled",
        "C16: the fake meta server only serves snapshots; the client's own pollForUpdates/updateAuthCache install them; VerifAuthCache (build tag verif) is a read-only view of the cache",
        "C16: user-management statements run in the real StatementExecutor against a MetaClient whose writes apply the real data.go operations to a meta.Data value and install it through the client's update loop (meta raft/HTTP command path not exercised); SET PASSWORD stores a pool hash chosen by the harness",
        "C16: the race case depends on timing to land the swap inside bcrypt (observable recorded; the property must hold for every landing position)",
    ],
    "modelled": "services/meta: UserInfo.AuthorizeDatabase, Data.user/CreateUser/DropUser/UpdateUser/SetPrivilege/SetAdminPrivilege/CreateDatabase/DropDatabase (user part), "
                "QueryAuthorizer.AuthorizeQuery, WriteAuthorizer.AuthorizeWrite, Client.Authenticate/updateAuthCache/metadata swap; services/httpd: parseCredentials, authenticate middleware, "
                "the authorisation-relevant prefix of serveQuery and serveWrite (v1/v2); coordinator.StatementExecutor SHOW DATABASES / SHOW CONTINUOUS QUERIES filtering through httpd.userQueryAuthorizer and its executeGrant/Revoke/GrantAdmin/RevokeAdmin/SetPasswordUser/DropUser statements (exec_stmt); "
                "SHOW family: influxql Show*Statement.RequiredPrivileges + Sources.RequiredPrivileges, meta.showReadPrivileges, query.Executor default database, query/statement_rewriter.go rewriteSources/rewriteSources2 (database of each source), "
                "coordinator NormalizeStatement/normalizeMeasurement (default + database-not-found), executeShowTagKeys/TagValues/Measurements (incl. ON *.* filter)/Series+MeasurementCardinality estimation: which databases are read (Reads.v). "
                "Not modelled: the other statement handlers of coordinator.StatementExecutor (which databases SELECT/DELETE/DROP touch is only covered by the trusted influxql privileges), SHOW MEASUREMENTS ON db.*, prom read/write, flux, pprof, "
                "ping auth, query execution, body parsing; concurrency only for Authenticate vs metadata swap",
    "assumptions": ["the cache's salted SHA-256 determines the password on the explored domain (premise salted_injective of the theorems)",
                    "bcrypt.CompareHashAndPassword(h, p) succeeds iff h was generated from p (explored passwords < 72 bytes)",
                    "requests in one case are served sequentially; a snapshot is 'reached' when pollForUpdates has installed it"],
    "harness_timeout": {"quick": 600, "thorough": 3000},
}

KNOWN_SIG = "C16:bootstrap-trailing-statements"


def classify(case):
    """Signature for exactly one failing shape: no users, the only thing executed/authorised is a
    multi-statement query whose first statement creates an administrator."""
    try:
        kind, desc, obs = case.get("kind"), case.get("desc") or {}, case.get("obs")
        if desc.get("users"):
            return None
        if kind == "authz":
            if obs.get("code") == 0 and obs.get("first_creates_admin") and obs.get("nstmts", 0) > 1:
                return KNOWN_SIG
            return None
        if kind == "req":
            hit = False
            for o in obs:
                if o.get("executed", 0) == 0:
                    continue
                if o.get("kind") != "query" or not o.get("first_creates_admin"):
                    return None          # something else ran without users: not this finding
                if o.get("executed", 0) > 1:
                    hit = True
            return KNOWN_SIG if hit else None
    except Exception:
        return None
    return None
