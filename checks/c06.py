CONFIG = {
    "manifest": {
        "text": "Theorems (Qed, closed under the global context) about a Gallina model of services/meta Data + storeFSM.Apply, for every metadata value "
                "reachable by ANY finite command sequence with arbitrary arguments and arbitrary per-replica prune oracles: shard/group/node IDs unique, "
                "bounded by their counters and never reused; live groups of a policy pairwise disjoint on [Start, min(End,TruncatedAt)); every owner of every "
                "shard is a current data node, listed once; DeleteDataNode strips the node everywhere; a new group has min(max(ReplicaN,1),#nodes) distinct "
                "existing owners per shard, spread evenly; a rejected command changes nothing; the model passes the executable spec on every input. "
                "The same executable spec and the model are evaluated inside Coq against two real FSM replicas on every generated command log "
                "(full metadata compared after every command). Replica agreement (apply_deterministic): the observable after any log is independent of the "
                "replicas' prune oracles, i.e. of their wall clocks.",
        "note": "Trusts Coq kernel, genconsts translator, the harness and its canonical dump; sort.Sort modelled as the stable sort (order of equal keys "
                "not modelled, groups compared as sets by ID); uint64 counter wrap not modelled; validateURL/strings.ToLower(non-ASCII)/raft are outside the model; "
                "SetDataCommand and legacy CreateNode/UpdateNode/DeleteNode commands excluded; replicas assumed to share config.RetentionAutoCreate.",
        "technique": "Coq proof (invariant by induction over command logs, relational frame lemmas per command) on a Gallina model of the metadata FSM + "
                     "differential correspondence: two real storeFSM replicas with different deletion-stamp ages vs the model, after every command",
    },
    "harness": "h_c06",
    "level": "proof",
    "n": {"quick": 250, "thorough": 2000},
    "shard": 20,
    "search_rounds": 1,
    "search_boost": 1,
    "extra_proof_files": ["ListLemmas", "Inv", "ProofsGroup", "ProofsCmd", "ProofsCreate", "ProofsEven", "ProofsDet"],
    "rule": "corpus of designed logs first (tie-break on orphan reassignment, CopyShardOwner to unknown/removed node, duplicate data-node ID through a meta node's ID, "
            "extreme timestamps and weekly alignment, truncate/refill/delete/prune, default-policy lookups, users/privileges), then seeded generation: each case is one log of "
            "8..58 commands (thorough: every 10th 100..250) of all 28 modelled kinds drawn from small colliding name/address pools, timestamps at and around existing group "
            "boundaries and int64 extremes, IDs mostly existing, node churn, invalid arguments; applied through the real storeFSM.Apply to two replicas (B later in wall time; "
            "PruneShardGroups preceded by ageing the deletion stamps of A, B, both or neither by 15 days). distinct = distinct log; non-trivial = at least one shard group "
            "created and at least 5 state-changing commands",
    "trusted_base": [
        "C06: the harness encodes commands as protobuf by hand (the generated package is internal) and drives storeFSM.Apply through services/meta/verif_export.go (no raft: RemovePeerCommand does not reach raft)",
        "C06: canonical dump: groups sorted by ID, privileges by database, times as exact unix nanoseconds, DeletedAt reduced to a flag; error -> class number by identity/prefix",
        "C06: a different wall clock is simulated by applying replica B later and by shifting DeletedAt of either replica 15 days back before PruneShardGroups; the set of groups a prune removed is read off the implementation and given to the model as that replica's oracle",
        "C06: validateURL's verdict is computed by the real function and passed to the model with the command; strings.ToLower modelled for ASCII only (generator emits ASCII)",
        "C06: sort.Sort(ShardGroupInfos/NodeInfos) modelled as the stable sort; Go's pdqsort is insertion sort (stable) up to 12 elements; node lists are compared in order (generator keeps <= 12 nodes), groups as sets",
        "C06: constants, shardGroupDuration thresholds, MaxNanoTime and the command list of storeFSM.Apply's switch are regenerated from the source by genconsts each run; unixToInternal (62135596800 s) is Go's time package constant",
    ],
    "modelled": "services/meta/data.go: every Data method called by the FSM (nodes, databases, policies, shard groups incl. time.Truncate/clipping/round-robin owners, "
                "DropShard/Copy/RemoveShardOwner/Truncate/Prune/DeleteDataNode+newShardOwner, CQs, subscriptions, users/privileges) and store_fsm.go Apply + all apply*Command "
                "are modelled (theories/C06/Model.v); protobuf (un)marshalling, raft, HTTP handlers, SetData and legacy node commands are not",
    "assumptions": ["command arguments have their Go types (Timestamp is an int64: cmd_wf)",
                    "all replicas run with the same config.RetentionAutoCreate",
                    "ID counters do not wrap at 2^64 (needs > 2^32 commands)"],
}


def classify(case):
    return None
