CONFIG = {
    "manifest": {
        "text": "Theorems (Qed, closed under the global context) about a Gallina model of PointsWriter.MapShards + sgList + "
                "Client/Data.CreateShardGroup + ShardFor + FNV-64a: for every metadata satisfying the invariant (well-formed groups, no time "
                "accepted by two live groups; shown preserved by group creation), every policy, clock and batch within the write contract, "
                "MapShards succeeds and its ShardMapping is exactly the one in which each batch position sits where a routing function of "
                "(resulting metadata, cut-off, point) sends it: the hash-selected shard of THE live, untruncated-at-t group (exactly once), "
                "or Dropped iff older than the retention period; positions are conserved; two calls ending in the same groups route a shared "
                "point identically; re-running permutations/sub-batches/single points on the resulting metadata changes nothing. "
                "The model is diffed against the real MapShards over a real meta.Data on designed + generated histories and batches.",
        "note": "Trusts Coq kernel, genconsts, the harness; Go time.Time arithmetic modelled in Z; sort.Sort modelled by a stable insertion sort "
                "(equal when no ties under Less); the metadata invariant is a hypothesis (established for reachable metadata by C06); key "
                "canonicalisation (tag order) is C12's. Two defects were found and repaired by fix: commits (truncation ignored by sgList; "
                "too-old point written when a batch-mate's group covers it); refutations of the unrepaired models are kept as theorems.",
        "technique": "Coq proof (loop invariants over batches and group lists, permutation reasoning) on an executable Gallina model + "
                     "differential correspondence against the real routing code",
    },
    "harness": "h_c08",
    "level": "proof",
    "n": {"quick": 800, "thorough": 20000},
    "shard": 120,
    "extra_proof_files": ["PSga", "PMeta", "PLink", "TagOrder"],
    "rule": "designed cases (boundaries End-1/End/Start, truncated group with and without successor, Min/MaxNanoTime and the zero time, "
            "deleted group, altered shard duration, too-old point alone and in company, many shards) then seeded generation: a metadata history "
            "of 0-6 real meta.Data operations (CreateShardGroup, altered ShardGroupDuration, TruncateShardGroups, DeleteShardGroup; 12% of "
            "cases also hand-made possibly overlapping groups = malformed stream) with 0-5 data nodes, replication 0-3, shard durations 1ns..100y, "
            "infinite or finite policy; batch of 0-8 points over 5 measurements x 7 tag sets, 50% of timestamps on group boundaries/truncation "
            "times +-1 and the extreme timestamps, duplicates, cut-off +-2s..1h; then a shuffle, 1-2 single points and a random subset of the "
            "batch re-run on a copy of the resulting metadata. In 40% of the cases the metadata goes through Data.MarshalBinary/UnmarshalBinary "
            "before MapShards (what a data node's client cache holds) and the round trip is checked to be the identity on the routing fields "
            "(kind rt; biased to groups ending exactly at the Unix epoch and starting at the clamped MinInt64). distinct = distinct input description; non-trivial = at least one point mapped",
    "trusted_base": [
        "C08: time.Time Truncate/Add/Before/After are modelled as exact integer arithmetic on nanoseconds since the epoch (no wrap in the "
        "ranges reachable from int64 timestamps and int64 durations); IsZero as equality with the year-1 instant",
        "C08: sort.Sort(ShardGroupInfos) is modelled by a stable insertion sort over ShardGroupInfos.Less: equal results whenever no two groups "
        "tie on (effective end, start), which the invariant implies for live groups; resulting metadata are compared as sets",
        "C08: the retention cut-off uses time.Now() inside MapShards; the harness brackets the call and discards a case when a point lies "
        "inside the bracket shifted by the duration (never observed), so cut-off inclusivity at nanosecond precision is proved on the model only",
        "C08: the fake MetaClient reproduces meta.Client.CreateShardGroup (lookup, apply Data.CreateShardGroup, lookup) without the raft round trip; "
        "RetentionPolicy/ShardGroupByTimestamp/CreateShardGroup/TruncateShardGroups/DeleteShardGroup are the repository's meta.Data methods",
        "C08: FNV-64a parameters and Min/MaxNanoTime are regenerated from models/inline_fnv.go and models/time.go by genconsts on every run",
        "C08: metadata invariant (wf groups, live groups disjoint on effective ranges) is a hypothesis of the routing theorems; it is checked "
        "executably on every recorded metadata and proved preserved by the modelled CreateShardGroup",
    ],
    "modelled": "coordinator/points_writer.go MapShards, sgList.Add/Covers/ShardGroupAt, effectiveEnd, ShardMapping.MapPoint; services/meta/data.go "
                "ShardGroupInfo.Contains/Deleted/Truncated/ShardFor, ShardGroupInfos.Less, ShardGroupByTimestamp, Data.CreateShardGroup; "
                "services/meta/client.go CreateShardGroup (without raft); models point.HashID/InlineFNV64a are modelled (theories/C08/Model.v). "
                "Series-key construction (tag sorting/escaping), shard owners, WritePoints fan-out, raft and the meta cache are not modelled",
    "assumptions": ["metadata invariant: groups well-formed, no timestamp accepted by two live groups (C06)",
                    "write contract: >=1 data node, 0 < ShardGroupDuration < 2^63 ns, in-retention timestamps within [MinNanoTime, MaxNanoTime]",
                    "time.Time arithmetic exact (no overflow) in the modelled ranges"],
}


def classify(case):
    return None
