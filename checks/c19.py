CONFIG = {
    "manifest": {
        "text": "PARTIAL. Theorems (Qed, closed under the global context) over EVERY schedule of any number of threads of atomic sections, "
                "for Gallina models of the synchronisation design: field creation (validate / create-if-not-exists / engine type check) leaves a field "
                "with one type and only values of that type; the connection pool keeps Size = idle + checked-out + being-dialled <= cap with no connection "
                "in two places, for callers that close each handle at most once (refuted without that discipline); shard writes vs snapshot/compaction vs "
                "reads: a read returns every write acknowledged before it began and acknowledged writes stay visible; a published metadata value is never "
                "modified, an accepted authentication matches the user record that call read, waitForIndex has no lost wake-up, and the lazily allocated tsm1 cache store loses no acknowledged write, neither to a concurrent first write (Cache.init) nor to the release of an idle shard's store (Engine.Free under the engine lock). That each modelled section is atomic and race-free in the Go "
                "code is NOT proved: it is observed by a -race stress harness over the real tsdb.Store/Shard, coordinator pool and remote-iterator path, "
                "hinted-handoff service and meta service/client, each run ending in a quiescent comparison with the acknowledged operations and replayed on the model.",
        "note": "Trusts Coq kernel, the harness and its logging order, the Go race detector; data races inside a section, deadlocks of real mutexes and "
                "scheduler/memory-model effects are outside the model (observed only). Hinted handoff has no Gallina model (stress + counting oracle only).",
        "technique": "Coq proof (interleaving semantics, invariants by induction on the schedule) + -race stress of the real code in child processes with "
                     "history replay on the model",
    },
    "harness": "h_c19",
    "race": True,
    "level": "proof",
    "n": {"quick": 220, "thorough": 900},
    "shard": 40,
    "shrink": False,
    "search_rounds": 1,
    "search_boost": 1,
    "harness_timeout": {"quick": 900, "thorough": 3600},
    "extra_proof_files": ["ProofsGen", "ProofsPool", "ProofsField", "ProofsShard", "ProofsMeta", "ProofsWait", "ProofsCacheInit"],
    "rule": "designed runs first (the field-creation race schedule that refuted the pinned code; a double Close of a pooled connection; a starved pool), then seeded "
            "stress runs, each in a child process built with -race: pool (2-8 goroutines Get/MarkUnusable/Close against a counting factory, pruner on, dial failures, "
            "time-outs, Pool.Close at the end or racing the Closes), field creation under random enforced schedules (validator hook) and free-running conflicting writers, "
            "shard (writers, readers with a logical clock, WriteSnapshot, full compactions, writes+deletes of other series), remote iterators (random SELECT shapes through "
            "ClusterShardMapper/MetaExecutor against a real coordinator.Service on loopback, some abandoned undrained), meta client/service (retention-policy updates vs readers "
            "holding published objects), meta.Client updates against a snapshot server that publishes within +-60us of its answer (every call must return: no lost wake-up), "
            "authentication vs password change, goroutines released together writing to the same brand-new series (cache key), goroutines released together making the first writes to a new or freed tsm1.Cache (10000 rounds per run; all lossy rounds and a sample of the others go into the case), a write racing with what Store.monitorShards does to an idle shard (new shard, one point, cache snapshot, then `if IsIdle { Free }` against a second write delayed 0-150us; 120 rounds per run), hinted handoff (WriteShard for 3 nodes vs sender, purger and Close). "
            "One case per run; distinct = distinct seed/history; non-trivial = the run had concurrency effects to compare (conflicts, reads, reuse of connections...)",
    "trusted_base": [
        "C19: PARTIAL claim - the theorems are about the interleavings of atomic sections; atomicity/race-freedom of each section in the Go code is observed under -race, not proved",
        "C19: histories are logged next to the real calls under a harness mutex (Get after return, Close/MarkUnusable before the call, underlying Close inside it); the pool model "
        "treats the idle channel as a bag with possibly-missing polls so that such a history replays although log order and effect order differ slightly",
        "C19: race reports / deadlock time-outs / panics of the child process are recorded as obs.race / obs.timeout / obs.panic of the run in progress",
        "C19: hinted handoff and the remote-iterator path have no step-level model: counting oracle (acked <= delivered-or-queued <= attempted; pool Size == live server connections)",
        "C19: shard runs end with a second store opened on a copy of the files on disk: a point counts as finally readable only if both stores return it",
        "C19: hooks: tsdb.VerifDefaultFieldValidator, coordinator.MetaExecutor.VerifPoolStats, meta.VerifSetBcryptCost (build tag verif)",
    ],
    "modelled": "modelled: shard.go validateSeriesAndFields/CreateFieldIfNotExists/tsm1 WritePoints type checks; coordinator/pool.go boundedPool+pooledConn (Get split at "
                "its channel operations, put, Close, MarkUnusable, prune, Pool.Close); tsm1 write (cache, WAL, ack) vs Cache.Snapshot/FileStore.Replace/ClearSnapshot/"
                "compaction vs cursor construction (cache first, then files); tsm1 Cache.init (flag load, locked install-then-flag section) vs store fetch / store write / return of WriteMulti under e.mu.RLock vs the monitor's IsIdle and Engine.Free (exclusive lock, second look at the size), with a whole cache snapshot as one step; meta pointer swap + Client.Authenticate cache. Not modelled: LWW/overwrites and deletes (C01/C10), "
                "WAL durability, TSM file contents, raft, hinted-handoff queues (C04), network behaviour, the Go memory model",
    "assumptions": ["each modelled section is atomic and free of data races (observed under the Go race detector, not proved)",
                    "no deadlock among the real mutexes (observed by time-outs of the stress runs, not proved)",
                    "callers of the pool close every pooledConn at most once (observed on the remote-iterator path; the code has no guard)",
                    "bcrypt is modelled as an injective function of the password"],
}


def classify(case):
    return None
