CONFIG = {
    "manifest": {
        "text": "PARTIAL (leader election, log replication, durable storage = hashicorp/raft + boltdb, not modelled: they enter as the hypothesis RaftLog). "
                "Theorems (Qed, closed under the global context) on a Gallina model built on C06's metadata FSM: Data.unmarshal(Data.marshal d) = d for every "
                "metadata value satisfying the representation predicate wf, wf holds for every value reachable by any command log whose arguments have their Go types "
                "(every int64 timestamp since fix 78b5206), with marshal/unmarshal modelled field by field incl. uint32/int32/UnixNano "
                "conversions, optional TruncatedAt, DeletedAt stamps, privilege maps, recomputed adminUserExists; any two replicas satisfying RaftLog converge (canonical "
                "metadata), snapshot at any index + replay of the suffix = the whole log, a client cache = the leader's value; a snapshot or published value taken at any point "
                "of any schedule still reads, after any further commands, the value at that point (heap model with aliasing for Clone / Snapshot / in-place Term+Index stamps and "
                "node-list writes; every other slice/map a *Data reaches is copied by Clone - all 12 fields re-read from the source - and a copied slice is proved unaffected by append/remove/assign through the copy); for EVERY byte string, validateCommand accepting it implies storeFSM.Apply does not panic on it (type and extension tables re-read "
                "from the source each run); store.remove's reset decision (re-read from the source) never wipes the store of a node that removes ANOTHER raft peer; "
                "log snapshotting under write faults: storeFSMSnapshot.Persist (statement by statement) and the Cancel/Close of raft's takeSnapshot around it, against raft's FileSnapshotSink "
                "as a state machine (per Write call ok / k bytes then error, finalisation in Close ok / error, the first of Close and Cancel decides): for EVERY marshal result, EVERY open sink and "
                "EVERY fault oracle a sink that ends up committed holds exactly the marshalled image and Persist returned nil, an error of Persist leaves nothing committed, without a fault "
                "the image is committed, and (with the round-trip theorem) restoring ANY committed snapshot yields the snapshotted value. "
                "MONITOR (observed, not proved; raft membership is outside the model): in both tiers four membership scenarios run on real meta services (join 1->2, /remove of the "
                "follower of a 2-node and of a 3-node cluster, /leave + re-join, with acknowledged commands before and after): no surviving node's index goes backwards, cluster id kept, "
                "every acknowledged database present, survivors equal to the model applied to the acknowledged log. The same model and an executable spec are evaluated in Coq against the real storeFSM (Snapshot, further commands, Persist, Restore "
                "into a fresh store, replay), the real Persist against fault-injecting sinks (in memory and a real raft.FileSnapshotStore in a temp directory: what List()/Open() give a restart) "
                "and the real validateCommand/Apply on designed + generated inputs.",
        "note": "Trusts Coq kernel, genconsts translator, the harness and its canonical dump; RaftLog (raft's guarantees) is an assumption, validated by a short real-raft soak in both tiers (three meta.Service nodes: acknowledged commands, forced raft snapshots on two nodes, more commands, restart of the whole cluster from snapshot + log suffix, one more command; every node must equal the model applied to the acknowledged log) and by longer random soaks in the thorough tier; "
                "protobuf wire encoding = identity on the generated structs (Section hypothesis); privilege-map iteration order not modelled (compared as sets); "
                "everything C06 trusts (sort stability, excluded legacy commands, shared RetentionAutoCreate).",
        "technique": "Coq proof (round-trip by structural induction, invariant preservation per command, refinement + frame lemmas for a heap machine with aliasing, "
                     "finite table check lifted to all envelopes) + differential correspondence against the real FSM snapshot/restore path and command validation",
    },
    "harness": "h_c07",
    "level": "proof",
    "coq_deps": ["C06"],
    "n": {"quick": 360, "thorough": 2500},
    "shard": 25,
    "search_rounds": 1,
    "search_boost": 1,
    "bytes_keys": ["b"],
    "extra_proof_files": ["ProofsMarshal", "ProofsWf", "ProofsHeap", "ProofsSlice", "ProofsPersist"],
    "harness_timeout": {"quick": 600, "thorough": 3000},
    "rule": "snapshot attempts under planted faults (kind persistfault): designed = 4 states (empty store, small, rich with deleted/truncated groups + users with privileges, image beyond the "
            "sink's 4096-byte buffer) x {in-memory sink, real FileSnapshotStore} x {Close ok, Close fails} x write fault after {none, 0, 1, len/2, len-1, len, len+1} bytes, some with a prior good "
            "snapshot in the store and with commands between Snapshot() and Persist; generated = n/4 random command logs with a random fault (25% on the file store); non-trivial = a fault fired; "
            "membership monitor (4 fixed scenarios on real meta services, run concurrently, both tiers; thorough: a second set with more commands); corpus first (the probe schedules of the five repaired defects: node-list aliasing through Clone for a published value and for a pending snapshot, Subscriptions array shared by "
            "RetentionPolicyInfo.clone (drop of a non-last subscription; append after a shrink), Term/Index restamp of a pending "
            "snapshot by a rejected command, group truncated at the Unix epoch, every rejected envelope shape; the former finding repaired by 78b5206: shard group for a timestamp next to MinInt64), then "
            "designed raw envelopes (every command type x {valid, no extension, wrong extension, own+other extension, empty body, body cut, body garbage, extension as varint, truncated, "
            "extension before type, type twice} + unknown/negative type numbers + garbage), then seeded generation: 60% schedules of 8..48 commands (thorough: every 10th 100..220) of all 28 "
            "modelled kinds from C06's generator, with Snapshot()/store.snapshot() taken at random points (biased to just before node-list and subscription/user/policy-list mutations; policies with several subscriptions), persisted after further commands, restored "
            "into a fresh store, suffix replayed; 40% mutated envelopes (bit flips, cuts, random bodies, random type/extension pairs). distinct = distinct schedule / byte string; "
            "non-trivial = a handle persisted after at least one later state-changing command in a log with a shard group (snap), envelope that unmarshals (raw)",
    "trusted_base": [
        "C07: RaftLog (every replica applies a prefix of one committed log, possibly restarting from Restore(Persist(state at k))) is ASSUMED of hashicorp/raft; quick tier does not exercise raft",
        "C07: gogo/protobuf encode/decode of internal.Data is the identity on the generated structs (Section hypothesis proto_roundtrip); for command envelopes the library's verdict "
        "(proto.Unmarshal ok, GetType, HasExtension/GetExtension per registered extension) is read off the real library through services/meta/verif_export_c07.go and given to the model",
        "C07: the harness drives storeFSM.Snapshot/Persist/Restore, store.snapshot(), validateCommand through services/meta/verif_export_c07.go (in-memory raft.SnapshotSink); Persist is called from the "
        "same goroutine (the interleaving with Apply is sequential: data races during a concurrent Persist are outside the model)",
        "C07: persistfault cases: faults are planted by a wrapper sink of the harness (Write forwards the first k bytes and returns an error; a failing Close removes the temporary snapshot like "
        "FileSnapshotSink.Close does when finalize() fails); 'image' is what Persist offered to Write in that very call (MarshalBinary is not byte-deterministic: privilege maps); commitment on the file store "
        "is FileSnapshotStore.List(), the bytes FileSnapshotStore.Open() (CRC-checked), on the in-memory sink a flag set by Close; a Close failing AFTER the rename (directory fsync, reaping) and an error of "
        "MarshalBinary are in the model's oracle but cannot be provoked on the real code; real disk faults below the sink interface are not exercised",
        "C07: dumps as in C06 (groups by ID, privileges by database, exact unix nanoseconds) plus the (group ID, DeletedAt) pairs; Go's append growth only matters for the unrepaired shallow Clone",
        "C07: membership scenarios and the thorough soak start real meta.Service instances on loopback ports with temp directories; a scenario that does not settle in time without any node "
        "regressing (index backwards / cluster id changed) is counted inconclusive and emits nothing; commands are POSTed as raw protobuf to /execute, membership through /join, /remove, /leave",
        "C07: command/extension tables, 'store.remove resets iff len(s.peers()) <= 1', 'Clone copies node lists', 'every slice/map field of every struct reachable from Data is assigned in its clone method', 'Snapshot clones', "
        "'validateCommand checks extension' are re-read from the source by genconsts each run; the heap machine keeps everything but the two node lists by value on the strength of that fact and of the differential run",
    ],
    "monitors": ["membership (store.join/remove/leave/reset over real hashicorp/raft): OBSERVED on 4 fixed scenarios per run, NOT proved; only store.remove's reset decision has a theorem (remove_keeps_metadata)"],
    "modelled": "services/meta/data.go marshal/unmarshal of Data and every nested type, Clone; store_fsm.go Snapshot/Persist (incl. its sink calls and error paths)/Restore and the head of Apply (unmarshal, type switch, GetExtension + "
                "type assertion); handler.go validateCommand; store.snapshot(). store.go remove: only the reset decision. hashicorp/raft: only the SnapshotSink protocol of FileSnapshotSink and the three statements of takeSnapshot around Persist. NOT modelled: raft membership (join/leave/remove/reset beyond that decision: monitored), raft_state.go, client.go long polling/retry, service.go, the HTTP layer, hashicorp/raft, boltdb",
    "assumptions": ["RaftLog: hashicorp/raft delivers to every replica a prefix of one committed log and only ever installs images persisted from a state at the same log position",
                    "protobuf decode(encode(x)) = x on the generated structs",
                    "wall-clock deletion stamps are not the Unix epoch (time.Now().UnixNano() != 0)",
                    "everything C06 assumes"],
}


def classify(case):
    # no open finding: the former C07:group-start-before-int64-range was repaired by 78b5206
    return None
