CONFIG = {
    "manifest": {
        "text": "Theorems (Qed, closed under the global context). Framing, over every byte stream: ReadLV never panics and allocates < MaxMessageSize, "
                "an accepted frame is exactly the framed payload, WriteTLV/ReadTLV and frame streams round-trip, the handleConn dispatch loop never "
                "panics in the framing layer. Streamed query points, over a byte-exact model of the gogo/protobuf wire format of internal.Point/Aux/IteratorStats "
                "and of the 4-byte frame prefix and reader loop: for EVERY well-formed point of each of the five value types (any name bytes, tags id, time, nil flag, "
                "aux list with typed values, typed nil markers, empty strings, untyped nil, any aggregate count) decode(encode p) = p; a stream of point / stats / trace "
                "frames decodes to the same point sequence; Tags.ID() round-trips for NUL-free tag maps; for EVERY byte string the frame reader and message decoder "
                "return Ok or Err, never crash. Request/reply pairing on pooled connections, over a FIFO-connection model of the client pools: for EVERY call sequence, "
                "if a connection whose reply was not fully read is never reused, every reply frame a call reads answers that call's own request (and a refutation without the discipline). Storage-layer faults: a second in-process node whose store panics on one shard is sent well-formed requests of three handler families; the panic must not escape handleConn (the data node would die), must be counted, and the next request must be served (observed; recover() is a Go runtime mechanism, not modelled). MaxMessageSize, the dispatch table and the protobuf field tables (numbers, wire kinds, labels) are re-read from the source "
                "each run. The models are diffed against the real ReadLV/WriteTLV/handleConn, the real <T>PointEncoder/IteratorEncoder (byte equality) and the real "
                "<T>PointDecoder/NewReaderIterator (decoded values; ok/err/panic class on arbitrary and mutated frames). Differential only (no theorem): well-formed "
                "request envelopes with invalid or edge contents for every message type are fed to the real handleConn (no handler may panic, reply types must match the "
                "dispatch model), and Unmarshal(Marshal(v)) = v is checked for every request/response type of rpc.go. The real ShardWriter and MetaExecutor clients with their real "
                "connection pool are driven against a scripted node (late, error, undecodable, missing replies; cut and stalled connections): what each caller is handed and which "
                "connection each request used are checked against the pairing model and the executable spec.",
        "note": "Trusts Coq kernel, genconsts translator, the harness and its canonicalisers; io.ReadFull semantics; gogo/protobuf is modelled for the three streamed-point "
                "messages only; rpc.go message bodies (protobuf, JSON, influxql String/Parse) and the request handlers are exercised, not modelled; heap use beyond the frame "
                "buffer is not modelled (the point frame reader allocates the announced uint32 length before reading).",
        "technique": "Coq proof (induction over byte streams / field lists, fuel-independent reader loop) on Gallina models of the TLV framing and of the streamed point wire "
                     "format + differential correspondence against the real listener, encoders and decoders",
    },
    "harness": "h_c15",
    "level": "proof",
    "extra_proof_files": ["PointProofs", "PairProofs"],
    "n": {"quick": 2000, "thorough": 12000},
    "shard": 300,
    "bytes_keys": ["stream", "buf", "name", "key", "val", "s"],
    "harness_timeout": {"quick": 1500, "thorough": 3000},
    "rule": "designed cases, always run: (framing) every special length x every dispatch kind, every type byte 0..45 with empty payload and with EOF; "
            "(A, kind serve) for every request type of the dispatch table, well-formed envelopes built with the real request structs' MarshalBinary and WriteTLV whose contents are "
            "invalid or at an edge: WriteShard with unparsable/empty/truncated/bit-flipped binary points and unknown shards; ExecuteStatement and TaskManagerStatement with "
            "'', ' ', ';', comments, unparsable, non-cluster and multi-statement texts; MeasurementNames/TagKeys/TagValues with nil, unparsable and system-tag conditions; "
            "CreateIterator/IteratorCost/FieldDimensions/MapType/ExpandSources with empty and regex measurements, empty/unknown/duplicate shard lists, every field x every data type, "
            "calls without arguments, negative and extreme limits/intervals/time ranges; StoreReadFilter/ReadGroup with empty requests, bad read sources, bad predicates, unsupported "
            "group and aggregate kinds; Backup/Copy/RemoveShard with unknown ids and bad hosts; JoinCluster with empty servers; RemoveHintedHandoff; ListShards; LeaveCluster; "
            "several requests on one connection - all against a real tsdb.Store holding series of every field type; "
            "(B, kind rpc) every request/response type of rpc.go: zero value, typical value, extremes; "
            "(C, kinds point/stream/raw/ptconsts) every aux kind alone (incl. '' vs the string nil marker) and all together for each of the 5 point types, extreme names/times/values, "
            "IteratorEncoder streams with and without trace frame and with periodic stats frames firing mid-stream (slow source, 1 ms stats interval), every truncation of a valid frame, hand-built frames (missing required fields, empty stats/trace, aux without DataType, "
            "groups, stray end-group, unknown wire types, short fixed32); "
            "(D, kind pair) for each of WriteShard, ExecuteStatement, TaskManagerStatement, MeasurementNames, TagKeys, TagValues, FieldDimensions, MapType, IteratorCost: sequences of 3-4 "
            "token-carrying requests through the real client and pool (120 ms timeout) to a scripted node whose replies echo the token it read: first reply late and arriving while idle, "
            "late reply overtaken by the next request, error / undecodable replies, cut, half-written and stalled connections, mixed request types on one pooled connection. Then seeded generation (n/40 random pairing scenarios; (1/16 ReadLV, 1/16 WriteTLV, 2/16 random listener streams, 3/16 designed envelopes with "
            "payload bytes flipped/truncated/extended and re-framed, 3/16 rpc values, 3/16 points, 1/16 encoder streams, 2/16 raw/mutated/hand-built frame streams). "
            "distinct = distinct byte stream / value; non-trivial = header complete (lv), non-empty payload (wr), at least one reply frame (serve), non-default value (rpc), "
            "point with name, tags or aux (point), at least one point (stream), at least one frame header (raw), >= 2 calls with a late or non-success reply (pair)",
    "trusted_base": [
        "C15: request/response structs of coordinator/rpc.go (gogo/protobuf, JSON, influxql String/Parse) are NOT modelled: their round trip (kind rpc) and the handlers' behaviour "
        "on valid envelopes with invalid contents (kind serve) are differential observations only, no theorem; JSON-carried strings are generated as valid UTF-8, tag keys/values without NUL",
        "C15: the streamed point model covers messages Point/Aux/IteratorStats of query/internal/internal.proto as gogo/protobuf v1.3.2 table marshal/unmarshal treats them (proto2); "
        "field numbers, wire kinds and labels are regenerated from internal.pb.go by genconsts on every run, the influxql.DataType codes are compared with the working tree by case ptconsts",
        "C15: a handler panic is observed through the handlerPanic statistic of the (repaired) handleConn recover, or directly when it escapes handleConn; a panic in a goroutine "
        "spawned by a handler kills the harness process and is reported by bin/check with the announced input",
        "C15: allocation is observed through runtime.MemStats.TotalAlloc deltas (>= MaxMessageSize or not) for ReadLV only",
        "C15: the dispatch table and MaxMessageSize are regenerated from coordinator/service.go by genconsts on every run",
        "C15: pairing model: TCP connections are FIFO and the node answers the requests of one connection in order (the fake node does, like handleConn); whether a call timed out and "
        "whether the pooled connection was reused are OBSERVED inputs of the model (timing is not predicted); calls are sequential per pool",
        "C15: decodeIteratorTrace is abstracted as a predicate trace_ok on the trace bytes (the harness decodes under context.Background(), where it accepts everything)",
    ],
    "modelled": "modelled with theorems: coordinator/service.go ReadType/ReadLV/ReadTLV/WriteTLV/WriteLV and the type switch of handleConn (theories/C15/Model.v); query/point.go "
                "encodeTags/decodeTags/newTagsID, encodeAux/decodeAux, query/point.gen.go encode<T>Point/decode<T>Point and <T>PointEncoder/<T>PointDecoder, the reader loop of "
                "<t>ReaderIterator.Next, IteratorEncoder stats/trace frames, protobuf wire encoding/decoding of Point/Aux/IteratorStats incl. unknown fields, wrong wire types, groups, "
                "required-field check (theories/C15/PointModel.v); the unread-reply queue of a pooled client connection and the reuse discipline of shard_writer.go / meta_executor.go / pool.go "
                "(theories/C15/PairModel.v). Differential only: process* request handlers, every rpc.go message body, TCP behaviour",
    "assumptions": ["io.ReadFull/binary.Read semantics: a short read consumes all remaining bytes and returns an error (io.EOF when nothing was read)",
                    "heap use beyond the TLV frame buffer is not modelled; the point frame reader's make([]byte, sz) for a uint32 sz is outside the MaxMessageSize claim",
                    "well-formed point: 64-bit values, uint32 aggregate count, Tags.ID() of a tag map without NUL bytes, aux values of the ten typed kinds or untyped nil, frame body < 2^32 bytes"],
}


def classify(case):
    return None
