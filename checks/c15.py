CONFIG = {
    "manifest": {
        "text": "Theorems (Qed, closed under the global context). Framing, over every byte stream: ReadLV never panics and allocates < MaxMessageSize, "
                "an accepted frame is exactly the framed payload, WriteTLV/ReadTLV and frame streams round-trip, the handleConn dispatch loop never "
                "panics in the framing layer. Streamed query points, over a byte-exact model of the gogo/protobuf wire format of internal.Point/Aux/IteratorStats "
                "and of the 4-byte frame prefix and reader loop: for EVERY well-formed point of each of the five value types (any name bytes, tags id, time, nil flag, "
                "aux list with typed values, typed nil markers, empty strings, untyped nil, any aggregate count) decode(encode p) = p; a stream of point / stats / trace "
                "frames decodes to the same point sequence; Tags.ID() round-trips for NUL-free tag maps; for EVERY byte string the frame reader and message decoder "
                "return Ok or Err, never crash. Request / response bodies, over a GENERIC byte-exact model of gogo/protobuf's table marshaler / unmarshaler "
                "(schema = fields in tag order with label optional/required/repeated/packed and kind varint/zigzag/fixed64/fixed32/bytes/nested message; tag loop, illegal tag 0, "
                "wire-type mismatch and unknown fields skipped and kept in XXX_unrecognized, groups, last-one-wins, append, packed blocks, merge of repeated nested messages, "
                "RequiredNotSetError remembered, length checks): for EVERY well-formed schema and EVERY well-formed message value Unmarshal(Marshal(m)) = m (induction over nesting depth, "
                "fields and elements) and for EVERY schema and EVERY byte string the decoder returns Ok or Err, never crash. The schema of EVERY message of coordinator/internal/data.pb.go "
                "(struct tags + Go field types) and the table message-type code -> request / response body (service.go constants, EncodeTLV calls, rpc.go wrappers) are regenerated each run; "
                "each regenerated schema is checked well-formed inside Coq, hence every request and response body round-trips. The rpc.go wrappers WriteShardRequest (binary points as opaque "
                "blobs, unmarshalPoints dropping undecodable ones), ExecuteStatementRequest, CreateIteratorRequest (Measurement / Opt / SpanContext blobs) and CreateIteratorResponse (Type as int32, "
                "nested stats) are modelled and proved lossless, the codecs of the opaque payloads entering as hypotheses. Request/reply pairing on pooled connections, over a FIFO-connection model of the client pools: for EVERY call sequence, "
                "if a connection whose reply was not fully read is never reused, every reply frame a call reads answers that call's own request (and a refutation without the discipline). Storage-layer faults: a second in-process node whose store panics on one shard is sent well-formed requests of three handler families; the panic must not escape handleConn (the data node would die), must be counted, and the next request must be served (observed; recover() is a Go runtime mechanism, not modelled). MaxMessageSize, the dispatch table and the protobuf field tables (numbers, wire kinds, labels) are re-read from the source "
                "each run. The models are diffed against the real ReadLV/WriteTLV/handleConn, the real <T>PointEncoder/IteratorEncoder (byte equality) and the real "
                "<T>PointDecoder/NewReaderIterator (decoded values; ok/err/panic class on arbitrary and mutated frames). Differential only (no theorem): well-formed "
                "request envelopes with invalid or edge contents for every message type are fed to the real handleConn (no handler may panic, reply types must match the "
                "dispatch model), and Unmarshal(Marshal(v)) = v at the level of the rpc.go wrapper values (JSON, influxql String/Parse, sketches inside the protobuf bodies) is checked for every "
                "request/response type of rpc.go. The generic protobuf model is diffed against the real proto.Marshal / proto.Unmarshal for every message type of data.proto: byte equality of the "
                "encoding and of the error flag for generated values (nil/set/empty/long/nested), and ok/err/panic class, decoded value incl. unknown fields and re-marshaled bytes for truncated, "
                "mutated, hand-built and random inputs; the four wrapper models are diffed byte for byte against the real MarshalBinary and getter for getter against UnmarshalBinary. The real ShardWriter and MetaExecutor clients with their real "
                "connection pool are driven against a scripted node (late, error, undecodable, missing replies; cut and stalled connections): what each caller is handed and which "
                "connection each request used are checked against the pairing model and the executable spec.",
        "note": "Trusts Coq kernel, genconsts translator, the harness and its canonicalisers; io.ReadFull semantics; gogo/protobuf v1.3.2 table marshal/unmarshal is modelled (hand-translated from "
                "proto/table_marshal.go, table_unmarshal.go) and tied by byte-level differential runs, not compiled from its source; JSON / influxql String+Parse / sketch payloads inside rpc.go "
                "bodies and the request handlers are exercised, not modelled; heap use beyond the frame "
                "buffer is not modelled (the point frame reader allocates the announced uint32 length before reading).",
        "technique": "Coq proof (induction over byte streams / field lists / schema nesting depth, fuel-independent reader loops) on Gallina models of the TLV framing, of the streamed point wire "
                     "format and of the generic protobuf message codec + differential correspondence against the real listener, encoders and decoders",
    },
    "harness": "h_c15",
    "level": "proof",
    "extra_proof_files": ["PointProofs", "PairProofs", "ProtoProofs", "WrapProofs"],
    "n": {"quick": 2000, "thorough": 12000},
    "shard": 500,
    "bytes_keys": ["stream", "buf", "name", "key", "val", "s"],
    "harness_timeout": {"quick": 1500, "thorough": 3000},
    "rule": "designed cases, always run: (framing) every special length x every dispatch kind, every type byte 0..45 with empty payload and with EOF; "
            "(A, kind serve) for every request type of the dispatch table, well-formed envelopes built with the real request structs' MarshalBinary and WriteTLV whose contents are "
            "invalid or at an edge: WriteShard with unparsable/empty/truncated/bit-flipped binary points and unknown shards; ExecuteStatement and TaskManagerStatement with "
            "'', ' ', ';', comments, unparsable, non-cluster and multi-statement texts; MeasurementNames/TagKeys/TagValues with nil, unparsable and system-tag conditions; "
            "CreateIterator/IteratorCost/FieldDimensions/MapType/ExpandSources with empty and regex measurements, empty/unknown/duplicate shard lists, every field x every data type, "
            "calls without arguments, negative and extreme limits/intervals/time ranges; StoreReadFilter/ReadGroup with empty requests, bad read sources, bad predicates, unsupported "
            "group and aggregate kinds; Backup/Copy/RemoveShard with unknown ids and bad hosts; JoinCluster with empty servers; RemoveHintedHandoff; ListShards; LeaveCluster; "
            "several requests on one connection - all against a real tsdb.Store holding series of every field type; "
            "(B, kind rpc) every request/response type of rpc.go: zero value, typical value, extremes; "
            "(C, kinds point/stream/raw/ptconsts) every aux kind alone (incl. '' vs the string nil marker) and all together for each of the 5 point types, extreme names/times/values, "
            "IteratorEncoder streams with and without trace frame and with periodic stats frames firing mid-stream (slow source, 1 ms stats interval), every truncation of a valid frame, hand-built frames (missing required fields, empty stats/trace, aux without DataType, "
            "groups, stray end-group, unknown wire types, short fixed32); "
            "(D, kind pair) for each of WriteShard, ExecuteStatement, TaskManagerStatement, MeasurementNames, TagKeys, TagValues, FieldDimensions, MapType, IteratorCost: sequences of 3-4 "
            "token-carrying requests through the real client and pool (120 ms timeout) to a scripted node whose replies echo the token it read: first reply late and arriving while idle, "
            "late reply overtaken by the next request, error / undecodable replies, cut, half-written and stalled connections, mixed request types on one pooled connection; "
            "(E, kinds pbschema/pbenc/pbdec) the reflected field table of every registered data.proto message; for EVERY message type the zero value (required fields nil: marshal error), required-only, "
            "everything set with extremes and 130-element number lists, everything set to empty/zero (non-nil empty []byte, \"\", 0, false, empty slices); every truncation of a minimal valid encoding and "
            "sampled truncations of a random one; per distinct field layout the full fragment list (tag 0, cut / overlong / non-minimal tags, unknown varint/fixed64/fixed32/bytes/group fields incl. short, "
            "huge (2^63, 2^64-1) lengths, open and ill-formed groups, stray end-group, wire types 6/7, huge field numbers; for every known field each wire type 0/1/2/3/5, packed and cut packed blocks, "
            "the field twice, nested message twice (merge), nested with only unknown fields, nested malformed, nested cut), alone and after a valid message; "
            "(F, kind wrap) WriteShardRequest via SetBinaryPoints and AddPoints with valid and undecodable binary points, ExecuteStatementRequest with fields unset, CreateIteratorRequest over the rpc "
            "generators, CreateIteratorResponse with DataType values inside and outside int32. Then seeded generation (n/40 random pairing scenarios; (1/16 ReadLV, 1/16 WriteTLV, 2/16 random listener streams, 3/16 designed envelopes with "
            "payload bytes flipped/truncated/extended and re-framed, 3/16 rpc values, 3/16 points, 1/16 encoder streams, 2/16 raw/mutated/hand-built frame streams), then n/3 more: random message values of random data.proto types (pbenc), random / other-type / fragment-concatenation / mutated encodings (pbdec), "
            "random wrapper values (wrap). "
            "distinct = distinct byte stream / value; non-trivial = header complete (lv), non-empty payload (wr), at least one reply frame (serve), non-default value (rpc), "
            "point with name, tags or aux (point), at least one point (stream), at least one frame header (raw), >= 2 calls with a late or non-success reply (pair), non-zero value with non-empty encoding (pbenc), more than one input byte (pbdec), non-zero variant (wrap)",
    "trusted_base": [
        "C15: the protobuf bodies of every request/response are modelled generically (Proto.v) and proved to round-trip; what rpc.go puts INSIDE bytes/string fields (JSON documents, "
        "influxql String()/Parse of expressions and measurements, HLL sketches, datatypes.Read*Request, binary points) is NOT modelled: the wrapper-level round trip (kind rpc) and the handlers' "
        "behaviour on valid envelopes with invalid contents (kind serve) are differential observations only; in the wrapper theorems these payload codecs are explicit hypotheses "
        "(parse(marshal p) = p); JSON-carried strings are generated as valid UTF-8, tag keys/values without NUL",
        "C15: Proto.v is a hand translation of github.com/gogo/protobuf v1.3.2 proto/table_marshal.go + table_unmarshal.go (the version pinned in go.mod) for proto2 messages without "
        "extensions, oneofs, maps, groups-as-fields, defaults, custom types (genconsts refuses such fields); the tie is byte equality / class+value equality against the real proto.Marshal / "
        "proto.Unmarshal on every run (kinds pbenc, pbdec), and the field table seen by runtime reflection is compared with the regenerated one (kind pbschema)",
        "C15: the message-type-code -> body table follows the naming rule xyzRequestMessage -> XyzRequest / XyzResponse, checked by genconsts against every EncodeTLV(conn, const, &T{}) call "
        "of the coordinator package and against the internal.<Message> type each wrapper's MarshalBinary/UnmarshalBinary names; data.pb.go is compared field by field with data.proto",
        "C15: allocation of the protobuf decoder is bounded at the model level only as an executable check on observed decodes (msize of the decoded value <= input length, kind pbdec), no theorem; "
        "Go heap overhead per element (pointers, slice growth) is not modelled",
        "C15: the streamed point model covers messages Point/Aux/IteratorStats of query/internal/internal.proto as gogo/protobuf v1.3.2 table marshal/unmarshal treats them (proto2); "
        "field numbers, wire kinds and labels are regenerated from internal.pb.go by genconsts on every run, the influxql.DataType codes are compared with the working tree by case ptconsts",
        "C15: a handler panic is observed through the handlerPanic statistic of the (repaired) handleConn recover, or directly when it escapes handleConn; a panic in a goroutine "
        "spawned by a handler kills the harness process and is reported by bin/check with the announced input",
        "C15: allocation is observed through runtime.MemStats.TotalAlloc deltas (>= MaxMessageSize or not) for ReadLV only",
        "C15: the dispatch table and MaxMessageSize are regenerated from coordinator/service.go by genconsts on every run",
        "C15: pairing model: TCP connections are FIFO and the node answers the requests of one connection in order (the fake node does, like handleConn); whether a call timed out and "
        "whether the pooled connection was reused are OBSERVED inputs of the model (timing is not predicted); calls are sequential per pool",
        "C15: decodeIteratorTrace is abstracted as a predicate trace_ok on the trace bytes (the harness decodes under context.Background(), where it accepts everything)",
    ],
    "modelled": "modelled with theorems: coordinator/service.go ReadType/ReadLV/ReadTLV/WriteTLV/WriteLV and the type switch of handleConn (theories/C15/Model.v); query/point.go "
                "encodeTags/decodeTags/newTagsID, encodeAux/decodeAux, query/point.gen.go encode<T>Point/decode<T>Point and <T>PointEncoder/<T>PointDecoder, the reader loop of "
                "<t>ReaderIterator.Next, IteratorEncoder stats/trace frames, protobuf wire encoding/decoding of Point/Aux/IteratorStats incl. unknown fields, wrong wire types, groups, "
                "required-field check (theories/C15/PointModel.v); the unread-reply queue of a pooled client connection and the reuse discipline of shard_writer.go / meta_executor.go / pool.go "
                "(theories/C15/PairModel.v); gogo/protobuf table marshal/unmarshal for arbitrary proto2 schemas: marshalInfo.marshal field order / nil skipping / required check / "
                "XXX_unrecognized, unmarshalInfo.unmarshal tag loop with skipField, findEndGroup, typed unmarshalers for varint (uint64/int64/uint32/int32/bool/enum), zigzag, fixed64, fixed32, "
                "bytes/string, packed blocks, nested messages with merge (theories/C15/Proto.v), instantiated with the schema of every message of coordinator/internal/data.pb.go "
                "(theories/C15/ProtoTable.v); rpc.go WriteShardRequest setters/getters/unmarshalPoints, ExecuteStatementRequest, CreateIteratorRequest.{Marshal,Unmarshal}Binary, "
                "CreateIteratorResponse.{Marshal,Unmarshal}Binary (theories/C15/Wrap.v). Differential only: process* request handlers, the payloads inside the bytes fields of the other rpc.go "
                "wrappers (JSON, influxql text, sketches, storage read requests), TCP behaviour",
    "assumptions": ["io.ReadFull/binary.Read semantics: a short read consumes all remaining bytes and returns an error (io.EOF when nothing was read)",
                    "heap use beyond the TLV frame buffer is not modelled; the point frame reader's make([]byte, sz) for a uint32 sz is outside the MaxMessageSize claim",
                    "well-formed protobuf message value: one slot per schema field, numbers within their kind's width, optional fields at most one element and required fields exactly one, nested messages "
                    "well formed, no unrecognized bytes, every byte string and nested body shorter than 2^64; well-formed schema: strictly increasing field numbers below 2^29, packed only on numeric fields",
                    "wrapper theorems: parse_point(marshal_point p) = p (models binary point codec, C12), dec(enc x) = x for influxql.Measurement, query.IteratorOptions, tracing.SpanContext; "
                    "CreateIteratorResponse.Type fits an int32",
                    "well-formed point: 64-bit values, uint32 aggregate count, Tags.ID() of a tag map without NUL bytes, aux values of the ten typed kinds or untyped nil, frame body < 2^32 bytes"],
}


def classify(case):
    return None
