CONFIG = {
    "manifest": {
        "text": "Theorems (Qed, closed under the global context) over every byte stream: ReadLV never panics and allocates < MaxMessageSize, "
                "an accepted frame is exactly the framed payload, WriteTLV/ReadTLV and frame streams round-trip, the handleConn dispatch loop never "
                "panics in the framing layer; MaxMessageSize and the dispatch table are re-read from the source each run and the model is "
                "diffed against the real ReadLV/WriteTLV/handleConn on designed + generated streams. Partial: message bodies (protobuf) have no theorem.",
        "note": "Trusts Coq kernel, genconsts translator, the harness; io.ReadFull semantics; message bodies/protobuf and heap use beyond the frame buffer are outside the model.",
        "technique": "Coq proof (induction over byte streams) on a Gallina model of the framing + differential correspondence against the real listener code",
    },
    "harness": "h_c15",
    "level": "proof",
    "n": {"quick": 1600, "thorough": 8000},
    "shard": 300,
    "bytes_keys": ["stream", "buf"],
    "rule": "designed cases (every special length x every dispatch kind, every type byte 0..45 with empty payload and with EOF) "
            "then seeded generation: ReadLV streams (header from special/ random/ small sizes, payload exact/short/long, truncated header), "
            "WriteTLV/ReadTLV values, and multi-frame streams fed to the real Service.handleConn over loopback with a real empty tsdb.Store; "
            "distinct = distinct byte stream; non-trivial = header complete (lv), non-empty payload (wr), at least one reply frame (serve)",
    "trusted_base": [
        "C15: per-message structs (gogo/protobuf, JSON, influxql String/Parse) are NOT modelled: framing only; message bodies are exercised by the harness with empty and random payloads (crash observation) but have no theorem",
        "C15: allocation is observed through runtime.MemStats.TotalAlloc deltas (>= MaxMessageSize or not)",
        "C15: the dispatch table and MaxMessageSize are regenerated from coordinator/service.go by genconsts on every run",
    ],
    "modelled": "coordinator/service.go ReadType/ReadLV/ReadTLV/WriteTLV/WriteLV and the type switch of handleConn are modelled (theories/C15/Model.v); "
                "process* request handlers, protobuf bodies, point stream frames and TCP behaviour are not modelled",
    "assumptions": ["io.ReadFull/binary.Read semantics: a short read consumes all remaining bytes and returns an error",
                    "heap use beyond the frame buffer is not modelled"],
}

def classify(case):
    return None
