CONFIG = {
    "manifest": {
        "text": "Theorems (Qed, closed under the global context) about an executable model of one tick of retention.Service.run, "
                "for every clock reading, every metadata (all durations incl. infinite/negative/altered, truncated, deleted, prunable groups, "
                "duplicate names, stale snapshot), every local shard list and every failure oracle: each DeleteShard is for a local shard of a "
                "group marked deleted or expired (End+Duration<now) and successfully marked earlier in the pass; marked groups hold only data "
                "older than the retention period; infinite policies never expire; a failure-free pass on current well-formed metadata leaves "
                "nothing expired-unmarked and no local shard of a deleted group, also after any history and on every node; MapShards drops a "
                "point iff older than now-Duration; every pass of every history hands every local shard of every deleted group to DeleteShard again "
                "(a failed local delete is retried; the service carries no memory between passes). Store.DeleteShard, for every abstract store "
                "(shards x databases x retention policies x index types, series file, shared inmem index) and every shard id: no series that a remaining "
                "shard of the database (any retention policy) holds leaves the series file or the shared index, every read of every remaining shard is "
                "unchanged, the series file loses exactly the series only the deleted shard held (delete_shard_exact), the invariant of reachable stores "
                "is preserved. The model is diffed on every run against the real Service.run (single ticks and multi-tick scenarios on a fresh service), "
                "ExpiredShardGroups/DeletedShardGroups at exact boundaries, Data.DeleteShardGroup/PruneShardGroups, PointsWriter.MapShards, and a REAL "
                "tsdb.Store (inmem, tsi1 and mixed) before/after DeleteShard, later writes and a reopen.",
        "note": "Trusts Coq kernel, genconsts, the harness and its fakes; one clock reading per pass (margins in the harness); "
                "raft/meta.Client transport, and of Store.DeleteShard the pending-delete/epoch bookkeeping (C10), failing Index() of a closed shard and file-system errors are outside the model; ShardGroupAt's search is modelled as 'some item contains t'. "
                "Observed boundary (not a violation): shards whose group was pruned from the metadata while their node was away are never deleted.",
        "technique": "Coq proof (fold invariants, first-match update lemmas under name uniqueness) on a Gallina model + differential correspondence against the real retention service",
    },
    "harness": "h_c17",
    "level": "proof",
    "n": {"quick": 1500, "thorough": 20000},
    "shard": 150,
    "extra_proof_files": ["ProofsComplete", "ProofsHist", "ProofsRetry", "StoreProofs", "StoreLink", "StoreSpec"],
    "rule": "designed cases (3 durations x 4 boundary offsets x 5 failure oracles through the real service tick; exact-boundary End+Duration==t, t+-1ns, "
            "infinite, negative, deleted, truncated through ExpiredShardGroups(t); MapShards around the cut-off) then seeded generation: scenarios of 1-4 "
            "consecutive ticks of the real retention.Service (gated through its fakes) over generated metadata (1-3 databases x 0-2 policies x 0-4 groups, "
            "20% malformed: duplicate names/IDs, negative durations), local shard sets incl. unknown shards, per-call fault injection (error, error-with-effect), "
            "environment changes between ticks (ALTER duration, time passing, new group, truncate, drop policy, stale snapshot, shards reappearing); "
            "ExpiredShardGroups/DeletedShardGroups with explicit t incl. int64 extremes; MapShards batches with pre-existing/truncated groups. "
            "Each scenario runs on its own fresh retention.Service and is recorded as ONE case (kind scen) so that anything the service keeps from tick "
            "to tick is replayed; policies' group lists are sorted by time with IDs in creation order (back-filled groups: non-monotone IDs) in 70% of the "
            "policies. Store cases (kind store): 1-2 databases x 1-3 policies x 1-3 shards, index inmem / tsi1 / mixed, up to 3x3 series keys overlapping "
            "across shards and policies, 1-5 operations (DeleteShard of an existing / unknown / already deleted shard, a later write possibly re-creating "
            "a removed series, close+reopen) and a final reopen; after every operation every remaining shard is read through CreateIterator and every "
            "database through MeasurementNames, TagValues, SeriesCardinality and series-file membership. "
            "distinct = distinct input; non-trivial = at least one DeleteShardGroup/DeleteShard call (pass, scen), non-empty group list (exp), non-empty "
            "batch (drop), at least one DeleteShard on a store with series (store)",
    "trusted_base": [
        "C17: the real Service.run goroutine is driven unmodified; a tick is delimited by its calls to MetaClient.Databases() (fake blocks until the next input); no verif_export hook is needed",
        "C17: fake MetaClient = real meta.Data (DeleteShardGroup, PruneShardGroups applied to it) + snapshot semantics of meta.Client.Databases(); fake TSDBStore = recording set in the service cases; raft transport is not exercised",
        "C17: store cases drive a real tsdb.Store on a temporary directory (compactions disabled); series-file membership is read through the add-only hook tsdb/verif_export_c17.go (Store.VerifSeriesFile); series keys are m<i>,t=v<j>, one integer field, strictly increasing timestamps per series (no overwrites); the model takes the described content as the abstract state and the first observation checks that the real store agrees with it",
        "C17: lists in store observations are compared as sets; a series key stands for its series id (the series file maps keys to ids bijectively per database)",
        "C17: wall clock: inputs are offsets from one reading now0; offsets avoid [0,10s) above each boundary so that later readings in the same scenario (<4s) cannot flip a comparison; DeletedAt stamped during a tick is canonicalised to now0; exact boundaries are covered through ExpiredShardGroups(t) with explicit t",
        "C17: ShardGroupDeletedExpiration, MinNanoTime and the shape of the expiry test are re-read from the source by genconsts on every run",
    ],
    "modelled": "services/retention/service.go run() tick body, meta RetentionPolicyInfo.ExpiredShardGroups/DeletedShardGroups, Data.DeleteShardGroup, Data.PruneShardGroups, "
                "the cut-off of coordinator PointsWriter.MapShards (theories/C17/Model.v) and tsdb Store.DeleteShard with the series-file / shared-inmem-index effects of WriteToShard and of a reopen "
                "(theories/C17/Store.v) are modelled; meta.Client/raft, sgList's binary search (abstracted to 'some item contains t'), DeleteShard's pending-delete and epoch bookkeeping, engine and "
                "index internals below the series sets, logging are not modelled",
    "assumptions": ["one clock reading per pass: the service reads time.Now() once per policy within a tick; the model uses a single now (and arbitrary, independent meta-service clocks tdel/tprune)",
                    "time.Time arithmetic on UnixNano-representable values is exact (64-bit seconds)",
                    "completeness theorems assume unique database names, policy names per database and group IDs per policy (C06's invariant) and an up-to-date snapshot",
                    "dropped_iff_too_old assumes CreateShardGroup returns a group accepting the timestamp (meta.Client returns ShardGroupByTimestamp)",
                    "store link theorem (store_spec_ok_for_all) assumes the invariant of reachable stores (healthy: established by construction, preserved by every modelled operation); the safety theorems about DeleteShard assume nothing",
                    "a query finds a series of a shard iff the series file has it live (and, for an inmem shard, the shared index has it)"],
}


def classify(case):
    return None
