CONFIG = {
    "manifest": {
        "text": "Theorems (Qed, closed under the global context) about an executable model of one tick of retention.Service.run, "
                "for every clock reading, every metadata (all durations incl. infinite/negative/altered, truncated, deleted, prunable groups, "
                "duplicate names, stale snapshot), every local shard list and every failure oracle: each DeleteShard is for a local shard of a "
                "group marked deleted or expired (End+Duration<now) and successfully marked earlier in the pass; marked groups hold only data "
                "older than the retention period; infinite policies never expire; a failure-free pass on current well-formed metadata leaves "
                "nothing expired-unmarked and no local shard of a deleted group, also after any history and on every node; MapShards drops a "
                "point iff older than now-Duration. The model is diffed on every run against the real Service.run tick, "
                "ExpiredShardGroups/DeletedShardGroups at exact boundaries, Data.DeleteShardGroup/PruneShardGroups and PointsWriter.MapShards.",
        "note": "Trusts Coq kernel, genconsts, the harness and its fakes; one clock reading per pass (margins in the harness); "
                "raft/meta.Client transport and tsdb.Store.DeleteShard internals are outside the model; ShardGroupAt's search is modelled as 'some item contains t'. "
                "Observed boundary (not a violation): shards whose group was pruned from the metadata while their node was away are never deleted.",
        "technique": "Coq proof (fold invariants, first-match update lemmas under name uniqueness) on a Gallina model + differential correspondence against the real retention service",
    },
    "harness": "h_c17",
    "level": "proof",
    "n": {"quick": 1500, "thorough": 20000},
    "shard": 150,
    "extra_proof_files": ["ProofsComplete", "ProofsHist"],
    "rule": "designed cases (3 durations x 4 boundary offsets x 5 failure oracles through the real service tick; exact-boundary End+Duration==t, t+-1ns, "
            "infinite, negative, deleted, truncated through ExpiredShardGroups(t); MapShards around the cut-off) then seeded generation: scenarios of 1-4 "
            "consecutive ticks of the real retention.Service (gated through its fakes) over generated metadata (1-3 databases x 0-2 policies x 0-4 groups, "
            "20% malformed: duplicate names/IDs, negative durations), local shard sets incl. unknown shards, per-call fault injection (error, error-with-effect), "
            "environment changes between ticks (ALTER duration, time passing, new group, truncate, drop policy, stale snapshot, shards reappearing); "
            "ExpiredShardGroups/DeletedShardGroups with explicit t incl. int64 extremes; MapShards batches with pre-existing/truncated groups. "
            "distinct = distinct input; non-trivial = at least one DeleteShardGroup/DeleteShard call (pass), non-empty group list (exp), non-empty batch (drop)",
    "trusted_base": [
        "C17: the real Service.run goroutine is driven unmodified; a tick is delimited by its calls to MetaClient.Databases() (fake blocks until the next input); no verif_export hook is needed",
        "C17: fake MetaClient = real meta.Data (DeleteShardGroup, PruneShardGroups applied to it) + snapshot semantics of meta.Client.Databases(); fake TSDBStore = recording set; raft transport and tsdb.Store.DeleteShard are not exercised",
        "C17: wall clock: inputs are offsets from one reading now0; offsets avoid [0,10s) above each boundary so that later readings in the same scenario (<4s) cannot flip a comparison; DeletedAt stamped during a tick is canonicalised to now0; exact boundaries are covered through ExpiredShardGroups(t) with explicit t",
        "C17: ShardGroupDeletedExpiration, MinNanoTime and the shape of the expiry test are re-read from the source by genconsts on every run",
    ],
    "modelled": "services/retention/service.go run() tick body, meta RetentionPolicyInfo.ExpiredShardGroups/DeletedShardGroups, Data.DeleteShardGroup, Data.PruneShardGroups, "
                "and the cut-off of coordinator PointsWriter.MapShards are modelled (theories/C17/Model.v); meta.Client/raft, tsdb.Store, sgList's binary search (abstracted to 'some item contains t'), "
                "logging are not modelled",
    "assumptions": ["one clock reading per pass: the service reads time.Now() once per policy within a tick; the model uses a single now (and arbitrary, independent meta-service clocks tdel/tprune)",
                    "time.Time arithmetic on UnixNano-representable values is exact (64-bit seconds)",
                    "completeness theorems assume unique database names, policy names per database and group IDs per policy (C06's invariant) and an up-to-date snapshot",
                    "dropped_iff_too_old assumes CreateShardGroup returns a group accepting the timestamp (meta.Client returns ShardGroupByTimestamp)"],
}


def classify(case):
    return None
