CONFIG = {
    "manifest": {
        "text": "Coq theorems (Qed, closed under the global context) about a Gallina model of the iterator tree that query/select.go + "
                "tsm1 Engine.CreateIterator build for the covered SELECT grammar: the k-way sorted merge of the streams of ANY partition of the "
                "points equals the sorted stream of all points (both directions), count/sum/mean/min/max/first/last evaluated over ANY tree of "
                "partial aggregates equal the single-level value, spread/median/mode/percentile(f,N)/distinct/count(distinct) evaluated above the last merge "
                "are independent of the order in which a window's points arrive (mode: highest frequency, then earliest first time, then greater value; "
                "percentile: nearest rank floor(n*N/100+0.5)-1 in (value, time) order with that point's time; distinct: one row per value in the order of "
                "first arrival in scan direction, equal times by value), the LIMIT pushed down per shard and tag set is sound, hence the modelled "
                "result of every layout (nodes x shards x any assignment of points) equals the reference evaluator Spec.eval over the raw "
                "points and any two layouts agree; window arithmetic covers the time line. Every run re-reads the pushed-down call set and "
                "time bounds from the source and executes each generated (data set, statement) with the real query.Executor + "
                "coordinator.StatementExecutor + ClusterShardMapper over real tsdb.Store shards under >= 5 physical layouts (shard-group "
                "duration, shards per group, cache / snapshot files / full compaction, inmem / tsi1 index), comparing the rows of every layout "
                "with Spec.eval and with the model inside Coq. Partial: covered grammar only, exact arithmetic only (mean and float "
                "fill(linear) compared within 2^-44), SLIMIT/SOFFSET layout invariance is refuted (known finding).",
        "note": "Trusts Coq kernel, genconsts, the harness and its canonicaliser; multi-node layouts are in the theorem (nodes are one more merge "
                "level) but the harness runs all shards on one node (remote iterators = C15's point-frame identity, not exercised here); "
                "the model of the iterator tree is hand-written; the post-merge stages (interval/fill/limit/emitter) are Spec.finish in "
                "both model and reference and are tied to the code only by the differential run.",
        "technique": "Coq proof (sorted-permutation uniqueness, commutative-monoid folds, top-n absorption) on a Gallina model + differential "
                     "correspondence of the real query engine against the reference evaluator and the model under several physical layouts",
    },
    "harness": "h_c11",
    "level": "proof",
    "extra_proof_files": ["StreamLemmas"],
    "n": {"quick": 320, "thorough": 24000},
    "shard": 60,
    "search_rounds": 2,
    "search_boost": 2,
    "rule": "corpus (witnesses of the nine repaired defects - incl. mode() frequency ties / single occurrences, percentile() time among equal values, "
            "percentile() window without a rank ending the result - and of the SLIMIT finding) then designed sweeps (4 field types x every function x "
            "{no interval, 10ns, 10ns+3ns offset, 20ns-7ns offset} x every fill x ASC/DESC with rotating tag grouping / predicate / LIMIT / OFFSET; "
            "LIMIT x OFFSET x SLIMIT x SOFFSET sweep; cross-series timestamp ties; a few-valued data set with frequency ties, equal values at different "
            "times in different series and single occurrences under distinct/mode/percentile/count(distinct)) then seeded generation: data sets of 0..57 points, 1..5 series "
            "over 2 tag keys (tags may be absent), float/int/string/bool field plus an optional second field, 1..3 write batches with later "
            "overwrites, negative and window-aligned timestamps, half of the data sets without cross-series timestamp ties, 45% of the data sets with values from a "
            "pool of 2..4 values (many duplicates); percentile arguments 0..120 incl. x.5 and the rank boundaries; 8 statements per data "
            "set over the whole grammar with window-aligned / off-by-one / empty time ranges; 6 layouts per data set (8 thorough), one of them with a cache snapshot in flight (begun, not committed) under the later batches and during the queries. "
            "distinct = distinct (data set, statement); non-trivial = data set non-empty and result has at least one row",
    "trusted_base": [
        "C11: the harness canonicaliser (models.Rows -> name/column check, tag tuple, (unix nanos, typed value); floats as exact rationals via big.Rat)",
        "C11: float rounding is outside the model: mean and float fill(linear) results are accepted within 2^-44 relative to the data magnitude; all other values exactly",
        "C11: tag-set order for SLIMIT is modelled as value-tuple order; statements with SLIMIT/SOFFSET are generated only for data whose series have all or none of the GROUP BY tags (tsdb.MakeTagsKey orders differently otherwise)",
        "C11: shards of all layouts live on one node (ClusterShardMapper local mapping); remote iterator hops are not exercised",
        "C11: pushed-down call set (NewCallIterator: not spread/median/distinct/mode/percentile), count->sum merge rewrite and MinNanoTime/MaxNanoTime are regenerated from the source on every run",
        "C11: mode/percentile/distinct/count(distinct): the reducers' tie-breaking (sort by value then time, first arrival per value) is tied to the code only by the differential run (corpus witnesses + few-valued data sets), not re-read from the source",
    ],
    "modelled": "modelled (theories/C11/Model.v): index tag sets per shard incl. per-shard SLIMIT/SOFFSET, one cursor per series, per-series call iterators, "
                "Merge/SortedMerge as pop-least k-way merge, call iterator re-applied after every merge (count as sum), per-tag-set LIMIT pushdown, "
                "merge of shards and of nodes, one reducer per (tag set, window) above the last merge for spread/median/mode/percentile/distinct/"
                "count(distinct) (Spec.aggs on the merged raw points; the layout-dependent arrival order inside a window is abstracted to the "
                "canonical order, justified by slice_aggregates_order_independent); Spec.finish = interval time, fill (none for distinct, 0 for "
                "count(distinct)), LIMIT/OFFSET, emitter. "
                "Not modelled: cursors over cache/TSM files (C02/C09), time zones, subqueries, multiple fields/calls, math, top/bottom/sample/stddev/..., "
                "the DistinctReducer's map + sort.Stable and Go's sort inside the mode/percentile reducers (modelled by their result: the points in "
                "(value, time) order), percentile's float index arithmetic (modelled exactly; N restricted to multiples of 0.5), "
                "the first()/last() limit-1 cursor shortcut (abstracted to the per-series reduce), float rounding, int64 wrap-around of times",
    "assumptions": ["times and intervals stay far from the int64 bounds (no wrap in Window)",
                    "field values are exact: integers, integer-valued floats of magnitude < 2^53, booleans, strings from an ordered pool",
                    "percentile(f, N): N is a non-negative multiple of 0.5 (the float expression floor(n*N/100+0.5) is then exact)",
                    "one field type per field across shards"],
}


def classify(case):
    """SLIMIT/SOFFSET are applied per shard: known finding C11:slimit-per-shard."""
    try:
        st = case["desc"]["stmt"]
    except Exception:
        return None
    if st.get("slimit", 0) or st.get("soffset", 0):
        return "C11:slimit-per-shard"
    return None
