CONFIG = {
    "manifest": {
        "text": "Theorems (Qed, closed under the global context) on the engine step machine shared with C01: a completed range delete removes exactly the points of the "
                "selected series inside the inclusive range from files and hot cache and leaves every other point unchanged (what an in-flight cache snapshot holds is "
                "characterised exactly); for every history in which deletes and cache snapshots exclude each other (Engine.snapshotMu, repaired code: run_mu) reads after any "
                "continuation (snapshots incl. failed and retried ones, compactions, crashes inside/after the delete, restarts) equal the last-write-wins spec over the "
                "effective history (mutex_makes_histories_clean + delete_permanent; the shape the mutex excludes is refuted by a checked witness, which is why the mutex is "
                "needed); the listing rebuilt by recovery lists a series iff a key of it is left in a file index or the cache. The model is diffed against a real tsdb.Store "
                "after every operation of generated histories (reads and listings); deletes issued from a second goroutine inside an in-flight snapshot must be held back. "
                "Delete guards and epochs (tsdb/guard.go, tsdb/epoch_tracker.go, the protocol of Store.WriteToShard/DeleteSeries/DeleteMeasurement; C10/Guard.v, C10/Epoch.v): "
                "guard_sound — for every condition of the AST (any nesting), every regex oracle, names, bounds and well-formed point, a point Store.DeleteSeries selects "
                "(measurement among the names, min <= t <= max inclusive, series yielded by the index without filter expression; a missing tag reads as the empty value) "
                "is matched by the guard the delete installs (repaired rule; the pinned rule is refuted by checked witnesses and the repair only widens it); "
                "guard_time_inclusive; the reduce/short-circuit rules of newExprGuard keep the meaning of AND/OR; epoch_mutual_exclusion — for any number of writers and deleters and "
                "EVERY schedule no deleter is in its critical section together with a writer its guard matches; epoch_wait_counts — pending IS the number of earlier writes in flight, "
                "Wait returns exactly when it is 0; epoch_no_deadlock. Tied to the code: the real guard.Matches on generated conditions/points/batches, a real Store.DeleteSeries "
                "(inmem and tsi1) whose removed points must equal the model's selection and be matched by the real guard, and schedules driven against the real epochTracker "
                "with the state compared after every call.",
        "note": "Trusts Coq kernel, harness and canonicaliser; in the engine histories series selection by tag predicate is the index's job (C14): the model takes the selected series keys; "
                "for the guards the selection semantics (gselects) is modelled after IndexSet.seriesByExprIterator and checked against real deletes; sync.Mutex/sync.Cond and the Go scheduler are trusted "
                "(threads are modelled as interleavings of the tracker calls); TSM/tombstone byte formats, TSI, series file, fields.idx are not modelled. Known finding: series listed after piecewise deletes.",
        "technique": "Coq proof (step-semantics theorem + invariant over arbitrary step lists) + differential correspondence on a real tsdb.Store with a pause hook inside WriteSnapshot",
    },
    "harness": "h_c10",
    "level": "proof",
    "n": {"quick": 110, "thorough": 2500},
    "shard": 24,
    "extra_proof_files": ["Mu", "GuardProofs", "EpochInv", "EpochInvD", "EpochProofs"],
    "harness_timeout": {"quick": 900, "thorough": 7200},
    "rule": "designed histories first (deletes over cache / one file / several files with every continuation; a delete spanning all points; two single-instant deletes; "
            "last series of a measurement; drop measurement; whole-database and whole-measurement deletes with open-ended ranges; the in-flight-snapshot delete), then seeded "
            "histories of 5-13 operations on 2 measurements x 3 series x 4 fields (write 42%, range delete 20% in three selection forms and five range forms, drop measurement 4%, "
            "snapshot 11%, failed snapshot (retained by the cache) 3%, compaction 8%, crash-restart 12%); one history in four issues a delete from a second goroutine inside an in-flight snapshot (verifPoint hook 'snapshot.written') and records whether it was held back until the snapshot was committed. After EVERY operation: "
            "full-range ascending read of every key ever written (Shard.CreateIterator) and the listed series (Store.MeasurementNames/TagKeys/TagValues). Each run yields two cases: "
            "kind hist (reads vs last-write-wins spec) and kind list (listed iff points remain). distinct = distinct history; non-trivial = values read back and >1 observation. "
            "Guards/epochs (harness guard.go), designed cases first (every condition shape on points with and without the tag at min-1, min, max, max+1; all bound forms; real deletes on both "
            "index types; blocking schedules), then per n: 3n kind guard (conditions generated as influxql text, depth <= 3 of AND/OR/parentheses over tag = / != 'v' (15% empty value), "
            "'v' = tag, =~ / !~ with 9 regexes of which 4 match the empty string, _name forms, tag1 = / != tag2, boolean literals, key that no point has, ::tag; 12% forms the guard answers "
            "with match-everything (other operators, numbers, nested math, ::field, time, bare references); names none/one/two/absent; bounds whole-int64 / half-open / instant / "
            "MinNanoTime..MaxNanoTime / range / inverted; 4-9 points on 3 measurements x 3 optional tags at the boundary times, some with a repeated key or an empty value; "
            "guard.Matches asked per point, on 4 batches and on the nil guard), n/2 kind guarddel (same conditions with 4% refused forms, FROM none / one / with an absent measurement, "
            "6-11 series x every boundary time written to a real Store alternating inmem / tsi1, one real Store.DeleteSeries, lost points read from the engine cache, "
            "the delete's guard rebuilt from ConditionExpr as store.go does), 2n kind epoch (1-3 deleters with generated guards, 1-4 writers with 1-3 points, 10-40 random thread "
            "actions incl. blocked ones and guard orders, 60% followed by round-robin to completion), n kind epochraw (6-30 StartWrite/EndWrite/WaitDelete/Done calls, 15% with "
            "generations never handed out or used twice). non-trivial: guard = some points matched and some not; guarddel = some points lost and some kept; epoch = some action blocked",
    "trusted_base": [
        "C10: the selected series keys are taken from the request (the harness selects by tag value / measurement / database; predicate evaluation by the index is C14's subject)",
        "C10: one client operation at a time, except the delete issued from a second goroutine at the verifPoint hook 'snapshot.written' (writeSnapshotAndCommit, before FileStore.Replace): held back = not finished within 150 ms and finished after WriteSnapshot returned",
        "C10: Engine.snapshotMu is modelled as the step discipline mu_ok (DeleteBegin only with no snapshot in flight or retained, SnapBegin only with no delete running); sync.Mutex itself is trusted",
        "C10: crash images are directory copies of the quiescent store; torn delete entries are exercised by C01's harness on the same model",
        "C10 guards: the arguments of the guard a real Store.DeleteSeries installs (min, max, names, condition) are recomputed by the harness the way store.go computes them "
        "(influxql.ConditionExpr on the statement's condition, MinTime/MaxTime defaults, sorted source names or the shard's measurement names); the guard object inside the running delete is not observed",
        "C10 guards: regular expressions are an oracle: the model is evaluated with regexp.Regexp.Match as observed on every string of the case (tag values, names, empty string); theorems quantify over every oracle",
        "C10 guards: an untyped key in a condition is taken to name a tag (the index asks the measurement's field set; conditions on fields make the engine refuse the delete); tag keys and field names are kept apart by the generator",
        "C10 guards: points are well-formed (no empty tag value) — checked on every real point of a guarddel case; models.Tags.HashKey drops empty values when the key is built",
        "C10 epochs: uint64/int64 counters are modelled without wrap-around; threads are interleavings of whole tracker calls (each call holds epochTracker.mu), waiting on sync.Cond is modelled as "
        "'the step is not enabled'; the harness drives the real tracker from one goroutine through tsdb/verif_export_c10.go and never calls a blocking Wait — it reads pending / guard.done instead",
    ],
    "modelled": "Engine.deleteSeriesRange (tombstone per overlapping file, hot-cache range removal, WAL delete entry, index reconciliation incl. the key-presence rule of "
                "indirectIndex.DeleteRange), WriteSnapshot/compaction/recovery as in C01 are modelled (theories/Shard/Engine.v); delete guards (newGuard, newExprGuard, "
                "newBinaryExprGuard, guard.Matches, exprGuard.matches) and the delete's selection (IndexSet.seriesByExprIterator and below, at the level of one series; the engine's refusal of "
                "filtered elements) in theories/C10/Guard.v; epochTracker (StartWrite, EndWrite, WaitDelete, epochWaiter.Done/Wait) and the writer/deleter protocol in theories/C10/Epoch.v; "
                "Store.DeleteSeries' own argument preparation (ExpandSources, ConditionExpr), field-typed conditions beyond 'refused', "
                "TSI, series file are not modelled; the sorted-merge loops over series keys inside deleteSeriesRange are modelled by their intended meaning (selection by series), exercised with prefix-ordered keys",
    "assumptions": ["series keys of a delete are the listed series the request selects",
                    "compaction groups are adjacent files; level compactions do not run during a delete (as the code enforces)",
                    "guards: points carry no empty tag value; untyped keys name tags; fewer than 2^64 tracker operations per shard"],
}


def _series_key(s):
    return s["m"] + ",s=" + s.get("s", "")


def _selected(op, skey):
    m = skey.split(",s=")[0]
    form = op.get("i", 0) or 0
    if op.get("k") == "dropm":
        return op["series"][0]["m"] == m
    if op.get("k") not in ("del", "snapdel"):
        return False
    if form == 2:
        return True
    if form == 1:
        return any(s["m"] == m for s in op.get("series", []))
    return any(_series_key(s) == skey for s in op.get("series", []))


MININT, MAXINT = -(1 << 63), (1 << 63) - 1


def _piecewise(case):
    """every series listed without points got >= 2 range deletes whose ranges leave a gap between them"""
    ghosts = (case.get("obs") or {}).get("ghost_series") or []
    if not ghosts:
        return False
    ops = (case.get("desc") or {}).get("ops") or []
    for g in ghosts:
        rs = []
        for op in ops:
            if op.get("k") in ("del", "snapdel") and _selected(op, g):
                rs.append((op.get("lo", 0) or 0, op.get("hi", 0) or 0))
        ok = False
        for a in rs:
            for b in rs:
                if a[1] < MAXINT and a[1] + 1 < b[0]:
                    ok = True
        if not ok:
            return False
    return True


def classify(case):
    obs = case.get("obs") or {}
    if obs.get("inflight_hit"):
        return "c10-delete-during-inflight-snapshot"
    if case.get("kind") == "list" and _piecewise(case):
        return "c10-series-listed-after-piecewise-deletes"
    return None
