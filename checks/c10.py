CONFIG = {
    "manifest": {
        "text": "Theorems (Qed, closed under the global context) on the engine step machine shared with C01: a completed range delete removes exactly the points of the "
                "selected series inside the inclusive range from files and hot cache and leaves every other point unchanged (what an in-flight cache snapshot holds is "
                "characterised exactly); for every history in which deletes and cache snapshots exclude each other (Engine.snapshotMu, repaired code: run_mu) reads after any "
                "continuation (snapshots incl. failed and retried ones, compactions, crashes inside/after the delete, restarts) equal the last-write-wins spec over the "
                "effective history (mutex_makes_histories_clean + delete_permanent; the shape the mutex excludes is refuted by a checked witness, which is why the mutex is "
                "needed); the listing rebuilt by recovery lists a series iff a key of it is left in a file index or the cache. The model is diffed against a real tsdb.Store "
                "after every operation of generated histories (reads and listings); deletes issued from a second goroutine inside an in-flight snapshot must be held back.",
        "note": "Trusts Coq kernel, harness and canonicaliser; series selection by tag predicate is the index's job (C14): the model takes the selected series keys; "
                "TSM/tombstone byte formats, TSI, series file, fields.idx are not modelled. Known finding: series listed after piecewise deletes.",
        "technique": "Coq proof (step-semantics theorem + invariant over arbitrary step lists) + differential correspondence on a real tsdb.Store with a pause hook inside WriteSnapshot",
    },
    "harness": "h_c10",
    "level": "proof",
    "n": {"quick": 110, "thorough": 2500},
    "shard": 24,
    "extra_proof_files": [],
    "harness_timeout": {"quick": 900, "thorough": 7200},
    "rule": "designed histories first (deletes over cache / one file / several files with every continuation; a delete spanning all points; two single-instant deletes; "
            "last series of a measurement; drop measurement; whole-database and whole-measurement deletes with open-ended ranges; the in-flight-snapshot delete), then seeded "
            "histories of 5-13 operations on 2 measurements x 3 series x 4 fields (write 42%, range delete 20% in three selection forms and five range forms, drop measurement 4%, "
            "snapshot 11%, failed snapshot (retained by the cache) 3%, compaction 8%, crash-restart 12%); one history in four issues a delete from a second goroutine inside an in-flight snapshot (verifPoint hook 'snapshot.written') and records whether it was held back until the snapshot was committed. After EVERY operation: "
            "full-range ascending read of every key ever written (Shard.CreateIterator) and the listed series (Store.MeasurementNames/TagKeys/TagValues). Each run yields two cases: "
            "kind hist (reads vs last-write-wins spec) and kind list (listed iff points remain). distinct = distinct history; non-trivial = values read back and >1 observation",
    "trusted_base": [
        "C10: the selected series keys are taken from the request (the harness selects by tag value / measurement / database; predicate evaluation by the index is C14's subject)",
        "C10: one client operation at a time, except the delete issued from a second goroutine at the verifPoint hook 'snapshot.written' (writeSnapshotAndCommit, before FileStore.Replace): held back = not finished within 150 ms and finished after WriteSnapshot returned",
        "C10: Engine.snapshotMu is modelled as the step discipline mu_ok (DeleteBegin only with no snapshot in flight or retained, SnapBegin only with no delete running); sync.Mutex itself is trusted",
        "C10: crash images are directory copies of the quiescent store; torn delete entries are exercised by C01's harness on the same model",
    ],
    "modelled": "Engine.deleteSeriesRange (tombstone per overlapping file, hot-cache range removal, WAL delete entry, index reconciliation incl. the key-presence rule of "
                "indirectIndex.DeleteRange), WriteSnapshot/compaction/recovery as in C01 are modelled (theories/Shard/Engine.v); tag-predicate evaluation, delete guards/epochs, "
                "TSI, series file are not modelled; the sorted-merge loops over series keys inside deleteSeriesRange are modelled by their intended meaning (selection by series), exercised with prefix-ordered keys",
    "assumptions": ["series keys of a delete are the listed series the request selects",
                    "compaction groups are adjacent files; level compactions do not run during a delete (as the code enforces)"],
}


def _series_key(s):
    return s["m"] + ",s=" + s.get("s", "")


def _selected(op, skey):
    m = skey.split(",s=")[0]
    form = op.get("i", 0) or 0
    if op.get("k") == "dropm":
        return op["series"][0]["m"] == m
    if op.get("k") not in ("del", "snapdel"):
        return False
    if form == 2:
        return True
    if form == 1:
        return any(s["m"] == m for s in op.get("series", []))
    return any(_series_key(s) == skey for s in op.get("series", []))


MININT, MAXINT = -(1 << 63), (1 << 63) - 1


def _piecewise(case):
    """every series listed without points got >= 2 range deletes whose ranges leave a gap between them"""
    ghosts = (case.get("obs") or {}).get("ghost_series") or []
    if not ghosts:
        return False
    ops = (case.get("desc") or {}).get("ops") or []
    for g in ghosts:
        rs = []
        for op in ops:
            if op.get("k") in ("del", "snapdel") and _selected(op, g):
                rs.append((op.get("lo", 0) or 0, op.get("hi", 0) or 0))
        ok = False
        for a in rs:
            for b in rs:
                if a[1] < MAXINT and a[1] + 1 < b[0]:
                    ok = True
        if not ok:
            return False
    return True


def classify(case):
    obs = case.get("obs") or {}
    if obs.get("inflight_hit"):
        return "c10-delete-during-inflight-snapshot"
    if case.get("kind") == "list" and _piecewise(case):
        return "c10-series-listed-after-piecewise-deletes"
    return None
