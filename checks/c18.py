CONFIG = {
    "manifest": {
        "text": "Theorems (Qed, closed under the global context) on a Gallina model of Engine.Backup/Export/Restore/Import/overlay/readFileFromBackup, "
                "FileStore snapshot links, tar.Stream and the copy-shard protocol over the layer-A shard state (files with tombstones + cache): for EVERY "
                "well-formed shard state a full backup restored into an empty shard answers every read as the source; the source's reads are unchanged by a backup; "
                "with writes and background snapshots interleaved the copy equals the source at a step between start and end; a copy whose stream is cut at any "
                "byte, or that fails at any earlier step, is not advertised and an advertised copy is exact; a time-bounded export is exact inside its window; an import under new file names keeps each tombstone file with its TSM file and reads like the source. "
                "Each run re-reads the name-test constants from the source and diffs model and spec against real tsdb.Stores "
                "(BackupShard/ExportShard -> RestoreShard/ImportShard directly and through the coordinator CopyShard RPC over loopback with the backup "
                "connection cut after k bytes). Partial: byte encodings of TSM/tombstone/tar are not modelled (sizes are inputs). A backup requested while a background cache snapshot is in flight "
                "waits for it under Engine.snapshotMu (backup_waits_for_snapshot_in_flight; the harness pauses a real WriteSnapshot at its verifPoint and observes the backup held back); "
                "the busy-snapshotter branch of CreateSnapshot, which would lose the cache, is unreachable since (kept refuted as the reason). "
                "A backup after a FAILED cache snapshot (retained snapshot + live cache) flushes both (backup_after_failed_snapshot; the source's cache parts are observed separately through Cache.VerifParts).",
        "note": "Trusts Coq kernel, genconsts, the harness (layer-A extraction through tsm1 readers, tar offsets), archive/tar semantics for truncated streams as modelled by `locate`.",
        "technique": "Coq proof (invariants over file lists, LWW lookup extensionality) on a Gallina model + differential correspondence against real tsdb.Store / coordinator.Service",
    },
    "harness": "h_c18",
    "level": "proof",
    "n": {"quick": 330, "thorough": 4000},
    "shard": 120,
    "extra_proof_files": ["Names", "ProofsCopy", "ProofsExport", "ProofsImport", "ProofsIncr", "ProofsSeq", "ProofsLink", "ProofsRetained"],
    "harness_timeout": {"quick": 600, "thorough": 3000},
    "rule": "designed cases (empty / cache-only / one file / pending tombstone / rewrite after delete / compaction, for restore, import and RPC copy; every cut "
            "class of a three-member archive: header, data, padding, member boundary, each marker block; since thresholds at every member mtime +-1ns; export "
            "windows equal to / inside / outside / in a gap of the file range; a backup requested inside an in-flight cache snapshot; foreign, directory and non-TSM members injected) then seeded "
            "generation of shard histories (writes of 4 field types over 3 series, range deletes, cache snapshots, full compactions, unsnapshotted cache, "
            "concurrent writes during the backup, ~2% of the cases a backup requested from a second goroutine while a real background snapshot is paused between writing and installing its file); distinct = distinct input description; non-trivial = the source holds at least one point",
    "trusted_base": [
        "C18: the layer-A state of the source (blocks per key of each TSM file, tombstone entries, cache values, file mtimes) is read back from the real shard "
        "directory with tsm1.NewTSMReader/BlockIterator/DecodeBlock, Tombstoner.Walk and Cache.Values; archive members are decoded the same way",
        "C18: byte sizes of archive members (for cut positions) are taken from the observed archive; TSM/tombstone/tar byte formats are not modelled",
        "C18: file names are byte strings ordered as Go strings; Import's new names enter the theorem as a strictly increasing `fresh`, instantiated by %09d-%09d in Run.v and compared with the destination's real file names on every case",
        "C18: serveCopyShard's gating (owner added iff Client.CopyShard returned nil) is modelled, not executed: the harness observes the RPC result the meta handler branches on",
        "C18: name-test constants (tsm/tombstone/tmp extensions, points per block) and three code-shape flags are regenerated from the source by genconsts on every run",
    ],
    "modelled": "tsm1.Engine Backup/Export/timeStampFilterTarFile/filterFileToBackup/CreateSnapshot/WriteSnapshot(cache level)/Restore/Import/overlay/readFileFromBackup/endMarkerReader, "
                "FileStore.CreateSnapshot+MakeSnapshotLinks (file set), tar.Stream/SinceFilterTarFile (walk order, mtime filter), archive/tar end-of-stream behaviour, "
                "coordinator processBackupShardRequest/processCopyShardRequest/backupRemoteShard, meta serveCopyShard gating and Data.CopyShardOwner are modelled; "
                "WAL, index/series-file updates of the restore (addToIndexFromKey), compaction scheduling, TSM/tar/tombstone byte formats, TLS and the raft apply of the owner command are not",
    "assumptions": ["archive/tar: a stream that ends in the padding after a member or between members yields io.EOF from Reader.Next, inside a header/data/marker block io.ErrUnexpectedEOF",
                    "a hard-linked snapshot directory holds exactly the TSM files of the FileStore and their tombstone files",
                    "file names of one shard directory are ordered by Go string order consistently with (generation, sequence)"],
}


def classify(case):
    """Stable signatures for the recorded (unrepaired) defect shapes."""
    d = case.get("desc") or {}
    obs = case.get("obs") or {}
    if d.get("mode") == "incr" and not obs.get("backup_err") and not obs.get("restore_err") \
            and not obs.get("dst_equals_src") and (obs.get("dst_files_removed_on_source") or 0) > 0:
        return "c18-incremental-restore-keeps-removed-files"
    if d.get("mode") == "copyseq" and (obs.get("acknowledged_but_different") or 0) > 0 \
            and (obs.get("dst_files_removed_on_source") or 0) > 0:
        return "c18-incremental-restore-keeps-removed-files"
    if d.get("mode") == "busy" and not obs.get("backup_err") and not obs.get("restore_err") and not obs.get("dst_equals_src"):
        return "c18-backup-busy-skips-cache"
    return None
