CONFIG = {
    "manifest": {
        "text": "Theorems (Qed, closed under the global context) about a Gallina model of a TSM shard (files oldest->newest with tombstones, cache snapshot, "
                "hot cache, field-type table; steps Write with field-type validation, Snapshot (atomic or begin/commit), Compact of a contiguous group, "
                "DeleteRange, Reopen): for EVERY step history without a delete during an in-flight snapshot and every (series, field, range, direction) the "
                "read equals the last-write-wins read of the acknowledged history (one point per timestamp, latest acknowledged value, sorted); a point "
                "conflicting with a field's recorded type is dropped and counted (Partial n) while the other points are stored and reads are those of the "
                "other points only; all stored values of a field share its recorded type; re-writing identical points changes no read. The model is "
                "diffed on every run against a real tsdb.Shard (WAL on, explicit snapshots/compactions/deletes/reopen); EVERY read is taken through both read "
                "paths - the InfluxQL iterator (Shard.CreateIterator) and the array cursors (Shard.CreateCursorIterator, five types) - ascending and "
                "descending, and both observations are compared with the LWW spec of the acknowledged history.",
        "note": "Trusts Coq kernel/vm_compute, the harness and its canonicalisers (long reads are compared by length, first/last 8 points and three "
                "polynomial digests). Layer A only: block layout/KeyCursor merging, TSM/WAL bytes, the series index and key escaping are covered by the "
                "differential run, not by a theorem. Delete during an in-flight snapshot is excluded (C10 finding; refutation lemma included).",
        "technique": "Coq proof (refinement invariant by induction over step histories) on a Gallina model + differential correspondence against the real shard",
    },
    "harness": "h_c02",
    "level": "proof",
    "n": {"quick": 256, "thorough": 4000},
    "shard": 17,
    "harness_timeout": {"quick": 900, "thorough": 7200},
    "extra_proof_files": ["KV", "SpecProofs", "FastProofs"],
    "rule": "corpus (designed witnesses incl. the two repaired defects) first, then designed histories (value overwritten in a newer file / in the snapshot / in the "
            "hot cache; type-conflict partial write + identical re-write; in-batch conflicting new types; runs of exactly 999/1000/1001 points in overlapping "
            "generations with a partially tombstoned block and MinNanoTime/MaxNanoTime points; delete of a whole measurement then a new type; size-2 compaction blocks "
            "read from inside a block in both directions), then seeded random histories: 6-20 ops among write (1-28 points, 1-3 fields, five types, extreme values, "
            "duplicate and out-of-order timestamps, 7% fields of a conflicting type, 10% identical re-writes), runs (3-15 points, or 999/1000/1001/2001 in every 12th "
            "history), snapshot (atomic or begin...commit with reads and writes in between), compaction of a random contiguous group (full or fast, "
            "Compactor.Size in {default,2,3,5}), range delete (point, short, open-ended, influxql Min/MaxTime, full int64), reopen, reads (each through the InfluxQL iterator AND the array cursor, asc/desc, "
            "full range or windows on/inside block boundaries, results longer than one 1000-slot cursor batch with cache values before/inside a TSM block), "
            "batches in which several points introduce the same new field followed by a tsi1 restart, dense histories (runs of 12-40 points per generation, "
            "spread starts: chains of overlapping files, >12 blocks per key), inmem and tsi1 index; a final sweep of reads. distinct = distinct history; "
            "non-trivial = at least one acknowledged write and one non-empty read",
    "trusted_base": [
        "C02: layer A model: a file is its per-key sorted values + tombstone ranges; blocks, KeyCursor seek/next and block merging (file_store.gen.go), the TSM/WAL bytes, "
        "the iterator stack above the cursors and the series index are exercised by the harness but have no theorem",
        "C02: keys are the structural encoding (measurement, field, tag part) produced by the harness; key string syntax/escaping, 'time' tags/fields and the "
        "INFLUXDB_SERIES_TYPE_CHECK_ENABLED engine check (off by default) are not modelled",
        "C02: which measurements lose their field set at the end of a delete is an oracle input of the model step (any subset of the measurements left without a value); "
        "the harness passes the set the implementation dropped and the executable spec checks that nothing of a dropped measurement is visible",
        "C02: reads longer than 40 points are canonicalised by the harness to (length, first 8, last 8, three polynomial digests mod 2^31-1) and compared with the "
        "same digest of the spec read computed inside Coq with primitive 63-bit integers; shorter reads are compared point by point",
        "C02: Run.v evaluates spec_read_fast2 / shard_read_fast; theorems run_evaluates_the_spec / run_evaluates_the_model prove them equal to spec_read / shard_read",
        "C02: both read paths are covered: every read op is executed through Shard.CreateIterator and through Shard.CreateCursorIterator (tsdb.CursorIterator -> "
        "Float/Integer/Unsigned/String/Boolean array cursors); when the two canonical observations are identical one term is evaluated in Coq, otherwise both",
        "C02: read ranges are those the query API supports (influxql.MinTime..MaxTime and sub-ranges); written timestamps are those models.NewPoint accepts "
        "(MinNanoTime..MaxNanoTime), the theorems assume int64 timestamps",
        "C02: hook tsdb/engine/tsm1/verif_export_c02.go (build tag verif) splits Engine.WriteSnapshot into its two halves so that reads can be observed while a snapshot is in flight",
    ],
    "modelled": "tsdb/shard.go WritePointsWithContext/validateSeriesAndFields/createFieldsAndMeasurements, field_validator.go, tsm1 engine.go WritePoints/WriteSnapshot/"
                "deleteSeriesRange/LoadMetadataIndex/buildCursor, cache.go WriteMulti/Snapshot/DeleteRange/Values, compaction at the logical level are modelled "
                "(theories/C02/Model.v on Shard/Store.v); not modelled: block layout and KeyCursor (layer B), ring sharding of the cache, mmap, checksums, index, "
                "compaction planner (contiguous groups are an input), failed/retried snapshots (C01), delete during an in-flight snapshot (C10 finding)",
    "assumptions": ["no delete runs while a cache snapshot is in flight (hist_ok); compaction groups are contiguous in (generation, sequence) order",
                    "timestamps are int64; batches whose NEW fields disagree among themselves are refused as a whole and are outside type_conflict_partial/rewrite_idempotent"],
}


def classify(case):
    return None
