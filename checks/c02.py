CONFIG = {
    "manifest": {
        "text": "Theorems (Qed, closed under the global context) about a Gallina model of a TSM shard (files oldest->newest with tombstones, cache snapshot, "
                "hot cache, field-type table; steps Write with field-type validation, Snapshot (atomic or begin/commit), Compact of a contiguous group, "
                "DeleteRange, Reopen): for EVERY step history without a delete during an in-flight snapshot and every (series, field, range, direction) the "
                "read equals the last-write-wins read of the acknowledged history (one point per timestamp, latest acknowledged value, sorted); a point "
                "conflicting with a field's recorded type is dropped and counted (Partial n) while the other points are stored and reads are those of the "
                "other points only; all stored values of a field share its recorded type; re-writing identical points changes no read. The model is "
                "diffed on every run against a real tsdb.Shard (WAL on, explicit snapshots/compactions/deletes/reopen); EVERY read is taken through both read "
                "paths - the InfluxQL iterator (Shard.CreateIterator) and the array cursors (Shard.CreateCursorIterator, five types) - ascending and "
                "descending, and both observations are compared with the LWW spec of the acknowledged history. "
                "LAYER B (theories/C02/Blocks.v): files as lists of BLOCKS with per-file tombstones, FileStore.locations, the insertion sort of block "
                "locations, KeyCursor seek/Next/Read<T>Block with read marks, and the cache/TSM merge of the engine cursors are modelled statement for "
                "statement. Theorems: for EVERY list of well-formed files (arbitrary overlaps across files, any number of blocks), every tombstone set and "
                "every seek time (MinInt64 < t ascending, t < MaxInt64 descending) and BOTH directions the concatenated blocks of the KeyCursor - Read<T>Block / "
                "Next with their read marks, the doubled first location of nextDescending, the mirrored merge - equal the layer-A read from t on/down "
                "(keycursor_refines_layerA; fuel proved sufficient); sortLocations keeps overlapping blocks in file order for any number of locations; the "
                "cache/TSM merge is the newest-wins merge with the cache on top in both directions, so the engine cursor equals the layer-A read "
                "of files and cache over [seek, end] (engine_cursor_reads_layerA). Every run builds real TSM files with chosen block boundaries and per-file tombstones and reads them "
                "block by block through the real KeyCursor (Read<T>Block and Read<T>ArrayBlock, five types, both directions, many seek times) and through the "
                "array cursor (result buffers of 1-7 slots) and the iterator cursor with real cache values; each returned block is compared with the model, "
                "each concatenation with the layer-A read.",
        "note": "Trusts Coq kernel/vm_compute, the harness and its canonicalisers (long reads are compared by length, first/last 8 points and three "
                "polynomial digests). Layer B is proved for both directions about the Gallina mirror of KeyCursor; Values.Merge/Exclude/Include "
                "(modelled as sorted-list merge/filters), the array-cursor batching, block encoding, TSM/WAL bytes, the index-level tombstone bookkeeping (an input of the layer-B cases), "
                "the series index and key escaping are covered by the differential run, not by a theorem. Delete during an in-flight snapshot is excluded (C10 finding; refutation lemma included).",
        "technique": "Coq proof (refinement invariant by induction over step histories) on a Gallina model + differential correspondence against the real shard",
    },
    "harness": "h_c02",
    "level": "proof",
    "n": {"quick": 256, "thorough": 4000},
    "shard": 17,
    "harness_timeout": {"quick": 900, "thorough": 7200},
    "extra_proof_files": ["KV", "SpecProofs", "FastProofs", "BlocksProofs", "BlocksRefine", "BlocksLayerA", "BlocksRefineDesc", "BlocksLayerADesc"],
    "rule": "corpus (designed witnesses incl. the two repaired defects, at history level and as minimal block layouts: three overlapping generations of "
            "2-point blocks = 24 locations for 7659585, a 3-slot array-cursor batch ending inside a block with interleaved cache values for f168b0b) first; "
            "LAYER B cases (kind blocks): designed layouts (15 and 33 locations, partially/wholly/jointly tombstoned blocks, a newer block strictly inside an older "
            "one, seeks at both ends of int64, all five types) then N/2 seeded layouts: 2-6 files over a 40-120 tick axis (also at influxql.MinTime/MaxTime and "
            "with step 1000), blocks of 1-5 points, maximal-overlap / staircase / random windows, 0-2 tombstones per file (whole block, head, tail, random, wide), "
            "4-7 reads each from block boundaries +-1, the ends and random times, asc/desc, through Read<T>Block, Read<T>ArrayBlock, the array cursor with a "
            "1-7 slot buffer and an end time, and the iterator cursor, the latter two with 0-11 cache writes (duplicates, out of order); "
            "then designed histories (value overwritten in a newer file / in the snapshot / in the "
            "hot cache; type-conflict partial write + identical re-write; in-batch conflicting new types; runs of exactly 999/1000/1001 points in overlapping "
            "generations with a partially tombstoned block and MinNanoTime/MaxNanoTime points; delete of a whole measurement then a new type; size-2 compaction blocks "
            "read from inside a block in both directions), then seeded random histories: 6-20 ops among write (1-28 points, 1-3 fields, five types, extreme values, "
            "duplicate and out-of-order timestamps, 7% fields of a conflicting type, 10% identical re-writes), runs (3-15 points, or 999/1000/1001/2001 in every 12th "
            "history), snapshot (atomic or begin...commit with reads and writes in between), compaction of a random contiguous group (full or fast, "
            "Compactor.Size in {default,2,3,5}), range delete (point, short, open-ended, influxql Min/MaxTime, full int64), reopen, reads (each through the InfluxQL iterator AND the array cursor, asc/desc, "
            "full range or windows on/inside block boundaries, results longer than one 1000-slot cursor batch with cache values before/inside a TSM block), "
            "batches in which several points introduce the same new field followed by a tsi1 restart, dense histories (runs of 12-40 points per generation, "
            "spread starts: chains of overlapping files, >12 blocks per key), inmem and tsi1 index; a final sweep of reads. distinct = distinct history; "
            "non-trivial = at least one acknowledged write and one non-empty read",
    "trusted_base": [
        "C02: layer A model: a file is its per-key sorted values + tombstone ranges. Layer B model (Blocks.v): blocks, FileStore.locations, sortLocations, KeyCursor "
        "seek/Next/Read<T>Block (file_store.go, file_store.gen.go; Read<T>ArrayBlock is the same algorithm and is diffed against the same model) and the cache/TSM "
        "merge of array_cursor.gen.go / iterator.gen.go; proved to refine layer A in both directions (keycursor_refines_layerA, engine_cursor_reads_layerA). "
        "Values.Merge / Exclude / Include are modelled as merge of sorted lists (second wins) and filters; the batching of the array cursor (result buffer, the "
        "whole-block fast path) is not modelled, only its concatenated output is compared; the TSM/WAL bytes, the iterator stack above the cursors and the "
        "series index are exercised by the harness but have no theorem",
        "C02: a layer-B case takes as INPUT what the opened file reports to the cursor (TombstoneRange(key), whether the key still has index entries): the index "
        "drops a key whose tombstones jointly cover it; Run.v checks that a dropped key had no live value left and that index entries equal the blocks written",
        "C02: layer-B seek times: the theorems need MinInt64 < t (ascending; t-1 wraps in FileStore.locations, keycursor_seek_minint64_refuted) resp. t < MaxInt64 "
        "(descending); the query API stays inside (influxql.MinTime = MinInt64+2, MaxTime = MaxInt64-1); seeks at the very ends are replayed for model agreement only",
        "C02: hook tsdb/engine/tsm1/verif_export_c02_cursor.go (build tag verif): constructors of the integer/float array cursors with a chosen result-buffer "
        "length and a drain loop over the iterator-level integer/float cursors, over given cache values and a KeyCursor",
        "C02: keys are the structural encoding (measurement, field, tag part) produced by the harness; key string syntax/escaping, 'time' tags/fields and the "
        "INFLUXDB_SERIES_TYPE_CHECK_ENABLED engine check (off by default) are not modelled",
        "C02: which measurements lose their field set at the end of a delete is an oracle input of the model step (any subset of the measurements left without a value); "
        "the harness passes the set the implementation dropped and the executable spec checks that nothing of a dropped measurement is visible",
        "C02: reads longer than 40 points are canonicalised by the harness to (length, first 8, last 8, three polynomial digests mod 2^31-1) and compared with the "
        "same digest of the spec read computed inside Coq with primitive 63-bit integers; shorter reads are compared point by point",
        "C02: Run.v evaluates spec_read_fast2 / shard_read_fast; theorems run_evaluates_the_spec / run_evaluates_the_model prove them equal to spec_read / shard_read",
        "C02: both read paths are covered: every read op is executed through Shard.CreateIterator and through Shard.CreateCursorIterator (tsdb.CursorIterator -> "
        "Float/Integer/Unsigned/String/Boolean array cursors); when the two canonical observations are identical one term is evaluated in Coq, otherwise both",
        "C02: read ranges are those the query API supports (influxql.MinTime..MaxTime and sub-ranges); written timestamps are those models.NewPoint accepts "
        "(MinNanoTime..MaxNanoTime), the theorems assume int64 timestamps",
        "C02: hook tsdb/engine/tsm1/verif_export_c02.go (build tag verif) splits Engine.WriteSnapshot into its two halves so that reads can be observed while a snapshot is in flight",
    ],
    "modelled": "tsdb/shard.go WritePointsWithContext/validateSeriesAndFields/createFieldsAndMeasurements, field_validator.go, tsm1 engine.go WritePoints/WriteSnapshot/"
                "deleteSeriesRange/LoadMetadataIndex/buildCursor, cache.go WriteMulti/Snapshot/DeleteRange/Values, compaction at the logical level are modelled "
                "(theories/C02/Model.v on Shard/Store.v); file_store.go FileStore.locations / sortLocations / KeyCursor seek, Next, nextAscending, nextDescending, "
                "location.read/markRead, file_store.gen.go Read<T>Block, the cache/TSM merge of array_cursor.gen.go and iterator.gen.go (theories/C02/Blocks.v); "
                "not modelled: block encoding, Values.Merge internals, array-cursor batching, ring sharding of the cache, mmap, checksums, index, "
                "compaction planner (contiguous groups are an input), failed/retried snapshots (C01), delete during an in-flight snapshot (C10 finding)",
    "assumptions": ["no delete runs while a cache snapshot is in flight (hist_ok); compaction groups are contiguous in (generation, sequence) order",
                    "layer B: blocks of a file are non-empty, strictly sorted and do not overlap within the file (what TSMWriter/compaction produce); files are "
                    "listed in FileStore.files order = path order; seek times MinInt64 < t <= MaxInt64 (ascending), MinInt64 <= t < MaxInt64 (descending)",
                    "timestamps are int64; batches whose NEW fields disagree among themselves are refused as a whole and are outside type_conflict_partial/rewrite_idempotent"],
}


def classify(case):
    return None
