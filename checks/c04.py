CONFIG = {
    "manifest": {
        "text": "Coq theorems (Qed, closed under the global context) about an executable model of services/hh/queue.go that mirrors every method incl. "
                "its seeks, the OS file cursor, the write buffer and the 8-byte footer: for EVERY sequence of Append (any size, any number of concurrent "
                "writers incl. the buffered path) / Current / Advance / advanceSegment / Truncate / SetMaxSegmentSize / PurgeOlderThan (ages as oracle) / "
                "Close / Open / process restart, the FIFO spec never finds a violation (reads return the head, order kept across rollover and reopen, "
                "Empty() iff nothing pending, disk holds all but the still-buffered blocks) and pending(model) = FIFO; WriteShard's bisection preserves "
                "the points in order with every block <= limit or the single-point error; unmarshalWrite total and sound, marshal/unmarshal round-trip; "
                "crash theorems for cuts that leave a footer intact or complete (append, advance) and for head removal. The model is diffed against the "
                "real queue on op sequences (Empty() and every segment field after every call), crash images of every stage and cut, appenders racing "
                "Close, WriteShard batches around 10MB. Partial: cuts strictly inside an append/advance write are refuted (known findings).",
        "note": "Trusts Coq kernel, genconsts translator, harness and verif_export wrappers; OS file semantics (pread/pwrite/ftruncate/seek as modelled, "
                "whole-file reads never short); NodeProcessor.SendWrite/run loop and the rate limiter are not modelled (only WriteShard's split and the "
                "marshal layout); concurrency is modelled as atomic sections of queue.mu with the limiter count as an oracle.",
        "technique": "Coq proof (representation invariant + refinement of a FIFO spec, induction over op sequences) on a Gallina model of the segment "
                     "file format + differential correspondence against the real queue code, incl. simulated crash images",
    },
    "harness": "h_c04",
    "level": "proof",
    "n": {"quick": 450, "thorough": 12000},
    "shard": 150,
    "extra_proof_files": ["ProofsSplit", "ProofsSeg", "ProofsQueue", "ProofsLink", "ProofsCrash", "ProofsDrain"],
    "bytes_keys": ["b"],
    "harness_timeout": {"quick": 600, "thorough": 3000},
    "rule": "designed cases (Empty() between Advance and the next read, buffered appends then Close and restart, age purge of the only segment, "
            "rollover at every distance -26..+26 from the segment limit, refused oversized appends leaving empty segments, torn append/advance at every "
            "stage and cut, WriteShard batches around the 10MB limit, malformed unmarshal inputs) then seeded generation: op sequences of 8-40 calls "
            "(block sizes clustered around maxSegmentSize-8 +-24, buffered/unbuffered/blocked appends, size changes, purge with random ages, "
            "close/open/restart, small queue limits), crash images = every prefix of every durable write of a generated (state, Append|Advance) pair, "
            "k in {1,9,10,11,32} appenders racing Close, WriteShard batches, marshal/unmarshal inputs; after EVERY call the harness records the error "
            "class, Empty(), all in-memory segment fields incl. the OS cursor, and what a fresh reader of a copy of the directory gets; "
            "distinct = distinct input; non-trivial = >=3 accepted appends/advances (seq), non-empty queue before the crash (crash), >=1 acked append (conc)",
    "trusted_base": [
        "C04: OS file semantics as modelled in Model.v (seek to a negative offset fails, read at/after EOF = io.EOF, short read = error, write at the "
        "cursor extends the file, ftruncate); fsync makes a completed write durable; a crash leaves a prefix of the one write in flight ([torn])",
        "C04: crash images are built by the harness from the directory before/after the call using the write structure of queue.go (every write "
        "starts at len(file)-8; a new segment = empty file, 8 zero bytes, then the block); the harness checks that replaying them reproduces the directory",
        "C04: models.Point.MarshalBinary never fails (marshalWrite silently skips a point whose MarshalBinary errs) and points are < 4GiB",
        "C04: constants (defaultSegmentSize, footerSize, buffered threshold 10, last-writer bound 1) and two structural facts (Empty does not read the "
        "file cursor, segment.close flushes) are regenerated from services/hh/queue.go by genconsts on every run",
        "C04: concurrency = interleaving of the critical sections of queue.mu; len(limiter) at entry/exit of Append is an oracle (nb, na)",
    ],
    "modelled": "services/hh/queue.go: queue.{Open,Close,Append,Current,Advance,advanceSegment,Truncate,SetMaxSegmentSize,PurgeOlderThan,Empty,trimHead,"
                "addSegment,loadSegments,diskUsage} and segment.{open,append,flush,current,advance,truncate,close,empty} with file bytes, cursor, pos, "
                "currentSize, size, maxSize, buf; node_processor.go: WriteShard split loop, marshalWrite/unmarshalWrite. NOT modelled: SendWrite/run loop, "
                "Service (processor map, purgeInactiveProcessors), limiter.go rate limiter, LastModified/Position/Remove, I/O errors (ENOSPC, EIO)",
    "assumptions": ["blocks are non-empty (marshalWrite always emits >= 8 bytes: proved); an empty block would desynchronise segment.currentSize",
                    "segment size limits <= 2^62-8 so that no int64 offset arithmetic wraps",
                    "SetMaxSegmentSize / PurgeOlderThan / Truncate / restart-without-Close are not issued while acknowledged appends are still in the "
                    "write buffer (buffered appends are by design not durable until the next flush)"],
}


def classify(case):
    """Stable signature of a property failure; None = not a known shape."""
    if case.get("kind") != "crash":
        return None
    obs = case.get("obs") or {}
    desc = case.get("desc") or {}
    fin = (desc.get("final") or {}).get("k")
    # the process died after some but not all bytes of ONE write that rewrites the tail of an
    # existing segment file (block + footer over the old footer, or the footer in place)
    if obs.get("shape") != "inside" or obs.get("write") != "rewrite-tail":
        return None
    if fin == "append":
        return "hh-torn-append-overwrites-footer"
    if fin == "advance":
        return "hh-torn-advance-mixes-footer"
    return None
