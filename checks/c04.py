CONFIG = {
    "manifest": {
        "text": "Coq theorems (Qed, closed under the global context) about an executable model of services/hh/queue.go that mirrors every method incl. "
                "its seeks, the OS file cursor, the write buffer and the 8-byte footer: for EVERY sequence of Append (any size, any number of concurrent "
                "writers incl. the buffered path) / Current / Advance / advanceSegment / Truncate / SetMaxSegmentSize / PurgeOlderThan (ages as oracle) / "
                "Close / Open / process restart, the FIFO spec never finds a violation (reads return the head, order kept across rollover and reopen, "
                "Empty() iff nothing pending, disk holds all but the still-buffered blocks) and pending(model) = FIFO; WriteShard's bisection preserves "
                "the points in order with every block <= limit or the single-point error; unmarshalWrite total and sound, marshal/unmarshal round-trip; "
                "crash theorems for cuts that leave a footer intact or complete (append, advance) and for head removal. The model is diffed against the "
                "real queue on op sequences (Empty() and every segment field after every call), crash images of every stage and cut, appenders racing "
                "Close, WriteShard batches around 10MB. Partial: cuts strictly inside an append/advance write are refuted (known findings). "
                "CONSUMER (node_processor.go SendWrite/run/close(onlyIfEmpty), service.go WriteShard/RemoveNode/purgeInactiveProcessors/Open): an "
                "executable model of the processor map on top of the queue model, SendWrite branch by branch (branch actions re-read from the Go AST "
                "and parameterising the model), with oracles for DataNode (node/unknown/error), WriteShardBinary (ack/shard gone/retryable/permanent), "
                "segment and queue ages, known nodes, and a concurrent WriteShard between Current and the next queue call. Theorem: for EVERY operation "
                "sequence and oracle, per (node,shard) queue, the event ledger accepts: writer calls are always for the oldest pending block, a block "
                "leaves the queue only by a non-retryable writer answer or by a drop of a prefix that names its documented reason (undecodable = "
                "exactly the block unmarshalWrite rejects; oversized/corrupt record; segment older than max-age; node removed; unknown node with "
                "aged data = whole queue), accepted = released ++ pending in order, sends are the accepted blocks in order with only immediate "
                "repetitions; a retryable failure/unknown node/meta error removes nothing; CloseIfEmpty never closes a non-empty processor; the "
                "purge pass removes a non-empty processor only for an unknown node with aged data; RemoveNode leaves other nodes alone; a young "
                "head segment protects the queue from the age purge; the old shapes (EOF handled with Advance = race 499fabe, advance on retry, "
                "advance before write, Truncate on unmarshal error) are refuted by checked witnesses. The service model is diffed against the "
                "real hh.Service/NodeProcessor (fake shardWriter scripted by the oracle incl. a WriteShard while the write is in flight, fake "
                "metaClient, mtimes by os.Chtimes, a real purgeInactiveProcessors pass) after EVERY op: writer calls with decoded points, rc, "
                "Empty(), all segment fields, readable blocks, directories; the implementation's observations are judged by an executable FIFO "
                "spec (DrainSpec.v) that does not look at the model.",
        "note": "Trusts Coq kernel, genconsts translator, harness and verif_export wrappers; OS file semantics (pread/pwrite/ftruncate/seek as modelled, "
                "whole-file reads never short); the rate limiter, retry back-off and timers of NodeProcessor.run are time only and not modelled (the retry "
                "tick = SendWrite until an error, the purge tick = PurgeOlderThan); coordinator.ShardWriter (answers nil for a dropped shard: only the "
                "`sgi == nil -> return nil` statement is re-read) and the network are an oracle; concurrency is modelled as atomic sections of queue.mu "
                "with the limiter count as an oracle, plus one WriteShard between SendWrite's two queue calls; the executable judge of DrainSpec.v "
                "is tied to the model by the differential run only (no Coq link theorem for it; the Coq theorems are about the model's event ledger).",
        "technique": "Coq proof (representation invariant + refinement of a FIFO spec, induction over op sequences) on a Gallina model of the segment "
                     "file format + differential correspondence against the real queue code, incl. simulated crash images",
    },
    "harness": "h_c04",
    "level": "proof",
    "n": {"quick": 360, "thorough": 12000},
    "shard": 150,
    "extra_proof_files": ["ProofsSplit", "ProofsSeg", "ProofsQueue", "ProofsLink", "ProofsCrash", "ProofsDrain", "ProofsConsumer"],
    "bytes_keys": ["b"],
    "harness_timeout": {"quick": 600, "thorough": 3000},
    "rule": "designed cases (Empty() between Advance and the next read, buffered appends then Close and restart, age purge of the only segment, "
            "rollover at every distance -26..+26 from the segment limit, refused oversized appends leaving empty segments, torn append/advance at every "
            "stage and cut, WriteShard batches around the 10MB limit, malformed unmarshal inputs; service: retryable x2 then success, both permanent "
            "rejection texts and shard gone, undecodable block between two good ones (SendWrite and tick), io.EOF on the head segment with a following "
            "segment, record larger than a shrunk segment limit (Truncate), removed node vs other node, unknown node + purge pass with young/aged data, "
            "meta error, age purge of a non-head segment, WriteShard during a send + CloseIfEmpty + restart, queue size limit) then seeded generation: "
            "service op sequences of 6-28 ops on 3 nodes x 2 shards (write, send under every oracle with 25% concurrent writes, tick with scripted "
            "answers, raw/undecodable blocks, segment-limit changes, age purge, CloseIfEmpty, purge pass with random known nodes/aged queues, "
            "RemoveNode, restart), 20% of the generated cases; op sequences of 8-40 calls "
            "(block sizes clustered around maxSegmentSize-8 +-24, buffered/unbuffered/blocked appends, size changes, purge with random ages, "
            "close/open/restart, small queue limits), crash images = every prefix of every durable write of a generated (state, Append|Advance) pair, "
            "k in {1,9,10,11,32} appenders racing Close, WriteShard batches, marshal/unmarshal inputs; after EVERY call the harness records the error "
            "class, Empty(), all in-memory segment fields incl. the OS cursor, and what a fresh reader of a copy of the directory gets; "
            "distinct = distinct input; non-trivial = >=3 accepted appends/advances (seq), non-empty queue before the crash (crash), >=1 acked append (conc), "
            ">=2 writer calls (svc)",
    "trusted_base": [
        "C04: OS file semantics as modelled in Model.v (seek to a negative offset fails, read at/after EOF = io.EOF, short read = error, write at the "
        "cursor extends the file, ftruncate); fsync makes a completed write durable; a crash leaves a prefix of the one write in flight ([torn])",
        "C04: crash images are built by the harness from the directory before/after the call using the write structure of queue.go (every write "
        "starts at len(file)-8; a new segment = empty file, 8 zero bytes, then the block); the harness checks that replaying them reproduces the directory",
        "C04: models.Point.MarshalBinary never fails (marshalWrite silently skips a point whose MarshalBinary errs) and points are < 4GiB",
        "C04: constants (defaultSegmentSize, footerSize, buffered threshold 10, last-writer bound 1) and two structural facts (Empty does not read the "
        "file cursor, segment.close flushes) are regenerated from services/hh/queue.go by genconsts on every run",
        "C04: concurrency = interleaving of the critical sections of queue.mu; len(limiter) at entry/exit of Append is an oracle (nb, na)",
        "C04 consumer: oracles = answers of metaClient.DataNode and shardWriter.WriteShardBinary (the harness's fakes return them; 'shard gone' is "
        "coordinator.ShardWriter answering nil without sending), segment/queue ages (the harness sets file mtimes with os.Chtimes to 2h-old/now around "
        "a 1h limit); one WriteShard may run between SendWrite's queue.Current and its next queue call (both hold n.mu for reading) - on the send path "
        "the fake writer performs it while the write is in flight; NodeProcessor.run's loop is replayed by the harness as `SendWrite until error` "
        "(shape re-read: c04_run_loops_until_error); the purge pass is a real purgeInactiveProcessors goroutine started through verif_export with a "
        "1ms tick, one full pass being recognised by the removal of an empty sentinel processor; structural facts of SendWrite/run/close/"
        "purgeInactiveProcessors/RemoveNode/IsRetryable/ShardWriter.WriteShardBinary are regenerated by genconsts (section C04b)",
    ],
    "modelled": "services/hh/queue.go: queue.{Open,Close,Append,Current,Advance,advanceSegment,Truncate,SetMaxSegmentSize,PurgeOlderThan,Empty,trimHead,"
                "addSegment,loadSegments,diskUsage} and segment.{open,append,flush,current,advance,truncate,close,empty} with file bytes, cursor, pos, "
                "currentSize, size, maxSize, buf; node_processor.go: WriteShard (split + Append), marshalWrite/unmarshalWrite, SendWrite (every branch), Active, the "
                "retry and purge ticks of run, close(onlyIfEmpty)/CloseIfEmpty, Open, Purge; service.go: processor map, WriteShard (processor creation), "
                "RemoveNode, one pass of purgeInactiveProcessors, Open (reload from directories) = restart. NOT modelled: limiter.go rate limiter, retry "
                "back-off and timers, statistics, Diagnostics/Position, LastModified other than as the 'aged' oracle, Service.Close followed by reuse of "
                "the same Service object, concurrency other than one WriteShard inside SendWrite, I/O errors (ENOSPC, EIO), coordinator.ShardWriter",
    "assumptions": ["blocks are non-empty (marshalWrite always emits >= 8 bytes: proved); an empty block would desynchronise segment.currentSize",
                    "segment size limits <= 2^62-8 so that no int64 offset arithmetic wraps",
                    "SetMaxSegmentSize / PurgeOlderThan / Truncate / restart-without-Close are not issued while acknowledged appends are still in the "
                    "write buffer (buffered appends are by design not durable until the next flush)",
                    "consumer theorems: operation sequences with non-empty raw blocks and segment limits <= 2^62-8 (sop_ok); WriteShard calls of the "
                    "service model are sequential (never >= 10 concurrent appenders), so nothing is buffered at a restart"],
}


def classify(case):
    """Stable signature of a property failure; None = not a known shape."""
    if case.get("kind") != "crash":
        return None
    obs = case.get("obs") or {}
    desc = case.get("desc") or {}
    fin = (desc.get("final") or {}).get("k")
    # the process died after some but not all bytes of ONE write that rewrites the tail of an
    # existing segment file (block + footer over the old footer, or the footer in place)
    if obs.get("shape") != "inside" or obs.get("write") != "rewrite-tail":
        return None
    if fin == "append":
        return "hh-torn-append-overwrites-footer"
    if fin == "advance":
        return "hh-torn-advance-mixes-footer"
    return None
